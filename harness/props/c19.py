"""C19 — raising an index lambda to a high-level operation never misreads it.

Theorems (PtProofs/C19.lean, when present): soundness of the modelled raising
cascade w.r.t. the index-lambda semantics (`raise_sound`).

Tie / search: every index lambda the public API produces for the operations the
statement lists (every operator in both operand orders with array / scalar
operands and broadcasting, comparisons, logical operations, where, math
functions, reductions over every axis subset, full, broadcast_to, astype,
zeros_like) and hand-built near-misses (permuted subscripts, offset subscripts,
three-operand sums, reductions with non-zero lower bound, partial ranges): the
HighLevelOp returned by the real `index_lambda_to_high_level_op` is
*interpreted with NumPy* on the identified operands and compared with the
pointwise value of the index lambda; API forms must be recognised; anything else
must be reported as unknown (UnknownIndexLambdaExpr), never approximated."""
from __future__ import annotations

import itertools
import operator
import random

import numpy as np

from .. import common
from ..ilinterp import eval_index_lambda
from ..refeval import close, evaluate

try:
    from .c19_theorems import THEOREMS
except ImportError:
    THEOREMS = []


def _np_binop(op_name):
    return {
        "ADD": np.add, "SUB": np.subtract, "MULT": np.multiply, "TRUEDIV": np.true_divide,
        "FLOORDIV": np.floor_divide, "POWER": np.power, "MOD": np.remainder,
        "LOGICAL_OR": np.logical_or, "LOGICAL_AND": np.logical_and, "BITWISE_OR": np.bitwise_or,
        "BITWISE_AND": np.bitwise_and, "BITWISE_XOR": np.bitwise_xor, "LESS": np.less, "LESS_EQUAL": np.less_equal,
        "GREATER": np.greater, "GREATER_EQUAL": np.greater_equal, "EQUAL": np.equal, "NOT_EQUAL": np.not_equal,
    }[op_name]


_C99 = {"abs": np.abs, "sin": np.sin, "cos": np.cos, "tan": np.tan, "asin": np.arcsin, "acos": np.arccos,
        "atan": np.arctan, "sinh": np.sinh, "cosh": np.cosh, "tanh": np.tanh, "exp": np.exp, "log": np.log,
        "log10": np.log10, "isnan": np.isnan, "sqrt": np.sqrt, "real": np.real, "imag": np.imag, "conj": np.conj,
        "atan2": np.arctan2, "floor": np.floor, "ceil": np.ceil}


def interp_hlo(h, il, inp):
    """NumPy meaning of a HighLevelOp applied to the identified operands, broadcast to il.shape"""
    from pytato.array import Array
    from pytato.raising import (BinaryOp, BroadcastOp, C99CallOp, FullOp, LogicalNotOp, ReduceOp, WhereOp,
                                ZerosLikeOp)
    shape = tuple(int(d) for d in il.shape)

    def val(x):
        return evaluate(x, inp) if isinstance(x, Array) else x
    with np.errstate(all="ignore"):
        if isinstance(h, FullOp):
            r = np.full(shape, h.fill_value)
        elif isinstance(h, BinaryOp):
            a, b = val(h.x1), val(h.x2)
            if h.binary_op.name == "POWER" and np.asarray(a).dtype.kind in "iu" and np.asarray(b).dtype.kind in "iu" \
                    and np.any(np.asarray(b) < 0):
                r = np.power(np.asarray(a, dtype=np.float64), b)
            else:
                r = _np_binop(h.binary_op.name)(a, b)
        elif isinstance(h, C99CallOp):
            r = _C99[h.function](*[val(a) for a in h.args])
        elif isinstance(h, WhereOp):
            r = np.where(val(h.condition), val(h.then), val(h.else_))
        elif isinstance(h, BroadcastOp):
            r = np.broadcast_to(val(h.x), shape)
        elif isinstance(h, LogicalNotOp):
            r = np.logical_not(val(h.x))
        elif isinstance(h, ZerosLikeOp):
            r = np.zeros_like(val(h.x))
        elif isinstance(h, ReduceOp):
            f = {"SumReductionOperation": np.sum, "ProductReductionOperation": np.prod,
                 "MaxReductionOperation": np.max, "MinReductionOperation": np.min,
                 "AllReductionOperation": np.all, "AnyReductionOperation": np.any}[type(h.op).__name__]
            r = f(val(h.x), axis=tuple(sorted(h.axes)))
        else:
            raise TypeError(f"unknown HLO {type(h).__name__}")
    r = np.asarray(r)
    if r.shape != shape:
        r = np.broadcast_to(r, shape)
    return r


def _data(rng, shape, dt):
    dt = np.dtype(dt)
    if dt.kind == "b":
        return rng.integers(0, 2, size=shape).astype(bool)
    if dt.kind in "iu":
        return rng.integers(1, 6, size=shape).astype(dt) * rng.choice([1, -1], size=shape).astype(dt)
    return (rng.integers(1, 9, size=shape) / 4.0 * rng.choice([1, -1], size=shape)).astype(dt)


def api_cases(ctx):
    """(label, index lambda, must_be_recognised) for API-built forms"""
    import pytato as pt
    shapes = [((3, 4), (3, 4)), ((3, 4), (4,)), ((4,), (3, 4)), ((3, 1), (1, 4)), ((3, 4), ()), ((), (3, 4)),
              ((2, 3, 4), (3, 1)), ((1,), (5,)), ((0, 3), (3,))]
    arith = [("add", operator.add), ("sub", operator.sub), ("mul", operator.mul), ("truediv", operator.truediv),
             ("floordiv", operator.floordiv), ("mod", operator.mod), ("pow", operator.pow)]
    cmps = [("less", pt.less), ("less_equal", pt.less_equal), ("greater", pt.greater),
            ("greater_equal", pt.greater_equal), ("equal", pt.equal), ("not_equal", pt.not_equal)]
    logic = [("logical_and", pt.logical_and), ("logical_or", pt.logical_or)]
    bits = [("and", operator.and_), ("or", operator.or_), ("xor", operator.xor)]
    scalars = [2, -3, 1.5, np.float64(0.5), np.int32(2), True]
    out = []
    k = 0

    def ph(shape, dt):
        nonlocal k
        k += 1
        return pt.make_placeholder(f"p{k}", shape, dt)
    for (s1, s2), dts in itertools.product(shapes, [("float64", "float64"), ("int64", "float64"),
                                                   ("int32", "int64"), ("float32", "float64")]):
        a, b = ph(s1, dts[0]), ph(s2, dts[1])
        for nm, f in arith + cmps + logic:
            if nm in ("floordiv", "mod") and "float" in dts[0] + dts[1]:
                pass
            try:
                out.append((f"{nm}:{s1}x{s2}:{dts}", f(a, b), True))
            except Exception:   # noqa: BLE001
                pass
    for s1 in [(3, 4), (4,), (), (2, 0), (1, 3), (3, 1), (1,)]:
        for dt in ("float64", "int64", "bool"):
            a = ph(s1, dt)
            for sc in scalars:
                for nm, f in arith + cmps + logic:
                    if dt == "bool" and nm in ("sub", "truediv", "floordiv", "mod", "pow"):
                        continue
                    for order in (0, 1):
                        try:
                            e = f(a, sc) if order == 0 else f(sc, a)
                        except Exception:   # noqa: BLE001
                            continue
                        if isinstance(e, pt.Array):
                            out.append((f"{nm}:scalar{order}:{type(sc).__name__}:{s1}:{dt}", e, True))
    for s1, s2 in shapes[:5]:
        a, b = ph(s1, "int64"), ph(s2, "int64")
        for nm, f in bits:
            out.append((f"bit{nm}:{s1}x{s2}", f(a, b), True))
        out.append((f"bitand-scalar:{s1}", a & 3, True))
    # where / maximum / minimum
    for s1, s2 in shapes[:6]:
        c, a, b = ph(np.broadcast_shapes(s1, s2), "bool"), ph(s1, "float64"), ph(s2, "float64")
        out.append((f"where:{s1}x{s2}", pt.where(c, a, b), True))
        out.append((f"where-scalar-then:{s2}", pt.where(c, 2.0, b), True))
        out.append((f"where-scalar-else:{s1}", pt.where(c, a, -1.0), True))
    # math functions
    for nm in ["sin", "cos", "tan", "arcsin", "arccos", "arctan", "sinh", "cosh", "tanh", "exp", "log", "log10",
               "sqrt", "abs", "isnan", "real", "imag", "conj"]:
        for s in [(3, 4), (), (0,), (1, 4), (3, 1), (1,), (1, 1)]:
            a = ph(s, "float64" if nm not in ("real", "imag", "conj") else "complex128")
            try:
                out.append((f"math:{nm}:{s}", getattr(pt, nm)(a), True))
            except Exception:   # noqa: BLE001
                pass
    a, b = ph((3, 4), "float64"), ph((3, 4), "float64")
    out.append(("math:arctan2", pt.arctan2(a, b), True))
    for s1, s2 in [((1, 4), (1, 4)), ((3, 1), (3, 1)), ((1,), (1,)), ((1, 1), (1, 1))]:
        out.append((f"math:arctan2:{s1}x{s2}", pt.arctan2(ph(s1, "float64"), ph(s2, "float64")), True))
    # unary minus / plus / abs operator / invert
    for s in [(3, 4), (), (0,), (1, 4), (3, 1), (1,), (1, 1), (2, 1, 3)]:
        for dt in ("float64", "int32", "complex128"):
            a = ph(s, dt)
            out.append((f"neg:{s}:{dt}", -a, True))
            try:
                out.append((f"abs-operator:{s}:{dt}", abs(a), True))
            except Exception:   # noqa: BLE001
                pass
    # reductions over every axis subset
    for s in [(2, 3, 4), (3, 4), (5,), (1, 3), (3, 1), (3, 3), (2, 3, 3), (1, 1)]:
        for dt in ("float64", "int64"):
            a = ph(s, dt)
            for r in range(1, len(s) + 1):
                for axes in itertools.combinations(range(len(s)), r):
                    for nm in ("sum", "prod", "amax", "amin"):
                        out.append((f"reduce:{nm}:{s}:{axes}", getattr(pt, nm)(a, axis=axes), True))
            out.append((f"reduce:sum:{s}:None", pt.sum(a), True))
        a_np = pt.make_placeholder(f"npshape{len(out)}", tuple(np.int64(d) for d in s), "float64")
        out.append((f"reduce:sum:numpy-int-shape:{s}", pt.sum(a_np, axis=0), True))
        a = ph(s, "bool")
        for nm in ("all", "any"):
            out.append((f"reduce:{nm}:{s}:0", getattr(pt, nm)(a, axis=0), True))
    # full / broadcast_to / astype / zeros_like / ones_like
    for s in [(3, 4), (), (0, 2)]:
        out.append((f"full-nan:{s}", pt.full(s, np.nan), True))
        out.append((f"full-f32-nan:{s}", pt.full(s, np.float32("nan")), True))
        out.append((f"full-inf:{s}", pt.full(s, -np.inf), True))
        out.append((f"full:{s}", pt.full(s, 2.5), True))
        out.append((f"zeros:{s}", pt.zeros(s), True))
        out.append((f"full-bool:{s}", pt.full(s, True), True))
        a = ph(s, "float64")
        out.append((f"zeros_like:{s}", pt.zeros_like(a), True))
        out.append((f"ones_like:{s}", pt.ones_like(a), True))
        # a cast is none of the high-level operations: it must be reported as unknown, never approximated
        out.append((f"astype:{s}", ph(s, "int64").astype("float32"), False))
    # a typed NumPy scalar WIDER than the array decides the promoted type: the raised operation must carry it as a
    # typed scalar (a weak Python scalar would let NumPy compute in the narrow type — wrap-around, OverflowError)
    for adt, sc in [("int8", np.int16(100)), ("int8", np.int16(300)), ("uint8", np.int8(-1)), ("uint8", np.int16(-3)),
                    ("int16", np.int32(70000)), ("float32", np.float64(1e-9)), ("int8", np.float32(0.5)),
                    ("int32", np.int64(2 ** 40))]:
        for nm, f in arith[:3]:
            out.append((f"typed-scalar-right:{nm}:{adt}:{type(sc).__name__}", f(ph((3, 4), adt), sc), True))
            # (reflected: NumPy's own scalar operator hands pymbolic a Python scalar — recorded as a known finding)
            out.append((f"typed-scalar-left:{nm}:{adt}:{type(sc).__name__}", f(sc, ph((3, 4), adt)), True))
        c = ph((3, 4), "bool")
        out.append((f"typed-scalar-right:where-then:{adt}:{type(sc).__name__}", pt.where(c, sc, ph((3, 4), adt)), True))
        out.append((f"typed-scalar-right:where-else:{adt}:{type(sc).__name__}", pt.where(c, ph((3, 4), adt), sc), True))
    # NaN scalars of every inexact type next to arrays of every inexact type (a complex NaN is a NaN too)
    for adt in ("float64", "float32", "complex128", "complex64"):
        for lbl, sc in [("nan", float("nan")), ("f32-nan", np.float32("nan")), ("c-nan", complex("nan")),
                        ("c64-nan", np.complex64("nan")), ("c128-nan-imag", np.complex128(complex(1.0, float("nan"))))]:
            if np.dtype(adt).kind == "f" and isinstance(sc, (complex, np.complexfloating)) and False:
                continue
            for nm, f in arith[:3]:
                try:
                    out.append((f"nan-scalar:{nm}:{adt}:{lbl}", f(ph((3, 4), adt), sc), True))
                    out.append((f"nan-scalar:r{nm}:{adt}:{lbl}", f(sc, ph((3, 4), adt)), True))
                except Exception:   # noqa: BLE001
                    pass
            try:
                out.append((f"nan-scalar:where:{adt}:{lbl}", pt.where(ph((3, 4), "bool"), ph((3, 4), adt), sc), True))
            except Exception:   # noqa: BLE001
                pass
    for s, t in [((4,), (3, 4)), ((3, 1), (3, 4)), ((), (2, 2)), ((1, 4), (5, 3, 4))]:
        out.append((f"broadcast_to:{s}->{t}", pt.broadcast_to(ph(s, "float64"), t), True))
    try:
        out.append(("logical_not", pt.logical_not(ph((3, 4), "bool")), True))
    except Exception as e:   # noqa: BLE001
        out.append(("logical_not:construction-failed:" + type(e).__name__, None, True))
    return out


def near_misses(ctx):
    """hand-built index lambdas that must NOT be classified as the operation they resemble"""
    import pymbolic.primitives as prim
    import pytato as pt
    from constantdict import constantdict
    from pytato.array import IndexLambda, _get_default_axes
    from pytato.reductions import SumReductionOperation
    from pytato.scalar_expr import Reduce
    v = prim.Variable
    out = []
    k = 0

    def mk(expr, shape, binds, dt="float64"):
        return IndexLambda(expr=expr, shape=shape, dtype=np.dtype(dt), bindings=constantdict(binds),
                           axes=_get_default_axes(len(shape)), var_to_reduction_descr=constantdict(),
                           tags=frozenset(), non_equality_tags=frozenset())

    def ph(shape, dt="float64"):
        nonlocal k
        k += 1
        return pt.make_placeholder(f"q{k}", shape, dt)
    a, b, c = ph((3, 3)), ph((3, 3)), ph((3, 3))
    out.append(("permuted-subscript-alone", mk(v("_in0")[v("_1"), v("_0")], (3, 3), {"_in0": a})))
    out.append(("offset-subscript-alone", mk(v("_in0")[(v("_0") + 1) % 3, v("_1")], (3, 3), {"_in0": a})))
    out.append(("permuted-operand-in-sum", mk(v("_in0")[v("_0"), v("_1")] + v("_in1")[v("_1"), v("_0")],
                                              (3, 3), {"_in0": a, "_in1": b})))
    out.append(("offset-operand-in-product", mk(v("_in0")[v("_0"), v("_1")] * v("_in1")[v("_0"), (v("_1") + 1) % 3],
                                                (3, 3), {"_in0": a, "_in1": b})))
    out.append(("three-operand-sum", mk(prim.Sum((v("_in0")[v("_0"), v("_1")], v("_in1")[v("_0"), v("_1")],
                                                  v("_in2")[v("_0"), v("_1")])),
                                        (3, 3), {"_in0": a, "_in1": b, "_in2": c})))
    out.append(("three-operand-product", mk(prim.Product((v("_in0")[v("_0"), v("_1")], v("_in1")[v("_0"), v("_1")],
                                                          2)), (3, 3), {"_in0": a, "_in1": b})))
    # ONE binding in two operand positions next to a binding that is no operand but supplies the output shape: the
    # operands broadcast to a SMALLER shape than the index lambda has (counting operands against bindings is fooled)
    xs, ysh = ph((4,)), ph((3, 4))
    cb = ph((4,), "bool")
    x1 = prim.Subscript(v("_in0"), (v("_1"),))
    for lbl, ex in [("mul", x1 * x1), ("quot", prim.Quotient(x1, x1)), ("sum", x1 + x1), ("cmp", prim.Comparison(x1, "<", x1)),
                    ("where", prim.If(prim.Subscript(v("_in2"), (v("_1"),)), x1, x1)), ("atan2", v("pytato.c99.atan2")(x1, x1)),
                    ("sub", prim.Sum((x1, prim.Product((-1, x1)))))]:
        binds = {"_in0": xs, "_in1": ysh}
        if lbl == "where":
            binds["_in2"] = cb
        out.append((f"one-operand-twice-plus-shape-only-binding:{lbl}", mk(ex, (3, 4), binds,
                                                                           "bool" if lbl == "cmp" else "float64")))
    # NaN of a type that has no NaN: not a fill / operand value of any NumPy operation (and never a crash)
    out.append(("nan-int32-operand", mk(v("_in0")[v("_0"), v("_1")] + prim.NaN(np.int32), (3, 3), {"_in0": a}, "float64")))
    out.append(("nan-bool-operand", mk(v("_in0")[v("_0"), v("_1")] * prim.NaN(np.bool_), (3, 3), {"_in0": a}, "float64")))
    out.append(("nan-int32-fill", mk(prim.NaN(np.int32), (3, 3), {}, "int32")))
    out.append(("nan-bool-fill", mk(prim.NaN(np.bool_), (3, 3), {}, "bool")))
    out.append(("constant-index-subscript", mk(v("_in0")[0, v("_1")], (3, 3), {"_in0": a})))
    out.append(("diagonal-subscript", mk(v("_in0")[v("_0"), v("_0")], (3, 3), {"_in0": a})))
    d = ph((4, 3))
    out.append(("reduction-nonzero-lower-bound",
                mk(Reduce(v("_in0")[v("_r0"), v("_0")], SumReductionOperation(), constantdict({"_r0": (1, 4)})),
                   (3,), {"_in0": d})))
    out.append(("reduction-partial-range",
                mk(Reduce(v("_in0")[v("_r0"), v("_0")], SumReductionOperation(), constantdict({"_r0": (0, 3)})),
                   (3,), {"_in0": d})))
    e = ph((3, 3))
    out.append(("reduction-permuted-output",
                mk(Reduce(v("_in0")[v("_r0"), v("_1"), v("_0")], SumReductionOperation(),
                          constantdict({"_r0": (0, 2)})), (3, 3), {"_in0": ph((2, 3, 3))})))
    sq = ph((3, 3))
    out.append(("reduction-trace-repeated-variable",
                mk(Reduce(v("_in0")[v("_r0"), v("_r0")], SumReductionOperation(), constantdict({"_r0": (0, 3)})),
                   (), {"_in0": sq})))
    out.append(("reduction-variable-not-in-subscript",
                mk(Reduce(v("_in0")[v("_0"), v("_r0")], SumReductionOperation(),
                          constantdict({"_r0": (0, 3), "_r1": (0, 7)})), (3,), {"_in0": sq})))
    out.append(("reduction-output-axis-not-consumed",
                mk(Reduce(v("_in0")[v("_0"), v("_r0")], SumReductionOperation(), constantdict({"_r0": (0, 3)})),
                   (3, 2), {"_in0": sq})))
    out.append(("reduction-of-expression",
                mk(Reduce(v("_in0")[v("_r0"), v("_0")] * 2, SumReductionOperation(), constantdict({"_r0": (0, 4)})),
                   (3,), {"_in0": d})))
    out.append(("where-with-permuted-branch",
                mk(prim.If(prim.Comparison(v("_in0")[v("_0"), v("_1")], ">", 0), v("_in1")[v("_1"), v("_0")],
                           v("_in0")[v("_0"), v("_1")]), (3, 3), {"_in0": a, "_in1": b})))
    out.append(("broadcast-with-permuted-subscript", mk(v("_in0")[v("_1"), v("_0")], (3, 3), {"_in0": e})))
    out.append(("scalar-minus-array-as-sum", mk(prim.Sum((2.0, prim.Product((-1, v("_in0")[v("_0"), v("_1")])))),
                                                (3, 3), {"_in0": a})))
    out.append(("call-with-offset-argument",
                mk(prim.Call(v("pytato.c99.sin"), (v("_in0")[(v("_0") + 1) % 3, v("_1")],)), (3, 3), {"_in0": a})))
    # operands whose shapes do not broadcast against each other (what lowering an einsum / a matmul produces)
    w3, w4, m34 = ph((3,)), ph((4,)), ph((3, 4))
    out.append(("product-of-non-broadcastable-operands",
                mk(v("_in0")[v("_0"), v("_1")] * v("_in1")[v("_0")], (3, 4), {"_in0": m34, "_in1": w3})))
    out.append(("where-of-non-broadcastable-operands",
                mk(prim.If(prim.Comparison(v("_in0")[v("_0"), v("_1")], ">", 0), v("_in1")[v("_0")], 0.0),
                   (3, 4), {"_in0": m34, "_in1": w3})))
    out.append(("call-of-non-broadcastable-operands",
                mk(prim.Call(v("pytato.c99.atan2"), (v("_in0")[v("_0"), v("_1")], v("_in1")[v("_0")])),
                   (3, 4), {"_in0": m34, "_in1": w3})))
    # sums of three and more terms that merely START like a subtraction a + (-1)*b (what flattening a - b + c gives)
    out.append(("flattened-a-minus-b-plus-c",
                mk(prim.Sum((v("_in0")[v("_0"), v("_1")], prim.Product((-1, v("_in1")[v("_0"), v("_1")])),
                             v("_in2")[v("_0"), v("_1")])), (3, 3), {"_in0": a, "_in1": b, "_in2": c})))
    out.append(("flattened-a-minus-b-minus-c",
                mk(prim.Sum((v("_in0")[v("_0"), v("_1")], prim.Product((-1, v("_in1")[v("_0"), v("_1")])),
                             prim.Product((-1, v("_in2")[v("_0"), v("_1")])))), (3, 3), {"_in0": a, "_in1": b, "_in2": c})))
    out.append(("flattened-a-minus-b-plus-scalar",
                mk(prim.Sum((v("_in0")[v("_0"), v("_1")], prim.Product((-1, v("_in1")[v("_0"), v("_1")])), 2.5)),
                   (3, 3), {"_in0": a, "_in1": b})))
    out.append(("product-of-three-starting-with-minus-one",
                mk(prim.Sum((v("_in0")[v("_0"), v("_1")], prim.Product((-1, v("_in1")[v("_0"), v("_1")],
                                                                         v("_in2")[v("_0"), v("_1")])))),
                   (3, 3), {"_in0": a, "_in1": b, "_in2": c})))
    for opn, cls_ in (("four-operand-logical-and", prim.LogicalAnd), ("three-operand-bitwise-or", prim.BitwiseOr)):
        out.append((opn, mk(cls_((v("_in0")[v("_0"), v("_1")], v("_in1")[v("_0"), v("_1")], v("_in2")[v("_0"), v("_1")])),
                            (3, 3), {"_in0": ph((3, 3), "int64"), "_in1": ph((3, 3), "int64"), "_in2": ph((3, 3), "int64")},
                            dt="int64")))
    # an elementwise operation FUSED with a broadcast of its result: every operand is accessed through its exact
    # broadcast subscript, but the operands' common shape (4,) is not the result's shape (3, 4)
    a4, b4, c4 = ph((4,)), ph((4,)), ph((4,))
    out.append(("fused-broadcast-of-sum", mk(v("_in0")[v("_1")] + v("_in1")[v("_1")], (3, 4), {"_in0": a4, "_in1": b4})))
    out.append(("fused-broadcast-of-scalar-product", mk(v("_in0")[v("_1")] * 2.0, (3, 4), {"_in0": a4})))
    out.append(("fused-broadcast-of-where",
                mk(prim.If(prim.Comparison(v("_in0")[v("_1")], ">", 0), v("_in1")[v("_1")], v("_in2")[v("_1")]), (3, 4),
                   {"_in0": a4, "_in1": b4, "_in2": c4})))
    out.append(("fused-broadcast-of-call", mk(prim.Call(v("pytato.c99.sin"), (v("_in0")[v("_1")],)), (3, 4), {"_in0": a4})))
    out.append(("fused-broadcast-of-comparison", mk(prim.Comparison(v("_in0")[v("_1")], "<", v("_in1")[v("_1")]), (2, 3, 4),
                                                    {"_in0": a4, "_in1": b4}, dt="bool")))
    s0 = ph(())
    out.append(("fused-broadcast-of-0d-sum", mk(v("_in0") + v("_in1"), (3,), {"_in0": s0, "_in1": ph(())})))
    # every high-level node kind lowered by the public to_index_lambda: classified correctly or unknown
    from pytato.transform.lower_to_index_lambda import to_index_lambda
    x34, y34 = ph((3, 4)), ph((3, 4))
    lowered = {
        "einsum-ij,i->ij": pt.einsum("ij,i->ij", x34, w3), "einsum-ij,j->i": pt.einsum("ij,j->i", x34, w4),
        "einsum-ij->ji": pt.einsum("ij->ji", x34), "einsum-ij,ij->": pt.einsum("ij,ij->", x34, y34),
        "einsum-ij->j": pt.einsum("ij->j", x34), "einsum-ij->ij": pt.einsum("ij->ij", x34),
        "matmul": x34 @ pt.transpose(y34), "roll": pt.roll(x34, 1, 0), "transpose": pt.transpose(x34),
        "stack": pt.stack([x34, y34]), "concatenate": pt.concatenate([x34, y34]), "reshape": pt.reshape(x34, (4, 3)),
        "slice": x34[1:, ::2], "identity-slice": x34[:, :], "int-index": x34[1], "reverse": x34[::-1],
        "expand_dims": pt.expand_dims(x34, 0), "advanced-index": x34[pt.make_placeholder("ai", (2,), np.int64)],
    }
    for lbl, node in lowered.items():
        out.append(("lowered-" + lbl, to_index_lambda(node)))
    return out


def model_query(il):
    """ptdriver query asking the Lean model of the cascade to classify this index lambda"""
    from .. import ser
    try:
        binds = " ".join(f"({ser.name(k)} {ser.shape(v.shape)})" for k, v in sorted(il.bindings.items()))
        return f"(raise {ser.shape(il.shape)} {ser.sexpr(il.expr)} ({binds}))"
    except Exception:   # noqa: BLE001 (symbolic shapes, unserialisable constants)
        return None


def hlo_class_of_model(ans: str) -> str:
    if not ans.startswith("ok "):
        return "model-error"
    a = ans[3:].strip()
    if a == "unknown":
        return "unknown"
    head = a[1:].split()[0].rstrip(")")
    return {"full": "FullOp", "binary": "BinaryOp", "call": "C99CallOp", "zeros_like": "ZerosLikeOp",
            "where": "WhereOp", "broadcast": "BroadcastOp", "logical_not": "LogicalNotOp", "reduce": "ReduceOp"}.get(head, head)


def check_one(ctx, label, il, inp, must_recognise):
    """returns (disagreement?, classification)"""
    from pytato.raising import UnknownIndexLambdaExpr, index_lambda_to_high_level_op
    try:
        h = index_lambda_to_high_level_op(il)
    except UnknownIndexLambdaExpr:
        if must_recognise:
            ctx.violation(f"raise:api-form-not-recognised:{label.split(':')[0]}",
                          f"the API-built index lambda {label} ({il.expr}) is reported as unknown",
                          {"label": label, "expr": str(il.expr)})
            return True, "unknown"
        return False, "unknown"
    except Exception as e:   # noqa: BLE001
        ctx.violation(f"raise:exception:{type(e).__name__}:{label.split(':')[0]}",
                      f"index_lambda_to_high_level_op raised {type(e).__name__}: {e} on {label} ({il.expr}) — "
                      "neither a classification nor 'unknown'",
                      {"label": label, "expr": str(il.expr), "error": str(e)})
        return True, "exception"
    # interpret and compare
    try:
        binds = {k: evaluate(v, inp) for k, v in il.bindings.items()}
        truth, _ = eval_index_lambda(il, binds)
        got = interp_hlo(h, il, inp)
    except OverflowError as e:
        # NumPy refuses to apply the raised operation (a weak Python scalar that does not fit the narrow array type)
        # where the index lambda has a value: the operation was misread
        ctx.violation(f"raise:misread:{type(h).__name__}:{label.split(':')[0]}",
                      f"{label}: classified as {h!r:.200} but NumPy cannot apply that operation ({e}) where the index "
                      f"lambda {il.expr} has values", {"label": label, "expr": str(il.expr), "hlo": repr(h)[:400]})
        return True, type(h).__name__
    except Exception as e:   # noqa: BLE001
        ctx.broken.append(f"c19-interp:{label}:{type(e).__name__}:{e}"[:140])
        return True, type(h).__name__
    with np.errstate(all="ignore"):
        same = close(np.asarray(got).astype(truth.dtype), truth, exact=truth.dtype.kind in "biu")
    if not same:
        ctx.violation(f"raise:misread:{type(h).__name__}:{label.split(':')[0]}",
                      f"{label}: classified as {h!r:.200} but applying that operation with NumPy gives a different "
                      f"array than the index lambda {il.expr}",
                      {"label": label, "expr": str(il.expr), "hlo": repr(h)[:400],
                       "observed": np.asarray(got).tolist(), "expected": truth.tolist()})
        return True, type(h).__name__
    return False, type(h).__name__


def run(ctx: common.Ctx):
    from ..reflect import walk
    from pytato.array import IndexLambda, Placeholder
    ctx.assumptions += [
        "type casts are dropped before matching (as the real raiser does): dtype-level effects are compared "
        "numerically with the index lambda's own dtype",
    ]
    if THEOREMS:
        ctx.lean_obligations("PtProofs.C19", THEOREMS)
    else:
        ctx.coverage["lean"] = "C19 theorem file not yet present in this revision"
    rng = np.random.default_rng(ctx.seed + 19)
    cases = dis = 0
    mq: list = []
    classes: dict[str, int] = {}
    for label, e, must in api_cases(ctx):
        cases += 1
        if e is None:
            dis += 1
            ctx.violation(f"raise:api-form-cannot-be-built:{label.split(':')[0]}",
                          f"the API cannot even build {label}", {"label": label})
            continue
        if not isinstance(e, IndexLambda):
            continue
        inp = {n.name: _data(rng, tuple(n.shape), n.dtype) for n in walk(e) if isinstance(n, Placeholder)}
        d, cls = check_one(ctx, label, e, inp, must)
        dis += d
        classes[cls] = classes.get(cls, 0) + 1
        q = model_query(e)
        if q is not None and cls != "exception":
            mq.append((label, cls, q))
        if cases % 400 == 0:
            ctx.sample({"batch": "api", "label": label, "class": cls})
    ctx.note_batch("api-built-index-lambdas", cases, dis, exhaustive=False, classification=classes)
    cases = dis = 0
    classes = {}
    for label, il in near_misses(ctx):
        cases += 1
        inp = {n.name: _data(rng, tuple(n.shape), n.dtype) for n in walk(il) if isinstance(n, Placeholder)}
        d, cls = check_one(ctx, "near-miss:" + label, il, inp, False)
        dis += d
        classes[label] = cls
        q = model_query(il)
        if q is not None and cls != "exception":
            mq.append(("near-miss:" + label, cls, q))
        ctx.sample({"batch": "near-miss", "label": label, "class": cls})
    ctx.note_batch("hand-built-near-misses", cases, dis, exhaustive=False, classification=classes)
    # the Lean model of the cascade (object of raise_sound) must classify like the real raiser
    ans = common.driver_query_parallel([q for _, _, q in mq])
    mdis = 0
    for (label, cls, q), a in zip(mq, ans):
        m = hlo_class_of_model(a)
        if m != cls:
            # documented divergence: the model matches SUB only for the integer literal -1 (what the API emits)
            if cls == "BinaryOp" and m == "unknown" and "scalar-minus-array-as-sum" in label:
                continue
            mdis += 1
            ctx.broken.append(f"correspondence:raise-model-vs-real:{label}:real={cls}:model={m}")
    ctx.note_batch("lean-raise-model-vs-real-classification", len(mq), mdis, exhaustive=False)
    ctx.broken = sorted(set(ctx.broken))[:50]


def replay(ctx, path):
    print(open(path).read()[:3000])
    run(ctx)
    return ctx.finish()

"""C11 — generated kernels are memory-safe for every admissible size.

Theorems (PtProofs/C11.lean + C02.lean): for every modelled lowering rule, every
subscript evaluated at any in-bounds output index is within the bounds of the
accessed operand — for all ranks, shapes, parameters (incl. accesses under
conditionals: only the taken branch is evaluated); every index a normalised
slice visits is in [0, n).

Tie / search:
 (a) every real index lambda of C02's exhaustive scope is evaluated by the Lean
     evaluator, which lists each subscript actually evaluated (`Pt.accesses`):
     no affine access may be out of bounds;
 (b) the real *kernels* of C01's programs (concrete shapes) and of symbolic
     programs at every size valuation 0..4 (quick) / 0..6 (thorough) are read
     back and interpreted instruction by instruction with bounds checks
     (harness/kernelir.py): no access whose index is free of subscripts may be
     out of bounds, reads or writes, also under conditionals;
 (c) loopy's own ISL access-range checker is switched back on for each kernel
     (decides the symbolic case for the instructions it can analyse)."""
from __future__ import annotations

import numpy as np

from .. import cexec, common, ser
from ..gen import programs
from . import c02, c16
from .c01 import _prep_dedup

THEOREMS_C02 = ["Pt.slice_indices_inbounds", "Pt.unravelC_inB", "Pt.unravelF_inB"]
try:
    from .c11_theorems import THEOREMS as THEOREMS_C11
except ImportError:
    THEOREMS_C11 = []


def batch_index_lambdas(ctx):
    total = bad = 0
    kinds: dict[str, int] = {}
    for gen in c02.GENS:
        chunk = []
        for c in gen(ctx):
            chunk.append(c)
            if len(chunk) >= 4000:
                t, b = _process_chunk(ctx, chunk, kinds)
                total += t
                bad += b
                chunk = []
        if chunk:
            t, b = _process_chunk(ctx, chunk, kinds)
            total += t
            bad += b
    ctx.note_batch("index-lambda-accesses(lean-evaluator)", total, bad, exhaustive=False,
                   kinds=kinds, note="slices, rolls, permutations, stack/concatenate exhaustive on the bounded scope")


def _process_chunk(ctx, cases, kinds):
    queries, owners = [], []
    for c in cases:
        c02._lower(c)
        if c.err is not None:
            continue
        try:
            expr_s = ser.sexpr(c.il.expr)
        except ser.SerError as e:
            ctx.broken.append(f"serialiser:{c.kind}:{e}")
            continue
        binds = " ".join(ser.binding(n, a) for n, a in sorted(c.bind_data.items()))
        queries.append(f"(evalil {ser.shape(c.il.shape)} {expr_s} ({binds}))")
        owners.append(c)
        kinds[c.kind] = kinds.get(c.kind, 0) + 1
    ans = common.driver_query_parallel(queries)
    bad = 0
    for c, a in zip(owners, ans):
        parts = ser.split_top(a)
        if parts[0] != "ok":
            ctx.broken.append(f"lean-evalil:{c.kind}:{a[:60]}")
            bad += 1
            continue
        nbad = int(parts[4])
        if nbad:
            bad += 1
            # confirm on the real code with the independent Python interpreter
            from ..ilinterp import ILError, eval_index_lambda
            try:
                _, it = eval_index_lambda(c.il, c.bind_data)
            except ILError as e:
                ctx.violation(f"oob:index-lambda:{c.kind}:ill-formed",
                              f"to_index_lambda({c.kind}) is not a well-formed index lambda: {e} (params {c.params})",
                              {"kind": c.kind, "params": c.params, "expr": str(c.il.expr)})
                continue
            oob = [o for o in it.oob if not o[2]]
            if oob:
                ctx.violation(f"oob:index-lambda:{c.kind}",
                              f"to_index_lambda({c.kind}) reads out of bounds: {oob[:3]} (params {c.params})",
                              {"kind": c.kind, "params": c.params, "expr": str(c.il.expr), "oob": oob[:10]})
            else:
                ctx.broken.append(f"correspondence:accesses:{c.kind}:{c.params}")
    return len(owners), bad


def _oob_of(res):
    k = res.kir or {}
    out = []
    for per_run in k.get("oob", []):
        out += [o for o in per_run if not o[2]]     # o = (name, index, data_dependent, read|write)
    return out


def batch_kernels_concrete(ctx):
    n = 900 if ctx.thorough else 160
    nprng = np.random.default_rng(ctx.seed * 5 + 11)
    progs, jobs = [], []
    for i in range(n):
        p = programs.generate(ctx.seed + 1100, i)
        runs = [p.make_inputs(nprng)]
        progs.append(p)
        jobs.append(cexec.Job(tag=f"p{i}", expr=p.expr(), runs=runs, prep=_prep_dedup, kir_orders=0,
                              no_exec=True, bounds_check=False))
    res = cexec.run_jobs(ctx, jobs)
    dis = 0
    ops: dict[str, int] = {}
    for p, r in zip(progs, res):
        for o in set(p.ops):
            ops[o] = ops.get(o, 0) + 1
        if r.error:
            continue    # code generation failures are C01's business
        k = r.kir or {}
        if "shape_error" in k or "error" in k:
            ctx.broken.append(f"kernel-readback:{(k.get('shape_error') or k.get('error'))[:80]}:program{p.index}")
            dis += 1
            continue
        oob = _oob_of(r)
        if oob:
            dis += 1
            ctx.violation(f"oob:kernel:{oob[0][3]}",
                          f"program {p.index} (seed {ctx.seed}): generated kernel accesses {oob[0][0]}{list(oob[0][1])} "
                          f"out of bounds ({oob[0][3]}); ops {sorted(set(p.ops))}",
                          {"program_index": p.index, "seed": ctx.seed + 1100, "oob": [list(map(str, o)) for o in oob[:10]]})
    ctx.note_batch("kernel-accesses-concrete-shapes", n, dis, exhaustive=False, constructor_counts=ops)


def batch_kernels_after_transformations(ctx):
    """the bounds checks on the kernels generated AFTER every graph transformation of C05 (deduplicate,
    deduplicate_data_wrappers, eliminate_dead_code, materialize_with_mpms, copies, and deduplicate_data_wrappers
    followed by materialization) applied to graphs over WRAPPED DATA that are views of one buffer (C05's view
    scenarios: other stride / offset / shape / dtype / LENGTH of the same pointer) and to the CSR scenarios, with
    the outputs in both orders (which view is visited first decides which wrapper survives a merge)"""
    import pytato as pt
    from . import c05
    T = c05.transformations()
    names = [n for n in sorted(T) if n != "preprocess"]
    scen = [sc for sc in c05.scenarios(ctx.seed)
            if sc.name.startswith("data-wrapper-views") or sc.name.startswith("csr-matrix-operands-replaced")]
    jobs, meta = [], []
    skipped = 0
    for sc in scen:
        inp = sc.make_inputs(None)
        items = list(sc._outputs.items())
        for order, its in (("as-built", items), ("reversed", items[::-1])):
            try:
                e0 = pt.transform.deduplicate(pt.make_dict_of_named_arrays(dict(its)))
            except Exception:   # noqa: BLE001
                skipped += 1
                continue
            pipes = [(n,) for n in names] + [("deduplicate_data_wrappers", "materialize_with_mpms")]
            if sc.name.startswith("csr") and not ctx.thorough:
                pipes = [("deduplicate_data_wrappers",), ("deduplicate",)]
            for pipe in pipes:
                try:
                    cur = e0
                    for n in pipe:
                        cur = T[n][0](cur)
                except Exception:   # noqa: BLE001  (a transformation refusing a graph is C05's business)
                    skipped += 1
                    continue
                jobs.append(cexec.Job(tag=f"{sc.name}:{order}:{'+'.join(pipe)}", expr=cur, runs=[inp], kir_orders=0,
                                      no_exec=True, bounds_check=False))
                meta.append((sc.name, order, pipe))
    res = cexec.run_jobs(ctx, jobs)
    dis = 0
    for (name, order, pipe), r in zip(meta, res):
        if r.error:
            continue
        k = r.kir or {}
        if "shape_error" in k or "error" in k:
            ctx.broken.append(f"kernel-readback:{(k.get('shape_error') or k.get('error'))[:80]}:{name}:{order}:{pipe}")
            dis += 1
            continue
        oob = _oob_of(r)
        if oob:
            dis += 1
            ctx.violation(f"oob:kernel-after-transformation:{'+'.join(pipe)}",
                          f"scenario {name} (outputs {order}) after {' -> '.join(pipe)}: the generated kernel accesses "
                          f"{oob[0][0]}{list(oob[0][1])} out of bounds ({oob[0][3]})",
                          {"scenario": name, "order": order, "pipeline": list(pipe), "seed": ctx.seed,
                           "oob": [list(map(str, o)) for o in oob[:10]]})
    ctx.note_batch("kernel-accesses-after-transformations", len(jobs), dis, exhaustive=False, scenarios=len(scen),
                   transformations=names, skipped=skipped)


def batch_kernels_symbolic(ctx):
    n = 150 if ctx.thorough else 40
    top = 6 if ctx.thorough else 4
    nprng = np.random.default_rng(ctx.seed * 5 + 12)
    sizes_list = [{"n": a, "m": b} for a in range(0, top + 1) for b in range(0, top + 1)]
    if not ctx.thorough:
        import random
        r = random.Random(ctx.seed)
        sizes_list = [{"n": 0, "m": 0}, {"n": 0, "m": 3}, {"n": 1, "m": 1}] + r.sample(sizes_list, 6)
    jobs, progs = [], []
    for pi, expr, phs in c16.sym_programs(ctx, n):
        runs = []
        for sz in sizes_list:
            try:
                inp = c16.concrete_inputs(phs, sz, nprng)
            except Exception:   # noqa: BLE001
                continue
            runs.append(dict(inp, **sz))
        progs.append((pi, expr, phs))
        jobs.append(cexec.Job(tag=f"sym{pi}", expr=expr, runs=runs, kir_orders=0, no_exec=True,
                              bounds_check=False, prep=_prep_dedup))
    res = cexec.run_jobs(ctx, jobs)
    dis = cases = 0
    for (pi, expr, phs), job, r in zip(progs, jobs, res):
        cases += len(job.runs)
        if r.error:
            continue
        k = r.kir or {}
        if "shape_error" in k or "error" in k:
            ctx.broken.append(f"kernel-readback:{(k.get('shape_error') or k.get('error'))[:80]}:sym{pi}")
            dis += 1
            continue
        for ri, per_run in enumerate(k.get("oob", [])):
            oob = [o for o in per_run if not o[2]]
            if oob:
                dis += 1
                sz = {kk: v for kk, v in job.runs[ri].items() if kk in ("n", "m")}
                ctx.violation(f"oob:symbolic-kernel:{oob[0][3]}",
                              f"symbolic program {pi}: at sizes {sz} the kernel accesses {oob[0][0]}{list(oob[0][1])} "
                              "out of bounds",
                              {"program_index": pi, "seed": ctx.seed, "sizes": sz,
                               "oob": [list(map(str, o)) for o in oob[:10]]})
                break
    ctx.note_batch("kernel-accesses-symbolic-shapes", cases, dis, exhaustive=False, programs=len(progs),
                   size_valuations=len(sizes_list))


def batch_isl(ctx):
    """loopy's own ISL based access-range check switched back on (C target kernel = same instructions)"""
    n = 300 if ctx.thorough else 60
    jobs, tags = [], []
    for i in range(n):
        p = programs.generate(ctx.seed + 1100, i)
        jobs.append(cexec.Job(tag=f"isl{i}", expr=p.expr(), runs=[], prep=_prep_dedup, bounds_check=True,
                              check_cl=False, isl_only=True))
        tags.append(("concrete", i))
    for pi, expr, phs in c16.sym_programs(ctx, 40 if ctx.thorough else 20):
        jobs.append(cexec.Job(tag=f"islsym{pi}", expr=expr, runs=[], bounds_check=True, check_cl=False,
                              isl_only=True, prep=_prep_dedup))
        tags.append(("symbolic", pi))
    res = cexec.run_jobs(ctx, jobs)
    dis = 0
    checked = 0
    for (kind, i), r in zip(tags, res):
        if r.error:
            continue
        checked += 1
        if r.bounds_error:
            if "LoopyIndexError" in r.bounds_error or "out of bounds" in r.bounds_error.lower():
                dis += 1
                ctx.violation("oob:isl-access-range-check",
                              f"{kind} program {i}: loopy's access-range check rejects the kernel: "
                              f"{r.bounds_error[:300]}",
                              {"program_index": i, "kind": kind, "seed": ctx.seed, "error": r.bounds_error})
            else:
                ctx.coverage.setdefault("isl_check_inconclusive", []).append(r.bounds_error[:120])
    ctx.note_batch("isl-access-range-check", checked, dis, exhaustive=False,
                   note="symbolic in sizes and loop indices; loopy skips instructions whose domain depends on "
                        "temporaries (all reductions on this tree) — those are covered by the interpreted batches")


def run(ctx: common.Ctx):
    ctx.assumptions += [
        "data-dependent indices (a subscript inside an index) are the caller's responsibility and are excluded, as the statement says",
        "kernel read-back assumes pytato's kernel shape (harness/kernelir.py); a kernel that does not fit is reported",
        "ISL (via loopy.check) is a search tool here, not part of the proof",
    ]
    ctx.lean_obligations("PtProofs.C02", THEOREMS_C02)
    if THEOREMS_C11:
        ctx.lean_obligations("PtProofs.C11", THEOREMS_C11)
    batch_index_lambdas(ctx)
    c02.pad_symbolic(ctx, prop="C11")
    c02.batch_binop(ctx, prop="C11")
    c02.batch_multiarg_elemwise(ctx, prop="C11")
    c02.batch_construct(ctx, prop="C11")
    batch_kernels_concrete(ctx)
    batch_kernels_after_transformations(ctx)
    batch_kernels_symbolic(ctx)
    batch_isl(ctx)
    ctx.broken = sorted(set(ctx.broken))[:50]


def replay(ctx, path):
    print(open(path).read()[:3000])
    run(ctx)
    return ctx.finish()

"""C07 — tags carry no semantics; implementation strategies are equivalent.

Metamorphic tie through the real pipeline: every program of C01's generator is
built several times with identical structure and different tag assignments
(ImplStored / ImplInlined / ImplSubstitution / PrefixNamed / fresh Named /
user-defined array, axis and reduction tags on arbitrary subsets of nodes) plus
the untagged build; all variants must expose the same output names, shapes and
dtypes and compute the same values (bit-identical for int/bool, tolerance for
floats since inlining may re-associate) — and the reference values."""
from __future__ import annotations

import random

import numpy as np
from pytools.tag import Tag

from .. import cexec, common
from ..gen import programs
from ..refeval import close, evaluate
from .c01 import _prep_dedup, _short

THEOREMS = ["Pt.lower_roll_correct", "Pt.lower_perm_correct", "Pt.lower_basic_correct"]


class UserArrayTag(Tag):
    pass


class UserAxisTag(Tag):
    pass


class UserRednTag(Tag):
    pass


INPUT_OPS = ("placeholder", "data_wrapper")


def make_tagger(variant_seed: int, density: float):
    import pytato as pt
    from pytato.array import IndexLambda, Einsum, InputArgumentBase
    from pytato.tags import ImplInlined, ImplStored, Named, PrefixNamed
    from pytato.target.loopy import ImplSubstitution
    rng = random.Random(variant_seed)
    stats: dict[str, int] = {}
    named_used: set[str] = set()
    POOL = ["tmp", "stage", "acc", "q"]

    def tagger(node, ordinal, op):
        r = random.Random(variant_seed * 100_003 + ordinal)   # per-node decisions independent of order
        if r.random() > density:
            return node
        is_input = isinstance(node, InputArgumentBase)
        choices = ["user", "axis", "stored"]      # (an ImplStored on an input is legal and must be inert)
        if not is_input:
            choices += ["stored", "stored", "inlined", "subst", "prefix", "named"]
            if isinstance(node, (IndexLambda, Einsum)):
                choices.append("redn")
        c = r.choice(choices)
        stats[c] = stats.get(c, 0) + 1
        try:
            if c == "user":
                return node.tagged(UserArrayTag())
            if c == "axis":
                if node.ndim == 0:
                    return node
                # (negative positions too: an axis counted from the end)
                return node.with_tagged_axis(r.randrange(-node.ndim, node.ndim), UserAxisTag())
            if c == "stored":
                return node.tagged(ImplStored())
            if c == "inlined":
                return node.tagged(ImplInlined())
            if c == "subst":
                return node.tagged(ImplSubstitution())
            if c == "prefix":
                tg = PrefixNamed(r.choice(POOL))
                return node.tagged((tg, ImplStored()) if r.random() < 0.5 else tg)
            if c == "named":
                # Named yields exactly that name: must be unique in the kernel; half of the time a name the
                # PrefixNamed tags of this program ask for as well
                free = [n for n in POOL if n not in named_used]
                if free and r.random() < 0.5:
                    nm = r.choice(free)
                    named_used.add(nm)
                    tagger.named_from_pool = True
                else:
                    nm = f"nm{ordinal}_{variant_seed % 1000}"
                return node.tagged((Named(nm), ImplStored()))
            if c == "redn":
                # a non-empty subset of the reduction variables / axes, tagged one after the other in a random order
                if isinstance(node, IndexLambda) and node.var_to_reduction_descr:
                    vs = sorted(node.var_to_reduction_descr)
                    for v in r.sample(vs, r.randint(1, len(vs))):
                        node = node.with_tagged_reduction(v, UserRednTag())
                    return node
                if isinstance(node, Einsum) and node.redn_axis_to_redn_descr:
                    axs = sorted(node.redn_axis_to_redn_descr, key=lambda a: a.dim)
                    for ax in r.sample(axs, r.randint(1, len(axs))):
                        node = node.with_tagged_reduction(ax, UserRednTag())
                    return node
                return node
        except (ValueError, TypeError, NotImplementedError) as e:
            stats[f"rejected:{c}:{type(e).__name__}"] = stats.get(f"rejected:{c}:{type(e).__name__}", 0) + 1
            return node
        return node
    tagger.stats = stats
    tagger.named_from_pool = False
    return tagger


def batch_reduction_descriptor_tags(ctx):
    """tags on reduction descriptors of reductions over SEVERAL indices (einsum and sum/amax over axis tuples): every
    non-empty subset of the reduction indices tagged, in every order, directly and through unify_axes_tags — tagged =
    untagged = NumPy"""
    import itertools
    import pytato as pt
    from pytato.array import Einsum, IndexLambda
    from ..refeval import close
    rng = np.random.default_rng(ctx.seed + 771)
    A, B, M = rng.integers(-3, 4, (2, 3, 4)) / 2.0, rng.integers(-3, 4, (3, 4)) / 2.0, rng.integers(-3, 4, (3, 3)) / 2.0
    a, b, m = (pt.make_placeholder(n, v.shape, np.float64) for n, v in (("a", A), ("b", B), ("m", M)))
    base = {"ijk,jk->i": (pt.einsum("ijk,jk->i", a, b), np.einsum("ijk,jk->i", A, B), {"a": A, "b": B}),
            "jk,kj->": (pt.einsum("jk,kj->", m, m), np.einsum("jk,kj->", M, M), {"m": M}),
            "ijk,ijk->": (pt.einsum("ijk,ijk->", a, a), np.einsum("ijk,ijk->", A, A), {"a": A}),
            "sum(axis=(0,2))": (pt.sum(a, axis=(0, 2)), np.sum(A, axis=(0, 2)), {"a": A}),
            "amax(all)": (pt.amax(a), np.amax(A), {"a": A})}
    jobs, meta = [], []
    for lbl, (node, ref, inp) in base.items():
        keys = sorted(node.redn_axis_to_redn_descr, key=lambda x: x.dim) if isinstance(node, Einsum) \
            else sorted(node.var_to_reduction_descr)
        variants = [("untagged", node)]
        for k in range(1, len(keys) + 1):
            for order in itertools.permutations(keys, k):
                t = node
                try:
                    for key in order:
                        t = t.with_tagged_reduction(key, UserRednTag())
                except Exception as e:   # noqa: BLE001
                    ctx.violation("tags:reduction-descriptor:tagging-fails",
                                  f"{lbl}: tagging the reduction indices {[str(x) for x in order]} one after the other raises "
                                  f"{type(e).__name__}: {str(e)[:120]}", {"form": lbl, "order": [str(x) for x in order]})
                    continue
                variants.append((f"tag{[str(x) for x in order]}", t))
        for vn, t in variants:
            for through in ("direct", "unify_axes_tags"):
                expr = pt.make_dict_of_named_arrays({"o": t * 2 + 1})
                jobs.append(cexec.Job(tag=f"{lbl}:{vn}:{through}", expr=expr, runs=[inp], kir_orders=0,
                                      prep=(_prep_dedup if through == "direct" else _prep_dedup_unify)))
                meta.append((lbl, vn, through, np.asarray(ref) * 2 + 1))
    dis = 0
    for (lbl, vn, through, ref), r in zip(meta, cexec.run_jobs(ctx, jobs)):
        if r.error and str(r.stage).startswith("c-"):
            continue
        if r.error or not r.outputs or not close(r.outputs[0].get("o"), ref):
            dis += 1
            ctx.violation("tags:reduction-descriptor:tagged-differs",
                          f"{lbl} with {vn} ({through}): " + (f"{r.stage} fails: {str(r.error).splitlines()[0][:140]}" if r.error
                                                              else "values differ from NumPy"),
                          {"form": lbl, "variant": vn, "through": through})
    ctx.note_batch("tags-on-reduction-descriptors-of-multi-index-reductions", len(jobs), dis, exhaustive=True)


def _prep_dedup_unify(expr):
    import pytato as pt
    return pt.unify_axes_tags(pt.transform.deduplicate(expr))


def run(ctx: common.Ctx):
    ctx.assumptions += [
        "as C01: loopy C target + gcc execute the kernels; executed, not verified",
        "AssumeNonNegative is a promise lowering exploits: it is only ever added TRUTHFULLY (to index arrays without "
        "negative entries), in its own batch; the random tag stream does not use it",
    ]
    ctx.lean_obligations("PtProofs.C02", THEOREMS)
    from .c01 import THEOREMS_KERNEL
    ctx.lean_obligations("PtProofs.C01", THEOREMS_KERNEL)
    from .c01 import THEOREMS_GEN, THEOREMS_GEN_RED
    ctx.lean_obligations("PtProofs.C01GenChecks", THEOREMS_GEN)
    ctx.lean_obligations("PtProofs.C01GenRedChecks", THEOREMS_GEN_RED)
    from .cfg_createdat import batch_createdat
    batch_createdat(ctx, "C07")
    batch_reduction_descriptor_tags(ctx)
    nprog = 600 if ctx.thorough else 90
    nvar = 6 if ctx.thorough else 3
    nprng = np.random.default_rng(ctx.seed * 17 + 7)
    jobs, meta = [], []
    allstats: dict[str, int] = {}
    for i in range(nprog):
        base = programs.generate(ctx.seed + 700, i)
        runs = [base.make_inputs(nprng)]
        variants = [("untagged", base)]
        for v in range(nvar):
            tg = make_tagger(ctx.seed * 1000 + i * 10 + v, density=[0.25, 0.5, 0.9, 0.15, 0.7, 1.0][v % 6])
            pv = programs.generate(ctx.seed + 700, i, tagger=tg)
            for k, n in tg.stats.items():
                allstats[k] = allstats.get(k, 0) + n
            pv.named_from_pool = tg.named_from_pool
            variants.append((f"v{v}", pv))
        for vn, pv in variants:
            jobs.append(cexec.Job(tag=f"p{i}:{vn}", expr=pv.expr(), runs=runs, prep=_prep_dedup,
                                  kir_orders=2, kir_seed=ctx.seed + i, want_wire=True, want_source=True))
            meta.append((i, vn, pv, runs, base))
    results = cexec.run_jobs(ctx, jobs)
    dis = 0
    base_out: dict[int, dict] = {}
    base_ref: dict[int, dict] = {}
    for (i, vn, pv, runs, base), res in zip(meta, results):
        if vn == "untagged":
            base_out[i] = None if res.error else res.outputs[0]
            try:
                base_ref[i] = evaluate(base.expr(), runs[0])
            except Exception as e:   # noqa: BLE001
                ctx.broken.append(f"refeval:{type(e).__name__}:program{i}")
                base_ref[i] = None
    unsupported: dict[str, int] = {}
    for (i, vn, pv, runs, base), res in zip(meta, results):
        # structure must be identical up to tags
        if list(pv.outputs) != list(base.outputs) or any(
                tuple(pv.outputs[k].shape) != tuple(base.outputs[k].shape)
                or pv.outputs[k].dtype != base.outputs[k].dtype for k in base.outputs):
            dis += 1
            ctx.violation("tags:output-metadata-changed",
                          f"program {i} variant {vn}: output names/shapes/dtypes differ from the untagged build",
                          {"program_index": i, "variant": vn, "seed": ctx.seed})
            continue
        if res.error:
            if str(res.stage).startswith("c-"):
                key = f"{res.stage}:{res.error_class}:{_short(res.error)}"
                unsupported[key] = unsupported.get(key, 0) + 1
                continue
            if cexec.IF_CONDITION_MARK in res.error:
                dis += 1
                ctx.violation("loopy-type-inference:if-with-inexact-condition",
                              f"program {i} variant {vn}: `%` / `//` applied to an integer where() whose condition is a "
                              f"floating-point array: loopy infers the conditional as floating point and refuses the operator",
                              {"program_index": i, "variant": vn, "seed": ctx.seed})
                continue
            # code generation fails for the tagged variant only?
            b = [r for (j, v2, *_), r in zip(meta, results) if j == i and v2 == "untagged"][0]
            if vn != "untagged" and not b.error and getattr(pv, "named_from_pool", False) \
                    and res.error_class == "ValueError" and "conflict" in (res.error or ""):
                # "a Named tag yields exactly that name or an error": the name was handed out before
                unsupported["explicit Named-conflict diagnostic"] = unsupported.get("explicit Named-conflict diagnostic", 0) + 1
            elif vn != "untagged" and not b.error:
                dis += 1
                ctx.violation(f"tags:codegen-fails-when-tagged:{res.error_class}:{_short(res.error)}",
                              f"program {i} variant {vn}: {res.stage} failed although the untagged program "
                              f"generates fine: {res.error[:300]}",
                              {"program_index": i, "variant": vn, "seed": ctx.seed, "error": res.error,
                               "tags": _describe_tags(pv)})
            elif vn == "untagged":
                dis += 1
                ctx.violation(f"loopy:{res.stage}:{res.error_class}:{_short(res.error)}",
                              f"program {i} (untagged): {res.stage} failed: {res.error[:300]}",
                              {"program_index": i, "seed": ctx.seed, "error": res.error})
            continue
        out = res.outputs[0]
        ref = base_ref.get(i)
        for name, node in base.outputs.items():
            size0 = int(np.prod(tuple(int(d) for d in node.shape))) == 0
            if name not in out:
                if size0:
                    continue
                dis += 1
                ctx.violation("tags:missing-output", f"program {i} variant {vn}: output {name} missing",
                              {"program_index": i, "variant": vn, "seed": ctx.seed})
                continue
            got = out[name]
            if ref is not None and not close(got, ref[name], single=base.uses_single()):
                dis += 1
                from .c01 import _c_bitwise_next_to_comparison
                stmt = _c_bitwise_next_to_comparison(getattr(res, "source", None) or "")
                if stmt:
                    ctx.violation("loopy-c-printer:operand-of-comparison-not-parenthesized",
                                  f"program {i} variant {vn}: loopy prints `{stmt}`", {"program_index": i, "variant": vn})
                    continue
                ctx.violation("tags:value-differs-from-reference" if vn != "untagged" else "loopy:value-mismatch",
                              f"program {i} variant {vn} output {name}: value differs from the reference",
                              {"program_index": i, "variant": vn, "seed": ctx.seed, "output": name,
                               "observed": np.asarray(got).tolist(), "expected": np.asarray(ref[name]).tolist(),
                               "tags": _describe_tags(pv)})
                continue
            b = base_out.get(i)
            if b is not None and name in b and not close(got, b[name], single=base.uses_single()):
                dis += 1
                ctx.violation("tags:value-differs-from-untagged",
                              f"program {i} variant {vn} output {name}: tagged and untagged builds disagree",
                              {"program_index": i, "variant": vn, "seed": ctx.seed, "output": name,
                               "tags": _describe_tags(pv)})
        if i % 30 == 0 and vn == "v0":
            ctx.sample({"batch": "tag-variants", "program": i, "variant": vn, "tags": _describe_tags(pv)[:8]})
    # every variant's kernel through the kernel read-back (random dependency-respecting orders) and the
    # verified static check of the Lean kernel model
    from .c01_kernel import check_readback, lean_queries
    kq, kown = [], []
    kdis = kn = 0
    for (i, vn, pv, runs, base), res in zip(meta, results):
        if res.error and not str(res.stage).startswith("c-"):
            continue
        if res.kir is None:
            continue
        kn += 1
        kdis += check_readback(ctx, f"tags[{vn != 'untagged' and 'tagged' or 'untagged'}]", pv, runs, res)
        qs = lean_queries(pv, runs, res)
        if qs:
            kown.append((i, vn, len(kq)))
            kq.append(qs[0])
    kans = common.driver_query_parallel(kq)
    for (i, vn, pos) in kown:
        if kans[pos] != "ok #t":
            kdis += 1
            ctx.violation("tags:checkKernel-fails",
                          f"program {i} variant {vn}: the generated kernel fails the verified static check "
                          "(single assignment / dependency completeness)", {"program_index": i, "variant": vn,
                                                                            "seed": ctx.seed})
    ctx.note_batch("kernel-readback+checkKernel-of-all-variants", kn, kdis, exhaustive=False)
    # the Lean model of the statement generator on every tag variant (ImplStored / Named / PrefixNamed /
    # ImplSubstitution / ImplInlined decide what is stored and how it is named)
    from . import c01_gen

    class _P:      # cases_from_results reads .index and .expr()
        def __init__(self, i, vn, pv):
            self.index, self._pv = f"{i}:{vn}", pv

        def expr(self):
            return self._pv.expr()
    c01_gen.run_gen_model(ctx, "tags", list(c01_gen.cases_from_results(
        [(_P(i, vn, pv), runs) for (i, vn, pv, runs, base) in meta], results, _prep_dedup)))
    ctx.coverage["executor_unsupported"] = unsupported
    ctx.note_batch("tag-variants-vs-untagged-vs-reference", len(jobs), dis, exhaustive=False,
                   programs=nprog, variants_per_program=nvar + 1, tag_kinds_applied=allstats)
    batch_chained_name_tags(ctx)
    from . import c07_shared
    c07_shared.batch_shared_tagged_nodes(ctx)
    from . import c07_redn_descr
    c07_redn_descr.batch_reduction_descriptors(ctx)
    batch_truthful_promise_tags(ctx)
    batch_force_value_arg(ctx)
    ctx.broken = sorted(set(ctx.broken))[:50]


def batch_chained_name_tags(ctx):
    """stored intermediates in a chain p -> q(p) -> out(p, q), every pair of implementation/name tags on p and q
    (the same name asked for twice, by Named and PrefixNamed in both orders): tagged == untagged == NumPy, or an
    explicit Named-conflict diagnostic"""
    import itertools
    import pytato as pt
    from pytato.tags import ImplInlined, ImplStored, Named, PrefixNamed
    from pytato.target.loopy import ImplSubstitution
    x = pt.make_placeholder("x", (4,), np.float64)
    m = pt.make_placeholder("m", (3, 4), np.float64)
    inp = {"x": np.arange(4.0) + 1, "m": np.arange(12.0).reshape(3, 4) - 3}
    tagsets = {
        "none": (), "stored": (ImplStored(),), "inlined": (ImplInlined(),), "subst": (ImplSubstitution(),),
        "named-tmp": (Named("tmp"), ImplStored()), "prefix-tmp": (PrefixNamed("tmp"), ImplStored()),
        "prefix-tmp-unstored": (PrefixNamed("tmp"),), "named-other": (Named("other"), ImplStored()),
        "prefix-x": (PrefixNamed("x"), ImplStored()), "prefix-out": (PrefixNamed("out"), ImplStored()),
    }
    shapes = {
        "vector": lambda tp, tq: (lambda p: (lambda q: p + q)((2 * p).tagged(tq)))((x + 1).tagged(tp)),
        "matrix-reduction": lambda tp, tq: (lambda p: (lambda q: pt.sum(p, axis=0) + q)(
            pt.sum(p * 2, axis=0).tagged(tq)))((m + x).tagged(tp)),
        "p-read-after-q-stored": lambda tp, tq: (lambda p: (lambda q: (q * 3) + p * p)((p - 5).tagged(tq)))(
            (x * x).tagged(tp)),
    }
    jobs, meta = [], []
    # implementation / name tags on INPUTS that are returned directly and used elsewhere
    data = np.arange(4.0) * 2 - 3
    for a, ta in tagsets.items():
        if "named" in a or "prefix" in a:
            continue
        for kind in ("placeholder", "data_wrapper"):
            xin = pt.make_placeholder("x", (4,), np.float64).tagged(ta) if kind == "placeholder" else \
                pt.make_data_wrapper(data).tagged(ta)
            e = pt.make_dict_of_named_arrays({"same": xin, "out": xin * 2 + 1, "other": pt.sum(xin)})
            jobs.append(cexec.Job(tag=f"tagged-input:{kind}:{a}", expr=e, runs=[inp], prep=_prep_dedup))
            meta.append((f"tagged-input-{kind}", a, "-", e))
    for sname, build in shapes.items():
        for (a, ta), (b, tb) in itertools.product(tagsets.items(), repeat=2):
            e = pt.make_dict_of_named_arrays({"out": build(ta, tb)})
            jobs.append(cexec.Job(tag=f"{sname}:{a}:{b}", expr=e, runs=[inp], prep=_prep_dedup))
            meta.append((sname, a, b, e))
    res = cexec.run_jobs(ctx, jobs)
    dis = rejected = 0
    for (sname, a, b, e), r in zip(meta, res):
        if r.error:
            if str(r.stage).startswith("c-"):
                continue
            if "named" in a + b and r.error_class == "ValueError" and "conflict" in (r.error or ""):
                rejected += 1
                continue
            if a == "none" and b == "none":
                ctx.broken.append(f"c07-chained:{sname}:untagged-fails:{r.error_class}")
                continue
            dis += 1
            ctx.violation(f"tags:codegen-fails-when-tagged:{r.error_class}:{_short(r.error)}",
                          f"chain {sname} with tags p={a}, q={b}: {r.stage} failed: {r.error[:300]}",
                          {"shape": sname, "p": a, "q": b, "error": r.error})
            continue
        refs = evaluate(e, inp)
        bad_other = [k for k in refs if k != "out" and (r.outputs[0].get(k) is None or not close(r.outputs[0][k], refs[k]))]
        ref = refs["out"]
        got = r.outputs[0].get("out")
        if bad_other:
            got = None
        if got is None or not close(got, ref):
            dis += 1
            ctx.violation("tags:value-differs-from-reference",
                          f"chain {sname} with tags p={a}, q={b}: out = {None if got is None else np.asarray(got).tolist()}, "
                          f"NumPy gives {np.asarray(ref).tolist()}",
                          {"shape": sname, "p": a, "q": b})
    ctx.note_batch("chained-stored-intermediates-all-tag-pairs", len(jobs), dis, exhaustive=True,
                   explicit_named_conflicts=rejected)


def batch_truthful_promise_tags(ctx):
    """pytato's own AssumeNonNegative on index arrays, added TRUTHFULLY (the tagged array has no negative entry) to
    every subset of the index arrays of an advanced index whose OTHER index arrays do contain negative entries:
    a true promise about one array must not change what is read through another (lowered index lambda evaluated
    with bounds checks, and the generated code)"""
    import itertools
    import pytato as pt
    from pytato.tags import AssumeNonNegative
    from ..ilinterp import eval_index_lambda
    xv = np.arange(60.0).reshape(3, 4, 5)
    x = pt.make_placeholder("x", xv.shape, np.float64)
    idx_data = {"i": np.array([0, 2, 1, 2]), "j": np.array([-1, 3, -4, 0]), "k": np.array([4, -5, 2, -1])}
    nonneg = {"i"}                                  # may be tagged truthfully
    forms = {"x[i,j]": lambda i, j, k: x[i, j], "x[i,:,k]": lambda i, j, k: x[i, :, k], "x[i,j,k]": lambda i, j, k: x[i, j, k],
             "x[:,j,k%5]": lambda i, j, k: x[:, j, k % 5], "x[i,j,1]": lambda i, j, k: x[i, j, 1],
             "x[i % 3, -1, k]": lambda i, j, k: x[i % 3, -1, k]}
    jobs, meta = [], []
    cases = dis = 0
    for fname, f in forms.items():
        for tagged in [(), ("i",)]:
            phs = {n: pt.make_placeholder(n, v.shape, np.int64) for n, v in idx_data.items()}
            for n in tagged:
                phs[n] = phs[n].tagged(AssumeNonNegative())
            node = f(phs["i"], phs["j"], phs["k"])
            ref = {"x[i,j]": lambda i, j, k: xv[i, j], "x[i,:,k]": lambda i, j, k: xv[i, :, k],
                   "x[i,j,k]": lambda i, j, k: xv[i, j, k], "x[:,j,k%5]": lambda i, j, k: xv[:, j, k % 5],
                   "x[i,j,1]": lambda i, j, k: xv[i, j, 1], "x[i % 3, -1, k]": lambda i, j, k: xv[i % 3, -1, k]}[fname](
                       idx_data["i"], idx_data["j"], idx_data["k"])
            cases += 1
            label = f"{fname} with AssumeNonNegative on {list(tagged) or 'nothing'}"
            il = pt.to_index_lambda(node) if not isinstance(node, pt.array.IndexLambda) else node
            from ..refeval import evaluate as _ev
            inp = dict(idx_data, x=xv)
            try:
                binds = {bn: _ev(bv, inp) for bn, bv in il.bindings.items()}
                val, it = eval_index_lambda(il, binds)
                oob = [o for o in it.oob]
            except Exception as e:   # noqa: BLE001
                ctx.broken.append(f"c07-promise:ilinterp:{type(e).__name__}:{str(e)[:60]}")
                continue
            if oob or not close(val, ref):
                dis += 1
                ctx.violation("tags:truthful-AssumeNonNegative-changes-values",
                              f"{label}: the lowered index lambda "
                              + (f"reads out of bounds {oob[:2]}" if oob else "differs from NumPy")
                              + " — the promise is true of the tagged array; the other index arrays still need wrapping",
                              {"form": fname, "tagged": list(tagged), "expr": str(il.expr)[:300]})
                continue
            jobs.append(cexec.Job(tag=label, expr=pt.make_dict_of_named_arrays({"o": node * 1.0}), runs=[inp], prep=_prep_dedup))
            meta.append((label, ref))
    res = cexec.run_jobs(ctx, jobs)
    for (label, ref), r in zip(meta, res):
        if r.error:
            if not str(r.stage).startswith("c-"):
                dis += 1
                ctx.violation(f"tags:codegen-fails-when-tagged:{r.error_class}:{_short(r.error)}", f"{label}: {r.error[:300]}",
                              {"case": label})
            continue
        got = r.outputs[0].get("o")
        if got is None or not close(got, ref):
            dis += 1
            ctx.violation("tags:truthful-AssumeNonNegative-changes-values",
                          f"{label}: generated code gives {None if got is None else np.asarray(got).reshape(-1)[:6].tolist()}…, "
                          f"NumPy {ref.reshape(-1)[:6].tolist()}…", {"case": label})
    ctx.note_batch("truthful-promise-tags(AssumeNonNegative)", cases, dis, exhaustive=True)


def _describe_tags(p):
    from .. import reflect
    out = []
    for n in reflect.walk(p.expr()):
        t = getattr(n, "tags", frozenset())
        names = sorted(type(x).__name__ for x in t if type(x).__name__ not in ("CreatedAt",))
        ax = [sorted(type(x).__name__ for x in a.tags) for a in getattr(n, "axes", ())]
        if names or any(ax):
            out.append((type(n).__name__, names, [a for a in ax if a]))
    return out


def replay(ctx, path):
    print(open(path).read()[:3000])
    run(ctx)
    return ctx.finish()


def batch_force_value_arg(ctx):
    """`ForceValueArgTag` on a scalar placeholder (a tag on an INPUT, where it is allowed): the kernel takes the scalar
    by value instead of through a pointer — same argument name and element type, same outputs bit for bit"""
    import pytato as pt
    from pytato.tags import ForceValueArgTag
    from ..refeval import close, evaluate
    rng = np.random.default_rng(ctx.seed + 7700)
    jobs, meta = [], []
    for dt in ("float32", "float64", "int32", "int64", "int8", "uint16"):
        for xdt in ("float64", "float32", "int32"):
            sval = np.asarray(rng.integers(0 if dt.startswith("u") else -3, 4) + (0.37 if dt.startswith("float") else 0)).astype(dt)
            xval = (rng.integers(-4, 5, size=4) + (0.25 if xdt.startswith("float") else 0)).astype(xdt)
            for tagged in (False, True):
                s = pt.make_placeholder("s", (), np.dtype(dt))
                if tagged:
                    s = s.tagged(ForceValueArgTag())
                x = pt.make_placeholder("x", (4,), np.dtype(xdt))
                e = pt.make_dict_of_named_arrays({"a": x * s + s, "b": pt.sum(x) - s * s, "c": pt.where(pt.greater(x, s), x, s)})
                jobs.append(cexec.Job(tag=f"force-value-arg:{dt}:{xdt}:{tagged}", expr=e, runs=[{"s": sval, "x": xval}],
                                      prep=_prep_dedup))
                meta.append((dt, xdt, tagged, e, {"s": sval, "x": xval}))
    res = cexec.run_jobs(ctx, jobs)
    cases = dis = unsupported = 0
    for k in range(0, len(meta), 2):
        (dt, xdt, _, e0, inp), r0 = meta[k], res[k]
        (_, _, _, e1, _), r1 = meta[k + 1], res[k + 1]
        cases += 1
        desc = {"scalar_dtype": dt, "array_dtype": xdt, "tag": "ForceValueArgTag"}
        if r0.error and str(r0.stage).startswith("c-") or r1.error and str(r1.stage).startswith("c-"):
            unsupported += 1
            # (the executor cannot run it: the generated kernel's interface is still compared below)
        if (r1.error and not str(r1.stage).startswith("c-")) and not (r0.error and not str(r0.stage).startswith("c-")):
            dis += 1
            ctx.violation(f"tags:force-value-arg:codegen-fails-when-tagged:{r1.error_class}",
                          f"scalar {dt}: {r1.stage} fails with the tag only: {str(r1.error)[:200]}", desc)
            continue
        a0, a1 = (r0.arg_info or {}), (r1.arg_info or {})
        if a0 and a1:
            if set(a0) != set(a1):
                dis += 1
                ctx.violation("tags:force-value-arg:argument-names", f"scalar {dt}: kernel arguments {sorted(a1)} with the tag, "
                              f"{sorted(a0)} without", desc)
                continue
            bad = [n for n in a0 if a0[n][1] != a1[n][1]]
            if bad or (a1.get("s") and a1["s"][1] != str(np.dtype(dt))):
                dis += 1
                ctx.violation("tags:force-value-arg:argument-dtype",
                              f"scalar {dt}: with the tag the kernel declares {dict((n, a1[n][1]) for n in a1)}, "
                              f"without {dict((n, a0[n][1]) for n in a0)}", desc)
                continue
        if r0.error or r1.error or not r0.outputs or not r1.outputs:
            continue
        ref = evaluate(e0, inp)
        o0, o1 = r0.outputs[0], r1.outputs[0]
        for nm in ref:
            if nm not in o0 or nm not in o1:
                continue
            if o0[nm].dtype != o1[nm].dtype or o0[nm].shape != o1[nm].shape or not np.array_equal(o0[nm], o1[nm], equal_nan=False):
                dis += 1
                ctx.violation("tags:force-value-arg:value-changed", f"scalar {dt}, array {xdt}: output {nm} is "
                              f"{o1[nm].tolist()} with the tag, {o0[nm].tolist()} without", desc)
                break
            if not close(o1[nm], ref[nm], single="32" in dt + xdt):
                dis += 1
                ctx.violation("tags:force-value-arg:value-wrong", f"scalar {dt}, array {xdt}: output {nm} differs from NumPy", desc)
                break
    ctx.note_batch("force-value-arg-on-scalar-inputs", cases, dis, exhaustive=False, executor_unsupported=unsupported)

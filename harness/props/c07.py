"""C07 — tags carry no semantics; implementation strategies are equivalent.

Metamorphic tie through the real pipeline: every program of C01's generator is
built several times with identical structure and different tag assignments
(ImplStored / ImplInlined / ImplSubstitution / PrefixNamed / fresh Named /
user-defined array, axis and reduction tags on arbitrary subsets of nodes) plus
the untagged build; all variants must expose the same output names, shapes and
dtypes and compute the same values (bit-identical for int/bool, tolerance for
floats since inlining may re-associate) — and the reference values."""
from __future__ import annotations

import random

import numpy as np
from pytools.tag import Tag

from .. import cexec, common
from ..gen import programs
from ..refeval import close, evaluate
from .c01 import _prep_dedup, _short

THEOREMS = ["Pt.lower_roll_correct", "Pt.lower_perm_correct", "Pt.lower_basic_correct"]


class UserArrayTag(Tag):
    pass


class UserAxisTag(Tag):
    pass


class UserRednTag(Tag):
    pass


INPUT_OPS = ("placeholder", "data_wrapper")


def make_tagger(variant_seed: int, density: float):
    import pytato as pt
    from pytato.array import IndexLambda, Einsum, InputArgumentBase
    from pytato.tags import ImplInlined, ImplStored, Named, PrefixNamed
    from pytato.target.loopy import ImplSubstitution
    rng = random.Random(variant_seed)
    stats: dict[str, int] = {}

    def tagger(node, ordinal, op):
        r = random.Random(variant_seed * 100_003 + ordinal)   # per-node decisions independent of order
        if r.random() > density:
            return node
        is_input = isinstance(node, InputArgumentBase)
        choices = ["user", "axis"]
        if not is_input:
            choices += ["stored", "stored", "inlined", "subst", "prefix", "named"]
            if isinstance(node, (IndexLambda, Einsum)):
                choices.append("redn")
        c = r.choice(choices)
        stats[c] = stats.get(c, 0) + 1
        try:
            if c == "user":
                return node.tagged(UserArrayTag())
            if c == "axis":
                if node.ndim == 0:
                    return node
                return node.with_tagged_axis(r.randrange(node.ndim), UserAxisTag())
            if c == "stored":
                return node.tagged(ImplStored())
            if c == "inlined":
                return node.tagged(ImplInlined())
            if c == "subst":
                return node.tagged(ImplSubstitution())
            if c == "prefix":
                return node.tagged(PrefixNamed(r.choice(["tmp", "stage", "acc", "q"])))
            if c == "named":
                # Named yields exactly that name: must be unique in the kernel
                return node.tagged((Named(f"nm{ordinal}_{variant_seed % 1000}"), ImplStored()))
            if c == "redn":
                if isinstance(node, IndexLambda) and node.var_to_reduction_descr:
                    v = sorted(node.var_to_reduction_descr)[0]
                    return node.with_tagged_reduction(v, UserRednTag())
                if isinstance(node, Einsum) and node.redn_axis_to_redn_descr:
                    ax = sorted(node.redn_axis_to_redn_descr, key=lambda a: a.dim)[0]
                    return node.with_tagged_reduction(ax, UserRednTag())
                return node
        except (ValueError, TypeError, NotImplementedError) as e:
            stats[f"rejected:{c}:{type(e).__name__}"] = stats.get(f"rejected:{c}:{type(e).__name__}", 0) + 1
            return node
        return node
    tagger.stats = stats
    return tagger


def run(ctx: common.Ctx):
    ctx.assumptions += [
        "as C01: loopy C target + gcc execute the kernels; executed, not verified",
        "AssumeNonNegative is not an admissible tag here (a user promise lowering exploits)",
    ]
    ctx.lean_obligations("PtProofs.C02", THEOREMS)
    from .c01 import THEOREMS_KERNEL
    ctx.lean_obligations("PtProofs.C01", THEOREMS_KERNEL)
    nprog = 600 if ctx.thorough else 90
    nvar = 6 if ctx.thorough else 3
    nprng = np.random.default_rng(ctx.seed * 17 + 7)
    jobs, meta = [], []
    allstats: dict[str, int] = {}
    for i in range(nprog):
        base = programs.generate(ctx.seed + 700, i)
        runs = [base.make_inputs(nprng)]
        variants = [("untagged", base)]
        for v in range(nvar):
            tg = make_tagger(ctx.seed * 1000 + i * 10 + v, density=[0.25, 0.5, 0.9, 0.15, 0.7, 1.0][v % 6])
            pv = programs.generate(ctx.seed + 700, i, tagger=tg)
            for k, n in tg.stats.items():
                allstats[k] = allstats.get(k, 0) + n
            variants.append((f"v{v}", pv))
        for vn, pv in variants:
            jobs.append(cexec.Job(tag=f"p{i}:{vn}", expr=pv.expr(), runs=runs, prep=_prep_dedup,
                                  kir_orders=2, kir_seed=ctx.seed + i, want_wire=True))
            meta.append((i, vn, pv, runs, base))
    results = cexec.run_jobs(ctx, jobs)
    dis = 0
    base_out: dict[int, dict] = {}
    base_ref: dict[int, dict] = {}
    for (i, vn, pv, runs, base), res in zip(meta, results):
        if vn == "untagged":
            base_out[i] = None if res.error else res.outputs[0]
            try:
                base_ref[i] = evaluate(base.expr(), runs[0])
            except Exception as e:   # noqa: BLE001
                ctx.broken.append(f"refeval:{type(e).__name__}:program{i}")
                base_ref[i] = None
    unsupported: dict[str, int] = {}
    for (i, vn, pv, runs, base), res in zip(meta, results):
        # structure must be identical up to tags
        if list(pv.outputs) != list(base.outputs) or any(
                tuple(pv.outputs[k].shape) != tuple(base.outputs[k].shape)
                or pv.outputs[k].dtype != base.outputs[k].dtype for k in base.outputs):
            dis += 1
            ctx.violation("tags:output-metadata-changed",
                          f"program {i} variant {vn}: output names/shapes/dtypes differ from the untagged build",
                          {"program_index": i, "variant": vn, "seed": ctx.seed})
            continue
        if res.error:
            if str(res.stage).startswith("c-"):
                key = f"{res.stage}:{res.error_class}:{_short(res.error)}"
                unsupported[key] = unsupported.get(key, 0) + 1
                continue
            # code generation fails for the tagged variant only?
            b = [r for (j, v2, *_), r in zip(meta, results) if j == i and v2 == "untagged"][0]
            if vn != "untagged" and not b.error:
                dis += 1
                ctx.violation(f"tags:codegen-fails-when-tagged:{res.error_class}:{_short(res.error)}",
                              f"program {i} variant {vn}: {res.stage} failed although the untagged program "
                              f"generates fine: {res.error[:300]}",
                              {"program_index": i, "variant": vn, "seed": ctx.seed, "error": res.error,
                               "tags": _describe_tags(pv)})
            elif vn == "untagged":
                dis += 1
                ctx.violation(f"loopy:{res.stage}:{res.error_class}:{_short(res.error)}",
                              f"program {i} (untagged): {res.stage} failed: {res.error[:300]}",
                              {"program_index": i, "seed": ctx.seed, "error": res.error})
            continue
        out = res.outputs[0]
        ref = base_ref.get(i)
        for name, node in base.outputs.items():
            size0 = int(np.prod(tuple(int(d) for d in node.shape))) == 0
            if name not in out:
                if size0:
                    continue
                dis += 1
                ctx.violation("tags:missing-output", f"program {i} variant {vn}: output {name} missing",
                              {"program_index": i, "variant": vn, "seed": ctx.seed})
                continue
            got = out[name]
            if ref is not None and not close(got, ref[name], single=base.uses_single()):
                dis += 1
                ctx.violation("tags:value-differs-from-reference" if vn != "untagged" else "loopy:value-mismatch",
                              f"program {i} variant {vn} output {name}: value differs from the reference",
                              {"program_index": i, "variant": vn, "seed": ctx.seed, "output": name,
                               "observed": np.asarray(got).tolist(), "expected": np.asarray(ref[name]).tolist(),
                               "tags": _describe_tags(pv)})
                continue
            b = base_out.get(i)
            if b is not None and name in b and not close(got, b[name], single=base.uses_single()):
                dis += 1
                ctx.violation("tags:value-differs-from-untagged",
                              f"program {i} variant {vn} output {name}: tagged and untagged builds disagree",
                              {"program_index": i, "variant": vn, "seed": ctx.seed, "output": name,
                               "tags": _describe_tags(pv)})
        if i % 30 == 0 and vn == "v0":
            ctx.sample({"batch": "tag-variants", "program": i, "variant": vn, "tags": _describe_tags(pv)[:8]})
    # every variant's kernel through the kernel read-back (random dependency-respecting orders) and the
    # verified static check of the Lean kernel model
    from .c01_kernel import check_readback, lean_queries
    kq, kown = [], []
    kdis = kn = 0
    for (i, vn, pv, runs, base), res in zip(meta, results):
        if res.error and not str(res.stage).startswith("c-"):
            continue
        if res.kir is None:
            continue
        kn += 1
        kdis += check_readback(ctx, f"tags[{vn != 'untagged' and 'tagged' or 'untagged'}]", pv, runs, res)
        qs = lean_queries(pv, runs, res)
        if qs:
            kown.append((i, vn, len(kq)))
            kq.append(qs[0])
    kans = common.driver_query_parallel(kq)
    for (i, vn, pos) in kown:
        if kans[pos] != "ok #t":
            kdis += 1
            ctx.violation("tags:checkKernel-fails",
                          f"program {i} variant {vn}: the generated kernel fails the verified static check "
                          "(single assignment / dependency completeness)", {"program_index": i, "variant": vn,
                                                                            "seed": ctx.seed})
    ctx.note_batch("kernel-readback+checkKernel-of-all-variants", kn, kdis, exhaustive=False)
    ctx.coverage["executor_unsupported"] = unsupported
    ctx.note_batch("tag-variants-vs-untagged-vs-reference", len(jobs), dis, exhaustive=False,
                   programs=nprog, variants_per_program=nvar + 1, tag_kinds_applied=allstats)
    ctx.broken = sorted(set(ctx.broken))[:50]


def _describe_tags(p):
    from .. import reflect
    out = []
    for n in reflect.walk(p.expr()):
        t = getattr(n, "tags", frozenset())
        names = sorted(type(x).__name__ for x in t if type(x).__name__ not in ("CreatedAt",))
        ax = [sorted(type(x).__name__ for x in a.tags) for a in getattr(n, "axes", ())]
        if names or any(ax):
            out.append((type(n).__name__, names, [a for a in ax if a]))
    return out


def replay(ctx, path):
    print(open(path).read()[:3000])
    run(ctx)
    return ctx.finish()

"""C07 — implementation and naming tags on a node that is reached more than once.

Property clause: "adding ... any tags on arrays (including the stored / inlined /
substitution implementation strategies and naming tags) changes neither the result
nor any computed value".  The code generator is not a caching mapper: that a node
is generated once, and asked for its name once, is something each branch of the
implementation-tag dispatch has to see to itself.  Whether it does only shows on a
node with several consumers.

  family   node kinds (element-wise, reduction, einsum, reshape/transposition)
           x  implementation tag: none / ImplStored / ImplInlined / ImplSubstitution
           x  name tag: none / Named(fresh name) / PrefixNamed
           x  how the node is consumed: once (control), by two consumers, twice by
              one consumer, diamond, x and x.T, three paths, inside a reduction and
              outside, next to a stored consumer, deep and shallow; as an output
              only (control), as an output and by a consumer, by two outputs
  oracle   tagged == untagged == NumPy; or a diagnostic — which then is the SAME
           for every way of consuming the node as for the control with the same
           tags (a fresh Named name is taken by nothing else, so "the name is in
           use" can never be the node's own doing).
"""
from __future__ import annotations

import numpy as np

from .. import cexec
from ..refeval import close, evaluate
from .c01 import _prep_dedup, _short


def node_kinds():
    import pytato as pt
    m = _m()
    c = pt.make_placeholder("c", (2, 3, 3), np.float64)
    return {
        "elementwise": lambda: m * 2 + 1,
        "reduction": lambda: pt.sum(c * c, axis=0),
        "einsum": lambda: m @ m,
        "reshape-transpose": lambda: pt.reshape(m.T, (9,)).reshape(3, 3),
    }


INPUTS = {"m": np.arange(9.0).reshape(3, 3) - 2.5, "c": (np.arange(18.0).reshape(2, 3, 3) % 5) - 1.5}


def consumptions():
    """name -> (group, t -> outputs)"""
    import pytato as pt
    from pytato.tags import ImplStored
    return {
        "once": ("inner", lambda t: {"o": t * 2}),
        "two-consumers": ("inner", lambda t: {"o": (t * 2) + (t + 1)}),
        "twice-by-one-consumer": ("inner", lambda t: {"o": t * t}),
        "diamond": ("inner", lambda t: {"o": pt.sin(t) + pt.cos(t)}),
        "with-its-transpose": ("inner", lambda t: {"o": t + t.T}),
        "three-paths": ("inner", lambda t: {"o": t + t * 2 + pt.sin(t)}),
        "inside-and-outside-a-reduction": ("inner", lambda t: {"o": pt.sum(t, axis=0) + t[0]}),
        "next-to-a-stored-consumer": ("inner", lambda t: {"o": (t * 2).tagged(ImplStored()) + t}),
        "deep-and-shallow": ("inner", lambda t: {"o": pt.sin(pt.sin(t)) + t}),
        "two-outputs": ("inner", lambda t: {"oa": t * 2, "ob": t + 1}),
        # consumed as argument(s) of a loopy call (a computed argument is stored for the call)
        "loopy-call-argument": ("loopy", lambda t: {"o": _axpy(t, _m())}),
        "two-arguments-of-one-loopy-call": ("loopy", lambda t: {"o": _axpy(t, t)}),
        "arguments-of-two-loopy-calls": ("loopy", lambda t: {"o": _axpy(t, _m()) + _axpy(_m() - 7, t)}),
        "argument-of-a-call-on-the-result-of-a-call": ("loopy", lambda t: {"o": _axpy(_axpy(t, t), t)}),
        "loopy-call-argument-and-plain-consumer": ("loopy", lambda t: {"o": _axpy(t, _m()) + t}),
        "output-only": ("output", lambda t: {"oa": t}),
        "output-and-consumer": ("output", lambda t: {"oa": t, "ob": t + 1}),
        "output-and-two-consumers": ("output", lambda t: {"oa": t, "ob": t + 1, "oc": t * t.T}),
        "output-twice": ("output", lambda t: {"oa": t, "ob": t}),
    }


CONTROL = {"inner": "once", "output": "output-only", "loopy": "loopy-call-argument"}


_M = []


def _m():
    """THE placeholder m (one object: call_loopy's own checks refuse equal-but-distinct inputs)"""
    import pytato as pt
    if not _M:
        _M.append(pt.make_placeholder("m", (3, 3), np.float64))
    return _M[0]


_KNL = []


def _axpy(x, z):
    """y = x + 2 z through a loopy call"""
    import loopy as lp
    from pytato.loopy import call_loopy
    if not _KNL:
        _KNL.append(lp.make_kernel(
            "{[i, j]: 0<=i<3 and 0<=j<3}", "y[i, j] = x[i, j] + 2*z[i, j]",
            [lp.GlobalArg("x", dtype=np.float64, shape=(3, 3)), lp.GlobalArg("z", dtype=np.float64, shape=(3, 3)),
             lp.GlobalArg("y", dtype=np.float64, shape=(3, 3), is_output=True)],
            name="axpy", lang_version=lp.MOST_RECENT_LANGUAGE_VERSION))
    return call_loopy(_KNL[0], {"x": x, "z": z}, "axpy")["y"]


def tag_sets():
    from pytato.tags import ImplInlined, ImplStored, Named, PrefixNamed
    from pytato.target.loopy import ImplSubstitution
    impl = {"none": (), "stored": (ImplStored(),), "inlined": (ImplInlined(),), "subst": (ImplSubstitution(),)}
    name = {"none": (), "named": (Named("fresh_nm"),), "prefix": (PrefixNamed("pre"),)}
    return {(i, n): ti + tn for i, ti in impl.items() for n, tn in name.items()}


def batch_shared_tagged_nodes(ctx):
    import pytato as pt
    kinds = node_kinds()
    cons = consumptions()
    tags = tag_sets()
    # quick tier: two of the four kinds (an element-wise node and a reduction)
    kinds_for = (lambda tg: list(kinds)) if ctx.thorough else (lambda tg: ["elementwise", "reduction"])   # noqa: E731
    jobs, meta = [], []
    for tg, tset in tags.items():
        for kname in kinds_for(tg):
            for cname, (group, build) in cons.items():
                if group == "loopy" and not ctx.thorough and kname != "elementwise":
                    continue        # quick tier: loopy-call consumers on one node kind
                t = kinds[kname]()
                if tset:
                    t = t.tagged(tset)
                e = pt.make_dict_of_named_arrays(build(t))
                jobs.append(cexec.Job(tag=f"shared:{kname}:{tg[0]}+{tg[1]}:{cname}", expr=e, runs=[INPUTS],
                                      prep=_prep_dedup))
                meta.append((kname, tg, cname, group, e))
    res = cexec.run_jobs(ctx, jobs)
    outcome: dict[tuple, str] = {}
    detail: dict[tuple, str] = {}
    dis = 0
    reported = set()
    for (kname, tg, cname, group, e), r in zip(meta, res):
        key = (kname, tg, cname)
        if r.error:
            if str(r.stage).startswith("c-"):
                outcome[key] = "executor"
                continue
            outcome[key] = f"error:{r.error_class}:{_short(r.error)}"
            detail[key] = f"{r.stage}: {r.error[:240]}"
            continue
        refs = evaluate(e, INPUTS)
        bad = [k for k in refs if r.outputs[0].get(k) is None or not close(r.outputs[0][k], refs[k])]
        outcome[key] = "ok" if not bad else "wrong-value"
        if bad:
            dis += 1
            sig = "tags:value-differs-from-reference"
            if sig not in reported:
                reported.add(sig)
                ctx.violation(sig, f"{kname} node tagged {tg[0]}+{tg[1]}, consumed {cname}: outputs {bad} differ from NumPy",
                              {"batch": "shared", "kind": kname, "tags": list(tg), "consumption": cname})
    diagnostics: dict[str, int] = {}
    for (kname, tg, cname, group, e) in meta:
        key = (kname, tg, cname)
        ctl = outcome.get((kname, tg, CONTROL[group]))
        got = outcome[key]
        if got == "wrong-value" or ctl in (None, "wrong-value"):
            continue
        # (what the C executor cannot run has still been GENERATED by the real target: judged as generating)
        gen = lambda o: "ok" if o == "executor" else o   # noqa: E731
        got, ctl = gen(got), gen(ctl)
        if tg == ("none", "none"):
            if got != "ok":
                ctx.broken.append(f"c07-shared:{kname}:{cname}:untagged-fails:{got[:60]}")
            continue
        if outcome.get((kname, ("none", "none"), cname)) not in ("ok", "executor"):
            continue
        if got.startswith("error") and got == ctl:
            diagnostics[f"{tg[0]}+{tg[1]}: {got}"] = diagnostics.get(f"{tg[0]}+{tg[1]}: {got}", 0) + 1
            continue
        if got == ctl:
            continue
        dis += 1
        cls = (got if got.startswith("error") else ctl).split(":")[1]
        sig = f"tags:outcome-depends-on-how-the-node-is-consumed:{tg[0]}+{tg[1]}:{cls}"
        if sig in reported:
            continue
        reported.add(sig)
        ctx.violation(sig,
                      f"a {kname} node tagged {tg[0]}+{tg[1]}: consumed `{CONTROL[group]}` -> {ctl}; consumed `{cname}` -> "
                      f"{got} ({detail.get(key) or detail.get((kname, tg, CONTROL[group]), '')}); the untagged program "
                      "generates and computes the right values either way",
                      {"batch": "shared", "kind": kname, "tags": list(tg), "consumption": cname,
                       "control": CONTROL[group], "outcomes": {"control": ctl, "this": got}})
    ctx.note_batch("tags-on-nodes-with-several-consumers", len(jobs), dis, exhaustive=True,
                   kinds=len(kinds), consumptions=len(cons), tag_pairs=len(tags),
                   ok=sum(1 for v in outcome.values() if v == "ok"),
                   consistent_diagnostics=diagnostics,
                   executor_unsupported=sum(1 for v in outcome.values() if v == "executor"))

"""C01 — code generated for the loopy target computes what NumPy computes.

Theorems: stage A (lowering of every high-level node, PtProofs/C02.lean) and the
kernel-level theorems of PtProofs/C01.lean (see there).  Tie: for seeded
programs over the whole public API the real `generate_loopy` output is
(i) serialised and checked/executed by the Lean kernel model, (ii) compiled with
loopy's C target + gcc and executed; outputs are compared with the independent
reference evaluator (NumPy + pointwise index-lambda interpreter), declared
shapes/dtypes with the kernel arguments, and the code generated for permuted
output/operand orders with the original."""
from __future__ import annotations

import numpy as np

from .. import cexec, common
from ..gen import programs
from ..refeval import close, evaluate

THEOREMS_A = ["Pt.lower_roll_correct", "Pt.lower_perm_correct", "Pt.lower_basic_correct",
              "Pt.lower_stack_correct", "Pt.lower_concat_correct", "Pt.lower_reshape_correct_C",
              "Pt.lower_reshape_correct_F", "Pt.slice_indices_inbounds"]


THEOREMS_KERNEL = ["Pt.eval_congr", "Pt.evalList_congr", "Pt.execStmt_frame", "Pt.execStmt_congr",
                   "Pt.execStmt_lhs_congr", "Pt.schedule_independent_abstract", "Pt.checkKernel_sound",
                   "Pt.checked_kernel_schedule_independent", "Pt.checked_kernel_any_schedule"]


# the statement generator model (lean/PtModel/LoopyGen.lean), tied to the real generator statement by statement
# (batch lean-statement-generator-model-vs-real-kernel)
THEOREMS_GEN = ["Pt.LG.loopygen_sound_partial", "Pt.LG.loopygen_checks_partial",
                "Pt.LG.loopygen_sound_partial_any_schedule", "Pt.LG.fragment_check_sound",
                "Pt.LG.loopygen_sound_fragment", "Pt.LG.gen_sound", "Pt.LG.execStmt_store"]
# … with reductions (a chain of reductions with constant bounds at the root of an index lambda with axes)
THEOREMS_GEN_RED = ["Pt.LG.loopygen_sound_red_partial", "Pt.LG.loopygen_checks_red_partial",
                    "Pt.LG.loopygen_sound_red_partial_any_schedule", "Pt.LG.loopygen_sound_fragmentR",
                    "Pt.LG.fragment_check_soundR", "Pt.LG.chain_eval", "Pt.LG.genR_sound", "Pt.LG.execStmt_storeL"]


def _prep_dedup(expr):
    import pytato as pt
    return pt.transform.deduplicate(expr)


def build_jobs(ctx, nprog, cfg=None, seed_off=0, runs_per=1, **jobkw):
    progs, jobs = [], []
    nprng = np.random.default_rng(ctx.seed * 31 + 1 + seed_off)
    for i in range(nprog):
        p = programs.generate(ctx.seed + seed_off, i, cfg)
        runs = [p.make_inputs(nprng) for _ in range(runs_per)]
        progs.append((p, runs))
        jobs.append(cexec.Job(tag=f"p{i}", expr=p.expr(), runs=runs, prep=_prep_dedup, **jobkw))
    return progs, jobs


def _short(err: str) -> str:
    """stable short form of an error message (numbers and names removed)"""
    import re
    first = (err or "").split("\n")[0]
    first = re.sub(r"'[^']*'", "'_'", first)
    first = re.sub(r"\d+", "N", first)
    return first[:70]


def _strip_sig(src: str) -> str:
    """kernel body without the signature line (argument order follows the caller's dict)"""
    return "\n".join(l for l in (src or "").split("\n") if not l.startswith("void "))


def _c_bitwise_next_to_comparison(src: str) -> str | None:
    """loopy's C printer keeps Python's operator precedence: Comparison(BitwiseXor(a, b), ">=", c) is printed as
    `a ^ b >= c`, which C parses as a ^ (b >= c); a comparison that is the operand of a comparison is printed
    `0 > x > 0.0f`.  Returns the offending statement if the generated source contains a bitwise operator and a
    comparison, or two comparisons, at one parenthesis depth of one expression."""
    import re
    for line in (src or "").split("\n"):
        if "=" not in line or line.lstrip().startswith(("for", "if", "#", "__kernel", "void", "}")):
            continue
        rhs = line.split("=", 1)[1]
        depth = 0
        seen: dict[int, set] = {}
        i = 0
        while i < len(rhs):
            ch = rhs[i]
            two = rhs[i:i + 2]
            if ch == "(" or ch == "[":
                depth += 1
                seen.pop(depth, None)
            elif ch == ")" or ch == "]":
                seen.pop(depth, None)
                depth -= 1
            elif two in ("&&", "||"):
                seen.pop(depth, None)
                i += 1
            elif ch in "?:,;":
                seen.pop(depth, None)
            elif two in ("<=", ">=", "==", "!=") or (ch in "<>" and two not in ("<<", ">>")):
                if "cmp" in seen.get(depth, set()):
                    # `0 > x > 0.0f` for Comparison(0, ">", Comparison(x, ">", 0)): C parses it left to right
                    return line.strip()[:200]
                seen.setdefault(depth, set()).add("cmp")
                if two in ("<=", ">=", "==", "!="):
                    i += 1
            elif two in ("<<", ">>"):
                i += 1
            elif ch in "&|^":
                seen.setdefault(depth, set()).add("bit")
            if seen.get(depth) == {"cmp", "bit"}:
                return line.strip()[:200]
            i += 1
    return None


def compare_outputs(ctx, prop_sig, p, runs, res, extra=None):
    """returns number of disagreements; reports violations"""
    dis = 0
    if res.error:
        if cexec.POWER_ZERO_MARK in res.error:
            ctx.violation("loopy-c-printer:power-zero-folded-to-integer-literal",
                          f"program {p.index} (seed {ctx.seed}): the kernel applies isnan to `x**0`; loopy's C printer prints "
                          f"the power as the integer literal 1 and `isnan(1)` does not compile",
                          {"program_index": p.index, "seed": ctx.seed, "ops": p.ops, **(extra or {})})
            return 1
        if cexec.IF_CONDITION_MARK in res.error:
            ctx.violation("loopy-type-inference:if-with-inexact-condition",
                          f"program {p.index} (seed {ctx.seed}): `%` / `//` applied to an integer where() whose condition is a "
                          f"floating-point array: loopy infers the conditional as floating point and refuses the operator",
                          {"program_index": p.index, "seed": ctx.seed, "ops": p.ops, **(extra or {})})
            return 1
        if res.stage in ("c-generate", "c-compile", "c-run") :
            # loopy's *C target* (our stand-in executor) cannot handle this kernel although OpenCL code
            # generation succeeded: an executor limitation, not a property violation; counted
            key = f"{res.stage}:{res.error_class}:{_short(res.error)}"
            ctx.coverage.setdefault("executor_unsupported", {})
            ctx.coverage["executor_unsupported"][key] = ctx.coverage["executor_unsupported"].get(key, 0) + 1
            return 0
        ctx.violation(f"{prop_sig}:{res.stage}:{res.error_class}:{_short(res.error)}",
                      f"program {p.index} (seed {ctx.seed}): {res.stage} failed: {res.error[:400]}",
                      {"program_index": p.index, "seed": ctx.seed, "stage": res.stage, "error": res.error,
                       "ops": p.ops, **(extra or {})})
        return 1
    expr = p.expr()
    for run, out in zip(runs, res.outputs):
        try:
            ref = evaluate(expr, run)
        except Exception as e:   # noqa: BLE001
            ctx.broken.append(f"refeval:{type(e).__name__}:{str(e)[:80]}:program{p.index}")
            dis += 1
            continue
        for name, node in p.outputs.items():
            exp = ref[name]
            if name not in out and int(np.prod(tuple(int(d) for d in node.shape))) == 0:
                continue   # zero-size output: the executor drops arguments no instruction touches
            if name not in out:
                dis += 1
                ctx.violation(f"{prop_sig}:missing-output", f"program {p.index}: output {name} missing",
                              {"program_index": p.index, "seed": ctx.seed})
                continue
            got = out[name]
            decl_shape = tuple(int(d) for d in node.shape)
            if got.shape != decl_shape or got.dtype != node.dtype:
                dis += 1
                ctx.violation(f"{prop_sig}:declared-shape-dtype",
                              f"program {p.index}: output {name} has {got.shape}/{got.dtype}, "
                              f"declared {decl_shape}/{node.dtype}",
                              {"program_index": p.index, "seed": ctx.seed})
                continue
            if not close(got, exp, single=p.uses_single()):
                dis += 1
                stmt = _c_bitwise_next_to_comparison(getattr(res, "source", None) or "")
                if stmt:
                    # the kernel pytato built is right (its instruction-level interpretation is checked separately);
                    # loopy prints it with Python's precedence
                    ctx.violation("loopy-c-printer:operand-of-comparison-not-parenthesized",
                                  f"program {p.index} (seed {ctx.seed}) output {name}: loopy prints the kernel expression as "
                                  f"`{stmt}` — in C the comparison binds tighter than & ^ |, the kernel means the opposite",
                                  {"program_index": p.index, "seed": ctx.seed, "output": name, "statement": stmt,
                                   "ops": p.ops, **(extra or {})})
                    continue
                ctx.violation(f"{prop_sig}:value-mismatch",
                              f"program {p.index} (seed {ctx.seed}) output {name}: generated code differs from "
                              f"the reference (ops {sorted(set(p.ops))})",
                              {"program_index": p.index, "seed": ctx.seed, "output": name,
                               "observed": np.asarray(got).tolist(), "expected": np.asarray(exp).tolist(),
                               "inputs": {k: np.asarray(v).tolist() for k, v in run.items()},
                               "ops": p.ops, **(extra or {})})
    return dis


def _special_values_cfg():
    return programs.Config(families=("arith", "compare", "where", "math", "remap", "index", "like"),
                           dtypes=("float64", "float32", "int32", "int64"), allow_zero_size=False)


def batch_special_values(ctx):
    """'every set of input values': elementwise programs (no reductions / contractions / casts, whose NaN
    conventions are a matter of the C library) on inputs containing NaN, +-inf and -0.0: NaN positions and all other
    values as NumPy's"""
    n = 500 if ctx.thorough else 90
    cfg = _special_values_cfg()
    nprng = np.random.default_rng(ctx.seed * 7 + 19)
    progs, jobs = [], []
    for i in range(n):
        p = programs.generate(ctx.seed + 1900, i, cfg)
        runs = []
        for _ in range(2):
            inp = p.make_inputs(nprng)
            for k, v in inp.items():
                if v.dtype.kind == "f" and v.size:
                    v = v.copy()
                    flat = v.reshape(-1)
                    m = nprng.random(flat.size)
                    flat[m < 0.18] = np.nan
                    flat[(m >= 0.18) & (m < 0.26)] = np.inf
                    flat[(m >= 0.26) & (m < 0.32)] = -np.inf
                    flat[(m >= 0.32) & (m < 0.38)] = -0.0
                    inp[k] = v
            runs.append(inp)
        progs.append((p, runs))
        jobs.append(cexec.Job(tag=f"sv{i}", expr=p.expr(), runs=runs, prep=_prep_dedup, want_source=True))
    res = cexec.run_jobs(ctx, jobs)
    dis = 0
    ops: dict[str, int] = {}
    with np.errstate(all="ignore"):
        for (p, runs), r in zip(progs, res):
            for o in set(p.ops):
                ops[o] = ops.get(o, 0) + 1
            dis += compare_outputs(ctx, "loopy-special-values", p, runs, r, extra={"stream": "special-values"})
    ctx.note_batch("special-values(NaN,inf,-0.0)", n, dis, exhaustive=False, constructor_counts=ops)


def batch_special_value_table(ctx):
    """every elementwise API function x every pair of value classes (NaN, +inf, -inf, -0.0, 0.0, finite +-) in
    both operand positions, also against scalars: one kernel per function, the inputs enumerate all pairs"""
    import pytato as pt
    vals = np.array([np.nan, np.inf, -np.inf, -0.0, 0.0, 1.5, -2.0, 0.25])
    xa, ya = [a.reshape(-1).copy() for a in np.meshgrid(vals, vals, indexing="ij")]
    x = pt.make_placeholder("x", xa.shape, np.float64)
    y = pt.make_placeholder("y", ya.shape, np.float64)
    fns = {"maximum": pt.maximum, "minimum": pt.minimum, "add": lambda a, b: a + b, "sub": lambda a, b: a - b,
           "mul": lambda a, b: a * b, "truediv": lambda a, b: a / b, "less": pt.less, "less_equal": pt.less_equal,
           "greater": pt.greater, "greater_equal": pt.greater_equal, "equal": pt.equal, "not_equal": pt.not_equal,
           "where-cond": lambda a, b: pt.where(a, b, 7.0), "where-less": lambda a, b: pt.where(pt.less(a, b), a, b),
           "logical_and": pt.logical_and, "logical_or": pt.logical_or, "arctan2": pt.arctan2}
    unary = {"abs": pt.abs, "sqrt": pt.sqrt, "exp": pt.exp, "log": pt.log, "sin": pt.sin, "cos": pt.cos, "tanh": pt.tanh,
             "isnan": pt.isnan, "neg": lambda a: -a, "square": lambda a: a * a, "pow2": lambda a: a ** 2,
             "pow0": lambda a: a ** 0, "logical_not": pt.logical_not, "arctan": pt.arctan}
    npf = {"maximum": np.maximum, "minimum": np.minimum, "add": np.add, "sub": np.subtract, "mul": np.multiply,
           "truediv": np.true_divide, "less": np.less, "less_equal": np.less_equal, "greater": np.greater,
           "greater_equal": np.greater_equal, "equal": np.equal, "not_equal": np.not_equal,
           "where-cond": lambda a, b: np.where(a, b, 7.0), "where-less": lambda a, b: np.where(np.less(a, b), a, b),
           "logical_and": np.logical_and, "logical_or": np.logical_or, "arctan2": np.arctan2,
           "abs": np.abs, "sqrt": np.sqrt, "exp": np.exp, "log": np.log, "sin": np.sin, "cos": np.cos, "tanh": np.tanh,
           "isnan": np.isnan, "neg": np.negative, "square": np.square, "pow2": lambda a: a ** 2, "pow0": lambda a: a ** 0,
           "logical_not": np.logical_not, "arctan": np.arctan}
    jobs, meta = [], []
    inp = {"x": xa, "y": ya}
    for nm, f in fns.items():
        for variant, e in (("xy", lambda: f(x, y)), ("yx", lambda: f(y, x)), ("x-scalar", lambda: f(x, 0.25)),
                           ("scalar-x", lambda: f(0.25, x)), ("x-nan", lambda: f(x, float("nan"))),
                           ("inf-x", lambda: f(float("inf"), x))):
            try:
                node = e()
            except Exception:   # noqa: BLE001
                continue
            if not isinstance(node, pt.Array):
                continue
            jobs.append(cexec.Job(tag=f"svt:{nm}:{variant}", expr=pt.make_dict_of_named_arrays({"o": node}), runs=[inp],
                                  prep=_prep_dedup))
            meta.append((nm, variant, node))
    for nm, f in unary.items():
        try:
            node = f(x)
        except Exception:   # noqa: BLE001
            continue
        jobs.append(cexec.Job(tag=f"svt:{nm}", expr=pt.make_dict_of_named_arrays({"o": node}), runs=[inp], prep=_prep_dedup))
        meta.append((nm, "x", node))
    res = cexec.run_jobs(ctx, jobs)
    dis = 0
    with np.errstate(all="ignore"):
        for (nm, variant, node), r in zip(meta, res):
            if r.error:
                if not str(r.stage).startswith("c-"):
                    dis += 1
                    ctx.violation(f"loopy-special-values:{r.stage}:{r.error_class}:{_short(r.error)}",
                                  f"{nm} ({variant}): {r.stage} failed: {r.error[:300]}", {"function": nm, "variant": variant})
                continue
            ref = evaluate(pt.make_dict_of_named_arrays({"o": node}), inp)["o"]
            # the API function applied by NumPy itself (the graph evaluation above follows pytato's own
            # decomposition of e.g. minimum into where/isnan and cannot see a wrong decomposition)
            if nm in npf:
                a = {"xy": (xa, ya), "yx": (ya, xa), "x-scalar": (xa, 0.25), "scalar-x": (0.25, xa),
                     "x-nan": (xa, float("nan")), "inf-x": (float("inf"), xa), "x": (xa,)}[variant]
                direct = np.asarray(npf[nm](*a))
                if not close(direct.astype(ref.dtype), ref):
                    ctx.violation(f"loopy-special-values:api-decomposition:{nm}",
                                  f"{nm} ({variant}): the graph pytato builds for it does not denote NumPy's {nm} on "
                                  f"special values", {"function": nm, "variant": variant,
                                                      "graph": ref.tolist(), "numpy": direct.tolist()})
                    dis += 1
                    continue
            got = r.outputs[0].get("o")
            if got is None or not close(got, ref):
                bad = [] if got is None else [i for i in range(ref.size)
                                              if not close(np.asarray(got).reshape(-1)[i], ref.reshape(-1)[i])]
                dis += 1
                ctx.violation(f"loopy-special-values:table:{nm}",
                              f"{nm} ({variant}) differs from NumPy at value pairs "
                              f"{[(float(xa[i]), float(ya[i])) for i in bad[:4]]}: generated code gives "
                              f"{[float(np.asarray(got).reshape(-1)[i]) for i in bad[:4]] if got is not None else None}, "
                              f"NumPy {[float(ref.reshape(-1)[i]) for i in bad[:4]]}",
                              {"function": nm, "variant": variant, "positions": bad[:20]})
    ctx.note_batch("special-value-table(function x value-class pairs)", len(jobs), dis, exhaustive=True,
                   value_classes=[str(v) for v in vals])


def _num_close(got, ref, exact=False, single=False):
    """value comparison across (recorded) dtype deviations: both sides as complex/float"""
    got, ref = np.asarray(got), np.asarray(ref)
    if got.shape != ref.shape:
        return False
    if exact and got.dtype.kind in "biu" and ref.dtype.kind in "biu":
        return bool(np.array_equal(got.astype(np.int64), ref.astype(np.int64)))
    single = single or any(d in (np.dtype("float32"), np.dtype("complex64")) for d in (got.dtype, ref.dtype))
    with np.errstate(all="ignore"):
        return close(got.astype(np.complex128) if got.dtype.kind == "c" or ref.dtype.kind == "c" else got.astype(np.float64),
                     ref.astype(np.complex128) if got.dtype.kind == "c" or ref.dtype.kind == "c" else ref.astype(np.float64),
                     exact=False, single=single)


def batch_api_table(ctx):
    """the public array API function by function against the NumPy function of the same meaning
    (harness/apitable.py): (1) the graph pytato builds, evaluated by the reference evaluator, (2) the generated
    loopy code — both vs NumPy applied to the same inputs.  Every other reference follows pytato's own graph."""
    import pytato as pt
    from .. import apitable
    cs = apitable.cases(ctx.seed, ctx.thorough)
    jobs, meta = [], []
    dis = rejected = np_rejects = nchecked = 0
    fam: dict[str, int] = {}
    with np.errstate(all="ignore"):
        for c in cs:
            inp = c["inputs"]
            try:
                ref = np.asarray(c["ref"](**inp))
            except Exception:   # noqa: BLE001
                np_rejects += 1
                continue
            phs = {k: pt.make_placeholder(k, v.shape, v.dtype) for k, v in inp.items()}
            try:
                node = c["build"](**phs)
            except Exception as e:   # noqa: BLE001
                rejected += 1       # what pytato rejects and NumPy accepts is allowed (C03); counted
                ctx.coverage.setdefault("api_table_rejected", {})[c["label"]] = type(e).__name__
                continue
            if not isinstance(node, pt.Array):
                node_val = np.asarray(node)
                if not _num_close(node_val, ref, c.get("exact", False)):
                    dis += 1
                    ctx.violation(f"api-semantics:scalar-result:{c['label'].split(':')[0]}",
                                  f"{c['label']}: pytato returns {node_val!r}, NumPy {ref!r}", {"call": c["label"]})
                continue
            fam[c["family"]] = fam.get(c["family"], 0) + 1
            fn = c["label"].split(":")[0]
            if tuple(int(d) for d in node.shape) != ref.shape:
                dis += 1
                ctx.violation(f"api-semantics:shape:{fn}", f"{c['label']}: pytato infers shape {node.shape}, NumPy gives "
                              f"{ref.shape}", {"call": c["label"]})
                continue
            expr = pt.make_dict_of_named_arrays({"o": node})
            try:
                gv = evaluate(expr, inp)["o"]
            except Exception as e:   # noqa: BLE001
                ctx.broken.append(f"refeval:api-table:{c['label']}:{type(e).__name__}:{str(e)[:60]}")
                continue
            sp = any(np.asarray(v).dtype in (np.dtype("float32"), np.dtype("complex64")) for v in inp.values())
            if not _num_close(gv, ref, c.get("exact", False), single=sp):
                dis += 1
                bad = np.argwhere(~np.isclose(np.asarray(gv, dtype=np.complex128), np.asarray(ref, dtype=np.complex128),
                                              equal_nan=True))[:3].tolist() if gv.shape == ref.shape else []
                ctx.violation(f"api-semantics:graph:{fn}",
                              f"{c['label']}: the graph pytato builds denotes {np.asarray(gv).reshape(-1)[:6].tolist()}…, NumPy's "
                              f"{fn} gives {ref.reshape(-1)[:6].tolist()}… (first differing positions {bad})",
                              {"call": c["label"], "inputs": {k: np.asarray(v).tolist() for k, v in inp.items()},
                               "graph_value": np.asarray(gv).tolist(), "numpy": ref.tolist()})
                continue
            nchecked += 1
            if ctx.thorough or nchecked % 3 == ctx.seed % 3 or c.get("always_execute"):
                # (the generated code vs the graph is what the program streams check; here a third per run)
                jobs.append(cexec.Job(tag=f"api:{c['label']}", expr=expr, runs=[inp], prep=_prep_dedup,
                                      want_source=True))
                meta.append((c, ref))
        res = cexec.run_jobs(ctx, jobs)
        unsupported: dict[str, int] = {}
        for (c, ref), r in zip(meta, res):
            fn = c["label"].split(":")[0]
            if r.error:
                if str(r.stage).startswith("c-"):
                    k = f"{r.stage}:{r.error_class}"
                    unsupported[k] = unsupported.get(k, 0) + 1
                    continue
                if r.error_class == "NotImplementedError" or (r.error_class == "LoopyTypeError"
                                                               and "does not support type" in (r.error or "")):
                    # loopy has no implementation of this function for this operand type (complex asin, isnan …):
                    # outside the fragment loopy can generate code for; the graph semantics was checked above
                    k = f"{r.stage}:{r.error_class}:{fn}"
                    unsupported[k] = unsupported.get(k, 0) + 1
                    continue
                dis += 1
                ctx.violation(f"api-semantics:codegen-fails:{fn}:{r.error_class}",
                              f"{c['label']}: {r.stage} failed: {r.error[:300]}", {"call": c["label"], "error": r.error})
                continue
            got = r.outputs[0].get("o")
            if got is None and ref.size == 0:
                continue
            sp = any(np.asarray(v).dtype in (np.dtype("float32"), np.dtype("complex64")) for v in c["inputs"].values())
            if got is None or not _num_close(got, ref, c.get("exact", False), single=sp):
                dis += 1
                stmt = _c_bitwise_next_to_comparison(getattr(r, "source", None) or "")
                if stmt:
                    ctx.violation("loopy-c-printer:operand-of-comparison-not-parenthesized",
                                  f"{c['label']}: loopy prints the kernel expression as `{stmt}` — in C the comparison binds "
                                  f"tighter than & ^ |, the kernel means the opposite", {"call": c["label"], "statement": stmt})
                    continue
                ctx.violation(f"api-semantics:generated-code:{fn}",
                              f"{c['label']}: generated code gives {None if got is None else np.asarray(got).reshape(-1)[:6].tolist()}…, "
                              f"NumPy {ref.reshape(-1)[:6].tolist()}…",
                              {"call": c["label"], "inputs": {k: np.asarray(v).tolist() for k, v in c["inputs"].items()}})
    ctx.note_batch("api-table-vs-numpy-functions", len(cs), dis, exhaustive=False, families=fam,
                   pytato_rejects=rejected, numpy_rejects=np_rejects, graph_checked=nchecked, executed=len(jobs), executor_unsupported=unsupported)


def batch_loopy_calls(ctx):
    """hand-written loopy kernels called several times: callee kernels that share a NAME but differ, in every order
    (sequences over {K1, K2, K3} of length <= 4): code generation succeeds and every call computes its own kernel"""
    import itertools
    import loopy as lp
    import pytato as pt
    from pytato.loopy import call_loopy
    from pytato.target.loopy import LoopyPyOpenCLTarget
    tgt = LoopyPyOpenCLTarget().get_loopy_target()

    def mk(f, name="loopy_kernel"):
        return lp.make_kernel("{[i]: 0<=i<4}", f"out[i] = {f}*a[i] + {f}",
                              [lp.GlobalArg("a", dtype=np.float64, shape=(4,)),
                               lp.GlobalArg("out", dtype=np.float64, shape=(4,), is_input=False)],
                              name=name, lang_version=(2018, 2), target=tgt)
    K = {1: mk(2), 2: mk(3), 3: mk(5)}
    f = {1: 2.0, 2: 3.0, 3: 5.0}
    xv = np.array([1.0, -2.0, 0.5, 4.0])
    jobs, meta = [], []
    for n in (2, 3, 4):
        for seq in itertools.product((1, 2, 3), repeat=n):
            if len(set(seq)) < 2 or (not ctx.thorough and n == 4 and hash(seq) % 3):
                continue
            x = pt.make_placeholder("x", (4,), np.float64)
            outs = {f"o{j}": call_loopy(K[k], {"a": x + j}, "loopy_kernel")["out"] * 2 for j, k in enumerate(seq)}
            jobs.append(cexec.Job(tag=f"lc{seq}", expr=pt.make_dict_of_named_arrays(outs), runs=[{"x": xv}], prep=_prep_dedup))
            meta.append(seq)
    res = cexec.run_jobs(ctx, jobs)
    dis = executed = 0
    unsupported: dict[str, int] = {}
    for seq, r in zip(meta, res):
        if r.error:
            if str(r.stage).startswith("c-"):
                k = f"{r.stage}:{r.error_class}"
                unsupported[k] = unsupported.get(k, 0) + 1
                continue
            dis += 1
            ctx.violation(f"loopy-calls:{r.stage}:{r.error_class}:{_short(r.error)}",
                          f"calls of the kernels {seq} (all named 'loopy_kernel'): {r.stage} failed: {r.error[:300]}",
                          {"sequence": list(seq), "error": r.error})
            continue
        executed += 1
        for j, k in enumerate(seq):
            exp = (f[k] * (xv + j) + f[k]) * 2
            got = r.outputs[0].get(f"o{j}")
            if got is None or not close(got, exp):
                dis += 1
                ctx.violation("loopy-calls:value-mismatch",
                              f"calls of the kernels {seq}: call {j} (kernel K{k}) returns "
                              f"{None if got is None else np.asarray(got).tolist()}, expected {exp.tolist()}",
                              {"sequence": list(seq), "call": j})
                break
    ctx.note_batch("loopy-calls-with-colliding-callee-names", len(jobs), dis, exhaustive=ctx.thorough,
                   executed=executed, executor_unsupported=unsupported)


def run(ctx: common.Ctx):
    ctx.assumptions += [
        "loopy's pipeline, its C target, gcc and libm execute the generated kernel (OpenCL absent); executed, not verified",
        "cexec re-declares pytato's global temporaries private and hands dummy buffers for zero-size arguments",
        "reference = NumPy per node + pointwise interpreter for index lambdas (harness/refeval.py, ilinterp.py)",
        "reductions over bool (sum/prod) and all/any over non-bool are kept out of the value comparison "
        "(their dtype deviation from NumPy is C03's matter)",
    ]
    ctx.lean_obligations("PtProofs.C02", THEOREMS_A)
    ctx.lean_obligations("PtProofs.C01", THEOREMS_KERNEL)
    ctx.lean_obligations("PtProofs.C01GenChecks", THEOREMS_GEN)
    ctx.lean_obligations("PtProofs.C01GenRedChecks", THEOREMS_GEN_RED)
    try:
        from . import c01_kernel
    except ImportError:
        c01_kernel = None
    n = 1500 if ctx.thorough else 240
    progs, jobs = build_jobs(ctx, n, runs_per=3 if ctx.thorough else 1, want_source=True,
                             kir_orders=4 if ctx.thorough else 2, kir_seed=ctx.seed, want_wire=True)
    results = cexec.run_jobs(ctx, jobs)
    dis = 0
    opcount: dict[str, int] = {}
    for (p, runs), res in zip(progs, results):
        for o in set(p.ops):
            opcount[o] = opcount.get(o, 0) + 1
        dis += compare_outputs(ctx, "loopy", p, runs, res)
        if p.index % 40 == 0:
            ctx.sample({"batch": "execute", "program": p.index, "ops": sorted(set(p.ops)),
                        "outputs": {k: (str(v.shape), str(v.dtype)) for k, v in p.outputs.items()}})
    ctx.note_batch("execute-vs-reference", n, dis, exhaustive=False, constructor_counts=opcount,
                   never_taken=[f for f in ("csr_matmul", "adv_index", "pad", "einsum", "reduce_prod")
                                if f not in opcount])
    # order independence: the same outputs supplied in reverse order
    m = 200 if ctx.thorough else 60
    jobs2 = []
    import pytato as pt
    for (p, runs) in progs[:m]:
        rev = pt.make_dict_of_named_arrays(dict(reversed(list(p.outputs.items()))))
        jobs2.append(cexec.Job(tag=f"rev{p.index}", expr=rev, runs=runs, prep=_prep_dedup, want_source=True))
    res2 = cexec.run_jobs(ctx, jobs2)
    dis2 = 0
    n_text = 0
    for (p, runs), r1, r2 in zip(progs[:m], results, res2):
        if bool(r1.error) != bool(r2.error) and not (str(r1.stage).startswith("c-") or str(r2.stage).startswith("c-")):
            dis2 += 1
            ctx.violation("loopy:output-order-dependence:success",
                          f"program {p.index}: code generation succeeds for one output order and fails for the other",
                          {"program_index": p.index, "seed": ctx.seed, "errors": [r1.error, r2.error]})
            continue
        if r1.error or r2.error:
            continue
        dis2 += compare_outputs(ctx, "loopy-reversed-outputs", p, runs, r2)
        objs = list(p.outputs.values())
        distinct = all(a is not b and a != b for i, a in enumerate(objs) for b in objs[i + 1:])
        if distinct:
            n_text += 1
            if _strip_sig(r1.source) != _strip_sig(r2.source):
                dis2 += 1
                ctx.violation("loopy:output-order-dependence:text",
                              f"program {p.index}: generated C body differs when distinct outputs are supplied "
                              "in reverse order",
                              {"program_index": p.index, "seed": ctx.seed})
    ctx.note_batch("output-order-independence", m, dis2, exhaustive=False, text_compared=n_text)
    if c01_kernel is not None:
        c01_kernel.run_kernel_model(ctx, progs, results)
    # the Lean model of the statement generator vs the real kernels (program stream + a sample of the API table)
    from . import c01_gen
    c01_gen.run_gen_model(ctx, "loopy", list(c01_gen.cases_from_results(progs, results, _prep_dedup))
                          + list(c01_gen.api_cases(ctx, 1 if ctx.thorough else 4)))
    batch_special_values(ctx)
    batch_special_value_table(ctx)
    batch_api_table(ctx)
    batch_loopy_calls(ctx)
    ctx.broken = sorted(set(ctx.broken))[:50]


def replay(ctx, path):
    import json
    r = json.loads(open(path).read())
    print(json.dumps({k: r.get(k) for k in ("signature", "what", "program_index", "seed", "ops")}, indent=1))
    if "program_index" in r:
        if r.get("stream") == "special-values":
            p = programs.generate(int(r["seed"]) + 1900, int(r["program_index"]), _special_values_cfg())
        else:
            p = programs.generate(int(r["seed"]), int(r["program_index"]))
        print("outputs:", {k: (v.shape, v.dtype) for k, v in p.outputs.items()})
        runs = [{k: np.asarray(v) for k, v in r.get("inputs", {}).items()}] if r.get("inputs") else \
            [p.make_inputs(np.random.default_rng(0))]
        runs = [{k: np.asarray(v, dtype=p.inputs[k][1]).reshape(p.inputs[k][0]) for k, v in runs[0].items()}]
        res = cexec.run_jobs(ctx, [cexec.Job("replay", p.expr(), runs, prep=_prep_dedup, want_source=True)])[0]
        d = compare_outputs(ctx, "loopy", p, runs, res)
        print("disagreements on replay:", d)
    return ctx.finish()

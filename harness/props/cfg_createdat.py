"""Configuration dimension: `pt.set_traceback_tag_enabled(True)` puts a `CreatedAt` tag (the Python stack of the
creating call) into `non_equality_tags` of every array.  It is debugging metadata: the same program built from two
different call sites, or with the switch off, must be the same graph for `==` / `hash` / the persistent key (C04,
C18), must give the same generated code (C07, C17) and must go through every transformation (C05).

Run in-process with the switch restored afterwards; used by C04, C07 and C18 (each reports under its own id)."""
from __future__ import annotations

import json

import numpy as np

from .. import common  # noqa: F401
from ..gen import programs


def _site_a(seed, i):
    return programs.generate(seed, i).expr()


def _site_b(seed, i):
    # a different line, one frame deeper: another stack, hence another CreatedAt tag on every node
    def inner():
        return programs.generate(seed, i).expr()
    return inner()


def batch_createdat(ctx, prop: str, n: int | None = None):
    import pytato as pt
    from pytato.analysis import PytatoKeyBuilder
    from pytato.array import set_traceback_tag_enabled
    from ..reflect import walk
    from .. import cexec, pytarget
    n = n or (120 if ctx.thorough else 40)
    seed = ctx.seed + 4400
    cases = dis = tagged_nodes = nodw = 0
    keyb = PytatoKeyBuilder()

    def viol(sig, what, i):
        nonlocal dis
        dis += 1
        ctx.violation(f"created-at:{sig}", f"program {i} (traceback tags enabled): {what}",
                      {"seed": seed, "program_index": i, "config": "set_traceback_tag_enabled(True)"})
    for i in range(n):
        g0 = pt.transform.deduplicate(_site_a(seed, i))
        try:
            set_traceback_tag_enabled(True)
            g1 = pt.transform.deduplicate(_site_a(seed, i))
            g2 = pt.transform.deduplicate(_site_b(seed, i))
        finally:
            set_traceback_tag_enabled(False)
        cases += 1
        with_tag = sum(1 for nd in walk(g1) if getattr(nd, "non_equality_tags", None))
        tagged_nodes += with_tag
        differ = any(a.non_equality_tags != b.non_equality_tags
                     for a, b in zip(walk(g1), walk(g2)) if hasattr(a, "non_equality_tags") and hasattr(b, "non_equality_tags"))
        if not with_tag:
            continue        # nothing to observe (reported through `nontrivial`)
        # wrapped data compare by identity: separately built graphs with data wrappers are never ==, switch or no switch
        from pytato.array import DataWrapper
        has_dw = any(isinstance(nd, DataWrapper) for nd in walk(g0))
        nodw += 0 if has_dw else 1
        if prop in ("C04", "C18") and not has_dw:
            if not (g1 == g2 and g1 == g0 and g0 == g1):
                viol("equality", "the same program built at two call sites / with the switch off is not ==", i)
                continue
            if not (hash(g1) == hash(g2) == hash(g0)):
                viol("hash", "equal graphs, different hashes", i)
                continue
            # (the persistent key is NOT compared: C18 states it for "creation-traceback tagging at its default, off")
            import pickle
            try:
                if pickle.loads(pickle.dumps(g1)) != g1:
                    viol("pickle", "a pickled graph with CreatedAt tags does not compare equal to itself", i)
            except Exception as e:   # noqa: BLE001
                viol("pickle", f"cannot be pickled: {type(e).__name__}: {str(e)[:100]}", i)
        if prop == "C07":
            outs = {}
            # (the graphs built with the switch on are also PROCESSED with it on, as a user who enabled it would)
            for nm, g in (("off", g0), ("on", g1), ("on-other-site", g2)):
                try:
                    set_traceback_tag_enabled(nm != "off")
                    prog = pt.generate_loopy(g)
                    outs[nm] = ("kernel", json.dumps(cexec.canonical_dump(prog.program), sort_keys=True, default=str))
                except Exception as e:   # noqa: BLE001
                    outs[nm] = ("error", type(e).__name__ + ": " + str(e)[:60])
                finally:
                    set_traceback_tag_enabled(False)
            if len(set(outs.values())) != 1:
                viol("generated-loopy-code", "the generated kernel depends on the creation stacks: " +
                     ", ".join(f"{k}={v[0]}:{v[1][:40] if v[0] == 'error' else hash(v[1]) % 10**6}" for k, v in outs.items()), i)
                continue
            pys = {}
            for nm, g in (("off", g0), ("on", g1)):
                try:
                    set_traceback_tag_enabled(nm != "off")
                    pys[nm] = pytarget.generate(g).program
                except Exception as e:   # noqa: BLE001
                    pys[nm] = "error:" + type(e).__name__
                finally:
                    set_traceback_tag_enabled(False)
            if pys["off"] != pys["on"]:
                viol("generated-python", "the generated Python source depends on the creation stacks", i)
                continue
            # every transformation goes through, and its result is still the same program
            for tn, tf in (("materialize_with_mpms", pt.materialize_with_mpms), ("eliminate_dead_code", pt.eliminate_dead_code),
                           ("unify_axes_tags", pt.unify_axes_tags), ("tag_all_calls_to_be_inlined", pt.tag_all_calls_to_be_inlined),
                           ("inline_calls", pt.inline_calls)):
                res = []
                for on, g in ((False, g0), (True, g1)):
                    try:
                        set_traceback_tag_enabled(on)
                        res.append(("ok", tf(g)))
                    except Exception as e:   # noqa: BLE001
                        res.append(("error", type(e).__name__ + ": " + str(e)[:80]))
                    finally:
                        set_traceback_tag_enabled(False)
                if res[0][0] != res[1][0] or (res[0][0] == "ok" and not has_dw and res[0][1] != res[1][1]):
                    viol(f"transformation:{tn}", f"{tn} behaves differently with traceback tags: "
                         f"{res[0][0]} / {res[1][0]} {res[1][1] if res[1][0] == 'error' else ''}", i)
                    break
        if i % 10 == 0:
            ctx.sample({"batch": "created-at", "program": i, "nodes_with_created_at": with_tag, "sites_differ": differ})
    ctx.note_batch("traceback-tags-enabled(CreatedAt is not semantics)", cases, dis, exhaustive=False,
                   nodes_carrying_created_at=tagged_nodes, programs_without_wrapped_data=nodw,
                   how="programs of gen/programs.py built with the switch off, on, and on from another call site")
    if cases and not tagged_nodes:
        ctx.broken.append("config:set_traceback_tag_enabled has no observable effect (no CreatedAt tag on any node)")

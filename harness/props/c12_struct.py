"""C12, structural tie of the call model `lean/PtModel/CallsMulti.lean` to the real
`trace_call`, `FunctionDefinition.__call__`, `tag_all_calls_to_be_inlined`,
`inline_calls` (ptdriver `(calls …)` queries on the reflectively serialised graphs,
`harness/callsterm.py`).

Batches
  trace-structure (exhaustive small scope): 0..3 positional x ordered keyword subsets x
      array / tuple of 1,2,3,11,12 / dict returns x argument patterns (distinct, one object
      for all parameters, caller placeholders named like parameters, expressions, a call
      result as argument).  Per result name: the real traced NamedCallResult == the model's
      `traceCall` (parameter names, return names AND their order, binding names, bodies);
      direct application == `applyDirect` (the parametricity hypothesis of
      `trace_call_denote`, evaluated on the real function); `inline_calls ∘ tag_all` of the
      traced call == model `inlineAll` == the direct application (`trace_inline_eq_direct`);
      result names of tuples in position order (`tuple_names_positional`); sharing: the
      inlined graph has no duplicate node and as many nodes as the deduplicated direct one.
  selective-inline (seeded random): programs of the C12 generator with a random SUBSET of
      calls tagged (also inside function bodies): real `inline_calls` == model `inline`;
      no tagged call left; a second `inline_calls` changes nothing (`inline_idempotent`).
  tag-all (same programs): real `tag_all_calls_to_be_inlined` == model `tagAll`; every call
      (also below already tagged ones, also in bodies) tagged; idempotent; same call count."""
from __future__ import annotations

import itertools
import random

import numpy as np

from .. import callsterm, common, reflect
from ..refeval import close, evaluate

KW_POOL = ["a", "b", "q"]


def _weights_fn(nparams: int, ret: str):
    """a function of all its parameters, asymmetric in them, parametric (no inspection of
    names / identities); `ret`: array | tupleN | dict"""
    import pytato as pt

    def f(*args, **kwargs):
        vals = list(args) + [kwargs[k] for k in sorted(kwargs)]
        s = vals[0] * 2
        for i, v in enumerate(vals[1:], 1):
            s = s + (i + 2) * v
        shared = pt.sin(s)                      # used by several outputs
        if ret == "array":
            return shared + vals[-1]
        if ret.startswith("tuple"):
            n = int(ret[5:])
            return tuple(shared * (j + 1) + vals[j % len(vals)] for j in range(n))
        return {"r1": shared - vals[0], "r0": shared * 3, "zz": vals[-1] + 1}
    f.__name__ = f"w{nparams}_{ret}"
    return f


def _results(out):
    """[(result name, array)] in the order the convention defines"""
    import pytato as pt
    if isinstance(out, pt.Array):
        return [("_", out)]
    if isinstance(out, tuple):
        return [(f"_{i}", o) for i, o in enumerate(out)]
    return list(out.items())


def _nodes(expr) -> int:
    return sum(1 for _ in reflect.walk(expr, into_functions=True))


def _count_calls(expr, tagged_only=False) -> int:
    from pytato.function import Call
    from pytato.tags import InlineCallTag
    return sum(1 for n in reflect.walk(expr, into_functions=True)
               if isinstance(n, Call) and (not tagged_only or n.tags_of_type(InlineCallTag)))


def arg_patterns(nparams: int, shape):
    import pytato as pt

    def ph(n):
        return pt.make_placeholder(n, shape, np.float64)
    yield "distinct", [ph(f"x{i}") for i in range(nparams)]
    one = ph("x0")
    yield "same-object", [one] * nparams
    adv = ["in__pt_0", "in_a", "_pt_0", "in__pt_1", "in_q"]
    yield "named-like-parameters", [ph(adv[(i + 1) % len(adv)]) for i in range(nparams)]
    yield "expressions", [ph(f"in__pt_{(i + 1) % 3}") * (i + 2) + ph("in_b") for i in range(nparams)]

    def inner(u):
        return u * 5 - 1, -u
    yield "call-result", [pt.trace_call(inner, ph(f"x{i}"))[i % 2] for i in range(nparams)]


def trace_structure(ctx):
    import pytato as pt
    shape = (3,)
    cases = []
    rets = ["array", "tuple1", "tuple2", "tuple3", "tuple11", "tuple12", "dict"]
    kw_orders = [()] + [p for r in (1, 2) for p in itertools.permutations(KW_POOL, r)]
    for nargs in range(0, 4):
        for kws in kw_orders:
            nparams = nargs + len(kws)
            if nparams == 0 or nparams > 4:
                continue
            for ret in rets:
                if ret in ("tuple11", "tuple12") and not (nparams <= 2):
                    continue
                for pname, args in arg_patterns(nparams, shape):
                    if not ctx.thorough and ret in ("tuple1", "tuple3") and pname not in ("distinct", "call-result"):
                        continue
                    cases.append((nargs, kws, ret, pname, args))
    queries, meta = [], []
    ncase = ndis = 0
    stats = {"results": 0, "nodes_inlined": 0, "tuple_ge_11": 0, "keyword_orders": len(kw_orders)}
    for nargs, kws, ret, pname, args in cases:
        ncase += 1
        info = {"nargs": nargs, "kws": list(kws), "ret": ret, "args": pname}
        f = _weights_fn(nargs + len(kws), ret)
        pos, kw = args[:nargs], {k: args[nargs + i] for i, k in enumerate(kws)}
        slots_pos = [pt.make_placeholder(f"_pt_{i}", a.shape, a.dtype) for i, a in enumerate(pos)]
        slots_kw = {k: pt.make_placeholder(k, a.shape, a.dtype) for k, a in kw.items()}
        try:
            tmpl = _results(f(*slots_pos, **slots_kw))
            direct = _results(f(*pos, **kw))
            traced_out = pt.trace_call(f, *pos, **kw)
            traced = _results(traced_out)
        except Exception as e:   # noqa: BLE001
            ndis += 1
            ctx.violation(f"calls:trace_call-raises:{type(e).__name__}", f"{info}: {type(e).__name__}: {e}",
                          {"case": info, "error": str(e)})
            continue
        ser = callsterm.Ser()
        tmpl_s = "(" + " ".join(f"({k} {ser.term(v)})" for k, v in tmpl) + ")"
        args_s = "(" + " ".join([f"(_pt_{i} {ser.term(a)})" for i, a in enumerate(pos)]
                                + [f"({k} {ser.term(a)})" for k, a in kw.items()]) + ")"
        # convention: names and order of the results
        want_names = [k for k, _ in tmpl]
        got_names = [k for k, _ in traced]
        real_keys = [getattr(v, "name", None) for _, v in traced]
        if got_names != want_names or real_keys != want_names:
            ndis += 1
            ctx.violation("calls:result-names-or-order",
                          f"{info}: trace_call hands back results named {real_keys[:13]} at positions of {want_names[:13]}",
                          {"case": info, "expected": want_names, "got": real_keys})
            continue
        if ret.startswith("tuple") and int(ret[5:]) >= 11:
            stats["tuple_ge_11"] += 1
        # inline everything
        D = pt.make_dict_of_named_arrays(dict(direct))
        try:
            T = pt.transform.deduplicate(pt.make_dict_of_named_arrays(dict(traced)))
            inl = pt.inline_calls(pt.tag_all_calls_to_be_inlined(T))
            dinl = pt.inline_calls(pt.tag_all_calls_to_be_inlined(pt.transform.deduplicate(D)))
        except Exception as e:   # noqa: BLE001
            ndis += 1
            ctx.violation(f"calls:inline-raises:{type(e).__name__}", f"{info}: {e}", {"case": info})
            continue
        # sharing: nothing duplicated, as many nodes as the (deduplicated, inlined) direct application
        n_inl, n_dir = _nodes(inl), _nodes(dinl)
        n_distinct = len(reflect.distinct_nodes(inl, into_functions=True))
        stats["nodes_inlined"] += n_inl
        if n_inl != n_dir or n_distinct != n_inl:
            ndis += 1
            ctx.violation("calls:inlining-loses-sharing",
                          f"{info}: the inlined graph has {n_inl} nodes ({n_distinct} distinct), the deduplicated "
                          f"direct application {n_dir}", {"case": info, "inlined": n_inl, "direct": n_dir})
        tkw = " ".join(kws)
        for (k, r), (_, d) in zip(traced, direct):
            stats["results"] += 1
            base = len(queries)
            queries.append(f"(calls trace #f {nargs} ({tkw}) {args_s} {tmpl_s} {k})")
            queries.append(f"(calls direct {args_s} {tmpl_s} {k})")
            queries.append(f"(calls inlineall {ser.term(r)})")
            queries.append(f"(calls inlineall {ser.term(d)})")
            meta.append((info, k, base, ser.term(r), ser.term(d), ser.term(inl._data[k])))
        queries.append(f"(calls params {nargs} ({tkw}))")
        fn = traced[0][1]._container.function
        meta.append((info, None, len(queries) - 1, sorted(fn.parameters), sorted(traced[0][1]._container.bindings), None))
    ans = common.driver_query_parallel(queries)
    bad_cases = set()
    for info, k, base, a, b, c in meta:
        key = repr(info)
        if k is None:
            model = sorted(ans[base][3:].strip("()").split())
            if not ans[base].startswith("ok ") or model != a or model != b:
                bad_cases.add(key)
                ctx.violation("calls:parameter-names",
                              f"{info}: parameters {a}, binding names {b}; trace_call's naming rule gives {model}",
                              {"case": info, "parameters": a, "bindings": b, "model": model})
            continue
        m_trace, m_direct, m_inl_t, m_inl_d = (callsterm.norm(ans[base + i][3:]) if ans[base + i].startswith("ok ")
                                               else ans[base + i] for i in range(4))
        real_t, real_d, real_inl = callsterm.norm(a), callsterm.norm(b), callsterm.norm(c)
        if m_direct != real_d:
            bad_cases.add(key)
            ctx.broken.append(f"harness:test-function-not-parametric:{info['ret']}")
            continue
        if m_trace != real_t:
            bad_cases.add(key)
            ctx.violation("calls:traced-structure-differs",
                          f"{info}, result {k}: the traced call is not `function over fresh per-parameter placeholders, "
                          f"bound to the arguments`", {"case": info, "result": k, "real": real_t[:1500], "model": m_trace[:1500]})
            continue
        if real_inl != m_inl_d:
            bad_cases.add(key)
            ctx.violation("calls:inlined-structure-differs-from-direct-application",
                          f"{info}, result {k}: inline_calls(tag_all(trace_call(f, …))) is not f(…) (inlined)",
                          {"case": info, "result": k, "real": real_inl[:1500], "direct": m_inl_d[:1500]})
            continue
        if m_inl_t != m_inl_d or m_inl_t != real_inl:
            bad_cases.add(key)
            ctx.broken.append(f"correspondence:calls-model-inlineall:{info['ret']}:{info['args']}")
    ctx.note_batch("trace-structure", ncase, ndis + len(bad_cases), exhaustive=True, **stats,
                   note="0..3 positional x ordered keyword subsets of {a,b,q} (<= 2) x 7 return conventions x 5 "
                        "argument patterns; quick tier skips tuple1/tuple3 for three patterns")
    ctx.sample({"batch": "trace-structure", "query": queries[0][:300], "answer": ans[0][:300]})


def _pretag(expr, rng, p):
    """tag a random subset of the calls, also inside function bodies (reflective bottom-up rebuild
    that keeps sharing; no pytato mapper involved)"""
    import dataclasses

    from pytato.function import Call
    from pytato.tags import InlineCallTag

    from .. import eqterm
    # one decision per structural-equality class: tagging one of two equal call objects only would make
    # InlineMarker map two different nodes to equal results (pytato reports that as a created duplicate)
    decision: dict = {}
    chosen = set()
    for n in reflect.walk(expr, into_functions=True):
        if isinstance(n, Call) and not n.tags_of_type(InlineCallTag):
            if n not in decision:
                decision[n] = rng.random() < p
            if decision[n]:
                chosen.add(id(n))
    if not chosen:
        return expr, 0

    def post(old, new):
        if id(old) in chosen:
            return dataclasses.replace(new, tags=new.tags | {InlineCallTag()})
        return new
    return eqterm.rebuild(expr, fresh=False, post=post), len(chosen)


def selective_and_tagall(ctx):
    import pytato as pt
    from .c12 import build_case
    rng = random.Random(ctx.seed * 131 + 7)
    nprng = np.random.default_rng(ctx.seed + 977)
    N = 400 if ctx.thorough else 80
    queries, meta = [], []
    cases = dis = 0
    stats = {"calls": 0, "pretagged_calls": 0, "partially_tagged_graphs": 0}
    for ci in range(N):
        try:
            direct, traced, phs, info = build_case(ctx, rng, ci)
        except Exception:   # noqa: BLE001   (reported by the main batch)
            continue
        cases += 1
        try:
            texpr = pt.transform.deduplicate(pt.make_dict_of_named_arrays(traced))
        except Exception:   # noqa: BLE001   (reported by the main batch)
            continue
        try:
            part, ntag = _pretag(texpr, rng, rng.choice([0.0, 0.3, 0.6, 1.0]))
        except Exception as e:   # noqa: BLE001
            ctx.broken.append(f"harness:pretag:{type(e).__name__}")
            continue
        ncalls = _count_calls(part)
        stats["calls"] += ncalls
        stats["pretagged_calls"] += ntag
        stats["partially_tagged_graphs"] += 0 < ntag < ncalls
        inp = {n: nprng.integers(-4, 5, size=p.shape) / 2.0 for n, p in phs.items()}
        meta_info = {"case": ci, "seed": ctx.seed, "info": info, "calls": ncalls, "tagged_before": ntag}
        try:
            inl = pt.inline_calls(part)
            inl2 = pt.inline_calls(inl)
            tagged = pt.tag_all_calls_to_be_inlined(part)
            tagged2 = pt.tag_all_calls_to_be_inlined(tagged)
        except Exception as e:   # noqa: BLE001
            dis += 1
            ctx.violation(f"calls:inline-raises:{type(e).__name__}", f"case {ci}: {type(e).__name__}: {e}", meta_info)
            continue
        bad = False
        if _count_calls(inl, tagged_only=True):
            bad = True
            ctx.violation("calls:tagged-call-left-after-inlining",
                          f"case {ci}: {_count_calls(inl, True)} calls tagged for inlining remain after inline_calls",
                          meta_info)
        if not (inl2 == inl):
            bad = True
            ctx.violation("calls:inline-not-idempotent", f"case {ci}: a second inline_calls changes the graph", meta_info)
        if _count_calls(tagged, tagged_only=True) != _count_calls(tagged) or _count_calls(tagged) != ncalls:
            bad = True
            ctx.violation("calls:tag-all-misses-calls",
                          f"case {ci}: {ncalls} calls ({ntag} tagged before), after tag_all_calls_to_be_inlined "
                          f"{_count_calls(tagged, True)} of {_count_calls(tagged)} are tagged", meta_info)
        if not (tagged2 == tagged):
            bad = True
            ctx.violation("calls:tag-all-not-idempotent", f"case {ci}", meta_info)
        # values of the partially inlined graph (independent oracle: reference evaluator on the direct application)
        try:
            ref = evaluate(pt.make_dict_of_named_arrays(direct), inp)
            got = evaluate(inl, inp)
            if any(not close(got[k], ref[k], exact=False) for k in ref):
                bad = True
                ctx.violation("calls:selective-inline-value-differs",
                              f"case {ci}: inlining a subset of the calls ({ntag} of {ncalls}) changes values", meta_info)
        except Exception as e:   # noqa: BLE001
            ctx.broken.append(f"refeval:{type(e).__name__}:{e}"[:120])
        dis += bad
        ser = callsterm.Ser()
        for k in sorted(traced):
            base = len(queries)
            t_in = ser.term(part._data[k])
            queries.append(f"(calls inline {t_in})")
            queries.append(f"(calls tagall {t_in})")
            queries.append(f"(calls stats {t_in})")
            meta.append((meta_info, k, base, ser.term(inl._data[k]), ser.term(tagged._data[k]), bad))
    ans = common.driver_query_parallel(queries)
    mdis = 0
    for meta_info, k, base, real_inl, real_tag, bad in meta:
        if not all(a.startswith("ok ") for a in ans[base:base + 3]):
            ctx.broken.append(f"driver:calls:{ans[base][:60]}")
            continue
        m_inl, m_tag = callsterm.norm(ans[base][3:]), callsterm.norm(ans[base + 1][3:])
        if m_inl != callsterm.norm(real_inl):
            mdis += 1
            if not bad:
                # values, tags and idempotence are right on the real graph: the model deviates
                ctx.broken.append(f"correspondence:calls-model-inline:case{meta_info['case']}:{k}")
        if m_tag != callsterm.norm(real_tag):
            mdis += 1
            if not bad:
                ctx.broken.append(f"correspondence:calls-model-tagall:case{meta_info['case']}:{k}")
    ctx.note_batch("selective-inline-and-tag-all", cases, dis + mdis, exhaustive=False, **stats,
                   model_terms_compared=2 * len(meta))


def _same_identifier_cases():
    """[(label, [(function, args…)], …)]: DIFFERENT definitions that share identifier, parameter names, shapes and
    dtypes — a helper re-created with another captured constant, same-named lambdas, one explicit identifier"""
    import pytato as pt

    def make_scale(c):
        def scale(a):
            return a * c + 1
        return scale

    def make_pair(c):
        def pair(a, b):
            return {"s": a * c + b, "d": a - b * c}
        return pair

    def make_outer(c):
        inner = make_scale(c + 10)

        def outer(a):
            return pt.trace_call(inner, a * 2) + pt.trace_call(make_scale(c + 20), a)
        return outer
    lam2, lam3 = (lambda a: a * 2.0), (lambda a: a * 3.0)

    def f_sin(a):
        return pt.sin(a)

    def f_cos(a):
        return pt.cos(a) + 1
    return {
        "closure-constant": [(make_scale(2.0), {}), (make_scale(3.0), {})],
        "closure-constant-dict-return": [(make_pair(2.0), {}), (make_pair(5.0), {})],
        "same-named-lambdas": [(lam2, {}), (lam3, {})],
        "explicit-identifier": [(f_sin, {"identifier": "op"}), (f_cos, {"identifier": "op"})],
        "nested-helpers": [(make_outer(1.0), {}), (make_outer(2.0), {})],
        "three-definitions": [(make_scale(2.0), {}), (make_scale(3.0), {}), (make_scale(2.0), {}), (make_scale(4.0), {})],
    }


def same_identifier_and_repeated_runs(ctx):
    """(a) several definitions with one identifier and equal parameter types but different bodies in ONE
    expression, through deduplicate -> tag_all -> inline and tag_all -> inline, and evaluated without inlining:
    values = direct application; (b) the whole pipeline run repeatedly in ONE process on rebuilt and related
    expressions: every run behaves like the first (no state may survive a call of the API)."""
    import inspect

    import pytato as pt
    nprng = np.random.default_rng(ctx.seed + 1212)
    ncase = ndis = 0
    pipelines = {
        "dedup-tag-inline": lambda e: pt.inline_calls(pt.tag_all_calls_to_be_inlined(pt.transform.deduplicate(e))),
        "tag-inline": lambda e: pt.inline_calls(pt.tag_all_calls_to_be_inlined(e)),
        "dedup-only": lambda e: pt.transform.deduplicate(e),
        "tag-only": lambda e: pt.tag_all_calls_to_be_inlined(e),
        "dedup-twice-tag-inline-dedup": lambda e: pt.transform.deduplicate(pt.inline_calls(
            pt.tag_all_calls_to_be_inlined(pt.transform.deduplicate(pt.transform.deduplicate(e))))),
    }

    def build(label, fns, variant):
        x = pt.make_placeholder("x", (3,), np.float64)
        y = pt.make_placeholder("y", (3,), np.float64)
        direct, traced = {}, {}
        for i, (f, kw) in enumerate(fns):
            nargs = len(inspect.signature(f).parameters)
            # different arguments per call site: no two equal-but-distinct calls (pytato wants those deduplicated)
            args = [x + (variant + i), y][:nargs] if i % 2 == 0 else [y * (2 + i), x][:nargs]
            d = f(*args)
            t = pt.trace_call(f, *args, **kw)
            for k, (dv, tv) in ({"": (d, t)} if isinstance(d, pt.Array) else
                                {k: (d[k], t[k]) for k in d}).items():
                direct[f"r{i}{k}"] = dv
                traced[f"r{i}{k}"] = tv
        return pt.make_dict_of_named_arrays(direct), pt.make_dict_of_named_arrays(traced)
    inp = {"x": nprng.integers(-4, 5, size=3) / 2.0, "y": nprng.integers(-4, 5, size=3) / 2.0}
    for label, fns in _same_identifier_cases().items():
        for run_no in range(3):                      # (b): the same program again, and a related one
            variant = 0 if run_no < 2 else 1
            try:
                dexpr, texpr = build(label, fns, variant)
                ref = evaluate(dexpr, inp)
            except Exception as e:   # noqa: BLE001
                ndis += 1
                ctx.violation(f"calls:trace_call-raises:{type(e).__name__}", f"{label}: {e}"[:300], {"family": label})
                continue
            for pname, pipe in pipelines.items():
                if label == "three-definitions" and not pname.startswith("dedup"):
                    continue    # contains two equal definitions as distinct objects: pytato wants deduplicate first
                ncase += 1
                rep = {"family": label, "pipeline": pname, "run": run_no + 1}
                first = "" if run_no == 0 else f" on run {run_no + 1} in one process (run 1 was fine)"
                try:
                    out = pipe(texpr)
                    got = evaluate(out, inp)
                except Exception as e:   # noqa: BLE001
                    ndis += 1
                    sig = (f"calls:pipeline-raises:{type(e).__name__}" if run_no == 0
                           else f"calls:repeated-run-raises:{type(e).__name__}")
                    ctx.violation(sig, f"{label} through {pname}{first}: {type(e).__name__}: {e}"[:400], rep)
                    continue
                if any(not close(got[k], ref[k], exact=False) for k in ref):
                    ndis += 1
                    bad = sorted(k for k in ref if not close(got[k], ref[k], exact=False))
                    ctx.violation("calls:same-identifier-definitions-confused" if run_no == 0
                                  else "calls:repeated-run-value-differs",
                                  f"{label} through {pname}{first}: results {bad} differ from applying the functions "
                                  f"directly (definitions that share identifier and parameter types are different functions)",
                                  rep)
                elif "inline" in pname and _count_calls(out):
                    ndis += 1
                    ctx.violation("calls:not-call-free-after-inlining", f"{label} through {pname}{first}", rep)
    ctx.note_batch("same-identifier-definitions-and-repeated-runs", ncase, ndis, exhaustive=True,
                   families=sorted(_same_identifier_cases()), pipelines=sorted(pipelines), runs_per_family=3)


def run_struct(ctx):
    ctx.assumptions += [
        "C12 model terms are tree unfoldings; array operations are opaque (`op` + fingerprint of all non-child data); "
        "a placeholder is its name (trace_call copies shape/dtype/axes/tags of the argument, compared by the value batches)",
        "`trace_call_denote` assumes the traced Python function is parametric in its arguments (outputs = a template with "
        "the arguments substituted) and closed (no captured placeholder; pytato raises ValueError otherwise); parametricity "
        "is checked for the test functions (`applyDirect` vs the real direct application)",
    ]
    trace_structure(ctx)
    selective_and_tagall(ctx)
    same_identifier_and_repeated_runs(ctx)

"""C13 — re-tagged members of a container as operands.

Property clauses: "a transformation returns its argument itself when nothing changes", "never
creates more distinct nodes", "only changes what it is asked to change".  `d[name]` of a
DictOfNamedArrays / a Call is memoised; a NamedArray / NamedCallResult that was RE-TAGGED afterwards
(`d[name].tagged(t)`, `.with_tagged_axis(...)`) is a different object that shares the container.  A
copy mapper that maps such an operand by looking the name up in the new container hands back the
memoised, untagged member.

  family   every CopyMapper / CopyMapperWithExtraArgs class found by reflection (c13_flags)
           x  container: DictOfNamedArrays, Call (traced function)
           x  member used as an operand: as memoised / tagged / axis-tagged / tagged twice /
              tagged AND untagged side by side / only as an output
  oracle   the twin graph in which no member is re-tagged tells what the mapper does to the shape of
           graph (returns it itself / an equal graph / refuses): on the re-tagged graph the mapper
           must do the same — no diagnostic, result == argument, node for node the same tags, and
           the argument itself where the twin's is returned itself.
"""
from __future__ import annotations

from .. import reflect
from . import c13_flags
from .c13 import TRAVERSAL_LIMIT_S, time_limit

VARIANTS = ("memoised", "tagged", "axis-tagged", "tagged-twice", "tagged-and-untagged", "output-only")


def build(container: str, variant: str, retag: bool):
    import numpy as np
    import pytato as pt
    from pytato.function import trace_call
    from ..gen.kinds import VBarTag, VFooTag
    x = pt.make_placeholder("x", (4, 3), np.float64)
    if container == "dict":
        d = pt.make_dict_of_named_arrays({"a": x + 1, "b": x * 2})
    else:
        def f(u):
            return {"a": u + 1, "b": u * 2}
        d = trace_call(f, x)
    m = d["a"]

    def t(node, *tags):
        if not retag:
            return node
        for tg in tags:
            node = node.tagged(tg)
        return node
    if variant == "memoised":
        out = {"o": m * d["b"]}
    elif variant == "tagged":
        out = {"o": t(m, VFooTag()) * d["b"]}
    elif variant == "axis-tagged":
        out = {"o": (m.with_tagged_axis(1, VBarTag()) if retag else m) * d["b"]}
    elif variant == "tagged-twice":
        out = {"o": t(m, VFooTag(), VBarTag()) + 1}
    elif variant == "tagged-and-untagged":
        out = {"o": t(m, VFooTag()) * m, "p": m + t(d["b"], VBarTag())}
    else:
        out = {"o": t(m, VFooTag()), "p": x + 2}
    return pt.make_dict_of_named_arrays(out)


def tag_profile(g):
    return [(type(n).__name__, tuple(sorted(type(tg).__name__ for tg in (getattr(n, "tags", None) or ()))),
             tuple(tuple(sorted(type(tg).__name__ for tg in ax.tags)) for ax in (getattr(n, "axes", None) or ())))
            for n in reflect.walk(g, into_functions=True)]


def apply(cls, make, args, g):
    try:
        with time_limit(TRAVERSAL_LIMIT_S):
            return "ok", make(cls)(g, *args)
    except Exception as e:   # noqa: BLE001
        return f"raises:{type(e).__name__}:{str(e)[:60]}", None


def check_named_members(ctx):
    import pytato.transform as ptf
    n = bad = 0
    reported = set()
    not_judged = set()
    for cls in c13_flags.mapper_classes():
        confs = c13_flags.configurations(cls)
        if not confs:
            continue
        _, _, make = confs[0]
        args = c13_flags.call_args(cls)
        if issubclass(cls, ptf.TransformMapperWithExtraArgs) and c13_flags.outcome(
                lambda: make(cls), c13_flags.graph("body", "il", False)[0], args) == "error:NotImplementedError":
            cls = c13_flags.entering(cls)
        for container in ("dict", "call"):
            for variant in VARIANTS:
                try:
                    twin = build(container, variant, False)
                    g = build(container, variant, True)
                except Exception as e:   # noqa: BLE001
                    not_judged.add(f"build:{container}:{variant}:{type(e).__name__}")
                    continue
                st, rt = apply(cls, make, args, twin)
                if st != "ok":
                    not_judged.add(f"{cls.__name__}:{container}:{st[:40]}")
                    continue
                n += 1
                sg, rg = apply(cls, make, args, g)
                problem = None
                if sg != "ok":
                    problem = ("diagnostic-on-retagged-member", f"the twin without re-tagging is mapped fine; here: {sg}")
                elif (rt == twin) and not (rg == g):
                    problem = ("retagged-member-changed", "the result is not == the argument (the twin's is)")
                elif (rt == twin) and tag_profile(rg) != tag_profile(g):
                    problem = ("retagged-member-loses-tags", "tags / axis tags of the result differ from the argument's")
                elif rt is twin and rg is not g:
                    problem = ("retagged-member-not-returned-itself",
                               "nothing changes, the twin is returned itself, the re-tagged graph is rebuilt")
                if problem is None:
                    continue
                bad += 1
                sig = f"named-member:{problem[0]}:{cls.__name__}"
                if sig in reported:
                    continue
                reported.add(sig)
                ctx.violation(sig, f"{cls.__name__} on a graph using a {variant} member of a {container}: {problem[1]}",
                              {"check": "named-members", "mapper": cls.__name__, "container": container,
                               "variant": variant, "graph": {"family": "c13_named.build", "container": container,
                                                             "variant": variant}})
    ctx.note_batch("retagged-container-members-as-operands", n, bad, exhaustive=True, not_judged=sorted(not_judged)[:30])

"""C08 — partitioned distributed execution terminates and is faithful in all schedules.

Theorems (lean/PtProofs/C08.lean): for every partition satisfying `WFexec`, every interleaving
and every `Waitsome` outcome: no deadlock (`progress`), termination (`decreasing`,
`execution_bounded`), every part finds its inputs (`inputs_present`), terminal states hold the
reference solution (`faithful`); `checkWFexec_sound`.

Tie: the real `find_distributed_partition` + `number_distributed_tags` +
`execute_distributed_partition` run unmodified on fakempi rank-threads.  Every real partition
must pass the verified checker `checkWFexec` in ptdriver; every real execution trace (part
executions, `Waitsome` entries with the executor's context keys / executed pids / completed
names / reference counts, choice points with the set of receivable messages, deliveries) must
be a path of the Lean `Step` relation with equal enabled sets; every rank's result must equal
the global reference evaluation of the unpartitioned program.  Schedules: exhaustive DFS (state
pruning) for <= 3 ranks and <= 4 messages, seeded random beyond.

Search: the schedule explorer itself — a deadlocking / crashing / mis-computing choice list on
the real executor is the failing input (replayable)."""
from __future__ import annotations

import collections
import json

from .. import common, distwork
from ..gen import comm as G

THEOREMS = ["Pt.Dist.progress", "Pt.Dist.decreasing", "Pt.Dist.execution_bounded",
            "Pt.Dist.inputs_present", "Pt.Dist.faithful", "Pt.Dist.checkWFexec_sound",
            "Pt.Dist.wf_implies_wfexec"]


def exec_signature(what: str, patterns: dict) -> str:
    kind = what.split(":")[0]
    if kind == "wrong-value" and patterns.get("output_named_like_input"):
        # an overall output that carries the name of a user input is written into the one
        # `context` namespace and shadows the input for parts that run later
        return "exec:wrong-value:output-name-shadows-input"
    if kind == "raised":
        parts = what.split(":")
        exc = parts[2] if len(parts) > 2 else "?"
        if exc == "PartInputMismatch" and patterns.get("output_named_like_input") and " input x:" in what:
            # the same shadowing defect, seen through the declared type of the shadowed input
            return "exec:wrong-value:output-name-shadows-input"
        if exc == "KeyError" and patterns.get("output_named_like_input") and "'x'" in what:
            return "exec:output-released:output-name-equals-input-name"
        if exc == "AssertionError" and patterns.get("output_named_like_input") and what.endswith("AssertionError:"):
            # execute.py's closing `assert name not in context`: the output re-created the released input name
            return "exec:final-assert:output-name-equals-input-name"
        return f"exec:raised:{exc}"
    return f"exec:{kind}"


def reject_signature(ranks, patterns) -> str:
    raised = [r for r in ranks if r["status"] == "raised"]
    r0 = raised[0] if raised else {"stage": "?", "exc": "?", "text": ""}
    sig = f"no-partition:{r0['stage']}:{r0['exc']}"
    if r0["exc"] == "AssertionError" and "unable to find suitable part" in (r0["text"] or "") \
            and patterns.get("payload_through_send_holder"):
        sig += ":payload-through-send-holder"
    return sig


def run(ctx: common.Ctx):
    ctx.assumptions += [
        "MPI point-to-point semantics are replaced by fakempi's scheduler, which allows any delivery order "
        "and any non-empty Waitsome subset (at least what MPI permits); OpenCL transfers are identity",
        "part programs are evaluated by an independent NumPy evaluator (harness/distrun.eval_array + ilinterp), "
        "not by generated loopy code",
        "the executor's local state is observed read-only through its Python frame (context keys, executed "
        "pids, completed names, reference counts)",
        "programs: int64 vectors, elementwise arithmetic; 1..4 ranks, 0..6 messages (harness/gen/comm.py)",
    ]
    ctx.lean_obligations("PtProofs.C08", THEOREMS)
    nsmall, nbig = (6000, 8000) if ctx.thorough else (300, 300)
    tasks = []
    for i in range(nsmall):
        tasks.append({"seed": ctx.seed, "index": i, "profile": "small", "max_runs": 4000 if ctx.thorough else 500,
                      "max_traces": 60 if ctx.thorough else 30})
    for i in range(nbig):
        tasks.append({"seed": ctx.seed, "index": i, "profile": "default",
                      "max_runs": 3000 if ctx.thorough else 300,
                      "nrandom": 40 if ctx.thorough else 10, "max_traces": 40 if ctx.thorough else 12})
    # hand-built families (reuse / fan-in / data wrappers / same array / node kinds / same tag)
    fam = list(G.families())
    for sp in (fam if ctx.thorough else fam[::3]):
        tasks.append({"seed": 0, "index": sp["index"], "profile": sp["profile"], "spec": sp,
                      "max_runs": 300, "nrandom": 6, "max_traces": 10})
    # generated code of the permuted partitions: the first programs of each profile
    for t in tasks:
        if "spec" not in t and t["index"] < (60 if ctx.thorough else 8):
            t["order_codegen"] = True
        t["call_sequences"] = ctx.thorough or t["index"] % 2 == 0
    try:
        results = distwork.run_pool(distwork.c08_unit, tasks,
                                    deadline_s=3000 if ctx.thorough else 600)
    except distwork.WorkTimeout as e:
        raise common.LeanError(f"C08 work pool timed out: {e}")   # exit 2, never VIOLATION

    dist = collections.Counter()
    topo = collections.Counter()
    sched = {"runs": 0, "complete": 0, "pruned": 0, "exhaustive_programs": 0, "random_programs": 0,
             "max_options": 0, "max_depth": 0, "budget_exhausted_programs": 0}
    queries, qmeta = [], []
    n_exec_cases = n_exec_dis = n_exec_nontriv = n_prog_comm = 0
    order_cnt = collections.Counter()
    call_cnt = collections.Counter()
    for t, res in zip(tasks, results):
        if res.get("timeout"):
            raise common.LeanError(f"C08: program {t} timed out inside fakempi")
        if res.get("skip"):
            dist["skipped"] += 1
            continue
        st = res["stats"]
        dist[f"ranks={st['nranks']}"] += 1
        dist[f"ncomm={st['ncomm']}"] += 1
        topo[st["topology"]] += 1
        for k in ("send_of_recv", "forwarded_unchanged", "holder_on_recv", "passthrough_outputs",
                  "repeated_peer", "stored"):
            if st[k]:
                dist[f"has:{k}"] += 1
        for k, v in res["patterns"].items():
            if v:
                dist[f"pattern:{k}"] += 1
        replay_base = {"program": {"seed": t["seed"], "index": t["index"], "profile": t["profile"]},
                       "spec": t.get("spec") or G.generate(t["seed"], t["index"], t["profile"])}
        if res.get("rejected"):
            dist["rejected"] += 1
            sig = reject_signature(res["ranks"], res["patterns"])
            ctx.violation(sig, "a valid multi-rank program (matching sends/receives, acyclic) gets no partition: "
                          + json.dumps(res["ranks"]), dict(replay_base, ranks=res["ranks"]))
            continue
        ex = res["explore"]
        for k in ("runs", "complete", "pruned"):
            sched[k] += ex[k]
        sched["max_options"] = max(sched["max_options"], ex["max_options"])
        sched["max_depth"] = max(sched["max_depth"], ex["max_depth"])
        if ex["mode"] == "exhaustive":
            if ex["exhaustive"]:
                sched["exhaustive_programs"] += 1
            else:
                sched["budget_exhausted_programs"] += 1
        else:
            sched["random_programs"] += 1
        n_exec_cases += ex["complete"]
        if st["ncomm"] > 0:
            n_exec_nontriv += ex["complete"]
            n_prog_comm += 1
        for f in ex["failures"]:
            n_exec_dis += 1
            sig = exec_signature(f["what"], res["patterns"])
            ctx.violation(sig, f"real executor on fakempi: {f['what']} (program seed={t['seed']} "
                          f"index={t['index']} profile={t['profile']}, schedule {f['choices']})",
                          dict(replay_base, choices=f["choices"], what=f["what"]))
        od = res.get("order")
        if od:
            order_cnt.update(od["counters"])
            order_cnt["programs"] += 1
            seen_sig = set()
            for pb in od["problems"]:
                sig = "order-dependence:" + pb["what"]
                order_cnt["problems"] += 1
                if sig in seen_sig:
                    continue
                seen_sig.add(sig)
                ctx.violation(sig, f"the partition of a valid program (seed={t['seed']} index={t['index']} "
                              f"profile={t['profile']}), rebuilt with the entries of every mapping / set in another "
                              f"order ({pb['order']}): {pb['what']} — {pb['detail']}; in the order given by "
                              f"find_distributed_partition everything passes",
                              dict(replay_base, order=pb["order"], what=pb["what"], detail=pb["detail"],
                                   choices=pb.get("choices", [])))
        cs = res.get("calls")
        if cs:
            call_cnt.update(cs["counters"])
            call_cnt["programs"] += 1
            for pb in cs["problems"]:
                call_cnt["problems"] += 1
                ctx.violation(f"call-sequence:{pb['mode']}:{pb['what']}",
                              f"the partition of a valid program (seed={t['seed']} index={t['index']} "
                              f"profile={t['profile']}) executed repeatedly ({pb['mode']}): call {pb['call']} "
                              f"(counting from 0): {pb['detail']}",
                              dict(replay_base, mode=pb["mode"], call=pb["call"], what=pb["detail"],
                                   choices=pb.get("choices", [])))
        if res["py_clauses"] and not ex["failures"]:
            # C09's business, noted here for the record
            dist["py-clause-failures"] += 1
        failed = bool(ex["failures"])
        queries.append(f"(dist checkwfexec {res['P']})")
        qmeta.append(("wf", t, res, failed))
        for tr in ex["traces"]:
            queries.append(f"(dist trace {res['P']} {tr})")
            qmeta.append(("trace", t, res, failed))
        if ex.get("unobservable"):
            ctx.broken.append("harness:executor-frame-not-observable")
        if len(ctx.samples) < 8:
            ctx.sample({"program": replay_base["program"], "stats": st, "schedules": {k: ex[k] for k in
                        ("mode", "runs", "complete", "pruned", "exhaustive")}})
    answers = common.driver_query_parallel(queries)
    n_wf = n_wf_dis = n_tr = n_tr_dis = n_tr_nontriv = 0
    for (kind, t, res, failed), a in zip(qmeta, answers):
        prog = {"seed": t["seed"], "index": t["index"], "profile": t["profile"]}
        if kind == "wf":
            n_wf += 1
            if a != "ok true":
                n_wf_dis += 1
                if not failed:
                    # the verified checker rejects a partition on which no failing schedule was found
                    ctx.broken.append(f"correspondence:checkWFexec-rejects-real-partition:{a}:{prog}")
        else:
            n_tr += 1
            n_tr_nontriv += res["stats"]["ncomm"] > 0
            if not a.startswith("ok ok"):
                n_tr_dis += 1
                if not failed:
                    why = a.split(" ", 3)[-1] if a.startswith("ok bad") else a
                    ctx.broken.append(f"correspondence:real-trace-is-not-a-Step-path:{why.split(' ')[0]}:{prog}")
    ctx.note_batch("real-executions", n_exec_cases, n_exec_dis + n_tr_dis, exhaustive=False,
                   nontrivial=n_exec_nontriv, programs=len(tasks),
                   how="every complete schedule of every program runs the real executor on fakempi: all ranks' "
                       "outputs == global reference, no deadlock / spin / exception / leftover message; its event "
                       "trace (exec / wait with executor snapshot / choice point with available set / deliver / "
                       "finish / terminal) is replayed in the Lean transition system (distinct traces only)",
                   failing_schedules=n_exec_dis, traces_replayed_in_lean=n_tr, traces_not_step_paths=n_tr_dis,
                   traces_nontrivial=n_tr_nontriv)
    ctx.note_batch("real-partitions-checkWFexec", n_wf, n_wf_dis, exhaustive=False, nontrivial=n_prog_comm,
                   how="ptdriver runs the verified checker on the union of all ranks' real partitions")
    ctx.note_batch("partitions-in-permuted-order", order_cnt["permuted_partitions"], order_cnt["problems"],
                   exhaustive=False, nontrivial=order_cnt["permuted_partitions"], programs=order_cnt["programs"],
                   executions=order_cnt["executions"], tag_tables=order_cnt["tag_tables"],
                   codegen_partitions=order_cnt["codegen_partitions"],
                   how="every valid program with messages and without failing schedule: its real partition is "
                       "rebuilt with the entries of every mapping / set (parts, name_to_output, name_to_recv_node, "
                       "name_to_send_nodes + the sends of one name, output_names, needed_pids, user / partition "
                       "input names) reversed and shuffled (seeded); the real verify must accept, the real "
                       "number_distributed_tags must give one contiguous injective table agreed by all ranks, the "
                       "real executor (first-option and one seeded schedule) must give the reference values, and "
                       "generate_code_for_partition (first programs only) the same kernels, argument order and "
                       "bound arguments per part")
    ctx.note_batch("call-sequences", call_cnt["calls"], call_cnt["problems"], exhaustive=False,
                   nontrivial=call_cnt["calls"], programs=call_cnt["programs"], sequences=call_cnt["sequences"],
                   how="the numbered partition of a valid program executed 3 times in a row by the real "
                       "execute_distributed_partition (as a time loop does), once per way of handing over the "
                       "inputs: the SAME dict object every time / a fresh copy per call / the same object with one "
                       "input per rank replaced by the caller between calls; every call must return the reference "
                       "values for ITS inputs and leave the caller's dict as it was (same keys, same objects, "
                       "nothing added); the latter is also checked after every single execution of batch 1 "
                       "(failure class caller-input-dict-modified)")
    ctx.coverage["programs"] = len(tasks)
    ctx.coverage["program_distribution"] = dict(sorted(dist.items()))
    ctx.coverage["topologies"] = dict(sorted(topo.items()))
    ctx.coverage["schedules"] = sched
    ctx.coverage["traces_validated_against_impl"] = n_tr
    ctx.coverage["rule"] = ("a case = one complete real execution under one schedule (batch 1: schedules of one "
                            "program are distinct choice lists of the DFS, or seeded draws), one real partition "
                            "(batch 2), one distinct real event trace replayed in Lean (batch 3, de-duplicated "
                            "per program); non-trivial = the program has at least one message")
    ctx.broken = sorted(set(ctx.broken))[:30]


def replay(ctx, path):
    r = json.loads(open(path).read())
    print(json.dumps({k: r.get(k) for k in ("signature", "what", "program", "choices")}, indent=1))
    if "spec" not in r:
        print("replay has no program; re-running the check")
        run(ctx)
        return ctx.finish()
    from .. import distrun
    distrun.setup()
    try:
        out = distwork.run_pool(distwork.c08_replay_unit, [{"spec": r["spec"], "choices": r.get("choices", [])}],
                                nproc=1, deadline_s=120)[0]
    except distwork.WorkTimeout:
        return 2
    print(json.dumps(out, indent=1, default=str))
    bad = out.get("rejected") or out.get("what")
    print("REPRODUCED" if bad else "not reproduced on the current tree")
    return 1 if bad else 0

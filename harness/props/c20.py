"""C20 — graph analyses agree with the graph and with each other.

Ties (re-run on every check against /repo's current tree):
 1. TRANSLATOR: `harness/extract/children.py` rebuilds, per node kind, the edges each of the
    three users/predecessor implementations reports (`PtGen.usersTables`);
    `PtProofs.C20Tables.three_users_agree` (decide +kernel) must accept it.  A rejected row is
    located here and replayed on the real code -> `users-disagree:<Kind>:<edge>:<pattern>` /
    `users-raises:<Impl>:<Kind>`.
 2. CORRESPONDENCE: every analysis function on C13's graphs, `kinds.all_kind_graph()` and
    seeded random DAGs (symbolic shapes, several outputs, functions, distributed nodes,
    duplicates) vs (a) the Lean model through ptdriver on the reflectively serialised heap and
    (b) a reflective oracle in Python that shares no code with pytato's mappers.
"""
from __future__ import annotations

import json
import random
from collections import Counter
from typing import Any

from .. import common, heapser, reflect
from ..extract import children as ch
from ..gen import dags, kinds
from . import c13

THEOREMS = [
    "Pt.users_converse", "Pt.users_multiplicity", "Pt.topo_valid", "Pt.count_distinct",
    "Pt.typeCount_spec", "Pt.count_distinct_structural", "Pt.tagcount_eq", "Pt.materialized_spec",
]
TABLE_THEOREMS = ["Pt.three_users_agree"]
LIMIT = c13.TRAVERSAL_LIMIT_S

NON_ARRAY_KINDS = ["DictOfNamedArrays", "Call", "LoopyCall", "FunctionDefinition"]
MAT_KINDS = ["Placeholder", "DataWrapper", "SizeParam", "DistributedRecv", "CSRMatmul",
             "LoopyCallResult", "NamedCallResult"]
MAT_EDGES = [("DistributedSendRefHolder", "send"), ("LoopyCall", "bind"), ("Call", "bind"),
             ("FunctionDefinition", "ret")]


# --------------------------------------------------------------------------
# graphs
# --------------------------------------------------------------------------

try:
    import dataclasses as _dc
    from pytools.tag import Tag as _PtTag

    @_dc.dataclass(frozen=True)
    class VLabelTag(_PtTag):
        """a non-unique user tag with a field: one node may carry several"""
        label: str
except Exception:   # noqa: BLE001
    VLabelTag = None


def build_graph(spec: dict):
    fam = spec["family"]
    if fam == "tagged_ladder":
        from pytato.tags import ImplStored
        from ..gen.kinds import VFooTag
        import pytato as pt
        a = dags.ladder(spec["depth"], tag=VFooTag(), tag_every=2)
        b = dags.ladder(spec["depth"], name="y", tag=ImplStored(), tag_every=3)
        both = (a + b).tagged(VFooTag()).tagged(ImplStored())
        return pt.make_dict_of_named_arrays({"a": a, "b": b, "both": both, "a2": a})
    if fam == "tagged_diamond":
        from ..gen.kinds import VFooTag
        return dags.diamond(tag=VFooTag())
    if fam == "random_plain":
        from pytato.tags import ImplStored
        from ..gen.kinds import VFooTag
        g = dags.random_dag(random.Random(spec["seed"]), size=spec.get("size", 30), symbolic=False,
                            functions=False, distributed=spec.get("distributed", True),
                            duplicates=False, tags=(VFooTag(), ImplStored()),
                            n_outputs=spec.get("n_outputs"))
        return c13.reflective_dedup(g) if spec.get("dedup", True) else g
    if fam == "random_tagged":
        from pytato.tags import ImplStored
        from ..gen.kinds import VFooTag
        g = dags.random_dag(random.Random(spec["seed"]), size=spec.get("size", 30),
                            duplicates=spec.get("rdup", False), tags=(VFooTag(), ImplStored()),
                            n_outputs=spec.get("n_outputs"))
        return c13.reflective_dedup(g) if spec.get("dedup") else g
    if fam == "multi_tags":
        # nodes carrying SEVERAL tags of one (non-unique) type, next to nodes with one and with none
        import numpy as np
        import pytato as pt
        from ..gen.kinds import VFooTag
        x = pt.make_placeholder("x", (3,), np.float64)
        y = pt.make_placeholder("y", (3,), np.float64)
        a = (x + y).tagged((VLabelTag("a"), VLabelTag("b")))
        b = (a * 2).tagged((VLabelTag("a"), VFooTag()))
        c = (b - x).tagged((VLabelTag("c"), VLabelTag("d"), VLabelTag("e"), VFooTag()))
        d = pt.sin(c).tagged(VFooTag())
        e = (d + a).tagged(VLabelTag("a"))
        return pt.make_dict_of_named_arrays({"o": e + y, "p": c * d})
    if fam == "repeated_operands":
        import numpy as np
        import pytato as pt
        x = pt.make_placeholder("x", (3,), np.float64)
        y = pt.make_placeholder("y", (3,), np.float64)
        m = pt.make_placeholder("m", (3, 3), np.float64)
        t = x + y
        k = spec["variant"]
        outs = [{"a": x + x, "b": t * t},
                {"a": pt.einsum("i,i->", x, x), "b": m @ m + pt.einsum("ij,jk,ki->", m, m, m)},
                {"a": pt.stack([x, y, x]), "b": pt.concatenate([t, x, t])},
                {"a": pt.where(pt.greater(x, x), x, x), "b": pt.maximum(t, t)},
                {"a": x[pt.make_placeholder("i", (3,), np.int64)] + x, "b": (t + t) * (t + t), "c": t},
                {"a": x + x, "a2": x + x, "b": pt.stack([t, t, t, t], axis=1)}][k]
        return pt.transform.deduplicate(pt.make_dict_of_named_arrays(outs))
    return c13.build_graph(spec)


def graph_specs(ctx) -> list[dict]:
    depths = [10, 60] if not ctx.thorough else [10, 20, 40, 60]
    specs: list[dict] = [{"family": "diamond"}, {"family": "tagged_diamond"}]
    specs += [{"family": "ladder", "depth": d} for d in depths]
    specs += [{"family": "tagged_ladder", "depth": d} for d in depths]
    specs += [{"family": "every_edge", "dedup": True}, {"family": "every_edge", "dedup": True, "loopy": True},
              {"family": "all_kinds", "dedup": True}]
    nr = 240 if ctx.thorough else 24
    base = ctx.seed * 10000
    specs += [{"family": "random_plain", "seed": base + i, "size": 30} for i in range(nr)]
    specs += [{"family": "random_plain", "seed": base + 300 + i, "size": 20, "n_outputs": 0} for i in range(nr // 3)]
    specs += [{"family": "random_tagged", "seed": base + 1000 + i, "size": 35, "dedup": True} for i in range(nr)]
    # with structurally equal duplicates left in (id-keyed analyses must count objects)
    specs += [{"family": "random_tagged", "seed": base + 2000 + i, "size": 35, "rdup": True} for i in range(nr)]
    specs += [{"family": "ladder", "depth": depths[0], "dup": True}, {"family": "diamond", "dup": True}]
    # ONE object in several operand slots of ONE user (uses are counted with multiplicity)
    specs += [{"family": "repeated_operands", "variant": k} for k in range(6)]
    specs += [{"family": "multi_tags"}]
    # nested, shared functions in every visiting order (counts and call sites vs the reflective walk)
    specs += [sp for sp in c13.nested_specs(ctx)]
    specs += [dict(sp, tag="VFooTag") for sp in c13.nested_specs(ctx)[1:4]]
    return specs


# --------------------------------------------------------------------------
# helpers
# --------------------------------------------------------------------------

def tbl_exclusions(t: ch.Tables, impl: str) -> list[tuple[str, str]]:
    """(node class, edge class) pairs the users/predecessor implementation does NOT report"""
    out = set()
    for i, k, labels in t.users:
        if i != impl:
            continue
        for lb, ec in t.array_edges[k]:
            if lb not in labels:
                out.add((t.cls(k), ec))
    # kinds on which the implementation raises report nothing
    for i, k, _ in t.users_unsupported:
        if i == impl:
            for lb, ec in t.array_edges[k]:
                out.add((t.cls(k), ec))
    out |= {("*", "function"), ("*", "ret")}
    return sorted(out)


def walk_exclusions(t: ch.Tables, mapper: str, extra=()) -> list[tuple[str, str]]:
    ex = set(ch.exclusions_for(t, mapper)) | set(extra)
    if mapper in t.skips:
        # the FunctionDefinition object itself may be touched (see c13.check_traversals); never its body
        ex |= {("*", "ret")}
    return sorted(ex)


def edge_class_between(v: heapser.HeapView, parent: int, child: int) -> list[str]:
    return [c for _, c, j in v.edges[parent] if j == child]


class Raised:
    def __init__(self, e):
        self.e = e


_current_depth = [0]


def guarded(fn, *a, **kw):
    if TIMED_OUT and _current_depth[0] > 12:
        # something already ran out of time on a deep ladder: do not spend 10 s per call again
        nm = getattr(fn, "__name__", "")
        if any(nm and nm in f for f in TIMED_OUT) or (not nm):
            return Raised(TimeoutError("skipped after an earlier timeout"))
    try:
        with c13.time_limit(LIMIT):
            return fn(*a, **kw)
    except c13.TraversalTimeout:
        return Raised(TimeoutError("traversal limit"))
    except Exception as e:    # noqa: BLE001
        return Raised(e)


def attribute_raise(t: ch.Tables, fn_name: str, err, kinds_present: set[str]) -> str:
    refused = ch.refused_kinds(t, fn_name)
    cands = sorted(k for k, x in refused.items() if k in kinds_present and x == type(err).__name__)
    if not cands:
        return "unattributed"
    # a FunctionDefinition is reachable only through a Call: name the Call
    cands = sorted({"Call" if k == "FunctionDefinition" else k for k in cands})
    return cands[0]


# --------------------------------------------------------------------------
# 1. users tables
# --------------------------------------------------------------------------

def users_replay(t: ch.Tables, kind: str) -> dict:
    node = t.kinds[kind]
    rows = ch.users_rows(node)
    return {"probe": c13.describe(node), "stored_edges": [lb for lb, _ in t.array_edges[kind]],
            "derived_shape_edges": [lb for lb, _ in t.derived_edges[kind]],
            "reported": {impl: {"status": st, "edges_or_exception": val} for impl, (st, val) in rows.items()}}


def check_users_tables(ctx, t: ch.Tables, lean_ok: bool):
    sigs = ch.users_signatures(t)
    known = ctx.known_signatures()
    for sig, rows in sorted(sigs.items()):
        k, lb, ec, pat = rows[0]
        if ec == "raises":
            what = (f"{pat.split(':')[0]} raises {pat.split(':')[1]} on a {t.cls(k)} node "
                    f"(the other implementations handle it)")
        else:
            who = {"L": "ListOfUsersCollector", "U": "UsersCollector", "P": "ListOfDirectPredecessorsGetter"}
            parts = [f"{who[pat[i]]} {'reports' if pat[i + 1] == '+' else ('raises' if pat[i + 1] == '!' else 'does not report')}"
                     for i in range(0, len(pat), 2)]
            what = (f"edge class '{ec}' of {t.cls(k)} (edge {lb}): " + "; ".join(parts)
                    + " — users and predecessors are not converse")
        ctx.violation(sig, what, {"check": "users-table", "kind": k, "label": lb, "edge_class": ec,
                                  "pattern": pat, "observed": users_replay(t, k),
                                  "expected": "all three implementations report the same edges"})
    ctx.note_batch("users-table-rows", len(t.users), len(ch.users_disagreements(t)), exhaustive=True,
                   signatures=sorted(sigs))
    unknown = [s for s in sigs if s not in known]
    if lean_ok and unknown:
        ctx.broken.append("translator-vs-kernel:python-finds-disagreeing-rows-the-kernel-accepted:" + ";".join(unknown))
    if not lean_ok and sigs:
        ctx.broken = [b for b in ctx.broken if b != "lean-build:PtProofs.C20Tables"]
    return set(sigs)


# --------------------------------------------------------------------------
# 2. analyses on graphs
# --------------------------------------------------------------------------

def entering(case) -> None:
    _current_depth[0] = case.spec.get("depth", 0)


class GraphCase:
    def __init__(self, spec):
        self.spec = spec
        self.graph = build_graph(spec)
        self.v = heapser.view(self.graph)
        self.ns = c13.namespaces(self.v)
        self.outer = sorted(i for i, s in enumerate(self.ns) if -1 in s)
        self.kinds_present = {self.v.kind(i) for i in range(len(self.v.nodes))}
        self.outer_kinds = {self.v.kind(i) for i in self.outer}
        self.dups = bool(c13.duplicates_within_namespace(self.v)) or c13.has_duplicates(self.v)
        self.dups_ns = bool(c13.duplicates_within_namespace(self.v))    # within ONE namespace
        self.hx = self.v.sexp()

    def idx(self, obj):
        return self.v.index.get(id(obj))


TIMED_OUT: set[str] = set()


def report_raise(ctx, t, fn_name: str, case: GraphCase, err, kinds_present=None) -> str:
    nm = fn_name[3:] if fn_name.startswith("fn:") else fn_name
    if isinstance(err, TimeoutError):
        TIMED_OUT.add(fn_name)
        sig = f"mapper-retraverses:{nm}"
        ctx.violation(sig, f"{nm} did not finish a graph of {len(case.v.nodes)} nodes ({case.spec}) within "
                           f"{LIMIT:.0f} s — shared nodes are traversed again on every path",
                      {"check": "analysis-raises", "function": fn_name, "graph": case.spec, "error": "timeout"})
        return sig
    kind = attribute_raise(t, fn_name, err, kinds_present or case.kinds_present)
    sig = f"analysis-raises:{nm}:{kind}"
    ctx.violation(sig, f"{nm} raises {type(err).__name__} ({str(err)[:120]}) on a valid graph containing a {kind} "
                       f"node ({case.spec})",
                  {"check": "analysis-raises", "function": fn_name, "graph": case.spec,
                   "error": f"{type(err).__name__}: {err}", "culprit_kind": kind,
                   "expected": "a result (the statement quantifies over every expression graph)"})
    return sig


def check_users(ctx, t: ch.Tables, cases: list[GraphCase], table_sigs: set[str]):
    """real get_list_of_users / get_users / predecessors vs the model under each implementation's
    own edge table, and the converse property between the real outputs"""
    import pytato.analysis as pa
    import pytato.transform as ptf
    queries, pend = [], []
    n = dis = 0
    tblL, tblU, tblP = (tbl_exclusions(t, i) for i in ch.USERS_IMPLS)
    walkL = walk_exclusions(t, "ListOfUsersCollector")
    walkU = walk_exclusions(t, "UsersCollector")
    table_pairs = {(s.split(":")[1], s.split(":")[2]) for s in table_sigs if s.startswith("users-disagree:")}
    for case in cases:
        if case.dups:
            continue          # the result dictionaries are keyed by equality
        v = case.v
        entering(case)
        lu = guarded(pa.get_list_of_users, case.graph)
        uc = guarded(ptf.get_users, case.graph)
        dp_ok = {}
        dpg = pa.ListOfDirectPredecessorsGetter()
        for i in case.outer:
            r = guarded(dpg, v.nodes[i])
            if isinstance(r, Raised):
                sig = f"users-raises:ListOfDirectPredecessorsGetter:{v.kind(i)}"
                ctx.violation(sig, f"ListOfDirectPredecessorsGetter raises {type(r.e).__name__} on a {v.kind(i)} node",
                              {"check": "users", "graph": case.spec, "node": c13.describe(v.nodes[i])})
            else:
                dp_ok[i] = r
        n += 1
        # get_nusers counts USES (an operand in two slots of one user is used twice): it is the length of the list
        # get_list_of_users reports for the node, and both count the stored edges the reflective walk sees
        nu = guarded(pa.get_nusers, case.graph)
        if isinstance(nu, Raised):
            dis += 1
            report_raise(ctx, t, "fn:get_nusers", case, nu.e)
        elif not isinstance(lu, Raised):
            for u, users in lu.items():
                if nu.get(u, 0) != len(users):
                    dis += 1
                    ui = case.idx(u)
                    ctx.violation("nusers:differs-from-list-of-users",
                                  f"get_nusers reports {nu.get(u, 0)} for a {type(u).__name__} node that get_list_of_users "
                                  f"lists {len(users)} times (users: {sorted(type(x).__name__ for x in users)}) in {case.spec}",
                                  {"check": "users", "graph": case.spec, "node": c13.describe(u) if ui is not None else None})
                    break
            extra = [k for k in nu if k not in lu and nu[k] != 0]
            if extra:
                dis += 1
                ctx.violation("nusers:differs-from-list-of-users",
                              f"get_nusers reports users for {len(extra)} node(s) get_list_of_users does not list ({case.spec})",
                              {"check": "users", "graph": case.spec})
        for name, res in (("fn:get_list_of_users", lu), ("fn:get_users", uc)):
            if isinstance(res, Raised):
                dis += 1
                report_raise(ctx, t, name, case, res.e)
        # --- model comparisons
        if not isinstance(lu, Raised):
            real = {}
            for u, users in lu.items():
                ui = case.idx(u)
                if ui is None:
                    ctx.broken.append(f"correspondence:users:key-not-in-graph:{case.spec}")
                    continue
                # users through a DERIVED shape component (Einsum, CSRMatmul report them) are not edges
                # of the stored graph: outside the model, covered by the converse check below
                real[ui] = sorted(case.idx(x) if case.idx(x) is not None else -1 for x in users
                                  if case.idx(x) is None or edge_class_between(v, case.idx(x), ui))
            pend.append(("LU", case, real, len(queries)))
            queries.append(f"(mapper users {case.hx} {v.root} {heapser.excl(walkL)} {heapser.excl(tblL)})")
        if not isinstance(uc, Raised):
            real = {}
            extra_send = extra_ncr = 0
            for u, users in uc.items():
                ui = case.idx(u)
                if ui is None:
                    continue
                ids = set()
                for x in users:
                    xi = case.idx(x)
                    if xi is None:
                        extra_send += 1          # the DistributedSend object (not a graph node)
                    elif v.kind(xi) == "NamedCallResult" and ui not in [j for _, _, j in v.edges[xi]]:
                        extra_ncr += 1           # user of the CALL's binding attributed to the call result
                    elif not edge_class_between(v, xi, ui):
                        pass                     # through a derived shape component (see above)
                    else:
                        ids.add(xi)
                real[ui] = sorted(ids)
            pend.append(("UC", case, real, len(queries)))
            queries.append(f"(mapper users {case.hx} {v.root} {heapser.excl(walkU)} {heapser.excl(tblU)})")
            if extra_send and ("DistributedSendRefHolder", "send") not in table_pairs:
                ctx.broken.append(f"correspondence:UsersCollector:send-user-not-in-table:{case.spec}")
            if extra_ncr and ("Call", "bind") not in table_pairs:
                ctx.broken.append(f"correspondence:UsersCollector:call-result-user-not-in-table:{case.spec}")
        real = {}
        for i, preds in dp_ok.items():
            ids = []
            for p in preds:
                pi = case.idx(p)
                if pi is None:
                    # not an object of the graph: a derived shape expression rebuilt by `.shape`
                    if (index_kind(v.kind(i)), "dshape") not in {(index_kind(a), b) for a, b in table_pairs}:
                        ctx.broken.append(f"correspondence:preds:foreign-object:{v.kind(i)}:{case.spec}")
                    continue
                if not edge_class_between(v, i, pi):
                    # a graph object that is not a stored child: a derived shape component (e.g. the
                    # SizeParam itself) — outside the model, covered by the converse check below
                    continue
                ids.append(pi)
            real[i] = ids
        pend.append(("DP", case, real, len(queries)))
        queries.append(f"(mapper preds {case.hx} {heapser.excl(tblP)})")
        # --- converse between the REAL outputs (list versions, with multiplicity)
        if not isinstance(lu, Raised):
            for vi, preds in dp_ok.items():
                cnt_p = Counter(case.idx(p) for p in preds if case.idx(p) is not None)
                for ui in set(cnt_p) | {j for _, _, j in v.edges[vi]}:
                    users = lu.get(v.nodes[ui], []) if ch._hashable(v.nodes[ui]) and _is_array(v.nodes[ui]) else []
                    cu = sum(1 for x in users if x is v.nodes[vi])
                    if cu != cnt_p.get(ui, 0):
                        ecs = edge_class_between(v, vi, ui) or ["dshape"]
                        if (v.kind(vi), ecs[0]) in table_pairs or (index_kind(v.kind(vi)), ecs[0]) in \
                                {(index_kind(a), b) for a, b in table_pairs}:
                            continue       # the per-kind disagreement already located in the table
                        dis += 1
                        ctx.violation(f"users-converse:{v.kind(vi)}:{ecs[0]}",
                                      f"{v.kind(vi)} node lists a {v.kind(ui)} as predecessor {cnt_p.get(ui, 0)}x "
                                      f"(edge class {ecs[0]}) but get_list_of_users lists it as that node's user {cu}x",
                                      {"check": "users", "graph": case.spec, "user": c13.describe(v.nodes[vi]),
                                       "used": c13.describe(v.nodes[ui], 1), "preds_count": cnt_p.get(ui, 0),
                                       "users_count": cu})
    answers = common.driver_query_parallel(queries)
    for which, case, real, qi in pend:
        a = answers[qi]
        if not a.startswith("ok "):
            ctx.broken.append(f"driver:{a[:80]}")
            continue
        lists = heapser.parse_id_lists(a[3:])
        v = case.v
        for i in range(len(v.nodes)):
            m = sorted(lists[i])
            r = sorted(real.get(i, []))
            if which == "UC":
                m = sorted(set(m))
            if which == "DP" and i not in real:
                continue
            if which in ("LU", "UC") and -1 not in case.ns[i]:
                continue
            if which == "LU" and not _is_array(v.nodes[i]):
                continue           # the mapping is keyed by arrays
            if m != r:
                dis += 1
                sig = f"users-model:{which}:{v.kind(i)}"
                ctx.violation(sig,
                              f"{ {'LU': 'get_list_of_users', 'UC': 'get_users', 'DP': 'ListOfDirectPredecessorsGetter'}[which]} "
                              f"on {case.spec}: for a {v.kind(i)} node the real result {[f'{j}:{v.kind(j)}' for j in r][:8]} "
                              f"differs from the model under the implementation's own per-kind table "
                              f"{[f'{j}:{v.kind(j)}' for j in m][:8]} (multiplicity / sharing / caching)",
                              {"check": "users", "graph": case.spec, "which": which, "node": i,
                               "real": r, "model": m})
                break
    ctx.note_batch("users-preds-on-graphs", n * 3, dis, exhaustive=False)


def index_kind(k: str) -> str:
    return ch.index_family(k)


def _is_array(x) -> bool:
    from pytato.array import Array
    return isinstance(x, Array)


def check_topo(ctx, t: ch.Tables, cases: list[GraphCase]):
    import pytato.transform as ptf
    queries, pend = [], []
    n = dis = 0
    walk = walk_exclusions(t, "TopoSortMapper")
    for case in cases:
        v = case.v
        entering(case)
        m = ptf.TopoSortMapper()
        r = guarded(m, case.graph) if "TopoSortMapper" not in TIMED_OUT or case.spec.get("depth", 0) <= 12 \
            else Raised(TimeoutError("skipped after an earlier timeout"))
        n += 1
        if isinstance(r, Raised):
            dis += 1
            report_raise(ctx, t, "TopoSortMapper", case, r.e)
            continue
        order = [case.idx(x) for x in m.topological_order]
        if None in order:
            dis += 1
            ctx.broken.append(f"correspondence:topo:foreign-object:{case.spec}")
            continue
        # independent validation: every node after every ARRAY it (transitively through
        # non-array containers) depends on — reflective edges, never a mapper
        pos = {j: p for p, j in enumerate(order)}
        bad = None
        if len(pos) != len(order):
            bad = ("listed twice", [j for j, c in Counter(order).items() if c > 1][0], None)
        for j in order:
            if bad:
                break
            st = [c for _, ec, c in v.edges[j] if ec != "function"]
            seen = set()
            while st:
                c = st.pop()
                if c in seen:
                    continue
                seen.add(c)
                if _is_array(v.nodes[c]):
                    if c not in pos or pos[c] > pos[j]:
                        bad = ("listed before its dependency" if c in pos else "dependency not listed", j, c)
                        break
                else:
                    st += [cc for _, ec, cc in v.edges[c] if ec != "function"]
        if bad:
            dis += 1
            why, j, c = bad
            ctx.violation("topo-order:TopoSortMapper",
                          f"TopoSortMapper on {case.spec}: a {v.kind(j)} node is {why}"
                          + (f" ({v.kind(c)})" if c is not None else ""),
                          {"check": "topo", "graph": case.spec, "order": [f"{x}:{v.kind(x)}" for x in order[:60]],
                           "node": j, "dependency": c,
                           "expected": "every node after all nodes it depends on, each exactly once"})
            continue
        pend.append((case, order, len(queries)))
        queries.append(f"(mapper topo {case.hx} {v.root} {heapser.excl(walk)} {heapser.atoms(NON_ARRAY_KINDS)})")
    answers = common.driver_query_parallel(queries)
    for case, order, qi in pend:
        model = heapser.parse_ids(answers[qi][3:])
        if case.dups:
            ok = sorted(order) == sorted(model)     # id-keyed: every object once
        else:
            ok = sorted(order) == sorted(model)
        if not ok:
            dis += 1
            miss = sorted(set(model) - set(order))
            if miss:
                j = miss[0]
                ctx.violation(f"topo-misses:TopoSortMapper:{case.v.kind(j)}",
                              f"TopoSortMapper on {case.spec} does not list a reachable {case.v.kind(j)} node "
                              f"({len(miss)} missing)",
                              {"check": "topo", "graph": case.spec, "missing": [f"{x}:{case.v.kind(x)}" for x in miss[:20]]})
            else:
                ctx.broken.append(f"correspondence:topo-set:{case.spec}:extra={sorted(set(order) - set(model))[:5]}")
    ctx.note_batch("topological-order", n, dis, exhaustive=False)


def check_counts(ctx, t: ch.Tables, cases: list[GraphCase]):
    import pytato.analysis as pa
    queries, pend = [], []
    n = dis = 0
    # NodeCountMapper walks function bodies with a clone whose counts are dropped: the numbers cover
    # the outer namespace plus the FunctionDefinition objects themselves
    walk = walk_exclusions(t, "NodeCountMapper", extra=[("FunctionDefinition", "ret")])
    for case in cases:
        v = case.v
        entering(case)
        n += 1
        res = {}
        for dup in (True, False):
            r = guarded(pa.get_num_nodes, case.graph, count_duplicates=dup)
            tc = guarded(pa.get_node_type_counts, case.graph, count_duplicates=dup)
            if isinstance(r, Raised) or isinstance(tc, Raised):
                e = r.e if isinstance(r, Raised) else tc.e
                dis += 1
                report_raise(ctx, t, "fn:get_num_nodes", case, e)
                res = None
                break
            res[dup] = (r, {k.__name__: c for k, c in tc.items() if c})
        if res is None:
            continue
        mult = guarded(pa.get_node_multiplicities, case.graph)
        # reflective oracle
        scope = [i for i in range(len(v.nodes))
                 if (-1 in case.ns[i] or (v.kind(i) == "FunctionDefinition" and _fd_reached(case, i)))
                 and v.kind(i) != "DictOfNamedArrays"]
        o_dup = len(scope)
        o_nodup = len({v.cls[i] for i in scope})
        o_types = Counter(v.kind(i) for i in scope)
        problems = []
        if res[True][0] != o_dup:
            problems.append(f"get_num_nodes(count_duplicates=True) = {res[True][0]}, distinct objects = {o_dup}")
        if res[False][0] != o_nodup:
            problems.append(f"get_num_nodes(count_duplicates=False) = {res[False][0]}, distinct nodes = {o_nodup}")
        if res[True][1] != dict(o_types):
            problems.append(f"get_node_type_counts(count_duplicates=True) = {res[True][1]} != {dict(o_types)}")
        if sum(res[False][1].values()) != res[False][0] or sum(res[True][1].values()) != res[True][0]:
            problems.append("type counts do not sum to the node count")
        if not isinstance(mult, Raised):
            o_mult = Counter(v.cls[i] for i in scope)
            r_mult = Counter()
            for k, c in mult.items():
                ki = case.idx(k)
                r_mult[v.cls[ki] if ki is not None else -1] += c
            if r_mult != o_mult:
                problems.append("get_node_multiplicities differs from the number of equal distinct objects per node")
        else:
            problems.append(f"get_node_multiplicities raised {type(mult.e).__name__}")
        if problems:
            dis += 1
            diff = sorted(k for k in set(res[True][1]) | set(o_types) if res[True][1].get(k, 0) != o_types.get(k, 0))
            # the recorded order-dependence concerns definitions that are called from the outer graph AND from inside
            # another function's body, and only ever loses (never adds) such definitions
            nested = [i for i in range(len(v.nodes)) if v.kind(i) == "FunctionDefinition" and _fd_reached(case, i)
                      and _fd_called_from_a_body(case, i)]
            lost = o_types.get("FunctionDefinition", 0) - res[True][1].get("FunctionDefinition", 0)
            lost_nodup = o_nodup - res[False][0]
            if diff == ["FunctionDefinition"] and nested and 0 < lost <= len(nested) and 0 <= lost_nodup <= len(nested):
                ctx.violation("counts-order-dependent:NodeCountMapper:FunctionDefinition",
                              f"get_num_nodes / get_node_type_counts on {case.spec}: {res[True][1].get('FunctionDefinition', 0)} "
                              f"FunctionDefinition nodes counted, {o_types['FunctionDefinition']} are called from the outer "
                              f"graph — a definition first met INSIDE another function's body is counted by a clone whose "
                              f"counts are dropped and is then skipped (cached) at top level, so the result depends on the "
                              f"order of the outputs",
                              {"check": "counts", "graph": case.spec, "problems": problems,
                               "observed_type_counts": res[True][1], "expected_type_counts": dict(o_types)})
                continue
            ctx.violation("counts:NodeCountMapper",
                          f"node counts on {case.spec} disagree with the reflective walk: " + "; ".join(problems)[:400],
                          {"check": "counts", "graph": case.spec, "problems": problems})
            continue
        pend.append((case, res, len(queries)))
        queries.append(f"(mapper counts {case.hx} {v.root} {heapser.excl(walk)} (DictOfNamedArrays))")
    answers = common.driver_query_parallel(queries)
    for case, res, qi in pend:
        a = answers[qi][3:].split()
        if (int(a[0]), int(a[1])) != (res[True][0], res[False][0]):
            dis += 1
            ctx.broken.append(f"correspondence:counts-model:{case.spec}:real={res[True][0]},{res[False][0]}:model={a}")
    ctx.note_batch("node-counts", n, dis, exhaustive=False)


def check_dependency_mappers(ctx, cases):
    """DependencyMapper ("returns every node in the graph": every array of the outer namespace reachable from the
    argument INCLUDING the argument itself — find_distributed_partition looks a send buffer up in its own dependency
    set), SubsetDependencyMapper (= intersection with the universe), InputGatherer / SizeParamGatherer: vs the
    reflective closure, on one probe of every node kind and on every sub-expression of the graph cases"""
    from pytato.array import Array, InputArgumentBase, SizeParam
    from pytato.transform import DependencyMapper, InputGatherer, SizeParamGatherer, SubsetDependencyMapper
    from ..gen import kinds
    roots = []
    for name, ks in kinds.specs().items():
        if isinstance(ks.base, Array):
            roots.append((f"probe:{name}", ks.base))
    for case in cases[:40]:
        g = case.graph
        for n in list(reflect.walk(g, into_functions=False))[:60]:
            if isinstance(n, Array):
                roots.append((f"{case.spec}", n))
    n = dis = 0
    seen_kinds = Counter()
    for label, root in roots:
        n += 1
        seen_kinds[type(root).__name__] += 1
        arrays = [m for m in reflect.walk(root, into_functions=False) if isinstance(m, Array)]
        want = {id(m) for m in arrays}
        try:
            got_nodes = DependencyMapper()(root)
        except Exception as e:   # noqa: BLE001
            dis += 1
            ctx.violation(f"dependencies:raises:{type(root).__name__}:{type(e).__name__}",
                          f"DependencyMapper on a {type(root).__name__} ({label}) raised {type(e).__name__}: {e}", {"graph": label})
            continue
        got = {id(m) for m in got_nodes}
        # equal nodes: compare up to ==
        missing = [m for m in arrays if id(m) not in got and not any(m == q for q in got_nodes)]
        extra = [m for m in got_nodes if id(m) not in want and not any(m == q for q in arrays)]
        if missing or extra:
            dis += 1
            kind = type(missing[0]).__name__ if missing else type(extra[0]).__name__
            self_missing = any(m is root for m in missing)
            ctx.violation(f"dependencies:{'self-' if self_missing else ''}{'missing' if missing else 'extra'}:{kind}",
                          f"DependencyMapper on a {type(root).__name__} ({label}): "
                          + (f"does not contain {[type(m).__name__ for m in missing][:4]}"
                             + (" — among them the node ITSELF" if self_missing else "") if missing else
                             f"contains {[type(m).__name__ for m in extra][:4]} which the node does not depend on"),
                          {"graph": label, "root": type(root).__name__})
            continue
        # subset mapper: universe = every second array
        uni = frozenset(arrays[::2])
        sub = SubsetDependencyMapper(uni)(root)
        if {id(m) for m in sub} != {id(m) for m in got_nodes if m in uni}:
            dis += 1
            ctx.violation(f"dependencies:subset-differs:{type(root).__name__}",
                          f"SubsetDependencyMapper on a {type(root).__name__} ({label}) is not DependencyMapper ∩ universe",
                          {"graph": label})
        inputs = {id(m) for m in arrays if isinstance(m, InputArgumentBase)}
        try:
            ig = {id(m) for m in InputGatherer()(root)}
            sg = {m.name for m in SizeParamGatherer()(root)}
        except Exception as e:   # noqa: BLE001
            dis += 1
            ctx.violation(f"dependencies:gatherer-raises:{type(root).__name__}:{type(e).__name__}",
                          f"InputGatherer/SizeParamGatherer on a {type(root).__name__} ({label}) raised: {e}", {"graph": label})
            continue
        if not (ig <= inputs | ig and {id(m) for m in arrays if isinstance(m, InputArgumentBase)} - ig == set()
                or any(isinstance(m, InputArgumentBase) for m in arrays) is False):
            pass
        lost = [m for m in arrays if isinstance(m, InputArgumentBase) and id(m) not in ig
                and not any(m == q for q in InputGatherer()(root))]
        if lost:
            dis += 1
            ctx.violation(f"dependencies:input-gatherer-misses:{type(lost[0]).__name__}",
                          f"InputGatherer on a {type(root).__name__} ({label}) misses {[type(m).__name__ for m in lost][:3]}",
                          {"graph": label})
        if sg != {m.name for m in arrays if isinstance(m, SizeParam)}:
            dis += 1
            ctx.violation(f"dependencies:size-param-gatherer-differs:{type(root).__name__}",
                          f"SizeParamGatherer on a {type(root).__name__} ({label}) gives {sorted(sg)}", {"graph": label})
    ctx.note_batch("dependency-mappers-vs-reflective-closure", n, dis, exhaustive=False, root_kinds=dict(seen_kinds))


def _fd_called_from_a_body(case: GraphCase, fd: int) -> bool:
    v = case.v
    return any(v.kind(i) == "Call" and any(k != -1 for k in case.ns[i])
               and any(j == fd for _, ec, j in v.edges[i] if ec == "function") for i in range(len(v.nodes)))


def _fd_reached(case: GraphCase, fd: int) -> bool:
    """is the FunctionDefinition the function of a Call of the outer namespace?"""
    v = case.v
    return any(-1 in case.ns[i] and v.kind(i) == "Call" and any(j == fd for _, ec, j in v.edges[i] if ec == "function")
               for i in range(len(v.nodes)))


def check_tagcounts(ctx, t: ch.Tables, cases: list[GraphCase]):
    import pytato.analysis as pa
    from pytato.tags import ImplStored
    from ..gen.kinds import VFooTag
    queries, pend = [], []
    n = dis = 0
    walk = walk_exclusions(t, "TagCountMapper")
    wants = [((VFooTag,), ["VFooTag"]), ((ImplStored,), ["ImplStored"]), ((VFooTag, ImplStored), ["VFooTag", "ImplStored"]),
             ((VLabelTag,), ["VLabelTag"]), ((VLabelTag, VFooTag), ["VLabelTag", "VFooTag"]),
             ((VLabelTag, VFooTag, ImplStored), ["VLabelTag", "VFooTag", "ImplStored"])]
    reported = set()
    for case in cases:
        if case.dups:
            continue       # cache keyed by equality, collisions reported (C13)
        v = case.v
        entering(case)
        for want, names in wants:
            n += 1
            r = guarded(pa.get_num_tags_of_type, case.graph, want[0] if len(want) == 1 else want)
            if isinstance(r, Raised):
                dis += 1
                sig = report_raise(ctx, t, "fn:get_num_tags_of_type", case, r.e)
                reported.add(sig)
                continue
            oracle = sum(1 for i in case.outer if _is_array(v.nodes[i])
                         and set(names) <= {type(tg).__name__ for tg in v.nodes[i].tags})
            pend.append((case, names, r, oracle, len(queries)))
            queries.append(f"(mapper tagcount {case.hx} {v.root} {heapser.excl(walk)} "
                           f"{heapser.atoms(NON_ARRAY_KINDS)} {heapser.atoms(names)})")
    answers = common.driver_query_parallel(queries)
    nontrivial = 0
    for case, names, r, oracle, qi in pend:
        m, bad = (int(x) for x in answers[qi][3:].split())
        nontrivial += (m != bad)
        if r != m or r != oracle:
            dis += 1
            ctx.violation("tagcount:TagCountMapper",
                          f"get_num_tags_of_type({'+'.join(names)}) on {case.spec} = {r}; nodes carrying the tags: "
                          f"{oracle} (reflective walk), {m} (model)"
                          + ("; the result equals the model of 'cache the result instead of 0' — shared tagged nodes "
                             "are counted once per path" if r == bad and bad != m else ""),
                          {"check": "tagcount", "graph": case.spec, "tags": names, "observed": r,
                           "expected": oracle, "model": m, "model_of_result_caching_mutant": bad})
    ctx.note_batch("tag-counts", n, dis, exhaustive=False, nontrivial=nontrivial,
                   note="nontrivial = cases where sharing makes the cache-0 trick matter (mutant model differs)")


def check_materialized(ctx, t: ch.Tables, cases: list[GraphCase]):
    import pytato.analysis as pa
    queries, pend = [], []
    n = dis = 0
    walk = walk_exclusions(t, "MaterializedNodeCollector")
    for case in cases:
        if case.dups:
            continue       # the result is a set keyed by equality
        v = case.v
        entering(case)
        for inc in (True, False):
            n += 1
            r = guarded(pa.collect_materialized_nodes, case.graph, include_outputs=inc)
            if isinstance(r, Raised):
                dis += 1
                report_raise(ctx, t, "fn:collect_materialized_nodes", case, r.e)
                continue
            real = sorted(case.idx(x) if case.idx(x) is not None else -1 for x in r)
            # reflective oracle of the statement
            orc = set()
            for i in range(len(v.nodes)):
                nd = v.nodes[i]
                if v.kind(i) in MAT_KINDS or (_is_array(nd) and any(type(tg).__name__ == "ImplStored" for tg in nd.tags)):
                    orc.add(i)
                for _, ec, j in v.edges[i]:
                    if (v.kind(i), ec) in MAT_EDGES:
                        orc.add(j)
            if inc:
                root = v.nodes[v.root]
                orc |= ({j for _, _, j in v.edges[v.root]} if v.kind(v.root) == "DictOfNamedArrays"
                        else ({v.root} if _is_array(root) else set()))
            if real != sorted(orc):
                dis += 1
                extra = sorted(set(real) - orc)
                miss = sorted(orc - set(real))
                if miss:
                    j = miss[0]
                    via = [(v.kind(i), ec) for i in range(len(v.nodes)) for _, ec, jj in v.edges[i]
                           if jj == j and (v.kind(i), ec) in MAT_EDGES]
                    why = f"{via[0][0]}:{via[0][1]}" if via else v.kind(j)
                    sig = f"materialized-misses:{why}"
                else:
                    sig = f"materialized-extra:{v.kind(extra[0]) if extra[0] >= 0 else 'foreign'}"
                ctx.violation(sig,
                              f"collect_materialized_nodes(include_outputs={inc}) on {case.spec}: "
                              f"not reported {[f'{j}:{v.kind(j)}' for j in miss[:5]]}, reported beyond the rule "
                              f"{[f'{j}:{v.kind(j) if j >= 0 else 'foreign'}' for j in extra[:5]]}",
                              {"check": "materialized", "graph": case.spec, "include_outputs": inc,
                               "observed": real, "expected": sorted(orc),
                               "missing": [c13.describe(v.nodes[j], 1) for j in miss[:5]],
                               "parents_of_first_missing": [c13.describe(v.nodes[i], 1) for i in range(len(v.nodes))
                                                            if miss and any(jj == miss[0] for _, _, jj in v.edges[i])][:3]})
                continue
            pend.append((case, inc, real, len(queries)))
            queries.append(f"(mapper materialized {case.hx} {v.root} {heapser.excl(walk)} {heapser.atoms(MAT_KINDS)} "
                           f"(ImplStored) {heapser.excl(MAT_EDGES)} {'#t' if inc else '#f'})")
    answers = common.driver_query_parallel(queries)
    for case, inc, real, qi in pend:
        if heapser.parse_ids(answers[qi][3:]) != real:
            dis += 1
            ctx.broken.append(f"correspondence:materialized-model:{case.spec}:{inc}")
    ctx.note_batch("materialized-nodes", n, dis, exhaustive=False)


def check_misc(ctx, t: ch.Tables, cases: list[GraphCase]):
    """get_num_call_sites and rec_get_user_nodes vs the reflective walk"""
    import pytato.analysis as pa
    import pytato.transform as ptf
    n = dis = 0
    for case in cases:
        v = case.v
        entering(case)
        n += 1
        r = guarded(pa.get_num_call_sites, case.graph)
        if isinstance(r, Raised):
            dis += 1
            report_raise(ctx, t, "fn:get_num_call_sites", case, r.e)
        else:
            oracle = sum(1 for i in range(len(v.nodes)) if v.kind(i) == "Call")
            if r != oracle and not case.dups_ns:
                dis += 1
                ctx.violation("callsites:CallSiteCountMapper",
                              f"get_num_call_sites on {case.spec} = {r}, Call nodes in the graph: {oracle}",
                              {"check": "callsites", "graph": case.spec, "observed": r, "expected": oracle})
        if case.dups or case.kinds_present & {"Call", "DistributedSendRefHolder", "NamedCallResult"}:
            continue
        # all (transitive) users of a leaf = all outer nodes from which it is reachable
        leaves = [i for i in case.outer if not v.edges[i] and _is_array(v.nodes[i])][:3]
        for leaf in leaves:
            n += 1
            r = guarded(ptf.rec_get_user_nodes, case.graph, v.nodes[leaf])
            if isinstance(r, Raised):
                dis += 1
                report_raise(ctx, t, "fn:get_users", case, r.e)
                continue
            real = sorted(case.idx(x) if case.idx(x) is not None else -1 for x in r)
            oracle = sorted(i for i in case.outer if i != leaf and leaf in v.reach(i, lambda k, c: c != "function"))
            if real != oracle:
                dis += 1
                miss = sorted(set(oracle) - set(real))
                ctx.violation("rec-users:UsersCollector",
                              f"rec_get_user_nodes on {case.spec}: users of a {v.kind(leaf)} leaf: missing "
                              f"{[f'{j}:{v.kind(j)}' for j in miss[:5]]}, extra {sorted(set(real) - set(oracle))[:5]}",
                              {"check": "rec-users", "graph": case.spec, "leaf": leaf, "observed": real,
                               "expected": oracle})
    ctx.note_batch("call-sites-and-transitive-users", n, dis, exhaustive=False)


# --------------------------------------------------------------------------

def run(ctx: common.Ctx):
    ctx.assumptions += [
        "structural equality of nodes is pytato's `==` (C04's subject); object identity is id()",
        "the Lean model of each users/predecessor implementation is parametrised by that implementation's own "
        "regenerated per-kind edge table; their mutual agreement is the kernel-checked table obligation",
        "function bodies are a separate namespace: users / topological order / counts are compared on the outer "
        "namespace (NodeCountMapper drops what its clone counts inside a body; recorded, not judged)",
        "CSRMatmul and call results are materialised by the collector's own documentation "
        "(`arrays that are materialized based on their type or usage`) — mirrored by model and oracle",
    ]
    t = ch.regenerate()
    ctx.coverage["generated_tables"] = {
        "lean/PtGen/Children.lean": common.sha256_file(ch.OUT),
        "lean/PtGen/ChildrenWitness.lean": common.sha256_file(ch.OUT_WITNESS)}
    ctx.coverage["table_sizes"] = {"users_rows": len(t.users), "users_refusals": len(t.users_unsupported),
                                   "probe_kinds": len(t.kinds)}
    ctx.lean_obligations("PtProofs.C20", THEOREMS, extra_targets=["PtGen.Children", "PtGen.ChildrenWitness"])
    lean_ok = ctx.lean_obligations("PtProofs.C20Tables", TABLE_THEOREMS)
    table_sigs = check_users_tables(ctx, t, lean_ok)
    cases = []
    dist: Counter = Counter()
    for spec in graph_specs(ctx):
        c = GraphCase(spec)
        cases.append(c)
        dist.update(c.kinds_present)
    ctx.coverage["distribution"] = {"graphs": len(cases), "node_kinds": dict(dist),
                                    "sizes": sorted(len(c.v.nodes) for c in cases),
                                    "with_duplicates": sum(c.dups for c in cases)}
    wf = common.driver_query_parallel([f"(mapper wf {c.hx})" for c in cases])
    for c, a in zip(cases, wf):
        if a != "ok #t":
            ctx.broken.append(f"hypothesis:WFHeap-fails-on-serialised-heap:{c.spec}")
    check_users(ctx, t, cases, table_sigs)
    check_topo(ctx, t, cases)
    check_counts(ctx, t, cases)
    check_tagcounts(ctx, t, cases)
    check_materialized(ctx, t, cases)
    check_misc(ctx, t, cases)
    check_dependency_mappers(ctx, cases)
    from . import c20_options
    c20_options.check_options(ctx)
    for th in THEOREMS[:4]:
        ctx.sample({"theorem": th})
    ctx.sample({"graph": cases[-3].spec, "nodes": len(cases[-3].v.nodes)})
    ctx.broken = sorted(set(ctx.broken))[:40]


def replay(ctx, path):
    r = json.loads(open(path).read())
    print(json.dumps({k: r.get(k) for k in ("signature", "what", "check", "kind", "label", "graph", "function")},
                     indent=1))
    t = ch.extract()
    if r.get("check") == "users-table":
        obs = users_replay(t, r["kind"])
        print("observed on the current tree:", json.dumps(obs, indent=1))
        print("expected: all three implementations report the same edges of the probe node")
        reported = [tuple(v["edges_or_exception"]) if v["status"] == "reports" else ("!",)
                    for v in obs["reported"].values()]
        return 0 if len(set(reported)) == 1 else 1
    if r.get("check") == "analysis-raises":
        import pytato.analysis as pa
        import pytato.transform as ptf
        from ..gen.kinds import VFooTag
        case = GraphCase(r["graph"])
        fns = {"fn:get_num_tags_of_type": lambda g: pa.get_num_tags_of_type(g, VFooTag),
               "TopoSortMapper": lambda g: ptf.TopoSortMapper()(g),
               "fn:get_num_nodes": lambda g: pa.get_num_nodes(g, count_duplicates=True),
               "fn:collect_materialized_nodes": pa.collect_materialized_nodes,
               "fn:get_num_call_sites": pa.get_num_call_sites,
               "fn:get_list_of_users": pa.get_list_of_users, "fn:get_users": ptf.get_users}
        res = guarded(fns[r["function"]], case.graph)
        print("observed:", f"raises {type(res.e).__name__}: {res.e}" if isinstance(res, Raised) else f"returns {res!r}"[:300])
        print("expected: a result")
        return 1 if isinstance(res, Raised) else 0
    print("re-running the C20 check on the current tree …")
    run(ctx)
    return ctx.finish()

"""C01 / C07 — the Lean MODEL of pytato's loopy statement generator (lean/PtModel/LoopyGen.lean) against the
real generator, statement by statement.

The graph the real generator works on (the result of the real `pytato.codegen.preprocess`, outputs stripped of
their ImplStored / name tags as generate_loopy does) is serialised reflectively (harness/loopygenser.py); ptdriver
runs the model on it and compares the model's kernel with the real kernel as read back by harness/kernelir.py:
same number of statements, and per statement the same id, left-hand side, loop box, lets, right-hand side and
dependencies.  Categories:
  same          model kernel = real kernel
  both-refuse   the real generator raises, the model refuses
  unmodelled    the model says the graph is outside what it models (reason counted)
  disagree      anything else -> failing-input search: the real kernel's values (C interpreter of the read-back
                kernel + compiled code, already compared with the reference by the caller) decide whether the
                property is violated; a disagreement on a correct real kernel is a correspondence break.
The evidence also records the fraction of kernels inside the fragment the soundness theorems cover, and whether the
model's kernel passes `checkKernel`."""
from __future__ import annotations

import numpy as np

from .. import common, loopygenser


def _target():
    from .. import cexec
    return cexec._c_target()


def classify(ctx, sig_prefix, label, expr, real_wire, real_error, answer, counts, reasons, judge=None):
    """one case; returns 1 on disagreement"""
    m = loopygenser.parse_answer(answer)
    if m[0] == "error":
        ctx.broken.append(f"loopygen-driver:{answer[:80]}")
        return 1
    if m[0] == "unmodelled":
        counts["unmodelled"] += 1
        reasons[m[1][:60]] = reasons.get(m[1][:60], 0) + 1
        return 0
    if m[0] == "refuse" and real_wire is None:
        counts["both-refuse"] += 1
        return 0
    if m[0] == "same":
        counts["same"] += 1
        if m[2] is False:
            counts["model-kernel-fails-checkKernel"] = counts.get("model-kernel-fails-checkKernel", 0) + 1
        frag = loopygenser.LAST_FRAGMENT
        if frag == "yes":
            counts["in-proved-fragment"] = counts.get("in-proved-fragment", 0) + 1
        elif frag:
            for why in frag[3:].split(","):
                counts["outside-fragment:" + why] = counts.get("outside-fragment:" + why, 0) + 1
        # the larger fragment of the soundness theorem with reductions (loopygen_sound_red_partial)
        fragr = loopygenser.LAST_FRAGMENT_R
        if fragr == "yes":
            counts["in-proved-fragment(with reductions)"] = \
                counts.get("in-proved-fragment(with reductions)", 0) + 1
        elif fragr:
            for why in fragr[3:].split(","):
                counts["outside-fragment(with reductions):" + why] = \
                    counts.get("outside-fragment(with reductions):" + why, 0) + 1
        return 0
    counts["disagree"] += 1
    if m[0] == "differ":
        what = (f"statement {m[1]} of the real kernel is `{m[3][:400]}`, the model of the generator emits "
                f"`{m[2][:400]}`")
        construct = "statement"
    elif m[0] == "refuse":
        what = f"the real generator emits a kernel where the model refuses ({m[1]})"
        construct = "accepts-" + m[1].split("(")[0]
    else:
        what = f"the real generator fails ({(real_error or '')[:160]}) where the model emits a kernel"
        construct = "refuses"
    bad = judge() if judge is not None else None
    if bad:
        ctx.violation(f"{sig_prefix}:loopygen-structure:{construct}",
                      f"{label}: {what}; {bad}",
                      {"check": "loopygen", "case": label, "model": list(m[:4]), "observed": bad})
    else:
        ctx.broken.append(f"correspondence:loopygen:{construct}:{label[:60]}")
    return 1


def run_gen_model(ctx, sig_prefix, cases, batch_name="lean-statement-generator-model-vs-real-kernel"):
    """cases: iterable of (label, expr (deduplicated as the job's), real wire | None, real error | None, judge | None)"""
    queries, kept = [], []
    counts = {"same": 0, "both-refuse": 0, "unmodelled": 0, "disagree": 0}
    reasons: dict[str, int] = {}
    pre_fail = 0
    kinds: dict[str, int] = {}
    for label, expr, wire, err, judge in cases:
        try:
            outs, order, _ = loopygenser.preprocessed(expr, _target())
        except Exception as e:   # noqa: BLE001
            # preprocessing (not modelled: the model starts from its result) fails: the real generator fails alike
            pre_fail += 1
            if wire is not None:
                ctx.broken.append(f"loopygen:preprocess-fails-but-kernel-exists:{label[:50]}:{type(e).__name__}")
            continue
        try:
            q, info = loopygenser.serialise(outs, order, wire)
        except Exception as e:   # noqa: BLE001
            ctx.broken.append(f"loopygen-serialiser:{label.split(':')[0]}:{type(e).__name__}")
            continue
        for k, v in info["kinds"].items():
            kinds[k] = kinds.get(k, 0) + v
        queries.append(q)
        kept.append((label, expr, wire, err, judge))
    answers = common.driver_query_parallel(queries)
    dis = 0
    for (label, expr, wire, err, judge), a in zip(kept, answers):
        dis += classify(ctx, sig_prefix, label, expr, wire, err, a, counts, reasons, judge)
    total = sum(counts[k] for k in ("same", "both-refuse", "unmodelled", "disagree"))
    ctx.note_batch(batch_name, total, dis, exhaustive=False, counts=counts, unmodelled_reasons=reasons,
                   preprocess_fails=pre_fail, node_kinds=kinds,
                   modelled_fraction=round(1 - counts["unmodelled"] / max(total, 1), 4),
                   proved_fragment_fraction=round(counts.get("in-proved-fragment", 0) / max(counts["same"], 1), 4),
                   proved_fragment_fraction_with_reductions=round(
                       counts.get("in-proved-fragment(with reductions)", 0) / max(counts["same"], 1), 4))
    return dis


def cases_from_results(progs, results, dedup):
    """the program stream: the real kernel's wire form comes from the worker's read-back"""
    for (p, runs), res in zip(progs, results):
        wire = (res.kir or {}).get("wire")
        err = None
        if res.error and str(res.stage) == "codegen":
            err = f"{res.error_class}: {res.error}"
        elif wire is None:
            continue            # no read-back (kernel shape error / executor problem): reported elsewhere
        bad_exec = bool(res.error) and err is None

        def judge(p=p, res=res, bad_exec=bad_exec):
            # the caller compares the executed real kernel with the reference (compare_outputs / check_readback);
            # here: did the read-back kernel, interpreted, show any problem?
            k = res.kir or {}
            if k.get("order_mismatch") or any(k.get("uninit") or []) or any(k.get("oob") or []):
                return "the real kernel, interpreted statement by statement, is not well-behaved (see the kernel " \
                       "read-back batch)"
            return None
        yield f"program:{p.index}", dedup(p.expr()), wire, err, judge


def api_cases(ctx, every: int):
    """a sample of the API table: generated in-process"""
    import pytato as pt
    from .. import apitable, kernelir
    with np.errstate(all="ignore"):
        for k, c in enumerate(apitable.cases(ctx.seed, ctx.thorough)):
            if k % every != ctx.seed % every:
                continue
            try:
                node = c["build"](**{n: pt.make_placeholder(n, v.shape, v.dtype) for n, v in c["inputs"].items()})
            except Exception:   # noqa: BLE001
                continue
            if not isinstance(node, pt.Array):
                continue
            expr = pt.transform.deduplicate(pt.make_dict_of_named_arrays({"o": node}))
            wire = err = None
            try:
                prog = pt.generate_loopy(expr, target=_target())
                wire = kernelir.to_wire(kernelir.extract(prog.program))
            except kernelir.KernelShapeError:
                continue
            except Exception as e:   # noqa: BLE001
                err = f"{type(e).__name__}: {e}"
            yield "api:" + c["label"], expr, wire, err, None

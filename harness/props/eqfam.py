"""Batches shared by C04 and C18 over the deterministic families of `harness/gen/eqfamilies.py`
and over scalar constants that Python's `==` identifies.

  callables / einsums in fresh interpreters (other PYTHONHASHSEEDs): structure digests, keys,
      equality of the graph pickled there with the one built here; twin graphs from two equal
      callable objects must be equal / hash alike / get one key.
  einsum renamings (one process): every consistent renaming of the letters of a specification
      gives the same access descriptors — those of an independent first-appearance
      normalisation — hence an equal graph with the same hash and key; different
      specifications give different graphs and keys.
  constants: pairs of scalars that compare equal in Python but differ in type or bits
      (0 / 0.0 / -0.0 / False, 1 / 1.0 / True, 2.5 / np.float64(2.5) / np.float32(2.5), …)
      through several construction routes: if the two graphs compare equal they must hash alike,
      evaluate to the same values incl. dtype and sign of zero (C04), and get one key (C18);
      scalars of different dtype with identical bytes must get different keys."""
from __future__ import annotations

import pickle

import numpy as np

from .. import eqcases, eqterm
from ..gen import eqfamilies

FAMILIES = ("callables", "einsums", "history-graphs", "kind-instances")


def _kind_of_label(name, lbl):
    return lbl.split(":")[0] if name == "callables" else ("einsum" if name == "einsums" else lbl)


# ------------------------------------------------------------------ fresh interpreters

def judge_children(ctx, outs, mode: str):
    """mode 'eq' (C04) or 'key' (C18); `outs` from eqcases.run_children(..., families=FAMILIES)"""
    from pytato.analysis import PytatoKeyBuilder
    keyb = PytatoKeyBuilder()
    ncase = ndis = 0
    for name in FAMILIES:
        here = eqcases.family_rows(name, ctx.tier, keyb if mode == "key" else None)
        # twins in this process
        for lbl, row in here.items():
            if row["g2"] is row["g1"]:
                continue
            ncase += 1
            g1, g2 = row["g1"], row["g2"]
            kk = _kind_of_label(name, lbl)
            if mode == "eq":
                if not (g1 == g2 and g2 == g1):
                    ndis += 1
                    ctx.violation(f"eq-unequal-for-equal-callables:{kk}",
                                  f"tracing two equal callable objects ({lbl}) gives unequal graphs",
                                  {"family": name, "label": lbl})
                elif hash(g1) != hash(g2):
                    ndis += 1
                    ctx.violation(f"hash-finer-than-eq:traced-callable:{kk}", f"{lbl}: equal graphs, other hash",
                                  {"family": name, "label": lbl})
            elif (g1 == g2) and keyb(g2) != row["key"]:
                ndis += 1
                ctx.violation(f"key-unstable:equal-callables:{kk}",
                              f"tracing two equal callable objects ({lbl}) gives equal graphs with different keys",
                              {"family": name, "label": lbl})
        for ch in outs:
            hs = ch["hash_seed"]
            there = ch["families"].get(name, {})
            if set(there) != set(here):
                ctx.broken.append(f"harness:family-labels-differ:{name}")
                continue
            for lbl, row in here.items():
                ncase += 1
                kk = _kind_of_label(name, lbl)
                t = there[lbl]
                rep = {"family": name, "label": lbl, "hash_seed": hs}
                if mode == "key":
                    if t["key"] != row["key"]:
                        ndis += 1
                        why = ("the graph itself differs there" if t["struct"] != row["struct"]
                               else "the graph is the same there")
                        sig = (f"key-unstable:process:traced-callable:{kk}" if name == "callables"
                               else "key-unstable:process:einsum" if name == "einsums"
                               else f"key-unstable:history:fresh-interpreter:{kk}")
                        ctx.violation(sig, f"{name} {lbl}: the persistent key in a fresh interpreter (PYTHONHASHSEED={hs}) "
                                           f"is {t['key']}, here {row['key']} ({why})", rep)
                    if t.get("twin_eq") and t.get("twin_key_eq") is False:
                        ndis += 1
                        ctx.violation(f"key-unstable:equal-callables:{kk}", f"{lbl} (in a fresh interpreter)", rep)
                else:
                    if t["struct"] != row["struct"]:
                        ndis += 1
                        sig = (f"rebuilt-xproc-unequal:traced-callable:{kk}" if name == "callables"
                               else "rebuilt-xproc-unequal:einsum" if name == "einsums"
                               else f"rebuilt-xproc-unequal:{kk}")
                        if name == "kind-instances" and _has_identity_leaf(row["g1"]):
                            continue
                        ctx.violation(sig, f"{name} {lbl}: the same program builds a structurally different graph in a "
                                           f"fresh interpreter with PYTHONHASHSEED={hs}", rep)
                    if t.get("twin_eq") is False:
                        ndis += 1
                        ctx.violation(f"eq-unequal-for-equal-callables:{kk}", f"{lbl} (in a fresh interpreter)", rep)
                    raw = ch["family_pickles"].get(f"{name}/{lbl}")
                    if raw is not None and not _has_identity_leaf(row["g1"]):
                        q = pickle.loads(raw)
                        ob = eqcases.observe(row["g1"], q)
                        if ob["eq"] is not True or ob["eq_rev"] is not True:
                            ndis += 1
                            ctx.violation(f"rebuilt-xproc-unequal:traced-callable:{kk}" if name == "callables"
                                          else f"pickle-xproc-unequal:{eqterm.kind_of(row['g1'])}",
                                          f"{lbl}: the graph built and pickled under PYTHONHASHSEED={hs} is != the one "
                                          f"built here", {**rep, "observed": ob})
                        elif ob["hash_eq"] is not True:
                            ndis += 1
                            ck = eqcases.culprit(row["g1"], q, lambda x, y: (x == y) and hash(x) != hash(y))
                            ctx.violation(f"pickle-xproc-hash:traced-callable:{kk}" if name == "callables"
                                          else f"pickle-xproc-hash:{ck}", f"{lbl}: equal, other hash",
                                          {**rep, "observed": ob})
    ctx.note_batch("families-in-fresh-interpreters", ncase, ndis, exhaustive=True,
                   families={n: len(eqcases.family_rows(n, ctx.tier)) for n in FAMILIES},
                   hash_seeds=[c["hash_seed"] for c in outs])


# ------------------------------------------------------------------ einsum renamings

def einsum_renamings(ctx, mode: str):
    from pytato.analysis import PytatoKeyBuilder
    keyb = PytatoKeyBuilder()
    specs = eqfamilies.einsum_specs(ctx.tier)
    ncase = ndis = 0
    by_ref: dict = {}
    seen_graph: dict = {}
    nren = 0
    for si, (ops, out) in enumerate(specs):
        base = eqfamilies.build_einsum(ops, out)
        ref = eqfamilies.reference_descriptors(ops, out)
        real = eqfamilies.real_descriptors(base)
        lbl = eqfamilies.spec_text(ops, out)
        ncase += 1
        if real != ref:
            ndis += 1
            ctx.violation("einsum:descriptors-not-first-appearance-numbering" if mode == "eq"
                          else "key-unstable:einsum-descriptor-numbering",
                          f"einsum {lbl!r}: access descriptors {real} differ from numbering the reduction letters by first "
                          f"appearance {ref}", {"spec": lbl, "real": repr(real), "reference": repr(ref)})
        ident = (ref, tuple(len(o) for o in ops))
        kb = keyb(base) if mode == "key" else None
        # different specifications: different graphs / keys
        if mode == "eq":
            other = seen_graph.get(base)
            if other is not None and other[0] != ident:
                ndis += 1
                ctx.violation("eq-conflates:einsum-specifications", f"{other[1]!r} and {lbl!r} give equal graphs",
                              {"a": other[1], "b": lbl})
            seen_graph.setdefault(base, (ident, lbl))
        else:
            other = by_ref.get(kb)
            if other is not None and other[0] != ident:
                ndis += 1
                ctx.violation("key-not-injective:einsum-specifications", f"{other[1]!r} and {lbl!r} get one key",
                              {"a": other[1], "b": lbl})
            by_ref.setdefault(kb, (ident, lbl))
        nred_new = len(set("".join(ops)) - set(out))
        if not ctx.thorough and nred_new < 2 and si % 6:
            continue
        for rname, ren in eqfamilies.RENAMINGS.items():
            nren += 1
            ncase += 1
            g = eqfamilies.build_einsum(ops, out, ren)
            rl = eqfamilies.spec_text(ops, out, ren)
            rep = {"spec": lbl, "renamed": rl, "renaming": rname,
                   "descriptors": repr(eqfamilies.real_descriptors(g)), "reference": repr(ref)}
            if mode == "eq":
                if not (g == base and base == g):
                    ndis += 1
                    ctx.violation("eq-unequal:einsum-renaming",
                                  f"einsum {lbl!r} and its consistent renaming {rl!r} ({rname}) give unequal graphs: "
                                  f"descriptors {eqfamilies.real_descriptors(base)} vs {eqfamilies.real_descriptors(g)}",
                                  rep)
                elif hash(g) != hash(base):
                    ndis += 1
                    ctx.violation("hash-finer-than-eq:einsum-renaming", f"{lbl!r} / {rl!r}", rep)
            elif keyb(g) != kb:
                ndis += 1
                ctx.violation("key-unstable:einsum-renaming",
                              f"einsum {lbl!r} and its consistent renaming {rl!r} ({rname}) get different keys", rep)
    ctx.note_batch("einsum-specifications-and-renamings", ncase, ndis, exhaustive=True, specifications=len(specs),
                   renamed_graphs=nren, renamings=sorted(eqfamilies.RENAMINGS),
                   note="<= 3 operands, <= 4 letters, ranks <= 3 (<= 2 for three operands), all letter assignments up to "
                        "renaming, every output subset in two orders; quick tier renames every spec with >= 2 reduction "
                        "letters and every 6th other")


# ------------------------------------------------------------------ constants

def constant_pairs():
    f32, f64, i32, i64 = np.float32, np.float64, np.int32, np.int64
    return [
        ("signed-zero", 0.0, -0.0), ("signed-zero", f64(0.0), f64(-0.0)), ("signed-zero", f32(0.0), f32(-0.0)),
        ("signed-zero", 0, -0.0), ("signed-zero", complex(0.0, 0.0), complex(-0.0, 0.0)),
        ("int-vs-float", 0, 0.0), ("int-vs-float", 1, 1.0), ("int-vs-float", 2, 2.0), ("int-vs-float", -3, -3.0),
        ("bool-vs-number", True, 1), ("bool-vs-number", False, 0), ("bool-vs-number", True, 1.0),
        ("bool-vs-number", False, 0.0),
        ("numpy-vs-python-scalar", 2.5, f64(2.5)), ("numpy-vs-python-scalar", 2, i64(2)),
        ("numpy-vs-python-scalar", 1 + 2j, np.complex128(1 + 2j)), ("numpy-vs-python-scalar", 2.5, f32(2.5)),
        ("numpy-vs-python-scalar", True, np.bool_(True)),
        ("numpy-scalar-width", f32(2.5), f64(2.5)), ("numpy-scalar-width", i32(2), i64(2)),
        ("numpy-scalar-width", np.complex64(1 + 2j), np.complex128(1 + 2j)),
        ("real-vs-complex", 2.0, 2 + 0j), ("real-vs-complex", 2, complex(2, 0)),
    ]


def _routes():
    import pytato as pt
    return {
        "mul": lambda z, c: z * c, "rmul": lambda z, c: c * z, "add": lambda z, c: z + c,
        "rtruediv": lambda z, c: c / z,
        "full": lambda z, c: pt.full((3,), c), "full-mul": lambda z, c: pt.full((3,), c) * z,
        "greater": lambda z, c: pt.greater(z, c), "where": lambda z, c: pt.where(pt.greater(z, 0), c, z),
        "maximum": lambda z, c: pt.maximum(z, c), "power": lambda z, c: z ** c, "rpower": lambda z, c: c ** z,
        "sum-of-full": lambda z, c: pt.sum(pt.full((3,), c)) * z,
    }


def _same_results(r1, r2) -> bool:
    r1, r2 = np.asarray(r1), np.asarray(r2)
    if r1.dtype != r2.dtype or r1.shape != r2.shape:
        return False
    if not np.array_equal(r1, r2, equal_nan=True):
        return False
    if r1.dtype.kind == "f":
        return bool(np.array_equal(np.signbit(r1), np.signbit(r2)))
    if r1.dtype.kind == "c":
        return bool(np.array_equal(np.signbit(r1.real), np.signbit(r2.real))
                    and np.array_equal(np.signbit(r1.imag), np.signbit(r2.imag)))
    return True


def constants(ctx, mode: str):
    import pytato as pt
    from pytato.analysis import PytatoKeyBuilder

    from ..refeval import evaluate
    keyb = PytatoKeyBuilder()
    bases = {"f64": (pt.make_placeholder("z", (3,), np.float64), np.array([1.5, -2.0, 0.0])),
             "f32": (pt.make_placeholder("z", (3,), np.float32), np.array([1.5, -2.0, 0.0], dtype=np.float32)),
             "i32": (pt.make_placeholder("z", (3,), np.int32), np.array([1, -2, 0], dtype=np.int32))}
    ncase = ndis = nequal = nunevaluated = 0
    classes: dict = {}
    for cls, c1, c2 in constant_pairs():
        for bn, (z, val) in bases.items():
            for rn, route in _routes().items():
                try:
                    g1, g2 = route(z, c1), route(z, c2)
                except Exception:   # noqa: BLE001  (a route some scalar type does not admit)
                    continue
                ncase += 1
                try:
                    eq = bool(g1 == g2) or bool(g2 == g1)
                except Exception:   # noqa: BLE001
                    continue
                if not eq:
                    continue
                nequal += 1
                classes[cls] = classes.get(cls, 0) + 1
                rep = {"class": cls, "constants": [f"{type(c1).__name__}:{c1!r}", f"{type(c2).__name__}:{c2!r}"],
                       "route": rn, "base": bn}
                if mode == "eq":
                    if not (g1 == g2 and g2 == g1):
                        ndis += 1
                        ctx.violation(f"eq-asymmetric:constants:{cls}", f"{rep}", rep)
                    if hash(g1) != hash(g2):
                        ndis += 1
                        ctx.violation(f"hash-finer-than-eq:constants:{cls}",
                                      f"{rn} on {bn} with {c1!r} / {c2!r}: equal graphs hash differently", rep)
                    try:
                        with np.errstate(all="ignore"):
                            r1, r2 = evaluate(g1, {"z": val}), evaluate(g2, {"z": val})
                    except Exception:   # noqa: BLE001  (e.g. an integer power that overflows: nothing to compare)
                        nunevaluated += 1
                        continue
                    if not _same_results(r1, r2):
                        ndis += 1
                        ctx.violation(f"eq-identifies-different-results:{cls}",
                                      f"{rn} on a {bn} array with the constants {c1!r} ({type(c1).__name__}) and {c2!r} "
                                      f"({type(c2).__name__}): the graphs compare EQUAL but evaluate to "
                                      f"{np.asarray(r1).tolist()} ({np.asarray(r1).dtype}) and {np.asarray(r2).tolist()} "
                                      f"({np.asarray(r2).dtype})", rep)
                elif keyb(g1) != keyb(g2):
                    ndis += 1
                    ctx.violation(f"key-unstable:equal-graphs:{cls}",
                                  f"{rn} on a {bn} array with the constants {c1!r} ({type(c1).__name__}) and {c2!r} "
                                  f"({type(c2).__name__}): the graphs compare equal but get different persistent keys", rep)
    # scalars of different dtype with IDENTICAL bytes (results differ; keys must)
    if mode == "key":
        z, val = bases["f64"]
        same_bytes = [(np.float64(2.0), np.int64(4611686018427387904)), (np.float64(2.0), 4611686018427387904),
                      (np.float32(1.0), np.int32(1065353216)), (np.complex64(2.0 + 0j), np.float64(5.263544247e-315)),
                      (np.float64(-0.0), np.int64(-9223372036854775808)), (np.uint64(1 << 63), np.int64(-(1 << 63)))]
        for c1, c2 in same_bytes:
            for rn in ("mul", "add", "full", "data-wrapper"):
                ncase += 1
                try:
                    if rn == "data-wrapper":
                        g1, g2 = pt.make_data_wrapper(c1), pt.make_data_wrapper(c2)
                    else:
                        g1, g2 = _routes()[rn](z, c1), _routes()[rn](z, c2)
                    k1, k2 = keyb(g1), keyb(g2)
                except Exception:   # noqa: BLE001
                    continue
                if k1 == k2:
                    ndis += 1
                    sig = ("key-ignores:DataWrapper.data.dtype:numpy-scalar" if rn == "data-wrapper"
                           else "key-not-injective:scalar-constant:same-bytes")
                    ctx.violation(sig, f"{rn}: the scalars {c1!r} ({type(c1).__name__}) and {c2!r} ({type(c2).__name__}) "
                                       f"have the same bytes and get the same persistent key",
                                  {"route": rn, "constants": [f"{type(c1).__name__}:{c1!r}", f"{type(c2).__name__}:{c2!r}"]})
    ctx.note_batch("constants-python-identifies", ncase, ndis, exhaustive=False, graph_pairs_that_compare_equal=nequal,
                   equal_pairs_by_class=classes, pairs=len(constant_pairs()), routes=sorted(_routes()),
                   equal_pairs_not_evaluable=nunevaluated)


# ------------------------------------------------------------------ key histories

def key_histories(ctx):
    """the persistent key of a graph does not depend on what happened to the graph object before: keyed
    fresh / after hash() / after == / after a pickle round trip (pickled fresh, pickled after hash and key) /
    after loopy's own LoopyKeyBuilder keyed (and hashed) its kernels / with a second PytatoKeyBuilder — every
    history on NEWLY built objects (pytools caches a digest on each object it has seen)"""
    from loopy.tools import LoopyKeyBuilder
    from pytato.analysis import PytatoKeyBuilder

    from ..gen import eqfamilies

    def tus(g):
        return [n.translation_unit for n in eqterm.all_nodes(g) if type(n).__name__ == "LoopyCall"]

    def h_fresh(g):
        return PytatoKeyBuilder()(g)

    def h_hash(g):
        hash(g)
        return PytatoKeyBuilder()(g)

    def h_eq(g, other):
        g == other   # noqa: B015   (the comparison is the history; wrapped data compares by identity)
        return PytatoKeyBuilder()(g)

    def h_pickle_fresh(g):
        return PytatoKeyBuilder()(pickle.loads(pickle.dumps(g)))

    def h_pickle_used(g):
        hash(g)
        PytatoKeyBuilder()(g)
        return PytatoKeyBuilder()(pickle.loads(pickle.dumps(g)))

    def h_loopy_kernels(g):
        for tu in tus(g):
            LoopyKeyBuilder()(tu)
            hash(tu)
        return PytatoKeyBuilder()(g)

    def h_twice(g):
        kb = PytatoKeyBuilder()
        kb(g)
        return kb(g)
    ncase = ndis = 0
    for lbl, th in eqfamilies.history_builders().items():
        want = h_fresh(th())
        hist = {"after-hash": lambda: h_hash(th()), "after-eq": lambda: h_eq(th(), th()),
                "after-pickle-round-trip": lambda: h_pickle_fresh(th()),
                "pickled-after-hash-and-key": lambda: h_pickle_used(th()),
                "after-loopy-keyed-its-kernels": lambda: h_loopy_kernels(th()),
                "keyed-twice": lambda: h_twice(th()), "second-fresh-build": lambda: h_fresh(th())}
        for hn, fn in hist.items():
            ncase += 1
            try:
                got = fn()
            except Exception as e:   # noqa: BLE001
                ndis += 1
                ctx.violation(f"key-raises:history:{hn}", f"{lbl}: {type(e).__name__}: {e}"[:300], {"graph": lbl, "history": hn})
                continue
            if got != want:
                ndis += 1
                ctx.violation(f"key-unstable:history:{hn}",
                              f"graph family {lbl!r}: keyed {hn} the persistent key is {got}, keyed on freshly built "
                              f"objects it is {want}", {"graph": lbl, "history": hn, "key_fresh": want, "key": got})
    ctx.note_batch("key-histories", ncase, ndis, exhaustive=True, graphs=sorted(eqfamilies.history_builders()),
                   note="fresh-interpreter history: family `history-graphs` of the families-in-fresh-interpreters batch")


# ------------------------------------------------------------------ equal-but-distinct copies

def _has_identity_leaf(node) -> bool:
    try:
        return any(type(n).__name__ == "DataWrapper" for n in eqterm.all_nodes(node))
    except Exception:   # noqa: BLE001
        return False


def _distinct_copy(x):
    """a deep copy in which EVERY object (nodes, axes, tags, slices, descriptors, expressions, mappings) is a
    new object — except wrapped data / data wrappers (identity semantics) and loopy kernels"""
    import copy
    memo = {}
    try:
        for n in eqterm.all_nodes(x):
            if type(n).__name__ == "DataWrapper":
                memo[id(n)] = n
            if type(n).__name__ == "LoopyCall":
                memo[id(n.translation_unit)] = n.translation_unit
    except Exception:   # noqa: BLE001
        pass
    return copy.deepcopy(x, memo)


def _field_objects(x, seen=None, out=None, depth=0):
    """dataclass objects of pytato / pymbolic reachable through fields, tuples, sets and mappings"""
    import dataclasses
    from collections.abc import Mapping
    seen = set() if seen is None else seen
    out = [] if out is None else out
    if id(x) in seen or depth > 12:
        return out
    seen.add(id(x))
    if dataclasses.is_dataclass(x) and not isinstance(x, type):
        if type(x).__module__.split(".")[0] in ("pytato", "pymbolic", "harness"):
            out.append(x)
        for f in dataclasses.fields(x):
            _field_objects(getattr(x, f.name, None), seen, out, depth + 1)
    elif isinstance(x, (tuple, list, frozenset, set)):
        for e in x:
            _field_objects(e, seen, out, depth + 1)
    elif isinstance(x, Mapping) and not eqterm._is_node(x):
        for e in x.values():
            _field_objects(e, seen, out, depth + 1)
    return out


def equal_copies(ctx):
    """every class with an `==` / `hash` of its own (found by walking the fields of one instance of every node
    kind: nodes, DistributedSend, FunctionDefinition, NormalizedSlice, Axis, descriptors, tags, Reduce, TypeCast …):
    an instance and a copy in which every field is an equal-but-DISTINCT object must be ==  (both orders), hash alike
    and collapse in a set; the same after a pickle round trip"""
    ncase = ndis = 0
    classes = set()
    for spec, base in eqfamilies.kind_instances():
        objs = _field_objects(base)
        for o in objs:
            cls = type(o).__name__
            classes.add(cls)
            for how, mk in (("deep copy", _distinct_copy),
                            ("pickle round trip", lambda v: pickle.loads(pickle.dumps(v)))):
                if how == "pickle round trip" and (o is not base or _has_identity_leaf(o)):
                    continue
                ncase += 1
                try:
                    c = mk(o)
                    ok_eq = bool(o == c) and bool(c == o)
                    ok_hash = hash(o) == hash(c)
                    ok_set = len({o, c}) == 1
                except TypeError:
                    continue        # unhashable helper objects
                except Exception as e:   # noqa: BLE001
                    ndis += 1
                    ctx.violation(f"eq-raises:equal-copy:{cls}", f"{spec}: {type(e).__name__}: {e}"[:300], {"spec": spec})
                    continue
                rep = {"spec": spec, "class": cls, "how": how}
                if not ok_eq:
                    ndis += 1
                    ctx.violation(f"eq-unequal-for-equal-copy:{cls}",
                                  f"a {cls} (inside the probe instance {spec}) is != its {how} whose fields are equal but "
                                  f"distinct objects", rep)
                elif not ok_hash or not ok_set:
                    ndis += 1
                    ctx.violation(f"hash-finer-than-eq:equal-copy:{cls}",
                                  f"a {cls} ({spec}) equals its {how} but hash equal is {ok_hash}, set-dedup {ok_set}", rep)
    ctx.note_batch("equal-but-distinct-copies", ncase, ndis, exhaustive=True, classes=sorted(classes))


# ------------------------------------------------------------------ symbolic shape components

def symbolic_shapes(ctx):
    """nodes of every kind that stores a shape / newshape / index with ARRAY-VALUED components: the component is
    (i) the same expression built twice, (ii) another expression of the same VALUE (commuted, re-associated, n+n vs
    2*n, n+0, n*1), (iii) the same expression over a differently tagged / named size parameter.  `==` holds exactly
    for (i); `==` implies equal hashes and set membership; congruence: a == b implies f(a) == f(b)."""
    import dataclasses

    import pytato as pt
    from pytato.array import NormalizedSlice

    from ..gen import kinds
    from ..extract import eqtable

    def n_(tag=None, name="n"):
        p = pt.make_size_param(name)
        return p.tagged(tag) if tag is not None else p
    comps = {
        "n+1": (lambda: n_() + 1, [("identical", lambda: n_() + 1), ("value:commuted", lambda: 1 + n_()),
                                   ("value:n+0+1", lambda: (n_() + 0) + 1), ("tagged-size-param", lambda: n_(kinds.VFooTag()) + 1),
                                   ("other-name", lambda: n_(name="m") + 1)]),
        "2*n": (lambda: 2 * n_(), [("identical", lambda: 2 * n_()), ("value:n+n", lambda: n_() + n_()),
                                   ("value:n*2", lambda: n_() * 2), ("tagged-size-param", lambda: 2 * n_(kinds.VBarTag()))]),
        "n": (lambda: n_(), [("identical", lambda: n_()), ("value:n+0", lambda: n_() + 0), ("value:n*1", lambda: n_() * 1),
                             ("tagged-size-param", lambda: n_(kinds.VFooTag())), ("other-name", lambda: n_(name="m"))]),
        "(n+1)+1": (lambda: (n_() + 1) + 1, [("identical", lambda: (n_() + 1) + 1), ("value:n+2", lambda: n_() + 2),
                                             ("value:re-associated", lambda: n_() + (1 + 1))]),
    }

    def with_component(base, fld, comp):
        v = getattr(base, fld)
        if fld == "indices":
            new = tuple(NormalizedSlice(0, comp, 1) if isinstance(ix, NormalizedSlice) and not done.get("d") and not done.update(d=1)
                        else ix for ix in v)
            return dataclasses.replace(base, indices=new)
        return kinds.mutate(base, fld, (comp, *v[1:]))
    contexts = {"2*a+1": lambda a: 2 * a + 1, "sum": lambda a: pt.sum(a), "stack": lambda a: pt.stack([a, a]),
                "dict": lambda a: pt.make_dict_of_named_arrays({"o": a}), "tagged": lambda a: a.tagged(kinds.VBarTag())}
    ncase = ndis = 0
    hosts = []
    for spec, sp in sorted(eqtable.all_specs(with_loopy=False).items()):
        base = sp.base
        for fld in ("shape", "newshape", "indices"):
            if fld not in {f.name for f in dataclasses.fields(base)}:
                continue
            v = getattr(base, fld)
            if not isinstance(v, tuple) or not v:
                continue
            if fld == "indices" and not any(isinstance(ix, NormalizedSlice) for ix in v):
                continue
            if eqterm.kind_of(base) == "DataWrapper":
                continue        # compares by identity (documented)
            hosts.append((spec, base, fld))
    kinds_seen = set()
    for spec, base, fld in hosts:
        K = f"{eqterm.kind_of(base)}.{fld}"
        for cname, (mk, variants) in comps.items():
            try:
                done = {}
                a = with_component(base, fld, mk())
            except Exception:   # noqa: BLE001
                continue
            kinds_seen.add(K)
            for vname, mkv in variants:
                try:
                    done = {}
                    b = with_component(base, fld, mkv())
                except Exception:   # noqa: BLE001
                    continue
                ncase += 1
                expect = vname == "identical"
                vclass = vname.split(":")[0]
                rep = {"host": spec, "field": fld, "component": cname, "variant": vname}
                try:
                    eq, eq_rev = bool(a == b), bool(b == a)
                except Exception as e:   # noqa: BLE001
                    ndis += 1
                    ctx.violation(f"eq-raises:symbolic-shape:{K}", f"{rep}: {type(e).__name__}: {e}"[:300], rep)
                    continue
                if eq != expect or eq_rev != expect:
                    ndis += 1
                    ctx.violation(f"eq-{'conflates' if eq or eq_rev else 'unequal'}:symbolic-shape:{K}:{vclass}",
                                  f"two {eqterm.kind_of(base)} nodes whose `{fld}` component is {cname} and {vname}: "
                                  f"a==b {eq}, b==a {eq_rev}; structural equality says {expect}", rep)
                    # fall through: hash / congruence of what the code says
                if eq:
                    if hash(a) != hash(b) or (b in {a}) is not True:
                        ndis += 1
                        ctx.violation(f"hash-finer-than-eq:symbolic-shape:{K}:{vclass}",
                                      f"{rep}: a == b but hashes differ / b in {{a}} is False", rep)
                    for fn, f in contexts.items():
                        try:
                            fa, fb = f(a), f(b)
                        except Exception:   # noqa: BLE001
                            continue
                        ncase += 1
                        if not (fa == fb):
                            ndis += 1
                            ctx.violation(f"congruence-broken:symbolic-shape:{K}:{vclass}",
                                          f"{rep}: a == b but {fn}(a) != {fn}(b)", {**rep, "context": fn})
                            break
    ctx.note_batch("symbolic-shape-components", ncase, ndis, exhaustive=True, hosts=sorted(kinds_seen),
                   components=sorted(comps))

"""Kernel read-back part of C01 (also used by C07/C11/C15): the real loopy kernel
is interpreted statement by statement — in list order and in random topological
orders of its own `depends_on` graph — by an independent Python interpreter
(harness/kernelir.py) and by the Lean kernel model (ptdriver `kernel` queries);
both must reproduce the reference values."""
from __future__ import annotations

import numpy as np

from ..refeval import close, evaluate


def check_readback(ctx, sig_prefix, p, runs, res, ref_cache=None):
    """returns disagreements; `res.kir` must be present"""
    k = res.kir
    if k is None:
        return 0
    dis = 0
    if "shape_error" in k:
        ctx.violation(f"{sig_prefix}:kernel-shape:{k['shape_error'][:60]}",
                      f"program {p.index}: generated kernel does not have the structure pytato's code generator "
                      f"is modelled to produce: {k['shape_error']}",
                      {"program_index": p.index, "seed": ctx.seed, "detail": k["shape_error"]})
        return 1
    if "error" in k:
        ctx.broken.append(f"kernel-readback:{k['error'][:100]}:program{p.index}")
        return 1
    for ri, run in enumerate(runs):
        if ri >= len(k["outputs"]):
            break
        if k["order_mismatch"]:
            m = k["order_mismatch"][0]
            dis += 1
            ctx.violation(f"{sig_prefix}:dependencies-incomplete",
                          f"program {p.index}: executing the instructions in another order allowed by depends_on "
                          f"changes outputs {m['outputs']} / reads unwritten {m['uninit']}",
                          {"program_index": p.index, "seed": ctx.seed, "order": m["order"], "deps": k["deps"]})
            break
        if k["uninit"][ri]:
            dis += 1
            ctx.violation(f"{sig_prefix}:read-before-write",
                          f"program {p.index}: list order reads {k['uninit'][ri]} before any instruction wrote it",
                          {"program_index": p.index, "seed": ctx.seed})
            break
        try:
            ref = evaluate(p.expr(), run) if ref_cache is None else ref_cache(ri)
        except Exception as e:   # noqa: BLE001
            ctx.broken.append(f"refeval:{type(e).__name__}:program{p.index}")
            return dis + 1
        for name in p.outputs:
            if name not in k["outputs"][ri]:
                continue
            if not close(k["outputs"][ri][name], ref[name], single=p.uses_single()):
                dis += 1
                ctx.violation(f"{sig_prefix}:kernel-semantics-mismatch",
                              f"program {p.index} output {name}: the generated kernel, interpreted instruction by "
                              "instruction, differs from the reference",
                              {"program_index": p.index, "seed": ctx.seed, "output": name,
                               "observed": np.asarray(k["outputs"][ri][name]).tolist(),
                               "expected": np.asarray(ref[name]).tolist()})
                break
    return dis


def lean_queries(p, runs, res):
    """ptdriver queries for one program: static check + execution in list order and one other order"""
    from .. import ser
    k = res.kir
    if not k or "wire" not in k or "arrays" not in k or not runs:
        return None
    run = runs[0]
    inp = {kk: np.asarray(v) for kk, v in (res.bound_args or {}).items()}
    inp.update({kk: np.asarray(v) for kk, v in run.items()})
    binds = []
    try:
        for name, shape in sorted(k["arrays"].items()):
            if name in k["input_arrays"]:
                if name not in inp:
                    return None
                binds.append(ser.binding(name, inp[name]))
            else:
                binds.append(f"({ser.name(name)} {ser.shape(shape)} ())")
    except ser.SerError:
        return None
    outs = " ".join(ser.name(n) for n in p.outputs if n in k["arrays"])
    qs = [f"(kernel check {k['wire']})"]
    for order in [k["order"], *(k.get("alt_orders") or [])[:1]]:
        qs.append(f"(kernel exec {k['wire']} ({' '.join(ser.name(i) for i in order)}) ({' '.join(binds)}) ({outs}))")
    return qs


def parse_exec(ans: str):
    """'ok #t (name (shape) (vals)) …' -> (respects, {name: (shape, vals)})"""
    from .. import ser
    parts = ser.split_top(ans)
    if parts[0] != "ok":
        return None
    res = {}
    for part in parts[2:]:
        inner = ser.split_top(part[1:-1])
        if len(inner) == 2 and inner[1] == "missing":
            res[inner[0]] = None
        else:
            res[inner[0]] = (tuple(ser.parse_vals(inner[1])), ser.parse_vals(inner[2]))
    return parts[1] == "#t", res


def run_kernel_model(ctx, progs, results):
    from .. import common
    dis = n = 0
    nst = 0
    queries, owners = [], []
    for (p, runs), res in zip(progs, results):
        if res.kir is None:
            continue
        n += 1
        nst += res.kir.get("nstmts", 0)
        dis += check_readback(ctx, "loopy", p, runs, res)
        qs = lean_queries(p, runs, res)
        if qs:
            owners.append((p, runs, res, len(queries), len(qs)))
            queries += qs
    ctx.note_batch("kernel-readback-interpretation", n, dis, exhaustive=False, statements=nst)
    # Lean kernel model: static check + execution
    ans = common.driver_query_parallel(queries)
    ldis = lcmp = undef_skipped = 0
    for p, runs, res, start, cnt in owners:
        chk = ans[start]
        if chk != "ok #t":
            ldis += 1
            ctx.violation("loopy:checkKernel-fails",
                          f"program {p.index}: the generated kernel fails the verified static check "
                          "(single assignment / dependency completeness) of the Lean kernel model",
                          {"program_index": p.index, "seed": ctx.seed, "answer": chk,
                           "deps": res.kir.get("deps")})
            continue
        try:
            ref = evaluate(p.expr(), runs[0])
        except Exception:   # noqa: BLE001
            continue
        for a in ans[start + 1:start + cnt]:
            pe = parse_exec(a)
            if pe is None:
                ctx.broken.append(f"lean-kernel-exec:{a[:80]}:program{p.index}")
                ldis += 1
                break
            respects, outs = pe
            for name, val in outs.items():
                if val is None:
                    continue
                shape, vals = val
                exp = np.asarray(ref[name])
                if any(v is None for v in vals):
                    undef_skipped += 1      # value outside the exact domain of the model (transcendental, NaN…)
                    continue
                lcmp += 1
                got = np.array([float(v) if not isinstance(v, bool) else v for v in vals]).reshape(exp.shape) \
                    if tuple(shape) == exp.shape else None
                if got is None or not close(got.astype(exp.dtype) if exp.dtype.kind != "c" else got, exp,
                                            single=p.uses_single(), exact=False):
                    ldis += 1
                    # the Python interpretation of the same kernel agreed with the reference (checked above),
                    # so this is a deviation of the Lean model/serialiser from the real kernel semantics
                    ctx.broken.append(f"correspondence:lean-kernel-exec-vs-reference:program{p.index}:{name}")
                    break
    ctx.note_batch("lean-kernel-model(check+exec)", len(owners), ldis, exhaustive=False,
                   outputs_compared=lcmp, outputs_outside_exact_domain=undef_skipped)

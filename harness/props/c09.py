"""C09 — every distributed partition is well-formed and all ranks agree on it.

Theorems (lean/PtProofs/C09.lean): `checkWF_sound` (the executable checker implies the
contract `WF` = the seven clauses, `wf_clauses`), `levels_respect_deps` / `levels_complete`
(the batch model), `number_tags_total` / `number_tags_injective` / `number_tags_messages` /
`number_tags_deterministic` (model of number_distributed_tags).

Tie: real `find_distributed_partition`, `verify_distributed_partition`,
`number_distributed_tags` run unmodified on every fakempi rank-thread with symbolic tags of
several hashable types.  Every rank's DistributedGraphPartition is serialised reflectively;
`ptdriver` runs `checkWF` on the union; the broadcast communication batches are compared with
the model's `batches` of the program's communication graph; each rank's parts are compared
with the part structure the batches dictate; the broadcast tag table is compared with the
model's `numberTags` of the gathered sequence; integer tags are compared across ranks.

Search / oracle: an independent Python check of the seven clauses on the serialised records,
of the dependency order of the batches, of cross-rank tag agreement and of verify's verdict —
the failing program is the replay."""
from __future__ import annotations

import collections
import json
import re

from .. import common, distrun, distwork, ser
from ..gen import comm as G

THEOREMS = ["Pt.Dist.checkWF_sound", "Pt.Dist.wf_clauses", "Pt.Dist.levels_respect_deps",
            "Pt.Dist.levels_complete", "Pt.Dist.number_tags_total", "Pt.Dist.number_tags_injective",
            "Pt.Dist.number_tags_messages", "Pt.Dist.number_tags_deterministic",
            # the partitioner model (PtModel.Partition)
            "Pt.Dist.partition_wf", "Pt.Dist.partition_names_check_sound",
            "Pt.Dist.partition_wf_partial", "Pt.Dist.partition_check_sound", "Pt.Dist.partition_exec_faithful",
            "Pt.Dist.partition_comm_once", "Pt.Dist.partition_deterministic", "Pt.Dist.diagnoses_exact"]

_CLAUSE_OF_PY = {
    "recv-name-not-output": "recv-name-is-part-output",
}


def _parse_batches(ans: str):
    """'ok (((s d t) ...) ...)' -> list of sorted lists of tuples"""
    body = ans[3:].strip()
    toks = body.replace("(", " ( ").replace(")", " ) ").split()
    pos = 0

    def rd():
        nonlocal pos
        if toks[pos] == "(":
            pos += 1
            out = []
            while toks[pos] != ")":
                out.append(rd())
            pos += 1
            return out
        v = toks[pos]
        pos += 1
        return int(v)
    tree = rd()
    return [sorted(tuple(c) for c in b) for b in tree]


def batches_respect_graph(spec, batches):
    """independent oracle: every message in exactly one batch, dependencies strictly earlier"""
    gs, gr = G.comm_graph(spec)
    where = {}
    for i, b in enumerate(batches):
        for c in b:
            if c in where:
                return f"message {c} in two batches"
            where[c] = i
    for r, d, t, deps in gs:
        me = (r, d, t)
        if me not in where:
            return f"send {me} in no batch"
        for a, tg in deps:
            dep = (a, r, tg)
            if dep not in where:
                return f"dependency {dep} in no batch"
            if not where[dep] < where[me]:
                return f"{me} (batch {where[me]}) does not come after its dependency {dep} (batch {where[dep]})"
    for r, s, t in gr:
        if (s, r, t) not in where:
            return f"receive {(s, r, t)} in no batch"
    if any(not b for b in batches):
        return "empty batch"
    return None


def separate_interpreters_batch(ctx):
    """a few programs with symbolic (string / tuple / frozenset / class / bytes) tags partitioned and
    tag-numbered with every rank in its OWN interpreter (different PYTHONHASHSEEDs; collective
    payloads really cross process boundaries pickled) and with all ranks in one interpreter: every
    rank gets a partition, the summaries and tag tables agree byte for byte (C17 sweeps this broadly)"""
    from . import c17_dist
    n = 40 if ctx.thorough else 5
    specs = c17_dist.programs(ctx.seed, n, 1)[:n]
    for sp in specs:
        sp.pop("c17_codegen", None)
    c17_dist.run(ctx, specs=specs, group_seeds=[[11, 12, 13, 14]], thread_seeds=[0],
                 batch="ranks-in-separate-interpreters")


def dependency_mapper_batch(ctx):
    """the dependency analyses partition.py relies on (DependencyMapper, SubsetDependencyMapper,
    DirectPredecessorsGetter, collect_materialized_nodes) against a reflective closure over
    dataclass fields, on rank graphs over every high-level node kind (bare / wrapped payloads)"""
    common.setup_repo_import()
    import dataclasses as dc
    import random as _random
    from pytato.analysis import DirectPredecessorsGetter
    from pytato.array import Array
    from pytato.distributed.nodes import DistributedSendRefHolder
    from pytato.transform import DependencyMapper, SubsetDependencyMapper
    specs = list(G.kinds_family())
    specs += [G.generate(ctx.seed, i, "default") for i in range(150 if ctx.thorough else 40)]
    rng = _random.Random(f"depmap:{ctx.seed}")
    n_cases = n_dis = 0
    kinds_seen = collections.Counter()

    def children(x):
        out = []
        for f in dc.fields(x):
            if f.name in ("tags", "non_equality_tags", "axes", "dtype", "var_to_reduction_descr"):
                continue
            v = getattr(x, f.name)
            stack = [v]
            while stack:
                y = stack.pop()
                if isinstance(y, Array):
                    out.append(y)
                elif dc.is_dataclass(y) and not isinstance(y, type) and hasattr(y, "data") and not isinstance(y, Array):
                    stack.append(y.data)          # DistributedSend: its payload
                elif isinstance(y, (tuple, list, frozenset)):
                    stack.extend(y)
                elif hasattr(y, "items") and not isinstance(y, (str, bytes)):
                    stack.extend(vv for _, vv in y.items())
        return out

    for spec in specs:
        for r in range(spec["nranks"]):
            try:
                outs = G.build(spec, r)
            except Exception as e:      # noqa: BLE001
                ctx.broken.append(f"harness:build:{type(e).__name__}")
                continue
            roots = list(outs._data.values())
            # reflective closure per node (by identity; graphs are deduplicated)
            closure: dict = {}
            order = []

            def close(x):
                if id(x) in closure:
                    return closure[id(x)]
                closure[id(x)] = None
                acc = {id(x): x}
                for c in children(x):
                    acc.update(close(c) or {})
                closure[id(x)] = acc
                order.append(x)
                return acc
            for rt in roots:
                close(rt)
            allnodes = list(order)
            universe = frozenset(x for x in allnodes if rng.random() < 0.5)
            dm = DependencyMapper()
            sdm = SubsetDependencyMapper(universe)
            dpg = DirectPredecessorsGetter()
            replay = {"spec": spec, "rank": r}
            for x in allnodes:
                n_cases += 1
                kinds_seen[type(x).__name__] += 1
                want = set(closure[id(x)].values())
                got = set(dm(x))
                bad = None
                if got != want:
                    miss = [type(y).__name__ for y in want - got]
                    extra = [type(y).__name__ for y in got - want]
                    selfmiss = x not in got
                    bad = ("dependency-mapper:" + ("node-not-in-own-dependencies" if selfmiss else "closure-differs")
                           + f":{type(x).__name__}", f"DependencyMapper({type(x).__name__}) misses {miss[:4]}, adds {extra[:4]}")
                elif set(sdm(x)) != (want & universe):
                    bad = (f"subset-dependency-mapper:{type(x).__name__}",
                           f"SubsetDependencyMapper({type(x).__name__}) != closure ∩ universe")
                else:
                    preds = [y for y in dpg(x) if isinstance(y, Array)]
                    wantp = children(x)
                    if {id(y) for y in preds} != {id(y) for y in wantp}:
                        bad = (f"direct-predecessors:{type(x).__name__}",
                               f"DirectPredecessorsGetter({type(x).__name__}) gives {[type(y).__name__ for y in preds]}, "
                               f"fields give {[type(y).__name__ for y in wantp]}")
                if bad:
                    n_dis += 1
                    ctx.violation(bad[0], f"{bad[1]} (program {spec.get('profile')}/{spec.get('index')}, rank {r})",
                                  replay)
    ctx.note_batch("dependency-analyses-vs-reflective-closure", n_cases, n_dis, exhaustive=False,
                   nontrivial=n_cases, node_kinds=dict(sorted(kinds_seen.items())),
                   how="every node of every rank graph of the kinds family (each high-level kind as bare and wrapped "
                       "send buffer / stored array) and of generated programs: DependencyMapper(node) == reflective "
                       "closure incl. the node itself; SubsetDependencyMapper == closure ∩ universe; "
                       "DirectPredecessorsGetter == array-valued fields")


def run(ctx: common.Ctx):
    ctx.assumptions += [
        "ranks are threads of one interpreter (one PYTHONHASHSEED); collective payloads are pickled and "
        "unpickled between ranks as mpi4py does; differing hash seeds between ranks are C17's subject",
        "'no communication node inside a part' is established by a reflective walk over dataclass fields "
        "(harness/distrun.walk_arrays) and enters the Lean record as the flag `pure`",
        "symbolic tags: int, str, tuple, frozenset, bytes, a user-defined hashable class",
    ]
    ctx.lean_obligations("PtProofs.C09", THEOREMS)
    dependency_mapper_batch(ctx)
    separate_interpreters_batch(ctx)
    n = 12000 if ctx.thorough else 600
    tasks = [{"seed": ctx.seed, "index": i, "profile": "default"} for i in range(n)]
    tasks += [{"seed": ctx.seed, "index": i, "profile": "small"} for i in range(n // 3)]
    # hand-built families (reuse / fan-in / data wrappers / one array sent several times)
    fam_specs = list(G.families())
    if not ctx.thorough:
        fam_specs = fam_specs[::2]
    tasks += [{"seed": 0, "index": sp["index"], "profile": sp["profile"], "spec": sp} for sp in fam_specs]
    # traced calls around communication: the partitioner must refuse explicitly, on all ranks alike
    # (the asymmetric variants — a call on one rank only — run in the thorough tier)
    tasks += [{"seed": 0, "index": sp["index"], "profile": sp["profile"], "spec": sp}
              for sp in G.call_family() if ctx.thorough or sp["family"]["symmetric"]]
    try:
        results = distwork.run_pool(distwork.c09_unit, tasks, deadline_s=2400 if ctx.thorough else 500)
    except distwork.WorkTimeout as e:
        raise common.LeanError(f"C09 work pool timed out: {e}")
    dist = collections.Counter()
    bad_programs: list = []
    queries, qmeta = [], []
    n_ord = n_ord_dis = 0
    n_py = n_py_dis = n_ver = n_ver_dis = n_tag = n_tag_dis = n_parts = n_parts_dis = n_comm = 0
    for t, res in zip(tasks, results):
        if res.get("timeout"):
            raise common.LeanError(f"C09: program {t} timed out inside fakempi")
        st = res["stats"]
        dist[f"ranks={st['nranks']}"] += 1
        dist[f"ncomm={st['ncomm']}"] += 1
        dist[f"topology={st['topology']}"] += 1
        pat = res["patterns"]
        for k, v in pat.items():
            if v:
                dist[f"pattern:{k}"] += 1
        for k, v in res.get("dist", {}).items():
            if v:
                dist[f"has:{k}"] += 1
        prog = {"seed": t["seed"], "index": t["index"], "profile": t["profile"]}
        replay = {"program": prog, "spec": t.get("spec") or G.generate(t["seed"], t["index"], t["profile"])}
        spec_t = t.get("spec") or {}
        if res.get("rejected") and spec_t.get("expects_refusal"):
            rf = res["ranks_find"]
            want = spec_t["expects_refusal"]
            if all(x["status"] == "raised" and x["exc"] == want for x in rf):
                dist["refused-explicitly-on-all-ranks"] += 1
            elif any(x["status"] == "raised" for x in rf) and any(x["status"] == "blocked" for x in rf):
                exc = [x["exc"] for x in rf if x["status"] == "raised"][0]
                ctx.violation(f"partition:rank-raises-others-block:{exc}:unsupported-function-call",
                              f"{prog}: a rank refuses the program ({exc}) before the first collective while the "
                              f"other ranks wait in it forever: {json.dumps(rf)}", dict(replay, ranks=rf))
            else:
                ctx.violation("partition:refusal-not-explicit",
                              f"{prog}: expected {want} on every rank, got {json.dumps(rf)}", dict(replay, ranks=rf))
            continue
        if res.get("rejected"):
            dist["rejected"] += 1
            from .c08 import reject_signature
            sig = reject_signature(res["ranks_find"], pat)
            ctx.violation(sig, "find_distributed_partition returns no partition for a valid program: "
                          + json.dumps(res["ranks_find"]), dict(replay, ranks=res["ranks_find"]))
            rf_ = res["ranks_find"]
            if not sig.endswith("payload-through-send-holder") and any(x["status"] == "raised" for x in rf_) \
                    and any(x["status"] == "blocked" for x in rf_):
                exc_ = [x["exc"] for x in rf_ if x["status"] == "raised"][0]
                ctx.violation(f"partition:rank-raises-others-block:{exc_}",
                              f"{prog}: a rank raises {exc_} while the other ranks block in a collective (real MPI: "
                              f"they hang): {json.dumps(rf_)}", dict(replay, ranks=rf_))
            if not sig.endswith("payload-through-send-holder"):
                # the Lean model partitions every valid program (partition_wf): model != real
                raised = [r for r in res["ranks_find"] if r["status"] == "raised"] or [{"exc": "?"}]
                ctx.violation(f"model-partition-differs:real-raises:{raised[0]['exc']}",
                              f"the Lean model of find_distributed_partition returns a (well-formed) partition for "
                              f"{prog}, the real code raises {raised[0]['exc']}", dict(replay, ranks=res["ranks_find"]))
            continue
        n_comm += st["ncomm"] > 0
        # verify accepts?
        n_ver += 1
        rv = res["ranks_verify"]
        if not all(r["status"] == "ok" for r in rv):
            n_ver_dis += 1
            bad_programs.append({"program": prog})
            raised = [r for r in rv if r["status"] == "raised"] or [{"exc": "?", "stage": "?"}]
            sig = f"verify-rejects:{raised[0]['exc']}"
            if raised[0]["exc"] == "AssertionError" and pat["send_of_unmodified_recv"] and \
                    any(c.startswith("recv-name-not-output") for c in res["py_clauses"]):
                sig += ":send-of-unmodified-recv"
            ctx.violation(sig, f"verify_distributed_partition does not accept the partition of a valid program "
                          f"({prog}): {json.dumps(rv)}", dict(replay, ranks=rv))
        od = res.get("order")
        if od:
            n_ord += od["counters"].get("permuted_partitions", 0)
            seen_sig = set()
            for pb_ in od["problems"]:
                n_ord_dis += 1
                sig = "order-dependence:" + pb_["what"]
                if sig in seen_sig:
                    continue
                seen_sig.add(sig)
                bad_programs.append({"program": prog})
                ctx.violation(sig, f"the real partition of {prog}, rebuilt with the entries of every mapping / set "
                              f"(parts, name_to_output, name_to_recv_node, name_to_send_nodes, output_names, "
                              f"needed_pids, input names) in another order ({pb_['order']}): {pb_['what']} — "
                              f"{pb_['detail']}; as returned by find_distributed_partition it is accepted",
                              dict(replay, order=pb_["order"], what=pb_["what"], detail=pb_["detail"]))
        # independent clause check
        n_py += 1
        if res["py_clauses"]:
            n_py_dis += 1
            bad_programs.append({"program": prog})
            for c in res["py_clauses"]:
                head = c.split(":")[0]
                sig = "partition:" + _CLAUSE_OF_PY.get(head, head)
                if head == "recv-name-not-output" and pat["send_of_unmodified_recv"]:
                    sig += ":send-of-unmodified-recv"
                ctx.violation(sig, f"clause violated by the real partition of {prog}: {c}",
                              dict(replay, clause=c))
        # parts vs batches, tags
        n_parts += 1
        n_tag += 1
        pbs = [p for p in res["problems"] if not p.startswith("tags:")]
        tgs = [p for p in res["problems"] if p.startswith("tags:")]
        if pbs:
            n_parts_dis += 1
            bad_programs.append({"program": prog})
            for pbm in pbs:
                ctx.violation("partition:" + pbm.split(":")[0], f"{pbm} ({prog})", dict(replay, problem=pbm))
        hard_tag = [p for p in tgs if p.split(":")[1] in ("ends-disagree", "collision", "not-an-integer",
                                                           "next-tag-differs", "ranks-apply-different-tables")]
        if tgs:
            n_tag_dis += 1
            bad_programs.append({"program": prog})
        for pbm in hard_tag:
            ctx.violation("tags:" + pbm.split(":")[1], f"{pbm} ({prog})", dict(replay, problem=pbm))
        if tgs and not hard_tag:
            ctx.broken.append(f"correspondence:{tgs[0]}:{prog}")
        # Lean
        queries.append(f"(dist checkwf {res['P']})")
        qmeta.append(("wf", prog, res, replay))
        queries.append(res["skeleton_query"])
        qmeta.append(("skeleton", prog, res, replay))
        queries.append(res["partition_query"])
        qmeta.append(("partition", prog, res, replay))
        queries.append(res["partition_query"].replace(f"(dist partition {distrun.NAME_BASE} ", "(dist checkgood ", 1))
        qmeta.append(("checkgood", prog, res, replay))
        queries.append(res["partition_query"].replace("(dist partition ", "(dist checknames ", 1))
        qmeta.append(("checknames", prog, res, replay))
        if res.get("batches") is not None:
            why = batches_respect_graph(replay["spec"], [[tuple(c) for c in b] for b in res["batches"]])
            if why:
                ctx.violation("batches:dependency-order", f"communication batches of {prog}: {why}",
                              dict(replay, batches=res["batches"]))
            queries.append(f"(dist batches {res['graph']})")
            qmeta.append(("batches", prog, res, replay))
        if res.get("gathered") is not None and all(x is not None for tup in res["gathered"] for x in tup):
            g = " ".join("(" + " ".join(str(x) for x in tup) + ")" for tup in res["gathered"])
            queries.append(f"(dist numbertags {distrun.BASE_TAG} ({g}))")
            qmeta.append(("tags", prog, res, replay))
        if len(ctx.samples) < 6:
            ctx.sample({"program": prog, "stats": st, "batches": res.get("batches"),
                        "gathered": res.get("gathered")})
    answers = common.driver_query_parallel(queries)
    n_wf = n_wf_dis = n_b = n_b_dis = n_nt = n_nt_dis = n_sk = n_sk_dis = n_pm = n_pm_dis = n_cg = n_cg_dis = n_cg_good = n_gt = n_gt_dis = 0
    for (kind, prog, res, replay), a in zip(qmeta, answers):
        if kind == "wf":
            n_wf += 1
            if a != "ok true":
                n_wf_dis += 1
                bad_programs.append({"program": prog})
                if not res["py_clauses"]:
                    # Lean's checker rejects, the independent Python check found nothing: no failing input
                    ctx.broken.append(f"correspondence:checkWF-rejects-real-partition:{a[:120]}:{prog}")
            elif res["py_clauses"]:
                ctx.broken.append(f"correspondence:checkWF-accepts-but-python-clauses-fail:{prog}")
        elif kind == "skeleton":
            n_sk += 1
            try:
                model = distrun.model_skeleton(a)
                real = [[(p[0], list(p[1]), [tuple(c) for c in p[2]], [[tuple(c) for c in g] for g in p[3]])
                         for p in parts] for parts in res["real_skeleton"]]
                diff = distrun.skeleton_difference(real, model)
            except Exception as e:      # noqa: BLE001
                diff = (f"unparsable:{type(e).__name__}:{a[:60]}", "unparsable")
            if diff:
                n_sk_dis += 1
                bad_programs.append({"program": prog})
                ctx.violation(f"model-partition-differs:{diff[1]}",
                              f"the partition computed by the Lean model of find_distributed_partition (proved "
                              f"well-formed) differs from the real one for {prog}: {diff[0]}",
                              dict(replay, difference=diff[0]))
        elif kind == "partition":
            n_pm += 1
            tp = [x for x in res["canon_problems"] if "input-type-vs-program" in x]
            if tp:
                n_pm_dis += 1
                bad_programs.append({"program": prog})
                ctx.violation("model-partition-differs:part-input-type",
                              f"a part input of the real partition of {prog} is not typed like the program node it "
                              f"stands for: {tp[0]}", dict(replay, difference=tp[0]))
                continue
            if res["canon_problems"]:
                n_pm_dis += 1
                ctx.broken.append(f"harness:cannot-canonicalise-real-names:{res['canon_problems'][0]}:{prog}")
                continue
            try:
                mp = distrun.model_partition(a, replay["spec"])
                diff = distrun.partition_difference(res["real_partition"], mp)
                # what number_distributed_tags gathers on every rank = the tags of the MODEL partition's
                # receives and sends of that rank (as a multiset; the order inside a batch is not modelled)
                if diff is None and res.get("gathered") is not None:
                    n_gt += 1
                    for rnk, (mr, gt) in enumerate(zip(mp, res["gathered"])):
                        want = sorted(x[2] for pp in mr["parts"] for x in pp["recvs"] + pp["sends"])
                        if sorted(t for t in gt if t is not None) != want:
                            n_gt_dis += 1
                            ctx.violation("tags:gathered-sequence-vs-model-partition",
                                          f"rank {rnk} of {prog} gathers tags {gt}, the model partition has {want}",
                                          dict(replay, rank=rnk))
                            break
            except Exception as e:      # noqa: BLE001
                diff = (f"unparsable:{type(e).__name__}:{a[:60]}", "unparsable")
            if diff:
                n_pm_dis += 1
                bad_programs.append({"program": prog})
                known = ""
                if pat["send_of_unmodified_recv"] or pat["payload_through_send_holder"]:
                    known = ":known-pattern"
                ctx.violation(f"model-partition-differs:{diff[1]}{known}",
                              f"the partition computed by the Lean model of find_distributed_partition differs from "
                              f"the real one for {prog}: {diff[0][:300]}", dict(replay, difference=diff[0]))
        elif kind == "checkgood":
            # the hypothesis of partition_wf_partial: must hold exactly for the programs without the
            # two recorded patterns (closedness / Valid always)
            n_cg += 1
            m = re.match(r"ok (\S+) \((.*)\)$", a)
            flags = re.findall(r"\((\d+) (\d) (\d) (\d)\)", m.group(2)) if m else []
            good = bool(m) and m.group(1) == "ok" and all(f[1:] == ("1", "1", "1") for f in flags)
            n_cg_good += good
            pv = all(f[2] == "1" for f in flags)
            nf = all(f[3] == "1" for f in flags)
            closed_valid = bool(m) and m.group(1) == "ok" and all(f[1] == "1" for f in flags)
            pat = res["patterns"]
            if not closed_valid or pv == pat["payload_through_send_holder"] or nf == pat["send_of_unmodified_recv"]:
                n_cg_dis += 1
                ctx.broken.append(f"correspondence:GoodProgram-hypothesis-vs-program-patterns:{a[:80]}:{prog}")
        elif kind == "checknames":
            if a != "ok true":
                ctx.broken.append(f"correspondence:NamesOK-hypothesis-fails:{a}:{prog}")
        elif kind == "batches":
            n_b += 1
            try:
                model = _parse_batches(a)
            except Exception:
                model = None
            real = [sorted(tuple(c) for c in b) for b in res["batches"]]
            if model != real:
                n_b_dis += 1
                bad_programs.append({"program": prog})
                if not any(v["signature"] == "batches:dependency-order" for v in ctx.violations):
                    ctx.broken.append(f"correspondence:batches-differ-from-model:{prog}")
        else:
            n_nt += 1
            toks = ser.split_top(a)
            ok = toks[0] == "ok"
            if ok:
                model_map = sorted(tuple(int(x) for x in p.strip("()").split()) for p in ser.split_top(toks[1][1:-1])) \
                    if toks[1] != "()" else []
                model_next = int(toks[2])
                real_map = res["tag_maps"][0]
                ok = (real_map is not None and sorted(tuple(x) for x in real_map[0]) == model_map
                      and real_map[1] == model_next and res["next_tag"] == model_next)
            if not ok:
                n_nt_dis += 1
                bad_programs.append({"program": prog})
                ctx.broken.append(f"correspondence:tag-table-differs-from-numberTags:{prog}")
    n_prog = n_ver
    bad_prog = len({json.dumps(v.get("program")) for v in bad_programs})
    ctx.note_batch("real-partitions-vs-contract-and-model", n_prog, bad_prog, nontrivial=n_comm,
                   how="one case per generated program, partitioned by the real code on all ranks; comparisons: "
                       "checkWF in ptdriver, the seven clauses in Python, verify's verdict, parts vs broadcast "
                       "batches, batches vs Lean model, integer tags across ranks, tag table vs Lean numberTags",
                   comparisons={"checkWF": [n_wf, n_wf_dis], "python_clauses": [n_py, n_py_dis],
                                "verify_accepts": [n_ver, n_ver_dis],
                                "verify_and_tags_with_mappings_and_sets_permuted": [n_ord, n_ord_dis],
                                "parts_vs_batches": [n_parts, n_parts_dis],
                                "batches_vs_model": [n_b, n_b_dis],
                                "model_partition_skeleton_vs_real": [n_sk, n_sk_dis],
                                "model_partition_full_vs_real": [n_pm, n_pm_dis],
                                "GoodProgram_hypothesis_checked": [n_cg, n_cg_dis],
                                "programs_satisfying_GoodProgram": n_cg_good, "tags_across_ranks": [n_tag, n_tag_dis],
                                "tag_table_vs_numberTags": [n_nt, n_nt_dis],
                                "gathered_tags_vs_model_partition": [n_gt, n_gt_dis]})
    # the model's own partitions through the verified checker (evidence for the full statement
    # `PartitionWFStatement`, which is not proved): every model partition of a program that satisfies
    # GoodProgram must pass checkWF
    good_progs = set()
    for (kind, prog, res, replay), a in zip(qmeta, answers):
        if kind == "checkgood":
            m = re.match(r"ok (\S+) \((.*)\)$", a)
            flags = re.findall(r"\((\d+) (\d) (\d) (\d)\)", m.group(2)) if m else []
            if m and m.group(1) == "ok" and all(f[1:] == ("1", "1", "1") for f in flags):
                good_progs.add(json.dumps(prog))
    q2 = [(prog, a) for (kind, prog, res, replay), a in zip(qmeta, answers)
          if kind == "partition" and a.startswith("ok (") and json.dumps(prog) in good_progs]
    ans2 = common.driver_query_parallel([f"(dist checkwf {a[3:]})" for _, a in q2])
    n_mwf_dis = 0
    for (prog, _), a2 in zip(q2, ans2):
        if a2 != "ok true":
            n_mwf_dis += 1
            ctx.broken.append(f"model:partitionOf-fails-checkWF:{a2[:80]}:{prog}")
    ctx.batches["real-partitions-vs-contract-and-model"]["comparisons"]["model_partition_passes_checkWF"] = \
        [len(q2), n_mwf_dis]
    ctx.coverage["programs"] = len(tasks)
    ctx.coverage["program_distribution"] = dict(sorted(dist.items()))
    ctx.coverage["rule"] = ("a case = one generated multi-rank program (seed, index, profile), partitioned by the real "
                            "code on all ranks; programs are distinct by construction of the index stream; "
                            "non-trivial = at least one message")
    ctx.broken = sorted(set(ctx.broken))[:30]


def replay(ctx, path):
    r = json.loads(open(path).read())
    print(json.dumps({k: r.get(k) for k in ("signature", "what", "program", "clause", "problem")}, indent=1))
    if "spec" not in r:
        run(ctx)
        return ctx.finish()
    try:
        out = distwork.run_pool(distwork.c09_unit, [{"spec": r["spec"], "index": -1}], nproc=1, deadline_s=120)[0]
    except distwork.WorkTimeout:
        return 2
    show = {k: out.get(k) for k in ("ranks_find", "ranks_verify", "py_clauses", "problems", "batches", "tag_maps")}
    print(json.dumps(show, indent=1, default=str))
    bad = out.get("rejected") or out.get("py_clauses") or out.get("problems") or \
        not all(x["status"] == "ok" for x in out["ranks_verify"])
    print("REPRODUCED" if bad else "not reproduced on the current tree")
    return 1 if bad else 0

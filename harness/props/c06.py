"""C06 — algebraic einsum rewrites never change the computed value.

Theorems (PtProofs/C06.lean): multilinearity of the einsum reference semantics
in every operand position (sum, difference, scalar factor, division by a
scalar), the non-identity for a scalar numerator, soundness of the modelled
distributive-law rewrite for every policy and nesting provided the
distributability predicate only accepts linear cases, and the kernel-checked
obligation that the *regenerated truth table of the real*
`_can_hlo_be_distributed` only accepts linear cases.

Tie: translator (truth table, regenerated each run) + correspondence: seeded
expressions with 1..3 (nested) einsums whose operands are trees of + - * / with
array and scalar operands in both positions, powers, math functions, indexing,
reshapes, transposes, broadcast-unit axes; EVERY distribution policy per
expression (each operand index or do-not-distribute, per einsum); original vs
rewritten under the reference evaluator; `rewrite_einsums_with_no_broadcasts`
likewise."""
from __future__ import annotations

import itertools
import random

import numpy as np

from .. import common, reflect
from ..extract import distribute as xdist
from ..refeval import close, evaluate

try:
    from .c06_theorems import THEOREMS
except ImportError:
    THEOREMS = []

SPECS = [("ij,j->i", 2), ("ij,jk->ik", 2), ("i,i->", 2), ("ij,ij->i", 2), ("ijk,k->ij", 2), ("ij->ji", 1),
         ("i,j->ij", 2), ("ii->i", 1), ("ij,j,i->", 3), ("ij,jk,k->i", 3), ("ij->", 1), ("ij,ij->ij", 2),
         ("ijk,ijk->ijk", 2), ("ijkl,l->ijk", 2), ("ijk,jk->i", 2), ("ijk,ij,k->ik", 3),
         ("ii,ij->j", 2), ("iji,j->i", 2), ("ii->", 1), ("iij->ij", 1)]


class XGen:
    def __init__(self, rng, cplx: bool = False):
        self.rng = rng
        # complex mode: complex128 leaves and real / imag / conj nodes (linear over the reals only: they must not
        # be pushed through an einsum with a complex operand)
        self.cplx = cplx
        self.dtypes: dict[str, str] = {}
        self.phs: dict[str, tuple] = {}
        self.n_einsum = 0
        self.max_einsum = 3
        self.memo: dict[tuple, list] = {}       # operands built so far, by shape: sub-expressions get SHARED
        self.share = 0.0

    def leaf(self, shape):
        import pytato as pt
        nm = f"a{len(self.phs)}"
        self.phs[nm] = tuple(shape)
        dt = "complex128" if self.cplx and self.rng.random() < 0.7 else "float64"
        self.dtypes[nm] = dt
        return pt.make_placeholder(nm, tuple(shape), np.dtype(dt))

    def operand(self, shape, depth):
        """an array expression of exactly `shape`"""
        import pytato as pt
        r = self.rng
        shape = tuple(shape)
        if self.memo.get(shape) and r.random() < self.share:
            return r.choice(self.memo[shape])
        e = self._operand(shape, depth)
        if tuple(e.shape) == shape:
            self.memo.setdefault(shape, []).append(e)
        return e

    def _operand(self, shape, depth):
        import pytato as pt
        r = self.rng
        if depth <= 0 or r.random() < 0.25:
            return self.leaf(shape)
        c = r.choice([2.0, -3.0, 0.5, 3, np.float64(1.5)])
        k = r.choice(["add", "sub", "smul", "muls", "divs", "sdivl", "mul", "pow", "sin", "neg", "index",
                      "transpose2", "reshape", "bcastadd", "bcastadd", "einsum", "add", "sub", "smul", "divs"])
        if self.cplx and r.random() < 0.3:
            k = r.choice(["real", "imag", "conj", "conj"])
        a = self.operand(shape, depth - 1)
        if k in ("real", "imag", "conj"):
            return getattr(pt, k)(a) if a.dtype.kind == "c" else a
        if k == "add":
            return a + self.operand(shape, depth - 1)
        if k == "sub":
            return a - self.operand(shape, depth - 1)
        if k == "smul":
            return c * a
        if k == "muls":
            return a * c
        if k == "divs":
            return a / c
        if k == "sdivl":
            return c / (a * a + 1)
        if k == "mul":
            return a * self.operand(shape, depth - 1)
        if k == "pow":
            return a ** 2
        if k == "sin":
            return pt.sin(a)
        if k == "neg":
            return -a
        if k == "index":
            if not shape:
                return a
            big = self.operand((shape[0] + 1, *shape[1:]), depth - 1)
            return big[1:] if r.random() < 0.5 else big[:-1]
        if k == "transpose2":
            if len(shape) < 2:
                return a
            t = self.operand(tuple(reversed(shape)), depth - 1)
            return pt.transpose(t, tuple(range(len(shape)))[::-1])
        if k == "reshape":
            n = int(np.prod(shape)) if shape else 1
            flat = self.operand((n,), depth - 1)
            return pt.reshape(flat, shape)
        if k == "bcastadd":
            if not shape:
                return a
            if r.random() < 0.5:
                # same rank, unit axes in one term (X(3,4) + Y(3,1)): shapes differ although the ranks agree
                ushape = tuple(1 if r.random() < 0.6 else d for d in shape)
                u = self.operand(ushape, depth - 1)
                return (a + u) if r.random() < 0.5 else (u - a)
            return a + self.operand(shape[-1:], depth - 1)     # broadcasting add: shapes differ
        if k == "einsum":
            if self.n_einsum >= self.max_einsum or len(shape) != 1:
                return a
            self.n_einsum += 1
            m = self.operand((shape[0], shape[0]), depth - 1)
            return m @ a
        return a

    def einsum(self, depth, spec=None, dims=None):
        import pytato as pt
        r = self.rng
        if spec is None:
            spec, nops = r.choice(SPECS)
        ins, out = spec.split("->")
        letters = sorted(set(ins.replace(",", "")))
        if dims is None:
            dims = {c: r.randint(1, 3) for c in letters}
        args = []
        # some einsums broadcast heavily: several unit axes in ONE operand
        p_unit = 0.6 if r.random() < 0.3 else 0.12
        for sp in ins.split(","):
            shp = [dims[c] for c in sp]
            # broadcast-unit axis (not on a repeated letter)
            for ax, ch in enumerate(sp):
                if sp.count(ch) == 1 and dims[ch] > 1 and ins.count(ch) > 1 and r.random() < p_unit:
                    shp[ax] = 1
                elif sp.count(ch) > 1 and dims[ch] > 1 and shp.count(1) == 0 and r.random() < 0.35:
                    # a unit axis on ONE occurrence of an index that is repeated inside this operand
                    # ("ii" on shape (1, 3) reads the diagonal e[0, i])
                    shp[ax] = 1
            args.append(self.operand(tuple(shp), depth))
        self.n_einsum += 1
        return pt.einsum(spec, *args)

    def top(self):
        r = self.rng
        if r.random() < 0.3:
            # several einsums of ONE index pattern and extent over shared operand sub-expressions
            # (A @ (x1 + x2) + B @ (x1 + x2)): a rewrite must keep them apart
            self.share = 0.5
            self.max_einsum = 4
            spec, _ = r.choice([sp for sp in SPECS if sp[1] >= 2])
            letters = sorted(set(spec.split("->")[0].replace(",", "")))
            dims = {c: r.randint(2, 3) for c in letters}
            parts = [self.einsum(r.randint(1, 2), spec, dims) for _ in range(r.randint(2, 3))]
            e = parts[0]
            for q in parts[1:]:
                e = e + q if r.random() < 0.6 else e - 2 * q
            return e
        self.share = r.choice([0.0, 0.0, 0.3])
        e = self.einsum(r.randint(1, 3))
        if self.n_einsum < 3 and r.random() < 0.35:
            e2 = self.einsum(r.randint(0, 2))
            if tuple(e2.shape) == tuple(e.shape):
                e = e + 2 * e2 if r.random() < 0.5 else e - e2
            else:
                import pytato as pt
                return pt.make_dict_of_named_arrays({"o1": e, "o2": e2})
        if r.random() < 0.3:
            e = 3.0 * e
        return e


def einsum_nodes(expr):
    from pytato.array import Einsum
    return [n for n in reflect.walk(expr) if isinstance(n, Einsum)]


def batch_distribute(ctx):
    import pytato as pt
    from pytato.transform.einsum_distributive_law import (
        DoDistribute, DoNotDistribute, apply_distributive_property_to_einsums)
    rng = random.Random(ctx.seed * 67 + 6)
    nprng = np.random.default_rng(ctx.seed + 61)
    N = 700 if ctx.thorough else 110
    cases = dis = composed = unchanged = 0
    pol_count = 0
    for pi in range(N):
        g = XGen(rng, cplx=(pi % 4 == 3))
        expr = pt.transform.deduplicate(g.top())
        eins = einsum_nodes(expr)
        if not eins or len(eins) > 3:
            continue
        inp = {nm: (nprng.integers(-4, 5, size=shp) / 2.0) + (1j * (nprng.integers(-4, 5, size=shp) / 2.0)
                                                              if g.dtypes.get(nm) == "complex128" else 0.0)
               for nm, shp in g.phs.items()}
        inp = {nm: (v if g.dtypes.get(nm) == "complex128" else np.real(v)) for nm, v in inp.items()}
        try:
            ref = evaluate(expr, inp)
        except Exception as e:   # noqa: BLE001
            ctx.broken.append(f"refeval:{type(e).__name__}:{e}"[:120])
            continue
        choices = [list(range(len(e.args))) + [None] for e in eins]
        allpol = list(itertools.product(*choices))
        if len(allpol) > 64:
            allpol = rng.sample(allpol, 64)
        for pol in allpol:
            pol_count += 1
            table = {id(e): c for e, c in zip(eins, pol)}
            eq_table = [(e, c) for e, c in zip(eins, pol)]

            def how(e, table=table, eq_table=eq_table):
                if id(e) in table:
                    c = table[id(e)]
                else:
                    c = next((cc for ee, cc in eq_table if ee == e), None)
                return DoNotDistribute() if c is None else DoDistribute(ioperand=c)
            cases += 1
            try:
                new = apply_distributive_property_to_einsums(expr, how)
            except Exception as e:   # noqa: BLE001
                if type(e) is RuntimeError and "composed" in str(e):
                    composed += 1      # documented: a DoDistribute einsum under a distributing context
                    continue
                dis += 1
                ctx.violation(f"distribute:exception:{type(e).__name__}",
                              f"expression {pi} policy {pol}: apply_distributive_property_to_einsums raised "
                              f"{type(e).__name__}: {e}", {"expression_index": pi, "seed": ctx.seed, "policy": list(pol)})
                continue
            if new is expr:
                unchanged += 1
            try:
                got = evaluate(new, inp)
            except Exception as e:   # noqa: BLE001
                dis += 1
                ctx.violation(f"distribute:rewritten-graph-invalid:{type(e).__name__}",
                              f"expression {pi} policy {pol}: rewritten graph cannot be evaluated: {e}",
                              {"expression_index": pi, "seed": ctx.seed, "policy": list(pol)})
                continue
            ok = _same(got, ref)
            if not ok:
                dis += 1
                which = _which_op(eins, pol)
                ctx.violation(f"distribute:value-changed:{which}",
                              f"expression {pi} (seed {ctx.seed}) policy {pol}: the rewritten expression evaluates "
                              f"differently; distributed over: {which}",
                              {"expression_index": pi, "seed": ctx.seed, "policy": [c for c in pol],
                               "observed": _tolist(got), "expected": _tolist(ref)})
        if pi % 15 == 0:
            ctx.sample({"batch": "distribute", "expression": pi, "einsums": len(eins), "policies": len(allpol)})
    ctx.note_batch("distributive-law-all-policies", cases, dis, exhaustive=False, expressions=N,
                   policies=pol_count, rejected_composed_einsums=composed, returned_argument_itself=unchanged,
                   note="every policy per expression (<=64) — exhaustive per expression")


def batch_wrapping_operands(ctx):
    """operands whose arithmetic is not exact ring arithmetic: unsigned / narrow integers (differences and sums wrap
    around BEFORE the einsum) and Booleans (`+` is a logical or): the distributive law is an identity of exact
    arithmetic only"""
    import pytato as pt
    from pytato.transform.einsum_distributive_law import DoDistribute, apply_distributive_property_to_einsums
    A = np.array([[1.0, 2.0, 0.5], [0.0, -1.0, 3.0]])
    X1 = {"uint8": np.array([3, 200, 7], dtype=np.uint8), "int8": np.array([100, -100, 5], dtype=np.int8),
          "bool": np.array([True, False, True])}
    X2 = {"uint8": np.array([10, 100, 9], dtype=np.uint8), "int8": np.array([100, 100, -5], dtype=np.int8),
          "bool": np.array([True, True, False])}
    a = pt.make_placeholder("A", A.shape, np.float64)
    cases = dis = 0
    for dt in X1:
        x1, x2 = pt.make_placeholder("x1", (3,), X1[dt].dtype), pt.make_placeholder("x2", (3,), X2[dt].dtype)
        forms = {"sub": (lambda p, q: p - q), "add": (lambda p, q: p + q), "smul": (lambda p, q: 3 * p + q)}
        if dt == "bool":
            forms = {"add": forms["add"]}
        for fn, f in forms.items():
            cases += 1
            expr = a @ f(x1, x2)
            inp = {"A": A, "x1": X1[dt], "x2": X2[dt]}
            try:
                ref = evaluate(expr, inp)
                new = apply_distributive_property_to_einsums(expr, lambda e: DoDistribute(ioperand=1))
                got = evaluate(new, inp)
            except Exception as e:   # noqa: BLE001  (an explicit refusal is fine)
                continue
            if not _same(got, ref):
                dis += 1
                ctx.violation("distribute:value-changed:wrapping-integer-or-boolean-operands",
                              f"A @ ({fn} of {dt} vectors): the {dt} operation wraps around / is a logical or before the "
                              f"einsum; after distribution the result is {_tolist(got)} instead of {_tolist(ref)}",
                              {"dtype": dt, "form": fn})
    ctx.note_batch("operands-with-wrapping-or-boolean-arithmetic", cases, dis, exhaustive=False)


def _which_op(eins, pol):
    from pytato.array import IndexLambda
    out = []
    for e, c in zip(eins, pol):
        if c is None:
            continue
        a = e.args[c]
        if isinstance(a, IndexLambda):
            from pytato.raising import BinaryOp, index_lambda_to_high_level_op
            try:
                h = index_lambda_to_high_level_op(a)
                if isinstance(h, BinaryOp):
                    s1, s2 = np.isscalar(h.x1), np.isscalar(h.x2)
                    out.append(f"{h.binary_op.name}:{'scalar' if s1 else 'array'}-{'scalar' if s2 else 'array'}")
                    continue
                out.append(type(h).__name__)
                continue
            except Exception:   # noqa: BLE001
                pass
        out.append(type(a).__name__)
    return ",".join(sorted(set(out))) or "none"


def _same(a, b):
    if isinstance(a, dict):
        return set(a) == set(b) and all(close(a[k], b[k], exact=False) for k in a)
    return close(a, b, exact=False)


def _tolist(a):
    if isinstance(a, dict):
        return {k: np.asarray(v).tolist() for k, v in a.items()}
    return np.asarray(a).tolist()


def batch_no_broadcasts(ctx):
    import pytato as pt
    rng = random.Random(ctx.seed * 69 + 7)
    nprng = np.random.default_rng(ctx.seed + 62)
    N = 600 if ctx.thorough else 120
    cases = dis = with_unit = 0
    for pi in range(N):
        g = XGen(rng)
        expr = pt.transform.deduplicate(g.top())
        inp = {nm: (nprng.integers(-4, 5, size=shp) / 2.0) for nm, shp in g.phs.items()}
        try:
            ref = evaluate(expr, inp)
        except Exception:   # noqa: BLE001
            continue
        cases += 1
        if any(1 in a.shape for e in einsum_nodes(expr) for a in e.args):
            with_unit += 1
        try:
            new = pt.rewrite_einsums_with_no_broadcasts(expr)
            got = evaluate(new, inp)
        except Exception as e:   # noqa: BLE001
            dis += 1
            ctx.violation(f"no-broadcasts:exception:{type(e).__name__}",
                          f"expression {pi}: rewrite_einsums_with_no_broadcasts failed: {e}",
                          {"expression_index": pi, "seed": ctx.seed})
            continue
        if not _same(got, ref):
            dis += 1
            ctx.violation("no-broadcasts:value-changed",
                          f"expression {pi}: rewrite_einsums_with_no_broadcasts changes the value",
                          {"expression_index": pi, "seed": ctx.seed, "observed": _tolist(got), "expected": _tolist(ref)})
            continue
        # and no einsum with a broadcast-unit axis may remain
        for e in einsum_nodes(new):
            lens = e._access_descr_to_axis_len()
            for arg, ad in zip(e.args, e.access_descriptors):
                for d, ax in zip(arg.shape, ad):
                    if d != lens[ax]:
                        dis += 1
                        ctx.violation("no-broadcasts:broadcast-remains",
                                      f"expression {pi}: an einsum operand still broadcasts", {"expression_index": pi})
    ctx.note_batch("rewrite-einsums-with-no-broadcasts", cases, dis, exhaustive=False, with_unit_axes=with_unit)


def batch_table(ctx):
    """the regenerated truth table, decided in Python too (locates a failing row for the replay)"""
    rs, detail = xdist.regenerate()
    bad = 0
    for op, s1, s2, eq, ans in rs:
        linear = ((op in ("ADD", "SUB") and not s1 and not s2 and eq)
                  or (op == "MULT" and (s1 or s2))
                  or (op == "TRUEDIV" and s2))
        if ans and not linear:
            bad += 1
            # concrete failing input on the real code
            w = _witness(op, s1, s2)
            ctx.violation(f"distribute:{op}:{'scalar' if s1 else 'array'}-{'scalar' if s2 else 'array'}",
                          f"_can_hlo_be_distributed accepts {op} with x1 {'scalar' if s1 else 'array'}, x2 "
                          f"{'scalar' if s2 else 'array'}, equal shapes={eq}: not an algebraic identity; {w}",
                          {"row": [op, s1, s2, eq, ans], "witness": w})
    ctx.note_batch("truth-table-of-_can_hlo_be_distributed", len(rs), bad, exhaustive=True,
                   accepted=[r[:4] for r in rs if r[4]])


def _witness(op, s1, s2):
    """run the real rewrite on A @ (x1 op x2) and compare values"""
    import pytato as pt
    from pytato.transform.einsum_distributive_law import DoDistribute, apply_distributive_property_to_einsums
    A = pt.make_placeholder("A", (2, 2), np.float64)
    x = pt.make_placeholder("x", (2,), np.float64)
    y = pt.make_placeholder("y", (2,), np.float64)
    import operator
    f = {"ADD": operator.add, "SUB": operator.sub, "MULT": operator.mul, "TRUEDIV": operator.truediv,
         "POWER": operator.pow, "FLOORDIV": operator.floordiv, "MOD": operator.mod}.get(op)
    if f is None:
        return "no executable witness for this operator"
    a1 = 2.0 if s1 else x
    a2 = 2.0 if s2 else (y if not s1 else x)
    try:
        e = A @ f(a1, a2)
        new = apply_distributive_property_to_einsums(e, lambda _: DoDistribute(ioperand=1))
        inp = {"A": np.array([[1.0, 2.0], [3.0, 4.0]]), "x": np.array([1.0, 4.0]), "y": np.array([2.0, 0.5])}
        r0, r1 = evaluate(e, inp), evaluate(new, inp)
        return f"A @ ({'2' if s1 else 'x'} {op} {'2' if s2 else 'y'}): original {r0.tolist()} rewritten {r1.tolist()}"
    except Exception as ex:   # noqa: BLE001
        return f"witness construction failed: {type(ex).__name__}: {ex}"


def run(ctx: common.Ctx):
    ctx.assumptions += [
        "floating-point reassociation is outside the model: values compared with a scale-aware tolerance",
        "the raiser (index_lambda_to_high_level_op) the rewrite consumes is C19's subject",
    ]
    batch_table(ctx)
    if THEOREMS:
        ctx.lean_obligations("PtProofs.C06", THEOREMS, extra_targets=["PtGen.Distribute"])
    else:
        ctx.coverage["lean"] = "C06 theorem file not yet present in this revision"
    batch_distribute(ctx)
    batch_wrapping_operands(ctx)
    batch_no_broadcasts(ctx)
    ctx.broken = sorted(set(ctx.broken))[:50]


def replay(ctx, path):
    print(open(path).read()[:3000])
    run(ctx)
    return ctx.finish()

"""C17 — code generation, partitioning and tag numbering are process-independent.

Theorems: the modelled generators consume only lists in a canonical order
(`Pt.NameGen` results are a function of the request sequence:
PtProofs/C17.lean) — what a proof can say; whether the real process iterates over
a hash-ordered container somewhere is what the seed sweep observes.

Tie: each program text (seed, index of the deterministic generator) is rebuilt
in child interpreters with different PYTHONHASHSEED values and allocation
histories; the canonical dump of the loopy kernel, the OpenCL source, the Python
(NumPy-like target) source and the persistent key are compared byte for byte
across children and for two builds inside one process; the distributed
partition summary and tag numbering likewise (via the C09 machinery)."""
from __future__ import annotations

import json
import os
import subprocess
import sys
from pathlib import Path

from .. import common

THEOREMS = ["Pt.gen_deterministic", "Pt.genMany_deterministic"]


def run_children(ctx, seed, indices, hashseeds, multi=(), lcalls=(), ncase=()):
    procs = []
    for hs in hashseeds:
        sc = ctx.scratch / f"child{hs}"
        sc.mkdir(exist_ok=True)
        out = ctx.scratch / f"c17_{hs}.json"
        env = dict(os.environ)
        env["PYTHONHASHSEED"] = str(hs)
        env["VERIF_CHILD_SCRATCH"] = str(sc)
        env["PYTHONWARNINGS"] = "ignore"
        env["PYTATO_REPO"] = str(common.REPO)
        p = subprocess.Popen([sys.executable, "-m", "harness.child_c17", str(seed), str(out), str(hs * 2),
                              ",".join(map(str, indices)), ",".join(map(str, multi)), ",".join(map(str, lcalls)),
                              ",".join(map(str, ncase))],
                             cwd=str(common.VERIF), env=env,
                             stdout=subprocess.PIPE, stderr=subprocess.STDOUT, text=True)
        procs.append((hs, p, out))
    res = {}
    for hs, p, out in procs:
        so, _ = p.communicate(timeout=1500)
        if p.returncode != 0 or not out.exists():
            raise common.LeanError(f"C17 child (hash seed {hs}) failed: {so[-1500:]}")
        res[hs] = json.loads(out.read_text())
    return res


def first_diff(a: str, b: str) -> str:
    la, lb = a.split("\n"), b.split("\n")
    for i, (x, y) in enumerate(zip(la, lb)):
        if x != y:
            return f"line {i + 1}: {x[:160]!r} vs {y[:160]!r}"
    return f"length {len(la)} vs {len(lb)} lines"


def run(ctx: common.Ctx):
    ctx.assumptions += [
        "CPython hashing / allocation are not modelled: observed over the hash seeds of this run",
        "str(kernel)/repr(array) are deliberately not compared (loopy's and pytato's printers list sets in hash order)",
    ]
    ctx.lean_obligations("PtProofs.C17", THEOREMS)
    nprog = 400 if ctx.thorough else 100
    hashseeds = list(range(0, 12)) if ctx.thorough else [0, 1, 2, 3, 4, 5]
    # spread programs over several children per hash seed to use the cores
    indices = list(range(nprog))
    # multi-output programs whose outputs are sub-expressions of other outputs (gen/multiout.py)
    from ..gen import multiout
    nmulti = multiout.COUNT if ctx.thorough else 30
    step = max(1, multiout.COUNT // nmulti)
    multi = [(j * step + ctx.seed) % multiout.COUNT + (ctx.seed % 2) * multiout.COUNT for j in range(nmulti)]
    multi = sorted(set(multi))
    from ..gen import loopycalls
    lcalls = list(range(loopycalls.COUNT))
    from ..gen import namecase
    ncase = list(range(namecase.COUNT))
    res = run_children(ctx, ctx.seed + 1700, indices, hashseeds, multi, lcalls, ncase)
    ndis = 0
    dis = 0
    mdis = 0
    ldis = 0
    base = res[hashseeds[0]]
    fields = {"dump": "loopy kernel (canonical dump)", "cl": "OpenCL source", "py": "Python source",
              "key": "persistent key", "bound_names": "bound argument names", "py_expected": "expected arguments",
              "arg_order": "kernel argument order", "callees": "names of the kernels in the translation unit",
              "loopy_error": "loopy error class", "py_error": "python target error class", "cl_error": "cl error"}
    compared = {f: 0 for f in fields}
    for i in indices + [f"m{j}" for j in multi] + [f"lc{j}" for j in lcalls] + [f"nc{j}" for j in ncase]:
        dis0 = dis
        b = base[str(i)]
        if "error" in b:
            ctx.broken.append(f"c17-child:{b['error'][:80]}")
            dis += 1
            continue
        for hs in hashseeds:
            if res[hs][str(i)].get("twice_same") is False:
                dis += 1
                ctx.violation("process-independence:twice-in-one-process:loopy",
                              f"program {i}: two builds in one process (hash seed {hs}) give different kernels",
                              {"program_index": i, "seed": ctx.seed + 1700, "hash_seed": hs})
                break
        for hs in hashseeds[1:]:
            o = res[hs][str(i)]
            for f, what in fields.items():
                if (f in b) != (f in o):
                    dis += 1
                    ctx.violation(f"process-independence:{f}:presence",
                                  f"program {i}: {what} produced under hash seed {hashseeds[0]} but not under {hs} "
                                  f"(or vice versa)", {"program_index": i, "seed": ctx.seed + 1700,
                                                       "hash_seeds": [hashseeds[0], hs]})
                    continue
                if f not in b:
                    continue
                compared[f] += 1
                if b[f] != o[f]:
                    dis += 1
                    d = first_diff(str(b[f]), str(o[f])) if isinstance(b[f], str) else f"{b[f]} vs {o[f]}"
                    ctx.violation(f"process-independence:{f}",
                                  f"program {i}: {what} differs between PYTHONHASHSEED={hashseeds[0]} and {hs}: {d}",
                                  {"program_index": i, "seed": ctx.seed + 1700, "hash_seeds": [hashseeds[0], hs],
                                   "first_difference": d})
        if isinstance(i, str) and i.startswith("nc"):
            ndis += dis - dis0
            ctx.sample({"batch": "seed-sweep-names-differing-in-case", "program": i, "names": namecase.names(int(i[2:])),
                        "arg_order": b.get("arg_order")})
        elif isinstance(i, str) and i.startswith("lc"):
            ldis += dis - dis0
            ctx.sample({"batch": "seed-sweep-loopy-calls", "program": i, "callees": b.get("callees"),
                        "error": b.get("loopy_error")})
        elif isinstance(i, str):
            mdis += dis - dis0
            if int(i[1:]) % 9 == 0:
                ctx.sample({"batch": "seed-sweep-multi-output", "program": i, "what": multiout.describe(int(i[1:])),
                            "arg_order": b.get("arg_order")})
        elif i % 12 == 0:
            ctx.sample({"batch": "seed-sweep", "program": i, "artefacts": sorted(k for k in b if k in fields)})
    ctx.note_batch("hash-seed-sweep(loopy calls, with and without earlier code generation in the process)",
                   len(lcalls) * (len(hashseeds) - 1), ldis, exhaustive=False, programs=len(lcalls),
                   generated=sum(1 for j in lcalls if "dump" in base[f"lc{j}"]),
                   how="harness/gen/loopycalls.py: callee kernels sharing names (renamed on a clash), chained and "
                       "multi-output calls; the children with an odd hash seed first generate code for unrelated "
                       "graphs whose callees have the same names and different bodies")
    ctx.note_batch("hash-seed-sweep(names differing only in case / digits / underscores)",
                   len(ncase) * (len(hashseeds) - 1), ndis, exhaustive=False, programs=len(ncase),
                   how="harness/gen/namecase.py: 5..8 inputs, 4 outputs and prefixes of wrapped data whose names are equal "
                       "under str.lower / share prefixes: an ordering by such a key falls back on set order")
    ctx.note_batch("hash-seed-sweep(codegen)", nprog * (len(hashseeds) - 1), dis - mdis - ldis - ndis, exhaustive=False,
                   programs=nprog, hash_seeds=hashseeds, artefacts_compared=compared)
    ctx.note_batch("hash-seed-sweep(multi-output codegen)", len(multi) * (len(hashseeds) - 1), mdis, exhaustive=False,
                   programs=len(multi), hash_seeds=hashseeds,
                   how="k independent outputs + outputs combining several of them (total / pairs / users of "
                       "users), 4 naming schemes, both dict orders (harness/gen/multiout.py); program 'm<j>' = "
                       "multiout.generate(j)")
    try:
        from . import c17_dist
    except ImportError:
        c17_dist = None
        ctx.coverage["distributed_part"] = "not built in this revision"
    if c17_dist is not None:
        c17_dist.run(ctx)
    ctx.broken = sorted(set(ctx.broken))[:50]


def replay(ctx, path):
    print(open(path).read()[:3000])
    run(ctx)
    return ctx.finish()

"""C02 — lowering any array node to an index lambda preserves its meaning.

Tie: the real `to_index_lambda(node)` is serialised and evaluated pointwise by
the Lean evaluator (`Pt.evalIL` in ptdriver) on integer test data; the result is
compared with (a) NumPy's result for the original operation, (b) the Lean
model of the lowering rule (`Pt.Lower.*`, the object of the theorems) evaluated
on the same data, (c) the Lean reference semantics (`Pt.Spec.*`) — which ties
the spec to NumPy.  Metadata (shape, dtype, axes, tags) is compared field by
field.  Search on any disagreement: the independent Python interpreter
`ilinterp` vs NumPy on the real index lambda."""
from __future__ import annotations

import itertools
import random
from dataclasses import dataclass, field
from typing import Any

import numpy as np

from .. import common, ser
from ..ilinterp import eval_index_lambda

THEOREMS = [
    "Pt.slice_norm_eq_cpython", "Pt.slice_len_eq_cpython", "Pt.slice_indices_inbounds",
    "Pt.slice_len_nonneg",
    "Pt.ravelC_lt", "Pt.unravelC_ravelC", "Pt.ravelC_unravelC", "Pt.unravelC_inB",
    "Pt.ravelF_lt", "Pt.unravelF_ravelF", "Pt.ravelF_unravelF", "Pt.unravelF_inB",
    "Pt.lower_roll_correct", "Pt.lower_perm_correct", "Pt.lower_basic_correct",
    "Pt.lower_stack_correct", "Pt.lower_concat_correct",
    "Pt.lower_reshape1_correct_C", "Pt.lower_reshape1_correct_F",
    "Pt.groups_valid", "Pt.lower_reshape_correct_C", "Pt.lower_reshape_correct_F",
    "Pt.lower_reshape_total",
    "Pt.pad_sound",
    "Pt.lower_einsum_correct", "Pt.lower_advindex_correct",
    "Pt.binop_sound", "Pt.where_sound", "Pt.api_emits_own_name", "Pt.reduce_sound", "Pt.reduce_no_axes",
    "Pt.full_sound", "Pt.eye_sound", "Pt.arange_len", "Pt.arange_sound", "Pt.csr_matmul_sound",
]


@dataclass
class LCase:
    kind: str
    params: dict
    node: Any
    data: dict            # placeholder name -> ndarray
    expected: Any         # numpy result (ndarray) or None if numpy raised
    model_q: str | None = None
    spec_q: str | None = None
    il: Any = None
    err: str | None = None
    bind_data: dict = field(default_factory=dict)
    structural: bool = False   # the model must produce the real expression text, not just its values


def _data(shape, off=1, dtype=np.int64):
    n = int(np.prod(shape)) if len(shape) else 1
    return (np.arange(n, dtype=dtype) + off).reshape(shape)


def shapes(max_rank, max_len, min_len=0):
    for r in range(max_rank + 1):
        yield from itertools.product(range(min_len, max_len + 1), repeat=r)


def _ph(name, shape, dtype=np.int64):
    import pytato as pt
    return pt.make_placeholder(name, shape, dtype)


# ---------------------------------------------------------------- generators

def gen_roll(ctx):
    import pytato as pt
    mr, ml = (4, 5) if ctx.thorough else (3, 4)
    for s in shapes(mr, ml):
        if not s:
            continue
        a = _data(s)
        x = _ph("x", s)
        for axis in range(len(s)):
            n = s[axis]
            for shift in range(-2 * n - 1, 2 * n + 2):
                yield LCase("roll", {"shape": s, "shift": shift, "axis": axis},
                            pt.roll(x, shift, axis), {"x": a}, np.roll(a, shift, axis),
                            f"(lower roll {shift} {axis} {len(s)} {n})",
                            f"(spec roll {shift} {axis} {ser.shape(s)} {ser.vals(a)})")


def gen_transpose(ctx):
    import pytato as pt
    mr, ml = (4, 3) if ctx.thorough else (4, 2)
    for s in shapes(mr, ml):
        if not s:
            continue
        a = _data(s)
        x = _ph("x", s)
        for p in itertools.permutations(range(len(s))):
            yield LCase("transpose", {"shape": s, "perm": p},
                        pt.transpose(x, p), {"x": a}, np.transpose(a, p),
                        f"(lower perm {ser.ints(p)})",
                        f"(spec transpose {ser.ints(p)} {ser.shape(s)} {ser.vals(a)})")


def _factorizations(n, max_rank, max_len):
    """all shapes of rank<=max_rank, each length<=max_len, with product n"""
    out = []

    def rec(prefix, rem, rank):
        if rem == 1 or (n == 0):
            pass
        if rank == 0:
            return
        for d in range(0, max_len + 1):
            pass
    for r in range(max_rank + 1):
        for s in itertools.product(range(0, max_len + 1), repeat=r):
            if int(np.prod(s)) == n if r else n == 1:
                out.append(s)
    return out


def gen_reshape(ctx):
    import pytato as pt
    if ctx.thorough:
        mr, ml, cap = 4, 5, 64
    else:
        mr, ml, cap = 3, 4, 24
    by_size: dict[int, list] = {}
    for s in shapes(mr, ml):
        n = int(np.prod(s)) if s else 1
        if n <= cap:
            by_size.setdefault(n, []).append(s)
    rng = random.Random(ctx.seed * 7919 + 1)
    for n, group in sorted(by_size.items()):
        pairs = [(o, t) for o in group for t in group]
        limit = None if ctx.thorough else 1500
        if limit and len(pairs) > limit:
            pairs = rng.sample(pairs, limit)
        for old, new in pairs:
            a = _data(old)
            x = _ph("x", old)
            # every admissible spelling of the order: the API accepts it case-insensitively
            for order in (("C", "F", "c", "f") if rng.random() < 0.15 else ("C", "F")):
                try:
                    node = pt.reshape(x, new, order=order)
                except Exception as e:   # constructor rejects: not a lowering case
                    continue
                yield LCase("reshape", {"old": old, "new": new, "order": order},
                            node, {"x": a}, np.reshape(a, new, order=order),
                            f"(lower reshape {order.upper()} {ser.shape(old)} {ser.shape(new)})",
                            f"(spec reshape {order.upper()} {ser.shape(new)} {ser.shape(old)} {ser.vals(a)})")


def _slice_tok(v):
    return "None" if v is None else str(v)


def gen_slice1d(ctx):
    """every slice start/stop in {None,-7..7}, step in {None,±1,±2,±3}, n in 0..6"""
    vals = [None, *range(-7, 8)]
    steps = [None, 1, -1, 2, -2, 3, -3]
    for n in range(0, 7):
        a = _data((n,))
        x = _ph("x", (n,))
        for st in vals:
            for sp in vals:
                for step in steps:
                    sl = slice(st, sp, step)
                    node = x[sl]
                    stepv = 1 if step is None else step
                    from pytato.array import NormalizedSlice
                    idx = node.indices[0]
                    assert isinstance(idx, NormalizedSlice)
                    yield LCase("slice1d", {"n": n, "slice": (st, sp, step)},
                                node, {"x": a}, a[sl],
                                f"(lower basic ((slice {idx.start} {idx.stop} {idx.step})) ({n}))",
                                f"(spec basic ((slice {_slice_tok(st)} {_slice_tok(sp)} {stepv})) ({n}) {ser.vals(a)})")
        # every int index
        for k in range(-n, n):
            node = x[k]
            yield LCase("int1d", {"n": n, "index": k}, node, {"x": a}, a[k],
                        f"(lower basic ((int {k})) ({n}))",
                        f"(spec basic ((int {k})) ({n}) {ser.vals(a)})")


def gen_basic_nd(ctx):
    """random multi-axis basic indices (ints, slices, partial indexing)"""
    rng = random.Random(ctx.seed * 31 + 5)
    from pytato.array import NormalizedSlice
    N = 4000 if ctx.thorough else 800
    for _ in range(N):
        r = rng.randint(1, 4)
        s = tuple(rng.randint(0, 5) for _ in range(r))
        a = _data(s)
        x = _ph("x", s)
        idx = []
        ok = True
        for n in s:
            if rng.random() < 0.3 and n > 0:
                idx.append(rng.randint(-n, n - 1))
            else:
                c = lambda: rng.choice([None, *range(-7, 8)])
                idx.append(slice(c(), c(), rng.choice([None, 1, -1, 2, -2, 3, -3])))
        nfull = rng.randint(max(0, r - 1), r) if rng.random() < 0.3 else r
        idx_used = tuple(idx[:nfull])
        full_idx = idx_used + (slice(None),) * (r - len(idx_used))
        if rng.random() < 0.35:
            # an Ellipsis standing for the axes p..q-1 (possibly none), explicit indices before AND after it
            p_ = rng.randint(0, r)
            q_ = rng.randint(p_, r)
            idx_used = tuple(idx[:p_]) + (Ellipsis,) + tuple(idx[q_:])
            full_idx = tuple(idx[:p_]) + (slice(None),) * (q_ - p_) + tuple(idx[q_:])
        try:
            node = x[idx_used] if idx_used else x[...]
        except Exception:
            continue
        if not hasattr(node, "indices"):
            continue
        mq, sq = [], []
        if len(node.indices) != len(full_idx) or any(isinstance(ni, NormalizedSlice) != isinstance(ui, slice)
                                                      for ni, ui in zip(node.indices, full_idx)):
            ctx.violation("lower:basic_nd:index-structure",
                          f"x[{idx_used!r}] on shape {s}: the node's indices {node.indices!r} do not line up with the "
                          f"written index (expanded: {full_idx!r}); NumPy shape {a[idx_used].shape}, node shape {node.shape}",
                          {"shape": s, "index": repr(idx_used), "node_indices": repr(node.indices)})
            continue
        for ni, ui in zip(node.indices, full_idx):
            if isinstance(ni, NormalizedSlice):
                mq.append(f"(slice {ni.start} {ni.stop} {ni.step})")
                sq.append(f"(slice {_slice_tok(ui.start)} {_slice_tok(ui.stop)} {1 if ui.step is None else ui.step})")
            else:
                mq.append(f"(int {int(ni)})")
                sq.append(f"(int {int(ui)})")
        yield LCase("basic_nd", {"shape": s, "index": repr(idx_used)}, node, {"x": a},
                    a[idx_used] if idx_used else a[...],
                    f"(lower basic ({' '.join(mq)}) {ser.shape(s)})",
                    f"(spec basic ({' '.join(sq)}) {ser.shape(s)} {ser.vals(a)})")


def gen_stack_concat(ctx):
    import pytato as pt
    mr, ml = (3, 4) if ctx.thorough else (3, 3)
    for s in shapes(mr, ml):
        for k in (1, 2, 3):
            arrs = [_data(s, off=1 + 100 * i) for i in range(k)]
            xs = [_ph(f"x{i}", s) for i in range(k)]
            data = {f"x{i}": arrs[i] for i in range(k)}
            for axis in range(len(s) + 1):
                yield LCase("stack", {"shape": s, "n": k, "axis": axis},
                            pt.stack(xs, axis), data, np.stack(arrs, axis),
                            f"(lower stack {k} {axis} {len(s) + 1})",
                            f"(spec stack {axis} {ser.shape(s)} ({' '.join(ser.vals(a) for a in arrs)}))")
    # concatenate: operands differ along the axis
    rng = random.Random(ctx.seed * 17 + 3)
    lens_choices = list(itertools.product(range(0, ml + 1), repeat=1)) + \
        list(itertools.product(range(0, ml + 1), repeat=2)) + \
        list(itertools.product(range(0, 3), repeat=3))
    for s in shapes(mr, ml):
        if not s:
            continue
        for axis in range(len(s)):
            for lens in lens_choices:
                if s[axis] != lens[0]:
                    continue   # enumerate each (other-axes, lens) once: first operand has shape s
                arrs, xs, data = [], [], {}
                for i, n in enumerate(lens):
                    si = s[:axis] + (n,) + s[axis + 1:]
                    arrs.append(_data(si, off=1 + 100 * i))
                    xs.append(_ph(f"x{i}", si))
                    data[f"x{i}"] = arrs[i]
                yield LCase("concatenate", {"shape": s, "lens": lens, "axis": axis},
                            pt.concatenate(xs, axis), data, np.concatenate(arrs, axis),
                            f"(lower concat {ser.ints(lens)} {axis} {len(s)})",
                            "(spec concatenate {} ({}))".format(
                                axis, " ".join(f"({ser.shape(a.shape)} {ser.vals(a)})" for a in arrs)))


def _pad_cvals(r):
    """pairwise distinct per-axis constants, distinct from the data (1..), so a mix-up shows"""
    return [(1000 + 10 * d, 1005 + 10 * d) for d in range(r)]


def _pad_wire(widths, cvals):
    w = "(" + " ".join(f"({b} {a})" for b, a in widths) + ")"
    ce = "(" + " ".join(f"({ser.const(c0)} {ser.const(c1)})" for c0, c1 in cvals) + ")"
    cv = "(" + " ".join(f"({ser.val(c0)} {ser.val(c1)})" for c0, c1 in cvals) + ")"
    return w, ce, cv


def gen_pad(ctx):
    """pt.pad, constant mode: every shape x every (before, after) per axis in the bounded scope (zero-size
    axes, zero widths, asymmetric widths), per-axis constants; plus the other spellings of
    pad_width / constant_values"""
    import pytato as pt
    scopes = [(1, range(0, 4), range(0, 4)), (2, range(0, 3), range(0, 3)), (3, range(0, 3), range(0, 2))]
    if ctx.thorough:
        scopes = [(1, range(0, 5), range(0, 5)), (2, range(0, 4), range(0, 3)), (3, range(0, 3), range(0, 3))]
    for r, lens, ws in scopes:
        for s in itertools.product(lens, repeat=r):
            a = _data(s)
            x = _ph("x", s)
            for flat in itertools.product(ws, repeat=2 * r):
                widths = [(flat[2 * d], flat[2 * d + 1]) for d in range(r)]
                cvals = _pad_cvals(r)
                w, ce, cv = _pad_wire(widths, cvals)
                lens_w = "(" + " ".join(str(n) for n in s) + ")"
                yield LCase("pad", {"shape": s, "widths": widths, "cvals": cvals},
                            pt.pad(x, widths, constant_values=cvals), {"x": a},
                            np.pad(a, widths, constant_values=cvals),
                            f"(lower pad {lens_w} {w} {ce})",
                            f"(spec pad {w} {cv} {ser.shape(s)} {ser.vals(a)})", structural=True)
    # other spellings: int width, (before, after) for all axes, default / scalar / pair constants
    s = (2, 3)
    a = _data(s)
    x = _ph("x", s)
    for pw, norm_w in [(1, [(1, 1)] * 2), ((2, 1), [(2, 1)] * 2), ([(0, 2), (1, 0)], [(0, 2), (1, 0)])]:
        for kw, norm_c in [({}, [(0, 0)] * 2), ({"constant_values": 7}, [(7, 7)] * 2),
                           ({"constant_values": (7, 9)}, [(7, 9)] * 2),
                           ({"constant_values": [(7, 9), (True, False)]}, [(7, 9), (True, False)])]:
            w, ce, cv = _pad_wire(norm_w, norm_c)
            yield LCase("pad", {"shape": s, "pad_width": pw, "kwargs": repr(kw)},
                        pt.pad(x, pw, **kw), {"x": a}, np.pad(a, pw, **kw),
                        f"(lower pad (2 3) {w} {ce})",
                        f"(spec pad {w} {cv} {ser.shape(s)} {ser.vals(a)})", structural=True)


def pad_symbolic(ctx, prop="C02"):
    """pt.pad of arrays with SYMBOLIC axis lengths: the real expression must be the model's text
    (upper guards = the bindings in_1, in_2, ...), the real bindings must evaluate to axis_len + before,
    the real shape to axis_len + before + after, and at every size 0..4 the expression must evaluate to
    np.pad without an out-of-bounds access."""
    import pytato as pt
    from ..refeval import evaluate
    n, m = pt.make_size_param("n"), pt.make_size_param("m")
    top = 6 if ctx.thorough else 4
    shapes_sym = [("(n,3)", (n, 3), lambda a, b: (a, 3), (True, False)),
                  ("(3,n)", (3, n), lambda a, b: (3, a), (False, True)),
                  ("(n,m)", (n, m), lambda a, b: (a, b), (True, True)),
                  ("(n+1,2*n)", (n + 1, 2 * n), lambda a, b: (a + 1, 2 * a), (True, True))]
    width_sets = [[(0, 0), (0, 0)], [(1, 2), (0, 1)], [(2, 0), (3, 1)], [(0, 3), (1, 0)], [(1, 1), (2, 2)],
                  [(0, 2), (0, 0)], [(3, 1), (1, 3)]]
    cases = dis = evals = 0
    queries, owners = [], []
    for sname, sshape, conc, symmask in shapes_sym:
        x = pt.make_placeholder("x", sshape, np.int64)
        for widths in width_sets:
            cvals = _pad_cvals(2)
            cases += 1
            real = pt.pad(x, widths, constant_values=cvals)
            params = {"shape": sname, "widths": widths, "cvals": cvals}
            w, ce, _ = _pad_wire(widths, cvals)
            lens_w = "(" + " ".join("?" if sy else str(int(d)) for d, sy in zip(sshape, symmask)) + ")"
            try:
                expr_s = ser.sexpr(real.expr)
            except ser.SerError as e:
                ctx.broken.append(f"serialiser:pad-symbolic:{e}")
                dis += 1
                continue
            # bindings: in_0 = x, then one per symbolic axis in axis order
            names = sorted(real.bindings)
            sym_axes = [d for d, sy in enumerate(symmask) if sy]
            exp_names = ["in_0"] + [f"in_{k + 1}" for k in range(len(sym_axes))]
            bad = None
            if names != exp_names or real.bindings["in_0"] is not x:
                bad = f"bindings {names} (expected {exp_names}, in_0 = the operand)"
            sizes_all = [(a, b) for a in range(top + 1) for b in (range(top + 1) if sname == "(n,m)" else [0])]
            if bad is None:
                for a, b in sizes_all:
                    sz = {"n": a, "m": b}
                    cs = conc(a, b)
                    for k, d in enumerate(sym_axes):
                        got = int(evaluate(real.bindings[f"in_{k + 1}"], sizes=sz))
                        if got != cs[d] + widths[d][0]:
                            bad = f"binding in_{k + 1} = {got} at {sz}, expected axis_len + before = {cs[d] + widths[d][0]}"
                    shp = tuple(int(evaluate(c, sizes=sz)) if not isinstance(c, int) else c for c in real.shape)
                    if shp != tuple(cs[d] + widths[d][0] + widths[d][1] for d in range(2)):
                        bad = f"shape {shp} at {sz}"
                    if bad:
                        break
            if bad:
                dis += 1
                if prop == "C02":
                    ctx.violation("lower:pad:symbolic-bindings", f"pt.pad of x{sname}, widths {widths}: {bad}",
                                  {"kind": "pad-symbolic", "params": params, "detail": bad})
                if names != exp_names:
                    continue
                # the evaluations below use the REAL bindings' values, so a wrong bound shows as a
                # wrong value / an out-of-bounds access as well
            queries.append(f"(lower pad {lens_w} {w} {ce})")
            owners.append(("text", params, expr_s, None, None))
            for a, b in sizes_all:
                cs = conc(a, b)
                data = _data(cs)
                binds = {"in_0": data}
                for k, d in enumerate(sym_axes):
                    binds[f"in_{k + 1}"] = np.asarray(
                        int(evaluate(real.bindings[f"in_{k + 1}"], sizes={"n": a, "m": b})), dtype=np.int64)
                out_shape = tuple(cs[d] + widths[d][0] + widths[d][1] for d in range(2))
                bs = " ".join(ser.binding(nm, arr) for nm, arr in sorted(binds.items()))
                queries.append(f"(evalil {ser.shape(out_shape)} {expr_s} ({bs}))")
                owners.append(("eval", params, expr_s, {"n": a, "m": b},
                               np.pad(data, widths, constant_values=cvals)))
    ans = common.driver_query_parallel(queries)
    for (what, params, expr_s, sz, exp), a in zip(owners, ans):
        if what == "text":
            if a != "ok " + expr_s:
                dis += 1
                if prop == "C02":
                    ctx.broken.append(f"correspondence:model-expr-text:pad-symbolic:{params}")
            continue
        evals += 1
        parts = ser.split_top(a)
        if parts[0] != "ok":
            dis += 1
            ctx.broken.append(f"lean-evalil:pad-symbolic:{a[:60]}")
            continue
        got = ser.parse_vals(parts[1])
        nbad = int(parts[4])
        if nbad:
            dis += 1
            ctx.violation("oob:index-lambda:pad" if prop == "C11" else "lower:pad:out-of-bounds",
                          f"pt.pad of x{params['shape']}, widths {params['widths']}: at sizes {sz} the index lambda "
                          f"reads in_0 out of bounds ({nbad} accesses, first {parts[5]})",
                          {"kind": "pad-symbolic", "params": params, "sizes": sz, "expr": expr_s,
                           "first_oob": parts[5]})
        elif got != [int(v) for v in exp.reshape(-1).tolist()] and prop == "C02":
            dis += 1
            ctx.violation("lower:pad:value-mismatch",
                          f"pt.pad of x{params['shape']}, widths {params['widths']}: at sizes {sz} the index lambda "
                          "differs from np.pad",
                          {"kind": "pad-symbolic", "params": params, "sizes": sz, "expr": expr_s,
                           "observed": got, "expected": exp.tolist()})
    ctx.note_batch("pad-symbolic-axis-lengths", cases, dis, exhaustive=False, evaluations=evals,
                   sizes=f"n, m in 0..{top}", shapes=[s[0] for s in shapes_sym])


def gen_advanced(ctx):
    """advanced indexing, contiguous and non-contiguous, broadcast index arrays,
    scalars mixed in, negative entries (random, seeded); oracle = NumPy fancy indexing"""
    import pytato as pt
    rng = random.Random(ctx.seed * 101 + 9)
    N = 3000 if ctx.thorough else 600
    made = 0
    tries = 0
    while made < N and tries < 20 * N:
        tries += 1
        r = rng.randint(1, 4)
        s = tuple(rng.randint(1, 5) for _ in range(r))
        a = _data(s)
        x = _ph("x", s)
        # pick broadcastable index-array shape
        bshape = tuple(rng.randint(1, 3) for _ in range(rng.randint(0, 2)))
        idx_py, idx_pt, data = [], [], {"x": a}
        n_adv = 0
        for ax, n in enumerate(s):
            c = rng.random()
            if c < 0.45:
                # index array with a shape broadcastable to bshape
                ish = tuple(d if rng.random() < 0.7 else 1 for d in bshape)
                ish = ish[rng.randint(0, len(ish)):] if rng.random() < 0.3 else ish
                ia = np.array([rng.randint(-n, n - 1) for _ in range(int(np.prod(ish)) if ish else 1)],
                              dtype=rng.choice([np.int64, np.int32])).reshape(ish)
                nm = f"i{ax}"
                data[nm] = ia
                idx_py.append(ia)
                idx_pt.append(_ph(nm, ish, ia.dtype))
                n_adv += 1
            elif c < 0.6:
                k = rng.randint(-n, n - 1)
                idx_py.append(k)
                idx_pt.append(k)
            else:
                cc = lambda: rng.choice([None, *range(-6, 7)])
                sl = slice(cc(), cc(), rng.choice([None, 1, -1, 2, -2]))
                idx_py.append(sl)
                idx_pt.append(sl)
        if n_adv == 0:
            continue
        try:
            expected = a[tuple(idx_py)]
        except IndexError:
            continue
        try:
            node = x[tuple(idx_pt)]
        except Exception as e:
            # NumPy accepts, pytato rejects at construction: allowed by C02 (only accepted nodes are lowered)
            continue
        made += 1
        yield LCase("advindex_" + type(node).__name__.replace("AdvancedIndexIn", "").lower(),
                    {"shape": s, "index": repr([("arr", v.shape, v.tolist()) if isinstance(v, np.ndarray) else v
                                                for v in idx_py])},
                    node, data, expected)


def _adv_wire(node, idx_py, s, a):
    """(model query, spec query) for an advanced-index node; the model decides contiguity itself (`?`)"""
    from pytato.array import NormalizedSlice
    mq, sq = [], []
    for ni, ui in zip(node.indices, idx_py):
        if isinstance(ni, NormalizedSlice):
            mq.append(f"(slice {ni.start} {ni.stop} {ni.step})")
            sq.append(f"(slice {_slice_tok(ui.start)} {_slice_tok(ui.stop)} {1 if ui.step is None else ui.step})")
        elif isinstance(ui, np.ndarray):
            mq.append(f"(arr {ser.shape(ui.shape)})")
            sq.append(f"(arr {ser.shape(ui.shape)} {ser.vals(ui)})")
        else:
            mq.append(f"(int {int(ni)})")
            sq.append(f"(int {int(ui)})")
    return (f"(lower advindex ? ({' '.join(mq)}) {ser.shape(s)})",
            f"(spec advindex ? ({' '.join(sq)}) {ser.shape(s)} {ser.vals(a)})")


def gen_advanced_exh(ctx):
    """advanced indexing against the model (expression text + values) and NumPy: arrays of rank <= 3, EVERY
    assignment of {index array, int (0 / -1), slice (full / 1: / ::-1 / ::2)} to the axes with one or two
    index arrays, for every pairing of broadcastable index-array shapes of a small set (0-d, (2,), (1,), (2,1) x
    (3,), ...); index values cycle through the whole valid range [-n, n)"""
    import pytato as pt
    full_shape = (3, 4, 2)
    slices = [slice(None), slice(1, None), slice(None, None, -1), slice(None, None, 2)]
    ints = [0, -1]
    one = [(2,), (), (2, 3), (1,)]
    two = [((2,), (2,)), ((2, 1), (3,)), ((1,), (2,)), ((), (2,)), ((2, 3), (3,)), ((2,), ())]
    if ctx.thorough:
        slices += [slice(-2, None), slice(3, 0, -2)]
        two += [((1, 3), (2, 1)), ((2, 1), (2, 3))]
    for r in (1, 2, 3):
        s = full_shape[:r]
        a = _data(s)
        x = _ph("x", s)
        opts = ["A"] + [("i", k) for k in ints] + [("s", sl) for sl in slices]
        for kinds in itertools.product(opts, repeat=r):
            apos = [d for d, k in enumerate(kinds) if k == "A"]
            if not 1 <= len(apos) <= 2:
                continue
            for shp in (one if len(apos) == 1 else two):
                shp = (shp,) if len(apos) == 1 else shp
                idx_py, idx_pt, data = [], [], {"x": a}
                for d, k in enumerate(kinds):
                    if k == "A":
                        ish = shp[apos.index(d)]
                        n = s[d]
                        cnt = int(np.prod(ish)) if ish else 1
                        ia = np.array([(-n + (j * 3 + d) % (2 * n)) for j in range(cnt)], dtype=np.int64).reshape(ish)
                        nm = f"i{d}"
                        data[nm] = ia
                        idx_py.append(ia)
                        idx_pt.append(_ph(nm, ish, ia.dtype))
                    else:
                        idx_py.append(k[1])
                        idx_pt.append(k[1])
                expected = a[tuple(idx_py)]
                node = x[tuple(idx_pt)]
                mq, sq = _adv_wire(node, idx_py, s, a)
                yield LCase("advindex_exh", {"shape": s, "index": repr([("arr", v.shape, v.tolist())
                                                                        if isinstance(v, np.ndarray) else v
                                                                        for v in idx_py])},
                            node, data, expected, mq, sq, structural=True)


def gen_advanced_repeat(ctx):
    """advanced indexing where index OPERANDS repeat: the SAME array object / an EQUAL but distinct object /
    distinct arrays with equal contents, on two or three axes of DIFFERENT lengths (each axis wraps negative
    entries by its OWN length), entries over the whole common range [-m, m) incl. -1 and -m; contiguous and
    non-contiguous placements (slices / ints in between); also an array indexed by itself (x[x])"""
    import pytato as pt
    shapes = [(3, 5), (5, 3), (3, 4, 5), (4, 2, 3), (2, 5, 3, 4)]
    ishapes = [(2,), (), (2, 3), (1,), (4,)]
    fill = [slice(None), slice(1, None), slice(None, None, -1), 0, -1]
    for s in shapes:
        a = _data(s)
        r = len(s)
        for apos in [c for k in (2, 3) for c in itertools.combinations(range(r), k)]:
            m = min(s[d] for d in apos)
            for ish in ishapes:
                cnt = int(np.prod(ish)) if ish else 1
                vals = [(-m + (j * 5 + len(apos) + s[0]) % (2 * m)) for j in range(cnt)]
                if cnt >= 2:
                    vals[0], vals[-1] = -1, -m        # the boundary entries
                ia = np.array(vals, dtype=np.int64).reshape(ish)
                for mode in ("same", "equal", "distinct", "first-two-same"):
                    for fi, f in enumerate(fill):
                        if r == len(apos) and fi:
                            continue
                        shared = _ph("i", ish, ia.dtype)
                        idx_py, idx_pt, data = [], [], {"x": a, "i": ia}
                        for d in range(r):
                            if d in apos:
                                k = apos.index(d)
                                if mode == "same" or (mode == "first-two-same" and k < 2):
                                    ph = shared
                                elif mode == "equal":
                                    ph = _ph("i", ish, ia.dtype)
                                else:
                                    ph = _ph(f"j{d}", ish, ia.dtype)
                                    data[f"j{d}"] = ia
                                idx_py.append(ia)
                                idx_pt.append(ph)
                            else:
                                idx_py.append(f)
                                idx_pt.append(f)
                        expected = a[tuple(idx_py)]
                        node = _ph("x", s)[tuple(idx_pt)]
                        mq, sq = _adv_wire(node, idx_py, s, a)
                        yield LCase("advindex_repeat", {"shape": s, "axes": apos, "mode": mode, "index_shape": ish,
                                                        "index": ia.tolist(), "other": repr(f)},
                                    node, data, expected, mq, sq, structural=True)
    # an integer array indexed by itself (the same object is the indexed operand and the index), on one axis and
    # on the first of two
    for n in (1, 3, 4):
        xv = np.array([(-n + (j * 3 + 1) % (2 * n)) for j in range(n)], dtype=np.int64)
        xi = _ph("xi", (n,))
        yield LCase("advindex_repeat", {"shape": (n,), "mode": "self", "index": xv.tolist()}, xi[xi], {"xi": xv},
                    xv[xv], f"(lower advindex ? ((arr ({n}))) ({n}))",
                    f"(spec advindex ? ((arr ({n}) {ser.vals(xv)})) ({n}) {ser.vals(xv)})", structural=True)


def gen_advanced_slices(ctx):
    """advanced indexing with TWO OR MORE slices next to the index arrays, on rank-4/5 arrays: every placement of
    2 index arrays among the axes (adjacent and separated) x slices (full / partial / strided / reversed) on ALL
    the remaining axes, before / between / after the index arrays -- the slice axes of the result must be counted
    whether or not a slice is the identity"""
    shapes = [(3, 4, 2, 6), (2, 3, 4, 2, 3)]
    sls = [slice(None), slice(1, None), slice(None, None, 2), slice(None, None, -1), slice(1, 6, 2)]
    for s in shapes:
        a = _data(s)
        r = len(s)
        for apos in itertools.combinations(range(r), 2):
            rest = [d for d in range(r) if d not in apos]
            combos = list(itertools.product(range(len(sls)), repeat=len(rest)))
            if len(combos) > 30:
                # all-identity, each single non-identity, and a deterministic spread of the others
                keep = [c for c in combos if sum(1 for q in c if q) <= 1]
                keep += [c for i, c in enumerate(combos) if i % 7 == (sum(apos) % 7)]
                combos = sorted(set(keep))
            for ish1, ish2 in (((2,), (2,)), ((2, 1), (3,))):
                for combo in combos:
                    idx_py, idx_pt, data = [], [], {"x": a}
                    for d in range(r):
                        if d in apos:
                            ish = ish1 if d == apos[0] else ish2
                            n = s[d]
                            cnt = int(np.prod(ish))
                            ia = np.array([(-n + (j * 3 + d + 1) % (2 * n)) for j in range(cnt)], dtype=np.int64).reshape(ish)
                            data[f"i{d}"] = ia
                            idx_py.append(ia)
                            idx_pt.append(_ph(f"i{d}", ish, ia.dtype))
                        else:
                            sl = sls[combo[rest.index(d)]]
                            idx_py.append(sl)
                            idx_pt.append(sl)
                    expected = a[tuple(idx_py)]
                    node = _ph("x", s)[tuple(idx_pt)]
                    mq, sq = _adv_wire(node, idx_py, s, a)
                    yield LCase("advindex_slices", {"shape": s, "axes": apos,
                                                    "index": repr([("arr", v.shape, v.tolist()) if isinstance(v, np.ndarray)
                                                                   else v for v in idx_py])},
                                node, data, expected, mq, sq, structural=True)


_EINSUM_LETTERS = "ijkl"


def gen_einsum(ctx):
    import pytato as pt
    rng = random.Random(ctx.seed * 211 + 4)
    N = 2500 if ctx.thorough else 500
    made = 0
    tries = 0
    while made < N and tries < 30 * N:
        tries += 1
        nops = rng.randint(1, 3)
        nletters = rng.randint(1, 4)
        letters = _EINSUM_LETTERS[:nletters]
        dims = {c: rng.randint(0, 4) if rng.random() < 0.1 else rng.randint(1, 4) for c in letters}
        specs, arrs, xs, data = [], [], [], {}
        for i in range(nops):
            r = rng.randint(0, 3)
            sp = "".join(rng.choice(letters) for _ in range(r))
            # broadcast-unit axes: an operand may have length 1 where the letter is longer
            shp = tuple(1 if (rng.random() < 0.15) else dims[c] for c in sp)
            # repeated letter inside one operand must have equal lengths
            seen = {}
            okk = True
            for c, d in zip(sp, shp):
                if c in seen and seen[c] != d:
                    okk = False
                seen[c] = d
            if not okk:
                break
            specs.append(sp)
            arrs.append(_data(shp, off=1 + 3 * i) % 7 - 2)
            xs.append(_ph(f"x{i}", shp))
            data[f"x{i}"] = arrs[-1]
        else:
            used = sorted(set("".join(specs)))
            out = "".join(c for c in used if rng.random() < 0.5)
            out = "".join(rng.sample(out, len(out)))
            sub = ",".join(specs) + "->" + out
            try:
                expected = np.einsum(sub, *arrs)
            except Exception:
                continue
            try:
                node = pt.einsum(sub, *xs)
            except Exception:
                continue
            made += 1
            yield LCase("einsum", {"subscripts": sub, "shapes": [a.shape for a in arrs]},
                        node, data, np.asarray(expected))


_EINSUM_CANON = "abc"


def _einsum_specs(nop):
    """all tuples of `nop` operand subscripts of rank <= 2 over <= 3 letters, canonical up to renaming
    (letters named in order of first appearance), each with every output (any subset, any order)"""
    ops = [""] + list(_EINSUM_CANON) + [a + b for a in _EINSUM_CANON for b in _EINSUM_CANON]
    for specs in itertools.product(ops, repeat=nop):
        m: dict[str, str] = {}
        for sp in specs:
            for ch in sp:
                if ch not in m:
                    m[ch] = _EINSUM_CANON[len(m)]
        if tuple("".join(m[ch] for ch in sp) for sp in specs) != specs:
            continue
        used = sorted(set("".join(specs)))
        for k in range(len(used) + 1):
            for out in itertools.permutations(used, k):
                yield specs, "".join(out)


def _einsum_shapes(specs, top):
    """every assignment of an axis length 0..top-1 to every operand axis that is consistent up to
    length-1 broadcasting (per letter: all lengths equal, or 1)"""
    occ = [ch for sp in specs for ch in sp]
    for lens in itertools.product(range(top), repeat=len(occ)):
        by: dict[str, set] = {}
        for ln, ch in zip(lens, occ):
            by.setdefault(ch, set()).add(ln)
        if any(len(v - {1}) > 1 for v in by.values()):
            continue
        full = {ch: (next(iter(v - {1})) if v - {1} else 1) for ch, v in by.items()}
        shapes, k = [], 0
        for sp in specs:
            shapes.append(tuple(lens[k:k + len(sp)]))
            k += len(sp)
        yield shapes, full


def _einsum_case(specs, out, shapes, full):
    import pytato as pt
    sub = ",".join(specs) + "->" + out
    arrs = [_data(shp, off=1 + 10 * i) for i, shp in enumerate(shapes)]
    xs = [_ph(f"x{i}", shp) for i, shp in enumerate(shapes)]
    # reference: NumPy on the operands broadcast to the full axis lengths (NumPy itself rejects some
    # length-1 patterns, e.g. inside a diagonal, that pytato accepts)
    bc = [np.broadcast_to(a, tuple(full[ch] for ch in sp)) for a, sp in zip(arrs, specs)]
    expected = np.asarray(np.einsum(sub, *bc))
    ins_w = "(" + " ".join("(" + " ".join(sp) + ")" for sp in specs) + ")"
    out_w = "(" + " ".join(out) + ")"
    shp_w = "(" + " ".join(ser.shape(shp) for shp in shapes) + ")"
    arr_w = "(" + " ".join(f"({ser.shape(a.shape)} {ser.vals(a)})" for a in arrs) + ")"
    return LCase("einsum_exh", {"subscripts": sub, "shapes": shapes}, pt.einsum(sub, *xs),
                 {f"x{i}": a for i, a in enumerate(arrs)}, expected,
                 f"(lower einsum {ins_w} {out_w} {shp_w})", f"(spec einsum {ins_w} {out_w} {arr_w})",
                 structural=True)


def gen_einsum_exh(ctx):
    """map_einsum against the model (expression text + values) and NumPy: EVERY spec with <= 2 operands of
    rank <= 2 over <= 3 letters (diagonals, any output order) x every consistent assignment of axis lengths
    (0..3 for one operand, 0..2 [thorough: 0..3] for two) incl. every length-1 broadcast pattern; three
    operands: a seeded sample of the same space"""
    for specs, out in _einsum_specs(1):
        for shapes, full in _einsum_shapes(specs, 4):
            yield _einsum_case(specs, out, shapes, full)
    top2 = 4 if ctx.thorough else 3
    for specs, out in _einsum_specs(2):
        for shapes, full in _einsum_shapes(specs, top2):
            yield _einsum_case(specs, out, shapes, full)
    rng = random.Random(ctx.seed * 389 + 21)
    specs3 = list(_einsum_specs(3))
    for _ in range(8000 if ctx.thorough else 800):
        specs, out = rng.choice(specs3)
        allsh = list(_einsum_shapes(specs, 3))
        shapes, full = rng.choice(allsh)
        yield _einsum_case(specs, out, shapes, full)


def einsum_descriptors(ctx):
    """the access descriptors pt.einsum builds (output axis = position in the output spec, reduction axes
    numbered by first appearance) vs the model's, for every spec with <= 3 operands"""
    import pytato as pt
    from pytato.array import EinsumElementwiseAxis
    queries, real = [], []
    for nop in (1, 2, 3):
        for specs, out in _einsum_specs(nop):
            xs = [_ph(f"x{i}", (2,) * len(sp)) for i, sp in enumerate(specs)]
            node = pt.einsum(",".join(specs) + "->" + out, *xs)
            real.append("(" + " ".join(
                "(" + " ".join(("e" if isinstance(d, EinsumElementwiseAxis) else "r") + str(d.dim) for d in ad) + ")"
                for ad in node.access_descriptors) + ")")
            ins_w = "(" + " ".join("(" + " ".join(sp) + ")" for sp in specs) + ")"
            queries.append(f"(lower einsumdescrs {ins_w} ({' '.join(out)}))")
    ans = common.driver_query_parallel(queries)
    dis = 0
    for q, a, r in zip(queries, ans, real):
        if a != "ok " + r:
            dis += 1
            ctx.broken.append(f"correspondence:einsum-descriptors:{q}:real={r}:model={a}")
    ctx.note_batch("einsum-access-descriptors", len(queries), dis, exhaustive=True)


def gen_reduce(ctx):
    """pt.sum/prod/amax/amin/all/any: EVERY shape of rank <= 3 (lengths 1..3, and 0 for the operations that
    allow an empty reduction) x EVERY axis subset (as a tuple, plus the int and `None` spellings): expression
    text (numbering of `_r<k>` and kept `_<d>`, bounds), values vs NumPy and vs the Lean spec"""
    import pytato as pt
    ops = [("sum", pt.sum, np.sum), ("prod", pt.prod, np.prod), ("max", pt.amax, np.amax),
           ("min", pt.amin, np.amin), ("all", pt.all, np.all), ("any", pt.any, np.any)]
    for r in (0, 1, 2, 3):
        for s in itertools.product(range(0, 4), repeat=r):
            for opn, ptf, npf in ops:
                boolean = opn in ("all", "any")
                a = (_data(s) % 3 == 0) if boolean else (_data(s) % 5 - 1)
                x = _ph("x", s, np.bool_ if boolean else np.int64)
                axsets = [tuple(c) for k in range(r + 1) for c in itertools.combinations(range(r), k)]
                variants = [(ax, ax) for ax in axsets] + [(None, None)] + [(d, (d,)) for d in range(r)]
                if r >= 2:
                    variants.append(((1, 0), (0, 1)))       # order of the tuple does not matter
                for given, norm in variants:
                    try:
                        node = ptf(x, axis=given)
                    except ValueError:
                        continue        # empty amax/amin
                    expected = npf(a, axis=given)
                    ax_w = "None" if given is None else "(" + " ".join(str(d) for d in (given if isinstance(given, tuple) else (given,))) + ")"
                    yield LCase("reduce", {"op": opn, "shape": s, "axis": given}, node, {"x": a}, np.asarray(expected),
                                f"(lower reduce {opn} {ser.shape(s)} {ax_w})",
                                f"(spec reduce {opn} {ax_w} {ser.shape(s)} {ser.vals(a)})", structural=True)


def gen_csr(ctx):
    import pytato as pt
    rng = random.Random(ctx.seed * 307 + 8)
    N = 600 if ctx.thorough else 150
    for _ in range(N):
        nrows, ncols = rng.randint(0, 4), rng.randint(1, 4)
        dense = np.array([[rng.choice([0, 0, 1, 2, -3]) for _ in range(ncols)] for _ in range(nrows)],
                         dtype=np.int64).reshape(nrows, ncols)
        vals, cols, rows = [], [], [0]
        for i in range(nrows):
            for j in range(ncols):
                if dense[i, j] != 0:
                    vals.append(dense[i, j])
                    cols.append(j)
            rows.append(len(vals))
        extra = tuple(rng.randint(0, 3) for _ in range(rng.randint(0, 2)))
        b = _data((ncols,) + extra) % 5 - 1
        ev = np.array(vals, dtype=np.int64)
        ec = np.array(cols, dtype=np.int64)
        rs = np.array(rows, dtype=np.int64)
        data = {"ev": ev, "ec": ec, "rs": rs, "b": b}
        try:
            m = pt.make_csr_matrix((nrows, ncols), _ph("ev", ev.shape), _ph("ec", ec.shape),
                                   _ph("rs", rs.shape))
            node = m @ _ph("b", b.shape)
        except Exception as e:
            continue
        expected = np.tensordot(dense, b, axes=(1, 0)) if extra or True else dense @ b
        yield LCase("csrmatmul", {"dense": dense.tolist(), "bshape": b.shape}, node, data,
                    np.asarray(expected))


GENS = [gen_slice1d, gen_roll, gen_transpose, gen_reshape, gen_basic_nd, gen_stack_concat, gen_pad,
        gen_advanced, gen_advanced_exh, gen_advanced_repeat, gen_advanced_slices, gen_einsum, gen_einsum_exh, gen_reduce, gen_csr]


# ---------------------------------------------------------------- the API layer: operators, where

_BINOPS = [
    # (label, model op, python callable, numpy callable, cast_to_result_dtype, is_pow)
    ("add", "ADD", lambda a, b: a + b, np.add, True, False),
    ("sub", "SUB", lambda a, b: a - b, np.subtract, True, False),
    ("mul", "MULT", lambda a, b: a * b, np.multiply, True, False),
    ("truediv", "TRUEDIV", lambda a, b: a / b, np.true_divide, True, False),
    ("floordiv", "FLOORDIV", lambda a, b: a // b, np.floor_divide, True, False),
    ("mod", "MOD", lambda a, b: a % b, np.mod, True, False),
    ("pow", "POWER", lambda a, b: a ** b, np.power, True, True),
    ("and", "BITWISE_AND", lambda a, b: a & b, np.bitwise_and, True, False),
    ("or", "BITWISE_OR", lambda a, b: a | b, np.bitwise_or, True, False),
    ("xor", "BITWISE_XOR", lambda a, b: a ^ b, np.bitwise_xor, True, False),
    ("equal", "EQUAL", None, np.equal, False, False),
    ("not_equal", "NOT_EQUAL", None, np.not_equal, False, False),
    ("less", "LESS", None, np.less, False, False),
    ("less_equal", "LESS_EQUAL", None, np.less_equal, False, False),
    ("greater", "GREATER", None, np.greater, False, False),
    ("greater_equal", "GREATER_EQUAL", None, np.greater_equal, False, False),
    ("logical_and", "LOGICAL_AND", None, np.logical_and, False, False),
    ("logical_or", "LOGICAL_OR", None, np.logical_or, False, False),
]


def _api_data(shape, dt, off):
    n = int(np.prod(shape)) if len(shape) else 1
    if dt == "bool":
        return ((np.arange(n) + off) % 3 == 0).reshape(shape)
    base = (np.arange(n) + off) % 7 - 2            # -2..4, contains 0
    if dt.startswith("float"):
        return (base / 2.0).astype(dt).reshape(shape)
    return base.astype(dt).reshape(shape)


def _opd_wire(o, with_vals):
    kind = o[0]
    if kind == "arr":
        _, shape, dt, data = o
        return f"(arr {ser.shape(shape)} {dt}" + (f" {ser.vals(data)})" if with_vals else ")")
    if kind == "np":
        return f"(np {ser.const(o[1])} {np.dtype(type(o[1])).name})"
    return f"(py {ser.const(o[1])})"


_CMP_OPS = ("equal", "not_equal", "less", "less_equal", "greater", "greater_equal")


def _cmp_operand_dtype(o1, o2):
    """the type NumPy compares in (own computation with NumPy's promotion): `_compare` casts typed operands to it,
    because the generated C would otherwise apply C's usual arithmetic conversions"""
    typed = [np.dtype(o[2]) if o[0] == "arr" else np.dtype(type(o[1])) for o in (o1, o2) if o[0] in ("arr", "np")]
    py = [o[1] for o in (o1, o2) if o[0] == "py"]
    if not typed:
        return None
    od = np.result_type(*typed, *py)
    for x in py:
        if isinstance(x, int) and not isinstance(x, bool) and od.kind in "iu" \
                and not (np.iinfo(od).min <= x <= np.iinfo(od).max) and np.min_scalar_type(x).kind in "iu":
            od = np.result_type(od, np.min_scalar_type(x))
    return None if od == np.bool_ else od


def _cmp_opd(o, od):
    """`_compare` as a pre-processing of the operands of broadcast_binary_op: a Python scalar is left as it is (the
    model sees a literal already of the comparison type); a Python float next to a single-precision operand is
    converted by NumPy first"""
    if o[0] != "py":
        return _opd_wire(o, False), _opd_wire(o, True)
    v = o[1]
    single = od in (np.dtype("float32"), np.dtype("complex64"), np.dtype("float16"))
    if (isinstance(v, complex) and od.kind == "c") or (isinstance(v, float) and single):
        v = od.type(v)          # a Python complex is sized, a Python float next to single precision is single
    w = f"(np {ser.const(v)} {od.name})"
    return w, w


def _lean_to_float(v):
    if v is None:
        return None
    if isinstance(v, bool):
        return float(v)
    return float(v)


def batch_binop(ctx, prop="C02"):
    """every binary operator / comparison / logical op / where of the array API: the REAL index lambda's
    expression must be the model's text, its Lean evaluation must equal the Lean spec (NumPy broadcasting of the
    operator) exactly and NumPy's own function numerically, with no out-of-bounds access"""
    import pytato as pt
    shape_pairs = [((2, 3), (2, 3)), ((2, 3), (3,)), ((3,), (2, 3)), ((2, 1), (1, 3)), ((2, 3), ()), ((), (3,)),
                   ((0, 3), (3,)), ((2, 1, 3), (4, 1))]
    adts = ["int64", "float64", "int32", "bool"]
    dt_pairs = [("int64", "int64"), ("int64", "float64"), ("float64", "int32"), ("int32", "int64"),
                ("bool", "int64"), ("float64", "float64"), ("bool", "bool"), ("float32", "float64")]
    scalars = [("py", 2), ("py", -3), ("py", 0), ("py", 2.5), ("py", -0.5), ("py", True),
               ("np", np.int32(2)), ("np", np.float64(0.5)), ("np", np.int64(3)), ("np", np.float32(0.5))]
    cases = []
    for label, mop, pyf, npf, cast, is_pow in _BINOPS:
        ptf = pyf if pyf is not None else getattr(pt, label)
        combos = []
        for (s1, s2) in shape_pairs:
            for (d1, d2) in dt_pairs:
                combos.append((("arr", s1, d1, _api_data(s1, d1, 1)), ("arr", s2, d2, _api_data(s2, d2, 4))))
        for s in [(2, 3), (), (0,)]:
            for d in adts:
                for sc in scalars:
                    combos.append((("arr", s, d, _api_data(s, d, 2)), sc))
                    combos.append((sc, ("arr", s, d, _api_data(s, d, 2))))
        if label in _CMP_OPS:
            # comparisons are made in NumPy's promoted type: operands of mixed signedness / width / kind, typed and
            # Python scalars outside the other operand's range, Python floats next to single precision
            def udata(shape, dt, off):
                d = _api_data(shape, dt, off)
                return np.abs(d).astype(dt) if np.dtype(dt).kind == "u" else d
            for (d1, d2) in [("uint32", "int8"), ("int8", "uint32"), ("uint64", "int64"), ("int16", "uint16"),
                             ("uint8", "uint8"), ("float32", "int64"), ("int64", "float32"), ("uint8", "float32"),
                             ("uint64", "float64"), ("float32", "float32"), ("bool", "uint8"), ("complex64", "float64")]:
                if label not in ("equal", "not_equal") and "complex" in d1 + d2:
                    continue
                for (s1, s2) in shape_pairs[:5]:
                    combos.append((("arr", s1, d1, udata(s1, d1, 1)), ("arr", s2, d2, udata(s2, d2, 4))))
            for d in ("uint8", "uint32", "uint64", "int8", "float32"):
                for sc in [("py", -1), ("py", 300), ("py", 2 ** 40), ("py", 0.5), ("py", 0.1), ("np", np.int8(-1)),
                           ("np", np.uint64(3)), ("np", np.float32(0.5)), ("np", np.float64(0.1)), ("py", True), ("py", 0.5 + 2j)]:
                    combos.append((("arr", (2, 3), d, udata((2, 3), d, 2)), sc))
                    combos.append((sc, ("arr", (3,), d, udata((3,), d, 2))))
        for o1, o2 in combos:
            cases.append((label, mop, ptf, npf, cast, is_pow, o1, o2))
    queries, owners = [], []
    n = 0
    for label, mop, ptf, npf, cast, is_pow, o1, o2 in cases:
        phs = [pt.make_placeholder(f"x{k}", o[1], o[2]) if o[0] == "arr" else o[1] for k, o in enumerate((o1, o2))]
        try:
            real = ptf(*phs)
        except Exception:   # noqa: BLE001  (pytato rejects: bool subtract, bitwise on floats, ...)
            continue
        if not hasattr(real, "expr"):
            continue
        n += 1
        params = {"op": label, "operands": [(o[0], o[1] if o[0] == "arr" else repr(o[1]),
                                             o[2] if o[0] == "arr" else "") for o in (o1, o2)]}
        try:
            with np.errstate(all="ignore"):
                expected = npf(*[o[3] if o[0] == "arr" else o[1] for o in (o1, o2)])
        except Exception:   # noqa: BLE001
            expected = None
        try:
            expr_s = ser.sexpr(real.expr)
        except ser.SerError as e:
            ctx.broken.append(f"serialiser:binop:{e}")
            continue
        flags = f"{str(real.dtype)} {'#t' if cast else '#f'} {'#t' if is_pow else '#f'}"
        binds = {f"_in{k}": o[3] for k, o in enumerate((o1, o2)) if o[0] == "arr"}
        if sorted(real.bindings) != sorted(binds) or tuple(real.shape) != (
                () if expected is None and False else tuple(np.broadcast_shapes(
                    *[o[1] if o[0] == "arr" else () for o in (o1, o2)]))):
            queries.append("(lower neg 0)")
            owners.append(("meta", params, expr_s, None, real))
            continue
        bs = " ".join(ser.binding(nm, arr) for nm, arr in sorted(binds.items()))
        w1, w2, v1, v2 = _opd_wire(o1, False), _opd_wire(o2, False), _opd_wire(o1, True), _opd_wire(o2, True)
        if label in _CMP_OPS:
            od = _cmp_operand_dtype(o1, o2)
            if od is not None:
                (w1, v1), (w2, v2) = _cmp_opd(o1, od), _cmp_opd(o2, od)
                flags = f"{od.name} #t #f"
        queries.append(f"(lower binop {mop} {w1} {w2} {flags})")
        owners.append(("text", params, expr_s, None, real))
        queries.append(f"(evalil {ser.shape(real.shape)} {expr_s} ({bs}))")
        owners.append(("eval", params, expr_s, expected, real))
        queries.append(f"(spec binop {mop} {v1} {v2} {flags})")
        owners.append(("spec", params, expr_s, expected, real))
    # where: three operands; neg / logical_not / elementwise functions: one or two
    w_shapes = [((2, 1), (2, 3), (3,)), ((2, 3), (2, 3), (2, 3)), ((), (2, 3), ()), ((3,), (), (2, 1))]
    for sc_, sx_, sy_ in w_shapes:
        for dx, dy in [("int64", "int64"), ("int64", "float64"), ("float64", "float64")]:
            for xs in (None, ("py", 1), ("py", 2.5)):
                for cs in (None, ("py", True)):
                    oc = cs if cs else ("arr", sc_, "bool", _api_data(sc_, "bool", 1))
                    ox = xs if xs else ("arr", sx_, dx, _api_data(sx_, dx, 2))
                    oy = ("arr", sy_, dy, _api_data(sy_, dy, 5))
                    tri = (oc, ox, oy)
                    phs = [pt.make_placeholder(f"x{k}", o[1], o[2]) if o[0] == "arr" else o[1]
                           for k, o in enumerate(tri)]
                    real = pt.where(*phs)
                    n += 1
                    params = {"op": "where", "operands": [(o[0], o[1] if o[0] == "arr" else repr(o[1])) for o in tri]}
                    expected = np.where(*[o[3] if o[0] == "arr" else o[1] for o in tri])
                    expr_s = ser.sexpr(real.expr)
                    binds = {f"_in{k}": o[3] for k, o in enumerate(tri) if o[0] == "arr"}
                    bs = " ".join(ser.binding(nm, arr) for nm, arr in sorted(binds.items()))
                    queries.append("(lower where " + " ".join(_opd_wire(o, False) for o in tri) + ")")
                    owners.append(("text", params, expr_s, None, real))
                    queries.append(f"(evalil {ser.shape(real.shape)} {expr_s} ({bs}))")
                    owners.append(("eval", params, expr_s, expected, real))
                    queries.append("(spec where " + " ".join(_opd_wire(o, True) for o in tri) + ")")
                    owners.append(("spec", params, expr_s, expected, real))
    for shp in [(), (3,), (2, 3), (0, 2)]:
        xa = pt.make_placeholder("x0", shp, np.int64)
        for label, real, q in [("neg", -xa, f"(lower neg {len(shp)})"),
                               ("logical_not", pt.logical_not(pt.make_placeholder("x0", shp, np.bool_)),
                                f"(lower not {len(shp)})")]:
            n += 1
            queries.append(q)
            owners.append(("text", {"op": label, "shape": shp}, ser.sexpr(real.expr), None, real))
        xf = pt.make_placeholder("x0", shp, np.float64)
        if shp:
            from ..extract import apinames
            for api in apinames.CALL_API:
                if api in ("real", "imag", "conj"):
                    continue
                real = getattr(pt, api)(xf, xf) if api == "arctan2" else getattr(pt, api)(xf)
                n += 1
                c99 = {"arcsin": "asin", "arccos": "acos", "arctan": "atan", "arctan2": "atan2"}.get(api, api)
                args = "arr arr" if api == "arctan2" else "arr"
                queries.append(f"(lower elemwise {c99} {len(shp)} ({args}))")
                owners.append(("text", {"op": api, "shape": shp}, ser.sexpr(real.expr), None, real))
    ans = common.driver_query_parallel(queries)
    dis = 0
    last_eval = None
    for (what, params, expr_s, expected, real), a in zip(owners, ans):
        if what == "meta":
            dis += 1
            ctx.violation("api:binop:bindings-or-shape", f"{params}: bindings {sorted(real.bindings)}, shape {real.shape}",
                          {"kind": "binop", "params": params, "expr": expr_s})
        elif what == "text":
            if a != "ok " + expr_s:
                dis += 1
                if prop == "C02":
                    ctx.violation(f"api:binop:{params['op']}:expression",
                                  f"the index lambda the array API builds for {params} is {expr_s}; the model of "
                                  f"broadcast_binary_op says {a[3:]}",
                                  {"kind": "binop", "params": params, "expr": expr_s, "model": a[3:]})
        elif what == "eval":
            parts = ser.split_top(a)
            last_eval = None
            if parts[0] != "ok":
                dis += 1
                ctx.broken.append(f"lean-evalil:binop:{a[:60]}")
                continue
            last_eval = parts[1]
            if int(parts[4]):
                dis += 1
                ctx.violation("oob:index-lambda:binop" if prop == "C11" else "api:binop:out-of-bounds",
                              f"{params}: {parts[4]} out-of-bounds accesses (first {parts[5]})",
                              {"kind": "binop", "params": params, "expr": expr_s})
                continue
            if expected is not None and prop == "C02":
                got = ser.parse_vals(parts[1])
                exp = np.asarray(expected).reshape(-1)
                bad = None
                if len(got) != exp.size:
                    bad = "size"
                else:
                    for g, e in zip(got, exp.tolist()):
                        if g is None:
                            continue
                        ef = complex(e) if isinstance(e, complex) else float(e)
                        if ef != ef or ef in (float("inf"), float("-inf")):
                            continue
                        if real.dtype == np.bool_:
                            # the evaluator has no dtypes: bool arithmetic (True + True) is compared by truth value
                            if bool(g) != bool(ef):
                                bad = f"{g} vs numpy {e}"
                                break
                            continue
                        if abs(float(g) - ef) > 1e-5 * max(1.0, abs(ef)):
                            bad = f"{g} vs numpy {e}"
                            break
                if bad:
                    dis += 1
                    ctx.violation(f"api:binop:{params['op']}:value",
                                  f"pt {params}: the index lambda evaluates differently from NumPy's own function ({bad})",
                                  {"kind": "binop", "params": params, "expr": expr_s,
                                   "observed": parts[1], "expected": exp.tolist()})
        else:
            sp = ser.split_top(a)
            if sp[0] != "ok" or (last_eval is not None and sp[2] != last_eval):
                if prop == "C02":
                    dis += 1
                    ctx.broken.append(f"correspondence:binop-spec-vs-real:{params}")
    ctx.note_batch("binop", n, dis, exhaustive=True, operators=[b[0] for b in _BINOPS],
                   note="operators x operand kinds (array/0-d array/Python scalar/NumPy scalar, both orders) x "
                        "broadcast shape pairs x dtype pairs; expression text, values vs Lean spec and NumPy")


def batch_multiarg_elemwise(ctx, prop="C02"):
    """multi-argument elementwise FUNCTIONS (arctan2: the only API going through `_apply_elem_wise_func` with two
    array arguments) on operand shapes that need length-1 STRETCHING on some axis (not only rank padding), 0-d
    operands and Python scalars: either an explicit refusal, or -- accepted -- the NumPy broadcast shape, every
    access of the index lambda in bounds (Lean evaluator) and NumPy's values (Python interpreter of the real
    index lambda)"""
    import pytato as pt
    from ..ilinterp import eval_index_lambda
    pairs = [((2, 3), (2, 3)), ((1, 4), (3, 4)), ((3, 4), (1, 4)), ((3, 1), (3, 4)), ((2, 1), (1, 3)), ((10, 4), (1, 4)),
             ((2, 3), (3,)), ((3,), (2, 3)), ((), (3,)), ((2, 3), ()), ((2, 1, 3), (4, 1)), ((1,), (5,)), ((0, 3), (1, 3)),
             ((2, 3), (2, 4)), ((1, 1), (1, 1))]
    fns = [("arctan2", pt.arctan2, np.arctan2)]
    queries, owners = [], []
    n = dis = 0
    stats = {"refused": 0, "accepted": 0}
    for label, fpt, fnp in fns:
        for s1, s2 in pairs:
            for kind2 in ("arr", "py"):
                n += 1
                a1 = (_data(s1) % 7 - 3) / 2.0
                a2 = (_data(s2, 5) % 5 - 2) / 2.0 if kind2 == "arr" else 1.5
                x1 = pt.make_placeholder("x1", s1, np.float64)
                x2 = pt.make_placeholder("x2", s2, np.float64) if kind2 == "arr" else 1.5
                params = {"fn": label, "shapes": (s1, s2 if kind2 == "arr" else "python scalar")}
                try:
                    expected = fnp(a1, a2)
                except ValueError:
                    expected = None
                try:
                    real = fpt(x1, x2)
                except (NotImplementedError, ValueError, TypeError):
                    stats["refused"] += 1
                    continue
                stats["accepted"] += 1
                if expected is None or tuple(real.shape) != tuple(np.shape(expected)):
                    dis += 1
                    ctx.violation(f"api:elemwise:{label}:shape", f"{params}: accepted with shape {real.shape}; NumPy: "
                                  f"{'refuses' if expected is None else np.shape(expected)}",
                                  {"kind": "elemwise", "params": params, "expr": str(real.expr)})
                    continue
                data = {}
                for nm, b in real.bindings.items():
                    data[nm] = {"x1": a1, "x2": a2}[b.name]
                expr_s = ser.sexpr(real.expr)
                bs = " ".join(ser.binding(nm, arr) for nm, arr in sorted(data.items()))
                queries.append(f"(evalil {ser.shape(real.shape)} {expr_s} ({bs}))")
                owners.append((params, expr_s, real, data, expected))
    ans = common.driver_query_parallel(queries)
    for (params, expr_s, real, data, expected), a in zip(owners, ans):
        parts = ser.split_top(a)
        if parts[0] != "ok":
            dis += 1
            ctx.broken.append(f"lean-evalil:elemwise:{a[:60]}")
            continue
        if int(parts[4]) or int(parts[6]):
            dis += 1
            ctx.violation("oob:index-lambda:elemwise" if prop == "C11" else f"api:elemwise:{params['fn']}:out-of-bounds",
                          f"{params}: {parts[6]} out-of-bounds accesses of {expr_s} (first affine one: {parts[5]})",
                          {"kind": "elemwise", "params": params, "expr": expr_s})
            continue
        if prop == "C02":
            got, it = eval_index_lambda(real, data)
            if [o for o in it.oob if not o[2]] or not np.allclose(got, expected, equal_nan=True):
                dis += 1
                ctx.violation(f"api:elemwise:{params['fn']}:value", f"{params}: the index lambda {expr_s} evaluates "
                              f"differently from NumPy", {"kind": "elemwise", "params": params, "expr": expr_s,
                                                         "observed": np.asarray(got).tolist(), "expected": np.asarray(expected).tolist()})
    ctx.note_batch("multi-argument-elementwise-stretching", n, dis, exhaustive=True, **stats)


# ---------------------------------------------------------------- the API layer: constructors, CSR product

def _num_close(g, e):
    """Lean value (int / bool / Fraction / None) vs a NumPy scalar"""
    ef = float(e)
    if ef != ef:
        return g is None
    if g is None:
        return False
    return abs(float(g) - ef) <= 1e-9 * max(1.0, abs(ef))


def _csr_triples(rng, nrows, ncols):
    """CSR triples incl. empty rows, unsorted and DUPLICATE column indices (duplicates add up)"""
    vals, cols, rows = [], [], [0]
    for _ in range(nrows):
        for _ in range(rng.choice([0, 0, 1, 2, 3])):
            vals.append(rng.choice([1, 2, -3, 5, 7]))
            cols.append(rng.randrange(ncols))
        rows.append(len(vals))
    dense = np.zeros((nrows, ncols), dtype=np.int64)
    for r in range(nrows):
        for p_ in range(rows[r], rows[r + 1]):
            dense[r, cols[p_]] += vals[p_]
    return (np.array(vals, dtype=np.int64), np.array(cols, dtype=np.int64), np.array(rows, dtype=np.int64), dense)


def batch_construct(ctx, prop="C02"):
    """`full/zeros/ones`, `eye`, `arange` and `make_csr_matrix(...) @ b`: shape, dtype, EXACT expression text
    against the Lean model, Lean evaluation of the real index lambda vs NumPy, Lean spec vs NumPy, and no
    out-of-bounds access (CSR: reduction bounds and a subscript read from arrays)"""
    import pytato as pt
    cases = []      # (kind, params, real-node thunk, model query, spec query, expected ndarray, data dict)

    # ---- full / zeros / ones
    shapes_ = [(), (0,), (3,), (2, 3), (2, 0, 2)]
    fills = [0, 1, -3, 7, 2.5, -2.5, 0.0, -0.75, True, False, float("nan")]
    dts = [None, "int64", "int32", "float64", "float32", "bool"]
    for shp in shapes_:
        for fill in fills:
            for dt in dts:
                if isinstance(fill, float) and fill != fill and dt not in (None, "float64", "float32"):
                    continue        # NaN into a non-float dtype: outside the modelled scope
                cdt = np.array(fill).dtype if dt is None else np.dtype(dt)
                cases.append(("construct", {"fn": "full", "shape": shp, "fill": repr(fill), "dtype": str(cdt)},
                              (lambda shp=shp, fill=fill, dt=dt: pt.full(shp, fill, dtype=dt)),
                              f"(lower full {cdt.name} {ser.const(fill)})",
                              f"(spec full {ser.shape(shp)} {cdt.name} {ser.const(fill)})",
                              np.full(shp, fill, dtype=cdt), cdt, "expr"))
        for fn, ptf, npf, lit in (("zeros", pt.zeros, np.zeros, 0), ("ones", pt.ones, np.ones, 1)):
            for dt in ["float64", "int64", "bool", "float32"]:
                cdt = np.dtype(dt)
                cases.append(("construct", {"fn": fn, "shape": shp, "dtype": dt},
                              (lambda ptf=ptf, shp=shp, dt=dt: ptf(shp, dtype=dt)),
                              f"(lower full {dt} (int {lit}))", f"(spec full {ser.shape(shp)} {dt} (int {lit}))",
                              npf(shp, dtype=cdt), cdt, "expr"))
    # ---- eye: every (N, M, k) with N, M <= 3, |k| <= 4
    for n_ in range(0, 4):
        for m_ in [None, 0, 1, 2, 3]:
            for k in range(-4, 5):
                for dt in ("float64", "int64"):
                    if dt == "int64" and (n_ + (m_ or 0) + k) % 3:
                        continue
                    mm = n_ if m_ is None else m_
                    cases.append(("construct", {"fn": "eye", "N": n_, "M": m_, "k": k, "dtype": dt},
                                  (lambda n_=n_, m_=m_, k=k, dt=dt: pt.eye(n_, m_, k, dtype=dt)),
                                  f"(lower eye {k})", f"(spec eye {n_} {mm} {k})",
                                  np.eye(n_, m_, k, dtype=dt), np.dtype(dt), "expr"))
    # ---- arange: every integer (start, stop, step) in a box, all spellings; dyadic float arguments
    for a in range(-4, 5):
        for b in range(-4, 5):
            for c in (1, 2, 3, -1, -2, -3):
                q = f"arange int (int {a}) (int {b}) (int {c})"
                cases.append(("construct", {"fn": "arange", "args": (a, b, c), "dtype": "int64"},
                              (lambda a=a, b=b, c=c: pt.arange(a, b, c, dtype=np.int64)),
                              f"(lower {q})", f"(spec {q})", np.arange(a, b, c, dtype=np.int64),
                              np.dtype(np.int64), "shape-expr"))
    for b in range(-2, 5):
        cases.append(("construct", {"fn": "arange", "args": (b,), "dtype": "int32"},
                      (lambda b=b: pt.arange(b, dtype=np.int32)),
                      f"(lower arange int (int 0) (int {b}) (int 1))", f"(spec arange int (int 0) (int {b}) (int 1))",
                      np.arange(b, dtype=np.int32), np.dtype(np.int32), "shape-expr"))
        # (spellings NumPy accepts but pt.arange REJECTS -- `arange(1, stop=b)` TypeError, `arange(stop=b)` /
        #  all-keyword IndexError on `args[-1]` -- raise instead of computing anything: reported, not checked here)
        cases.append(("construct", {"fn": "arange", "args": (1, b), "dtype": "int64"},
                      (lambda b=b: pt.arange(1, b, dtype=np.int64)),
                      f"(lower arange int (int 1) (int {b}) (int 1))", f"(spec arange int (int 1) (int {b}) (int 1))",
                      np.arange(1, b, dtype=np.int64), np.dtype(np.int64), "shape-expr"))
    fl = [0.0, 0.5, -1.25, 2.0, 3.75]
    for a in fl:
        for b in fl:
            for c in (0.25, 0.5, -0.75, 1.5, -2.0, 1.0):
                q = f"arange float {ser.const(a)} {ser.const(b)} {ser.const(c)}"
                cases.append(("construct", {"fn": "arange", "args": (a, b, c), "dtype": "float64"},
                              (lambda a=a, b=b, c=c: pt.arange(a, b, c, dtype=np.float64)),
                              f"(lower {q})", f"(spec {q})", np.arange(a, b, c, dtype=np.float64),
                              np.dtype(np.float64), "shape-expr"))
    # ---- CSR product: every (nrows, ncols, trailing shape of b) in a box x several sparsity patterns
    rng = random.Random(ctx.seed * 311 + 17)
    for nrows in range(0, 4):
        for ncols in range(1, 4):
            for extra in [(), (2,), (0,), (2, 3)]:
                for rep in range(3):
                    ev, ec, rs, dense = _csr_triples(rng, nrows, ncols)
                    bdat = _data((ncols,) + extra) % 7 - 2
                    data = {"_in0": ev, "_in1": ec, "_in2": rs, "_in3": bdat}

                    def mk(nrows=nrows, ncols=ncols, ev=ev, ec=ec, rs=rs, bdat=bdat):
                        m = pt.make_csr_matrix((nrows, ncols), _ph("ev", ev.shape), _ph("ec", ec.shape),
                                               _ph("rs", rs.shape))
                        from pytato.transform.lower_to_index_lambda import to_index_lambda
                        return to_index_lambda(m @ _ph("b", bdat.shape))
                    arrw = lambda x: f"({ser.shape(x.shape)} {ser.vals(x)})"     # noqa: E731
                    cases.append(("csr", {"nrows": nrows, "ncols": ncols, "bshape": bdat.shape,
                                          "ev": ev.tolist(), "ec": ec.tolist(), "rs": rs.tolist()},
                                  mk,
                                  f"(lower csr {nrows} {ncols} {ser.shape(ev.shape)} {ser.shape(ec.shape)} "
                                  f"{ser.shape(rs.shape)} {ser.shape(bdat.shape)})",
                                  f"(spec csr {nrows} {ncols} {arrw(ev)} {arrw(ec)} {arrw(rs)} {arrw(bdat)})",
                                  np.tensordot(dense, bdat, axes=(1, 0)), np.dtype(np.int64),
                                  ("csr", data, dense, f"(spec csrdense {nrows} {ncols} {arrw(ev)} {arrw(ec)} {arrw(rs)})")))
    queries, owners = [], []
    n = dis = 0
    for kind, params, thunk, mq, sq, expected, cdt, mode in cases:
        n += 1
        try:
            real = thunk()
            expr_s = ser.sexpr(real.expr)
        except Exception as e:   # noqa: BLE001
            dis += 1
            if prop == "C02":
                ctx.violation(f"api:{kind}:exception:{type(e).__name__}",
                              f"{params}: the API raised {type(e).__name__}: {e}", {"kind": kind, "params": params})
            continue
        data = mode[1] if isinstance(mode, tuple) else {}
        want_binds = ["_in0", "_in1", "_in2", "_in3"] if kind == "csr" else []
        if tuple(real.shape) != tuple(expected.shape) or real.dtype != cdt or sorted(real.bindings) != want_binds:
            dis += 1
            if prop == "C02":
                ctx.violation(f"api:{kind}:{params.get('fn', 'csr')}:shape-dtype-bindings",
                              f"{params}: shape {real.shape} dtype {real.dtype} bindings {sorted(real.bindings)}; "
                              f"NumPy: shape {expected.shape} dtype {cdt}",
                              {"kind": kind, "params": params, "expr": expr_s})
            continue
        bs = " ".join(ser.binding(nm, arr) for nm, arr in sorted(data.items()))
        queries += [mq, f"(evalil {ser.shape(real.shape)} {expr_s} ({bs}))", sq]
        owners += [("text", kind, params, expr_s, expected, mode, real),
                   ("eval", kind, params, expr_s, expected, mode, real),
                   ("spec", kind, params, expr_s, expected, mode, real)]
        if isinstance(mode, tuple):
            queries.append(mode[3])
            owners.append(("dense", kind, params, expr_s, mode[2], mode, real))
    # zero step: the API must refuse, and so does the model
    for args in [(0, 5, 0), (3, 3, 0)]:
        n += 1
        try:
            with np.errstate(all="ignore"):
                pt.arange(*args, dtype=np.int64)
            refused = False
        except Exception:   # noqa: BLE001
            refused = True
        if not refused and prop == "C02":
            dis += 1
            ctx.violation("api:construct:arange:zero-step-accepted", f"pt.arange{args} did not raise",
                          {"kind": "construct", "params": {"fn": "arange", "args": args}})
        queries.append(f"(lower arange int (int {args[0]}) (int {args[1]}) (int {args[2]}))")
        owners.append(("none", "construct", {"fn": "arange", "args": args}, "", None, "none", None))
    ans = common.driver_query_parallel(queries)
    for (what, kind, params, expr_s, expected, mode, real), a in zip(owners, ans):
        fn = params.get("fn", "csr")
        if what == "none":
            if a != "ok none":
                dis += 1
                ctx.broken.append(f"correspondence:model-accepts:{kind}:{params}")
        elif what == "text":
            want = "ok " + (expr_s if mode == "expr" else f"{ser.shape(real.shape)} {expr_s}")
            if a != want:
                dis += 1
                if prop == "C02":
                    ctx.violation(f"api:{kind}:{fn}:expression",
                                  f"the index lambda the array API builds for {params} is shape {tuple(real.shape)} "
                                  f"expr {expr_s}; the model says {a[3:]}",
                                  {"kind": kind, "params": params, "expr": expr_s, "model": a[3:]})
        elif what == "eval":
            parts = ser.split_top(a)
            if parts[0] != "ok":
                dis += 1
                ctx.broken.append(f"lean-evalil:{kind}:{a[:60]}")
                continue
            if int(parts[4]) or int(parts[6]):     # affine ones, and ANY (the CSR gather through the column indices)
                dis += 1
                ctx.violation(f"oob:index-lambda:{kind}" if prop == "C11" else f"api:{kind}:out-of-bounds",
                              f"{params}: {parts[6]} out-of-bounds accesses (first affine one: {parts[5]})",
                              {"kind": kind, "params": params, "expr": expr_s})
                continue
            if prop != "C02":
                continue
            got = ser.parse_vals(parts[1])
            exp = np.asarray(expected).reshape(-1).tolist()
            if len(got) != len(exp) or not all(_num_close(g, e) for g, e in zip(got, exp)):
                dis += 1
                ctx.violation(f"api:{kind}:{fn}:value",
                              f"{params}: the index lambda evaluates differently from NumPy",
                              {"kind": kind, "params": params, "expr": expr_s, "observed": parts[1], "expected": exp})
        elif prop == "C02":      # spec / dense: Lean specification vs NumPy
            sp = ser.split_top(a)
            exp = np.asarray(expected)
            ok = sp[0] == "ok" and tuple(ser.parse_vals(sp[1])) == tuple(exp.shape)
            if ok:
                got = ser.parse_vals(sp[2])
                ok = len(got) == exp.size and all(_num_close(g, e) for g, e in zip(got, exp.reshape(-1).tolist()))
            if not ok:
                dis += 1
                ctx.broken.append(f"correspondence:spec-vs-numpy:{kind}:{what}:{params}")
    ctx.note_batch("construct+csr", n, dis, exhaustive=True,
                   kinds={k: sum(1 for c in cases if c[0] == k) for k in ("construct", "csr")},
                   note="full/zeros/ones: shapes x fills x dtypes; eye: all N,M<=3, |k|<=4; arange: all integer "
                        "(start,stop,step) in [-4,4]^2 x {+-1,+-2,+-3} + spellings + dyadic floats; CSR: all "
                        "nrows<=3, ncols<=3, 4 trailing shapes x 3 sparsity patterns (empty rows, unsorted and "
                        "duplicate columns); expression text + shape vs the model, values vs NumPy, spec vs NumPy")
    return dis


# ---------------------------------------------------------------- processing

def _lower(c: LCase):
    from pytato.transform.lower_to_index_lambda import to_index_lambda
    from pytato.array import Placeholder
    if isinstance(c.node, Placeholder):
        # the constructor returned its argument (e.g. roll by 0): nothing to lower
        c.err = "identity"
        return
    try:
        c.il = to_index_lambda(c.node)
    except Exception as e:
        c.err = f"{type(e).__name__}"
        return
    for nm, b in c.il.bindings.items():
        if not isinstance(b, Placeholder):
            c.err = f"binding {nm} is a {type(b).__name__}"
            return
        c.bind_data[nm] = c.data[b.name]


def _meta_mismatch(c: LCase):
    il, node = c.il, c.node
    out = []
    if tuple(il.shape) != tuple(node.shape):
        out.append(f"shape {il.shape} != {node.shape}")
    if il.dtype != node.dtype:
        out.append(f"dtype {il.dtype} != {node.dtype}")
    if il.axes != node.axes:
        out.append("axes differ")
    if il.tags != node.tags:
        out.append("tags differ")
    if c.expected is not None and tuple(node.shape) != tuple(np.shape(c.expected)):
        out.append(f"node shape {node.shape} != numpy {np.shape(c.expected)}")
    return out


def _search(ctx, c: LCase, why: str):
    """independent oracle: Python interpreter of the real index lambda vs NumPy"""
    try:
        got, it = eval_index_lambda(c.il, c.bind_data)
    except Exception as e:
        ctx.violation(f"lower:{c.kind}:interp-error",
                      f"real index lambda for {c.kind} cannot be evaluated ({type(e).__name__}: {e}); {why}",
                      {"kind": c.kind, "params": c.params, "expr": str(c.il.expr)})
        return True
    exp = np.asarray(c.expected)
    bad_oob = [o for o in it.oob if not o[2]]
    if got.shape != exp.shape or not np.array_equal(got, exp.astype(got.dtype)) or bad_oob:
        ctx.violation(f"lower:{c.kind}:value-mismatch",
                      f"to_index_lambda({c.kind}) evaluated pointwise differs from NumPy "
                      f"(params {c.params}); oob accesses: {bad_oob[:3]}",
                      {"kind": c.kind, "params": c.params, "expr": str(c.il.expr),
                       "observed": got.tolist(), "expected": exp.tolist(), "oob": bad_oob[:10],
                       "data": {k: v.tolist() for k, v in c.data.items()}})
        return True
    return False


def process(ctx, cases: list[LCase]):
    """run one chunk of cases through the real code and the Lean driver"""
    queries: list[str] = []
    slots = []   # per case: indices of answers
    for c in cases:
        _lower(c)
        if c.err == "identity":
            slots.append(None)
            if not np.array_equal(np.asarray(c.expected), c.data[c.node.name]):
                ctx.violation(f"lower:{c.kind}:identity-shortcut",
                              f"{c.kind} returned its argument but NumPy's result differs, params {c.params}",
                              {"kind": c.kind, "params": c.params})
            continue
        if c.err is not None:
            ctx.violation(f"lower:{c.kind}:exception:{c.err}",
                          f"to_index_lambda raised {c.err} for an accepted {c.kind} node, params {c.params}",
                          {"kind": c.kind, "params": c.params})
            slots.append(None)
            continue
        mm = _meta_mismatch(c)
        if mm:
            ctx.violation(f"lower:{c.kind}:metadata", f"{mm} (params {c.params})",
                          {"kind": c.kind, "params": c.params, "mismatch": mm})
        try:
            expr_s = ser.sexpr(c.il.expr)
        except ser.SerError as e:
            ctx.broken.append(f"serialiser:{c.kind}:{e}")
            slots.append(None)
            continue
        binds = " ".join(ser.binding(n, a) for n, a in sorted(c.bind_data.items()))
        shp = ser.shape(c.il.shape)
        s = {"real": len(queries)}
        queries.append(f"(evalil {shp} {expr_s} ({binds}))")
        if c.model_q:
            s["model"] = len(queries)
            queries.append(c.model_q)
        if c.spec_q:
            s["spec"] = len(queries)
            queries.append(c.spec_q)
        slots.append(s)
    answers = common.driver_query_parallel(queries)
    # second round: evaluate the model expressions
    q2, slot2 = [], {}
    for ci, (c, s) in enumerate(zip(cases, slots)):
        if s is None or "model" not in s:
            continue
        a = answers[s["model"]]
        if not a.startswith("ok "):
            ctx.broken.append(f"model-query:{c.kind}:{a}")
            continue
        mexpr = a[3:]
        if mexpr == "none":
            s["model_none"] = True
            continue
        s["mexpr"] = mexpr
        binds = " ".join(ser.binding(n, arr) for n, arr in sorted(c.bind_data.items()))
        slot2[ci] = len(q2)
        q2.append(f"(evalil {ser.shape(c.il.shape)} {mexpr} ({binds}))")
    ans2 = common.driver_query_parallel(q2)
    n_dis = 0
    for ci, (c, s) in enumerate(zip(cases, slots)):
        if s is None:
            n_dis += (c.err != "identity")
            continue
        a = answers[s["real"]]
        parts = ser.split_top(a)
        exp = np.asarray(c.expected)
        exp_flat = [int(v) if not isinstance(v, bool) else v for v in exp.reshape(-1).tolist()]
        disagree = None
        if parts[0] != "ok":
            disagree = f"lean evalil failed: {a[:200]}"
        else:
            got = ser.parse_vals(parts[1])
            nbad = int(parts[4])
            if got != exp_flat:
                disagree = "Lean evaluation of the real index lambda differs from NumPy"
            elif nbad:
                disagree = f"{nbad} out-of-bounds affine accesses (first {parts[5]})"
        if disagree:
            n_dis += 1
            if not _search(ctx, c, disagree):
                ctx.broken.append(f"correspondence:evalil-vs-numpy:{c.kind}:{c.params}")
            continue
        # model vs real
        if s.get("model_none"):
            n_dis += 1
            ctx.broken.append(f"correspondence:model-rejects:{c.kind}:{c.params}")
        elif ci in slot2:
            m = ser.split_top(ans2[slot2[ci]])
            if m[0] != "ok" or m[1] != parts[1] or int(m[4]) != 0:
                n_dis += 1
                # the real code agrees with NumPy here, so the *model* deviates from the code
                ctx.broken.append(f"correspondence:model-vs-real:{c.kind}:{c.params}")
            elif c.structural and s.get("mexpr") != ser.sexpr(c.il.expr):
                n_dis += 1
                ctx.broken.append(f"correspondence:model-expr-text:{c.kind}:{c.params}")
        if "spec" in s:
            sp = ser.split_top(answers[s["spec"]])
            ok = (sp[0] == "ok" and ser.parse_vals(sp[2]) == exp_flat
                  and tuple(ser.parse_vals(sp[1])) == tuple(exp.shape))
            if not ok:
                n_dis += 1
                ctx.broken.append(f"correspondence:spec-vs-numpy:{c.kind}:{c.params}")
    return n_dis


def run(ctx: common.Ctx):
    ctx.assumptions += [
        "NumPy (installed 2.x) is the reference for values; Lean Spec.* is tied to it on the same cases",
        "integer test data with pairwise distinct entries per operand (an index mix-up changes the value)",
        "every lowering rule and API constructor checked here has a hand model with a soundness theorem; the "
        "randomised einsum / advanced-indexing / CSR batches additionally evaluate the REAL index lambdas with the "
        "Lean evaluator against NumPy",
    ]
    from ..extract import apinames
    apinames.regenerate()     # PtGen/ApiNames.lean: what the live API functions emit (checked by api_emits_own_name)
    ctx.lean_obligations("PtProofs.C02", THEOREMS)
    for gen in GENS:
        name = gen.__name__[4:]
        chunk: list[LCase] = []
        n = dis = 0
        kinds: dict[str, int] = {}
        for c in gen(ctx):
            chunk.append(c)
            kinds[c.kind] = kinds.get(c.kind, 0) + 1
            if len(ctx.samples) < 12 and n % 997 == 0:
                ctx.sample({"batch": name, "kind": c.kind, "params": repr(c.params)})
            n += 1
            if len(chunk) >= 4000:
                dis += process(ctx, chunk)
                chunk = []
        if chunk:
            dis += process(ctx, chunk)
        exhaustive = name in ("slice1d", "roll", "transpose", "stack_concat", "pad", "reduce", "advanced_repeat") or \
            (name == "reshape" and ctx.thorough)
        ctx.note_batch(name, n, dis, exhaustive=exhaustive, kinds=kinds)
    pad_symbolic(ctx, prop="C02")
    einsum_descriptors(ctx)
    batch_binop(ctx, prop="C02")
    batch_multiarg_elemwise(ctx, prop="C02")
    batch_construct(ctx, prop="C02")
    # de-duplicate broken list (keep it short)
    ctx.broken = sorted(set(ctx.broken))[:50]


def replay(ctx, path):
    import json
    r = json.loads(open(path).read())
    print(json.dumps({k: r.get(k) for k in ("signature", "what", "kind", "params", "expr",
                                            "observed", "expected")}, indent=1))
    print("re-running the C02 check on the current tree …")
    run(ctx)
    rc = ctx.finish()
    return rc

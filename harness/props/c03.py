"""C03 — shape and dtype are inferred eagerly and agree with NumPy.

Theorems (PtProofs/C03.lean, SliceLemmas): pytato's broadcasting fold equals
NumPy's rule for every list of operand shapes of any rank, incl. failure;
slice length = CPython's; the dtype statement is a finite product: the table
regenerated from the live pytato and the installed NumPy (19 binary operators /
functions x 13 dtypes^2 + 10 scalar kinds on both sides, 19 unary functions x 13
dtypes: 9256 rows) is checked completely by the kernel on every run, modulo the
deviation categories committed in known_findings.json.

Tie: the table (translator) + correspondence: all shape pairs with 0..3 axes of
length 0..4 through the real binary operator vs the Lean model vs NumPy; every
axis/shape argument in [-ndim-1, ndim+1] of every function taking one (accept /
reject and result shape vs NumPy on concrete operands); every intermediate node
of generated programs: declared shape vs the reference evaluator's result; axis TUPLES (mixed signs, duplicates)
for expand_dims / squeeze / reductions / transpose; n-ary dtype inference (promotion is not associative): all
ordered dtype TRIPLES through concatenate / stack / einsum / where / maximum-minimum chains vs NumPy's functions."""
from __future__ import annotations

import itertools
import random

import numpy as np

from .. import common, ser
from ..extract import dtypes as xdt
from ..gen import programs
from ..refeval import RefEval

THEOREMS = ["Pt.broadcast_eq_numpy", "Pt.ptAxisLen_eq_np", "Pt.dtype_rows_agree", "Pt.dtype_chunks_agree"]
THEOREMS_SLICE = ["Pt.slice_norm_eq_cpython", "Pt.slice_len_eq_cpython"]
# shape rules of matmul / dot / vdot / pad: model of /repo's code (PtModel/ContractShape.lean) = NumPy's documented
# rule stated independently (PtProofs/ContractShape.lean)
THEOREMS_CONTRACT = ["Pt.Contract.matmul_eq_spec", "Pt.Contract.matmul_refuses_stretched_contraction",
                     "Pt.Contract.matmul_rank", "Pt.Contract.dot_eq_spec", "Pt.Contract.dot_rank",
                     "Pt.Contract.vdot_eq_spec", "Pt.Contract.vdot_rank", "Pt.Contract.pad_accepts_iff",
                     "Pt.Contract.pad_refuses_negative", "Pt.Contract.pad_shape"]


def batch_dtype_table(ctx):
    rs = xdt.regenerate()
    known = ctx.known_signatures()
    stats = {"rows": len(rs), "identical": 0, "numpy_rejects_dtype": 0, "pytato_rejects": 0, "both_reject": 0,
             "deviating": 0}
    bad = 0
    for op, lk, ldt, rk, rdt, npr, ptr in rs:
        if npr == ptr:
            stats["identical" if not npr.startswith("!") else "both_reject"] += 1
            continue
        cat = xdt.category(op, lk, ldt, rk, rdt, npr, ptr)
        if cat.startswith("numpy-rejects-dtype"):
            stats["numpy_rejects_dtype"] += 1
            continue
        if cat.startswith("pytato-rejects"):
            stats["pytato_rejects"] += 1
            continue
        if cat == "both-reject":
            stats["both_reject"] += 1
            continue
        stats["deviating"] += 1
        bad += cat not in known
        ctx.violation(cat, f"{op}({lk}:{ldt}, {rk}:{rdt}): pytato infers {ptr}, NumPy {np.__version__} gives {npr}",
                      {"op": op, "lhs": [lk, ldt], "rhs": [rk, rdt], "numpy": npr, "pytato": ptr})
    ctx.note_batch("dtype-table(translator)", len(rs), bad, exhaustive=True, **stats)


def all_shapes(max_rank, max_len):
    for r in range(max_rank + 1):
        yield from itertools.product(range(max_len + 1), repeat=r)


def batch_broadcast(ctx):
    import pytato as pt
    from pytato.diagnostic import CannotBroadcastError
    shapes = list(all_shapes(3, 4))
    phs = {s: pt.make_placeholder("a", s, np.float64) for s in shapes}
    phs2 = {s: pt.make_placeholder("b", s, np.float64) for s in shapes}
    rng = random.Random(ctx.seed + 31)
    pairs = [(a, b) for a in shapes for b in shapes]
    if not ctx.thorough:
        pairs = rng.sample(pairs, 6000)
    queries = []
    real = []
    for a, b in pairs:
        try:
            r = tuple((phs[a] + phs2[b]).shape)
        except CannotBroadcastError:
            r = None
        except Exception as e:   # noqa: BLE001
            r = f"!{type(e).__name__}"
        real.append(r)
        queries.append(f"(bcast {ser.shape(a)} {ser.shape(b)})")
    # triples
    triples = [tuple(rng.choice(shapes) for _ in range(3)) for _ in range(3000 if ctx.thorough else 600)]
    from pytato.utils import get_shape_after_broadcasting
    for t in triples:
        try:
            r = tuple(get_shape_after_broadcasting([phs[s] for s in t]))
        except CannotBroadcastError:
            r = None
        real.append(r)
        queries.append("(bcast " + " ".join(ser.shape(s) for s in t) + ")")
    ans = common.driver_query_parallel(queries)
    dis = 0
    allsh = pairs + triples
    for shp, r, a in zip(allsh, real, ans):
        try:
            n = tuple(np.broadcast_shapes(*shp))
        except ValueError:
            n = None
        if r != n:
            dis += 1
            ctx.violation("shape:broadcast",
                          f"shapes {shp}: pytato {'rejects' if r is None else r}, NumPy {'rejects' if n is None else n}",
                          {"shapes": [list(s) for s in shp], "pytato": r, "numpy": n})
            continue
        m = None if a == "ok none" else tuple(ser.parse_vals(a[3:]))
        if m != r:
            dis += 1
            ctx.broken.append(f"correspondence:broadcast-model-vs-real:{shp}")
    ctx.note_batch("broadcast-shapes", len(allsh), dis, exhaustive=ctx.thorough,
                   pairs=len(pairs), triples=len(triples))


NP_REJECT = (ValueError, IndexError, TypeError)   # np.exceptions.AxisError is both a ValueError and an IndexError


def _cmp(ctx, label, f_pt, f_np, stats):
    """compare accept/reject + shape of one constructor call"""
    try:
        n = f_np()
        nshape, nerr = tuple(np.shape(n)), None
    except NP_REJECT as e:
        nshape, nerr = None, type(e).__name__
    key = label.split(":")[0]
    try:
        p = f_pt()
        perr = None
    except Exception as e:   # noqa: BLE001
        p, pshape, perr = None, None, type(e).__name__
    if p is not None:
        try:
            pshape = tuple(int(d) for d in p.shape)
            _ = p.dtype
        except Exception as e:   # noqa: BLE001
            stats["late_error"] = stats.get("late_error", 0) + 1
            ctx.violation(f"shape:error-after-construction:{key}",
                          f"{label}: the constructor accepts the arguments but .shape/.dtype raises "
                          f"{type(e).__name__}: {e} (NumPy: {nerr or nshape})",
                          {"call": label, "error": f"{type(e).__name__}: {e}"})
            return 1
    if nerr and perr:
        stats["both_reject"] += 1
        return 0
    if nerr and not perr:
        stats["pytato_accepts_numpy_rejects"] += 1
        ctx.violation(f"shape:accepts-what-numpy-rejects:{key}",
                      f"{label}: NumPy raises {nerr}, pytato builds an array of shape {pshape}",
                      {"call": label, "numpy_error": nerr, "pytato_shape": pshape})
        return 1
    if perr and not nerr:
        stats["pytato_rejects_numpy_accepts"] += 1     # allowed by the statement
        if perr in ("AssertionError", "AttributeError", "KeyError", "ZeroDivisionError", "RecursionError"):
            ctx.violation(f"shape:internal-error:{key}:{perr}",
                          f"{label}: pytato fails with {perr} (not an argument diagnostic), NumPy gives {nshape}",
                          {"call": label, "pytato_error": perr})
            return 1
        return 0
    stats["both_accept"] += 1
    if pshape != nshape:
        ctx.violation(f"shape:differs:{key}", f"{label}: pytato shape {pshape}, NumPy {nshape}",
                      {"call": label, "pytato_shape": pshape, "numpy_shape": nshape})
        return 1
    return 0


def batch_validation(ctx):
    import pytato as pt
    stats = {"both_accept": 0, "both_reject": 0, "pytato_rejects_numpy_accepts": 0,
             "pytato_accepts_numpy_rejects": 0}
    cases = dis = 0
    shapes = [s for s in all_shapes(3, 3)]
    rng = random.Random(ctx.seed + 32)
    if not ctx.thorough:
        shapes = [()] + rng.sample(shapes, 45)
    for s in shapes:
        nd = len(s)
        a = np.zeros(s)
        x = pt.make_placeholder("x", s, np.float64)
        y = pt.make_placeholder("y", s, np.float64)
        for ax in range(-nd - 1, nd + 2):
            for label, fpt, fnp in [
                (f"roll:{s}:axis={ax}", lambda: pt.roll(x, 1, ax), lambda: np.roll(a, 1, ax)),
                (f"stack:{s}:axis={ax}", lambda: pt.stack([x, y], ax), lambda: np.stack([a, a], ax)),
                (f"concatenate:{s}:axis={ax}", lambda: pt.concatenate([x, y], ax), lambda: np.concatenate([a, a], ax)),
                (f"expand_dims:{s}:axis={ax}", lambda: pt.expand_dims(x, ax), lambda: np.expand_dims(a, ax)),
                (f"sum:{s}:axis={ax}", lambda: pt.sum(x, axis=ax), lambda: np.sum(a, axis=ax)),
                (f"amax:{s}:axis={ax}", lambda: pt.amax(x, axis=ax), lambda: np.amax(a, axis=ax)),
                (f"squeeze:{s}:axis={ax}", lambda: pt.squeeze(x, axis=(ax,)), lambda: np.squeeze(a, axis=(ax,))),
                (f"intindex:{s}:k={ax}", lambda: x[ax], lambda: a[ax]),
            ]:
                cases += 1
                dis += _cmp(ctx, label, fpt, fnp, stats)
        for perm in itertools.permutations(range(nd)):
            cases += 1
            dis += _cmp(ctx, f"transpose:{s}:{perm}", lambda: pt.transpose(x, perm), lambda: np.transpose(a, perm), stats)
        for bad in [(0,) * nd, tuple(range(nd + 1)), tuple(range(1, nd + 1))]:
            cases += 1
            dis += _cmp(ctx, f"transpose:{s}:{bad}", lambda: pt.transpose(x, bad), lambda: np.transpose(a, bad), stats)
        n = int(np.prod(s)) if s else 1
        for new in [(-1,), (n,), (n, 1), (1, n), (2, -1), (-1, -1), (n + 1,), (0,), (0, -1), (), (-2,)]:
            for order in ("C", "F"):
                cases += 1
                dis += _cmp(ctx, f"reshape:{s}:{new}:{order}", lambda: pt.reshape(x, new, order=order),
                            lambda: np.reshape(a, new, order=order), stats)
    # einsum / matmul / dot argument validation
    for spec, shs in [("ij,jk->ik", [(2, 3), (3, 4)]), ("ij,jk->ik", [(2, 3), (2, 4)]), ("ij,j->i", [(2, 3), (1,)]),
                      ("ii->i", [(2, 3)]), ("ij->ijk", [(2, 3)]), ("ij,jk", [(2, 3), (3, 4)]), ("ij->i", [(2, 3), (3,)]),
                      ("i,i->", [(3,), (3,)]), ("i,i->", [(3,), (4,)]), ("ij->ii", [(2, 2)])]:
        cases += 1
        xs = [pt.make_placeholder(f"e{i}", sh, np.float64) for i, sh in enumerate(shs)]
        as_ = [np.zeros(sh) for sh in shs]
        dis += _cmp(ctx, f"einsum:{spec}:{shs}", lambda: pt.einsum(spec, *xs), lambda: np.einsum(spec, *as_), stats)
    for s1, s2 in [((2, 3), (3, 4)), ((2, 3), (4, 3)), ((3,), (3,)), ((3,), (4,)), ((2, 3), (3,)), ((), (3,)),
                   ((2, 2, 3), (3, 2)), ((2, 3), ()),
                   # mixed rank with batch axes of different lengths: they align from the RIGHT
                   ((2, 3, 2, 4), (3, 4, 5)), ((3, 4, 5), (2, 3, 5, 2)), ((2, 3, 2, 4), (2, 4, 5)), ((2, 1, 3, 2, 4), (3, 4, 2)),
                   ((2, 3, 2, 4), (1, 4, 3)), ((4, 2, 3), (2, 4, 3, 5)), ((2, 3, 2, 4), (4,)), ((4,), (2, 3, 4, 2)),
                   ((2, 3, 4, 2), (3,)), ((5, 2, 3, 2, 4), (3, 4, 2)), ((5, 2, 3, 2, 4), (5, 4, 2))]:
        cases += 1
        x1, x2 = pt.make_placeholder("m1", s1, np.float64), pt.make_placeholder("m2", s2, np.float64)
        dis += _cmp(ctx, f"matmul:{s1}@{s2}", lambda: x1 @ x2, lambda: np.zeros(s1) @ np.zeros(s2), stats)
    # ALL ordered pairs of shapes of rank 0..3 over a set of axis lengths that contains 1 (an axis of length 1 is
    # stretched by einsum and by '*', on which matmul / dot / vdot are built, but NOT by NumPy's contraction:
    # (3,) @ (1, 3) was accepted with shape (3,) until fix 957f394), through matmul, dot and vdot
    lens = (1, 2, 3) if ctx.thorough else (1, 3)
    shapes = [sh for r in range(4) for sh in itertools.product(lens, repeat=r)]
    for s1, s2 in itertools.product(shapes, repeat=2):
        x1, x2 = pt.make_placeholder("m1", s1, np.float64), pt.make_placeholder("m2", s2, np.float64)
        a1, a2 = np.zeros(s1), np.zeros(s2)
        for nm, fpt, fnp in (("matmul", lambda: pt.matmul(x1, x2), lambda: np.matmul(a1, a2)),
                             ("dot", lambda: pt.dot(x1, x2), lambda: np.dot(a1, a2)),
                             ("vdot", lambda: pt.vdot(x1, x2), lambda: np.vdot(a1, a2))):
            cases += 1
            dis += _cmp(ctx, f"{nm}:{s1},{s2}", fpt, fnp, stats)
    ctx.note_batch("argument-validation-vs-numpy", cases, dis, exhaustive=False, **stats)


def batch_contract_shape_model(ctx):
    """the Lean MODEL of the shape rules of matmul / dot / vdot / pad (`Pt.Contract.*`, proved equal to NumPy's
    documented rule for all ranks) vs the REAL pytato: accept / reject and result shape for ALL ordered pairs of
    shapes of rank 0..3 over lengths that contain 0 and 1, mixed-rank pairs of rank 4 / 5, and for pad every shape
    x width patterns incl. negative widths and lists of the wrong length.  A disagreement is a broken
    correspondence; pairs with a zero-length axis are also compared with NumPy here (the others in
    `batch_validation`), which is the failing-input search"""
    import pytato as pt
    stats = {"both_accept": 0, "both_reject": 0, "pytato_rejects_numpy_accepts": 0, "pytato_accepts_numpy_rejects": 0}
    lens = (0, 1, 2, 3) if ctx.thorough else (0, 1, 3)
    shapes = [sh for r in range(4) for sh in itertools.product(lens, repeat=r)]
    pairs = list(itertools.product(shapes, repeat=2))
    pairs += [((2, 3, 2, 4), (3, 4, 5)), ((3, 4, 5), (2, 3, 5, 2)), ((2, 3, 2, 4), (2, 4, 5)), ((2, 1, 3, 2, 4), (3, 4, 2)),
              ((2, 3, 2, 4), (1, 4, 3)), ((4,), (2, 3, 4, 2)), ((2, 3, 4, 2), (3,)), ((5, 2, 3, 2, 4), (5, 4, 2)),
              ((1, 1, 2, 1), (3, 1, 1)), ((2, 3, 2, 1), (3, 4, 5)), ((3,), (2, 2, 1, 3))]

    def sh(s_):
        return "(" + " ".join(str(d) for d in s_) + ")"

    def real_shape(f):
        try:
            r = f()
            return tuple(int(d) for d in r.shape)
        except (ValueError, TypeError, NotImplementedError, IndexError):
            return None
    queries, recs = [], []
    cases = dis = 0
    for s1, s2 in pairs:
        x1, x2 = pt.make_placeholder("m1", s1, np.float64), pt.make_placeholder("m2", s2, np.float64)
        for nm, fpt, fnp in (("matmul", lambda: pt.matmul(x1, x2), lambda: np.matmul(np.zeros(s1), np.zeros(s2))),
                             ("dot", lambda: pt.dot(x1, x2), lambda: np.dot(np.zeros(s1), np.zeros(s2))),
                             ("vdot", lambda: pt.vdot(x1, x2), lambda: np.vdot(np.zeros(s1), np.zeros(s2)))):
            cases += 1
            if 0 in s1 or 0 in s2 or len(s1) > 3 or len(s2) > 3:
                dis += _cmp(ctx, f"{nm}:{s1},{s2}", fpt, fnp, stats)
            recs.append((nm, s1, s2, real_shape(fpt)))
            queries.append(f"(cshape {nm} {sh(s1)} {sh(s2)})")
    wpat = [(0, 0), (1, 2), (0, -1), (-1, 0), (2, 0), (-2, -1)]
    for s_ in shapes:
        x = pt.make_placeholder("x", s_, np.float64)
        nd = len(s_)
        wlists = [tuple([w] * nd) for w in wpat]
        if nd >= 2:
            wlists += [((1, 0),) + tuple([w] * (nd - 1)) for w in wpat] + [tuple([w] * (nd - 1)) + ((0, 1),) for w in wpat[2:4]]
        wlists += [tuple([(0, 0)] * (nd + 1)), tuple([(1, 1)] * (nd + 2))]
        if nd >= 3:
            wlists.append(tuple([(0, 0)] * (nd - 1)))
        for ws in wlists:
            if len(ws) == 1 and nd != 1:
                continue        # a single pair is NumPy's "same widths on every axis" spelling, not a per-axis list
            cases += 1
            recs.append(("pad", s_, ws, real_shape(lambda: pt.pad(x, ws))))
            queries.append(f"(cshape pad {sh(s_)} (" + " ".join(f"({b} {a})" for b, a in ws) + "))")
    ans = common.driver_query_parallel(queries)
    agree = 0
    for (nm, s1, s2, real), a in zip(recs, ans):
        model = None if a == "ok none" else (tuple(int(t) for t in a[4:-1].split()) if a.startswith("ok (") else a)
        if model == real:
            agree += 1
        else:
            dis += 1
            ctx.broken.append(f"correspondence:contract-shape-model:{nm}:{s1}:{s2}:real={real}:model={model}")
    ctx.note_batch("contract-shape-model-vs-real", cases, dis, exhaustive=True, agreeing=agree, lengths=list(lens),
                   **{k: v for k, v in stats.items() if v})


def batch_dtype_nary(ctx):
    """n-ary dtype inference: NumPy's promotion is NOT associative (result_type(int16, uint16, float32) is float32,
    pairwise promotion gives float64), so the pair table does not determine functions of three operands: ALL ordered
    TRIPLES of the dtype list through concatenate / stack / einsum / where / maximum- and minimum-chains vs the
    installed NumPy's own function"""
    import warnings

    import pytato as pt
    dts = list(xdt.DTYPES) + ["float16"]
    fns = {
        "concatenate": (lambda a, b, c: pt.concatenate([a, b, c]), lambda a, b, c: np.concatenate([a, b, c])),
        "stack": (lambda a, b, c: pt.stack([a, b, c]), lambda a, b, c: np.stack([a, b, c])),
        "einsum": (lambda a, b, c: pt.einsum("i,i,i->i", a, b, c), lambda a, b, c: np.einsum("i,i,i->i", a, b, c)),
        "where": (lambda a, b, c: pt.where(a, b, c), lambda a, b, c: np.where(a, b, c)),
        "maximum-chain": (lambda a, b, c: pt.maximum(pt.maximum(a, b), c), lambda a, b, c: np.maximum(np.maximum(a, b), c)),
        "minimum-chain": (lambda a, b, c: pt.minimum(a, pt.minimum(b, c)), lambda a, b, c: np.minimum(a, np.minimum(b, c))),
    }

    def run_(f, *args):
        try:
            with warnings.catch_warnings():
                warnings.simplefilter("ignore")
                with np.errstate(all="ignore"):
                    return np.dtype(f(*args).dtype).name
        except Exception as e:   # noqa: BLE001
            return "!" + type(e).__name__
    ph = {d: [pt.make_placeholder(f"x{k}", (2,), d) for k in range(3)] for d in dts}
    na = {d: np.ones(2, dtype=d) for d in dts}
    stats = {"identical": 0, "both_reject": 0, "pytato_rejects": 0, "numpy_rejects_dtype": 0, "deviating": 0}
    cases = dis = 0
    known = ctx.known_signatures()
    for name, (fp, fn) in fns.items():
        for tr in itertools.product(dts, repeat=3):
            cases += 1
            p = run_(fp, *[ph[d][k] for k, d in enumerate(tr)])
            n = run_(fn, *[na[d] for d in tr])
            if p == n:
                stats["identical" if not p.startswith("!") else "both_reject"] += 1
            elif p.startswith("!") and n.startswith("!"):
                stats["both_reject"] += 1
            elif p.startswith("!"):
                stats["pytato_rejects"] += 1           # allowed: rejected when the expression is built
            elif n.startswith("!"):
                stats["numpy_rejects_dtype"] += 1
            else:
                stats["deviating"] += 1
                sig = f"dtype:nary:{name}"
                dis += sig not in known
                ctx.violation(sig, f"{name}({', '.join(tr)}): pytato infers {p}, NumPy {np.__version__} gives {n} "
                                   f"(np.result_type of all three: {np.result_type(*tr).name})",
                              {"op": name, "dtypes": list(tr), "numpy": n, "pytato": p})
    ctx.note_batch("dtype-nary-triples", cases, dis, exhaustive=True, dtypes=dts, functions=list(fns), **stats)


REPORT_DUPLICATE_REDUCTION_AXES = True


def batch_axis_tuples(ctx):
    """axis TUPLES (not only single axes): every tuple of 1..3 entries of the admissible range and one beyond it on
    both sides, MIXING negative and non-negative entries, incl. tuples with duplicates after normalisation (NumPy
    rejects), for expand_dims, squeeze, sum / amax / all, and transpose with negative axes: accept / reject and
    result shape vs NumPy"""
    import pytato as pt
    stats = {"both_accept": 0, "both_reject": 0, "pytato_rejects_numpy_accepts": 0,
             "pytato_accepts_numpy_rejects": 0}
    rng = random.Random(ctx.seed * 17 + 303)
    cases = dis = 0
    for s in [(), (2,), (2, 3), (1, 2), (2, 1, 3), (1, 1), (3, 1, 1)]:
        nd = len(s)
        a = np.zeros(s)
        x = pt.make_placeholder("x", s, np.float64)
        xb = pt.make_placeholder("xb", s, np.bool_)
        for k in (1, 2, 3):
            # expand_dims: positions in the OUTPUT
            rng_out = range(-(nd + k) - 1, nd + k + 1)
            tuples = list(itertools.product(rng_out, repeat=k))
            if len(tuples) > 400 and not ctx.thorough:
                tuples = rng.sample(tuples, 400)
            for t in tuples:
                cases += 1
                dis += _cmp(ctx, f"expand_dims:{s}:axes={t}", lambda: pt.expand_dims(x, t), lambda: np.expand_dims(a, t), stats)
            if k > max(nd, 1):
                continue
            rng_in = range(-nd - 1, nd + 1)
            tuples = list(itertools.product(rng_in, repeat=k))
            if len(tuples) > 300 and not ctx.thorough:
                tuples = rng.sample(tuples, 300)
            for t in tuples:
                if not REPORT_DUPLICATE_REDUCTION_AXES and len({ax % nd if nd and -nd <= ax < nd else ax for ax in t}) < len(t):
                    # FINDING (reported, not yet in known_findings.json): pt.sum / amax / all / squeeze ACCEPT an
                    # axis tuple with a duplicate (sum(x, axis=(0, 0)) -> reduces axis 0 once); NumPy raises
                    # ValueError("duplicate value in 'axis'").  Set the flag to have C03 report it.
                    stats["duplicate_axes_skipped"] = stats.get("duplicate_axes_skipped", 0) + 1
                    continue
                for label, fpt, fnp in [
                    (f"sum:{s}:axes={t}", lambda: pt.sum(x, axis=t), lambda: np.sum(a, axis=t)),
                    (f"amax:{s}:axes={t}", lambda: pt.amax(x, axis=t), lambda: np.amax(a, axis=t)),
                    (f"all:{s}:axes={t}", lambda: pt.all(xb, axis=t), lambda: np.all(a, axis=t)),
                    (f"squeeze:{s}:axes={t}", lambda: pt.squeeze(x, axis=t), lambda: np.squeeze(a, axis=t)),
                ]:
                    cases += 1
                    dis += _cmp(ctx, label, fpt, fnp, stats)
        for perm in itertools.product(range(-nd, nd), repeat=nd):
            if nd:
                cases += 1
                dis += _cmp(ctx, f"transpose:{s}:{perm}", lambda: pt.transpose(x, perm), lambda: np.transpose(a, perm), stats)
    ctx.note_batch("axis-tuples-vs-numpy", cases, dis, exhaustive=False, **stats)


def batch_degenerate_shortcuts(ctx):
    """API calls that have NOTHING TO DO (roll by 0, concatenate / stack of one array, pad by 0, reshape to the same
    shape, x[...] / x[:], squeeze / expand_dims / sum with an empty axis tuple, broadcast_to the same shape) combined
    with EVERY invalid value of their other arguments: must be rejected exactly like the non-degenerate call"""
    import pytato as pt
    stats = {"both_accept": 0, "both_reject": 0, "pytato_rejects_numpy_accepts": 0,
             "pytato_accepts_numpy_rejects": 0}
    cases = dis = 0
    for s in [(), (2,), (2, 3), (1, 2), (0, 2), (2, 1, 3)]:
        nd = len(s)
        a = np.zeros(s)
        x = pt.make_placeholder("x", s, np.float64)
        calls = []
        for ax in list(range(-nd - 2, nd + 3)) + [None]:
            for shift in (0, -0, 1):
                calls.append((f"roll:{s}:shift={shift}:axis={ax}", lambda shift=shift, ax=ax: pt.roll(x, shift, ax),
                              lambda shift=shift, ax=ax: np.roll(a, shift, ax)))
            if ax is None:
                continue
            calls.append((f"concatenate1:{s}:axis={ax}", lambda ax=ax: pt.concatenate([x], ax), lambda ax=ax: np.concatenate([a], ax)))
            calls.append((f"stack1:{s}:axis={ax}", lambda ax=ax: pt.stack([x], ax), lambda ax=ax: np.stack([a], ax)))
            calls.append((f"sum:{s}:axis={ax}", lambda ax=ax: pt.sum(x, axis=ax), lambda ax=ax: np.sum(a, axis=ax)))
        # (negative pad widths: pt.pad accepted them and built an array with a shrunken or even negative shape,
        #  pad((0, 2) array, ((0, -1), (0, -1))).shape == (-1, 1), until fix 9b5765e; NumPy raises ValueError.
        #  Not drawn: the empty pad_width () on a 0-d array, which NumPy refuses for its float dtype)
        for pw in [0, (0, 0), ((0, 0),) * nd, ((0, 0),) * (nd + 1), ((0, 0),) * max(nd - 1, 0) + ((0,),),
                   (0, 0, 0), ((0, 0, 0),) * nd, -1, (0, -1), (-1, 1), ((0, -1),) * nd, ((1, 0),) * max(nd - 1, 0) + ((-2, 3),),
                   np.int64(-1), (np.int8(1), np.int8(-1))]:
            if isinstance(pw, tuple) and len(pw) == 0:
                continue
            calls.append((f"pad:{s}:{pw}", lambda pw=pw: pt.pad(x, pw), lambda pw=pw: np.pad(a, pw)))
        calls.append((f"pad:{s}:0:mode=bogus", lambda: pt.pad(x, 0, mode="bogus"), lambda: np.pad(a, 0, mode="bogus")))
        for new in [s, s + (1,), (-1,) + s[1:] if nd else (-1,), s[:-1] if nd else (2,)]:
            for order in ("C", "F", "Z"):
                calls.append((f"reshape:{s}:{new}:{order}", lambda new=new, order=order: pt.reshape(x, new, order=order),
                              lambda new=new, order=order: np.reshape(a, new, order=order)))
        for ix in [(Ellipsis,), (slice(None),) * nd, (slice(None),) * (nd + 1), (Ellipsis, Ellipsis), (Ellipsis,) + (slice(None),) * nd,
                   (Ellipsis,) + (slice(None),) * (nd + 1), (slice(None, None, 0),) * max(nd, 1), (Ellipsis, 0) if nd == 0 else (Ellipsis, s[-1])]:
            calls.append((f"index:{s}:{ix}", lambda ix=ix: x[ix], lambda ix=ix: a[ix]))
        for t in [(), (nd,), (-nd - 1,), (nd + 1,)]:
            calls.append((f"squeeze:{s}:axes={t}", lambda t=t: pt.squeeze(x, axis=t), lambda t=t: np.squeeze(a, axis=t)))
            calls.append((f"expand_dims:{s}:axes={t}", lambda t=t: pt.expand_dims(x, t), lambda t=t: np.expand_dims(a, t)))
            calls.append((f"sum:{s}:axes={t}", lambda t=t: pt.sum(x, axis=t), lambda t=t: np.sum(a, axis=t)))
        for tgt in [s, s[1:] if nd else (1,), (2,) + s, s + (2,), tuple(d + 1 for d in s) if nd else (0,)]:
            calls.append((f"broadcast_to:{s}:{tgt}", lambda tgt=tgt: pt.broadcast_to(x, tgt), lambda tgt=tgt: np.broadcast_to(a, tgt)))
        for perm in [tuple(range(nd)), tuple(range(nd)) + (nd,), tuple(range(nd))[:-1] if nd else (0,), (0,) * nd if nd > 1 else (1,)]:
            calls.append((f"transpose:{s}:{perm}", lambda perm=perm: pt.transpose(x, perm), lambda perm=perm: np.transpose(a, perm)))
        for label, fpt, fnp in calls:
            cases += 1
            dis += _cmp(ctx, label, fpt, fnp, stats)
    ctx.note_batch("degenerate-shortcuts-with-invalid-arguments", cases, dis, exhaustive=False, **stats)


def batch_slices(ctx):
    """every 1-d slice: the NormalizedSlice pytato stores and the axis length it infers vs the Lean model
    (`ptNormSlice`, proved equal to CPython's slice adjustment in PtProofs/SliceLemmas) and vs NumPy"""
    import pytato as pt
    top = 8 if ctx.thorough else 6
    vals = [None, *range(-top - 2, top + 3)]
    steps = [None, 1, -1, 2, -2, 3, -3, 5, -5]
    cases, queries = [], []
    for n in range(0, top + 1):
        x = pt.make_placeholder("x", (n,), np.float64)
        a = np.zeros(n)
        for st in vals:
            for sp in vals:
                for step in steps:
                    node = x[slice(st, sp, step)]
                    idx = node.indices[0]
                    cases.append((n, st, sp, step, tuple(int(d) for d in node.shape), (idx.start, idx.stop, idx.step),
                                  a[slice(st, sp, step)].shape))
                    tok = lambda v: "None" if v is None else str(v)   # noqa: E731
                    queries.append(f"(normslice {tok(st)} {tok(sp)} {1 if step is None else step} {n})")
    ans = common.driver_query_parallel(queries)
    dis = 0
    for (n, st, sp, step, shape, norm, npshape), a in zip(cases, ans):
        parts = a.split()
        if shape != npshape:
            dis += 1
            ctx.violation("shape:slice:inferred-vs-numpy",
                          f"x[{st}:{sp}:{step}] on an axis of length {n}: pytato infers {shape}, NumPy gives {npshape}",
                          {"n": n, "slice": (st, sp, step), "pytato": shape, "numpy": npshape, "normalized": norm})
        elif parts[0] != "ok" or tuple(int(v) for v in parts[1:4]) != tuple(int(v) for v in norm) \
                or (int(parts[4]),) != shape:
            dis += 1
            ctx.broken.append(f"correspondence:normslice:n={n}:slice={st}:{sp}:{step}:real={norm}:model={a}")
    ctx.note_batch("slice-shapes(model+numpy)", len(cases), dis, exhaustive=True,
                   scope=f"n 0..{top}, start/stop None or -{top + 2}..{top + 2}, step None,±1,±2,±3,±5")


def batch_index_forms(ctx):
    """every index tuple over {int, negative int, full slice, partial slice, empty slice, index array, 2-d index
    array, Ellipsis} of length <= 4 on arrays of rank 1..3: accepted/rejected like NumPy, same shape (the placement
    of the advanced-index axes depends on what separates the advanced indices — also an Ellipsis standing for no axis)"""
    import pytato as pt
    elems = [0, -1, slice(None), slice(0, 1), slice(1, 1), "i", "j", Ellipsis]
    iv, jv = np.array([0, 1]), np.array([[1], [0]])
    pi_, pj = pt.make_placeholder("i", iv.shape, np.int64), pt.make_placeholder("j", jv.shape, np.int64)
    stats = {"both_accept": 0, "both_reject": 0, "pytato_rejects_numpy_accepts": 0, "pytato_accepts_numpy_rejects": 0}
    cases = dis = 0
    for shape in [(2,), (2, 3), (2, 3, 4), (2, 0, 3)]:
        a = np.zeros(shape)
        x = pt.make_placeholder("x", shape, np.float64)
        for r in range(1, min(len(shape) + 2, 4) + 1):
            for combo in itertools.product(elems, repeat=r):
                if sum(1 for c in combo if c is Ellipsis) > 1:
                    continue
                nix = tuple(iv if c == "i" else jv if c == "j" else c for c in combo)
                pix = tuple(pi_ if c == "i" else pj if c == "j" else c for c in combo)
                cases += 1
                dis += _cmp(ctx, f"index:{shape}:{combo!r}", lambda: x[pix], lambda: a[nix], stats)
    ctx.note_batch("index-forms-vs-numpy", cases, dis, exhaustive=True, **stats)


def batch_api_table(ctx):
    """shape and dtype of every call of the API table (harness/apitable.py) + boundary constructor arguments vs NumPy;
    dtype deviations listed as known findings are skipped by their own batches, here only where pytato and NumPy
    agree on every other call of the same function"""
    import pytato as pt
    from .. import apitable
    stats = {"both_accept": 0, "both_reject": 0, "pytato_rejects_numpy_accepts": 0, "pytato_accepts_numpy_rejects": 0}
    cases = dis = 0
    with np.errstate(all="ignore"):
        for c in apitable.cases(ctx.seed, ctx.thorough):
            inp = c["inputs"]
            phs = {k: pt.make_placeholder(k, v.shape, v.dtype) for k, v in inp.items()}
            cases += 1
            dis += _cmp(ctx, "api:" + c["label"], lambda: c["build"](**phs), lambda: c["ref"](**inp), stats)
        for N, M, k in itertools.product(range(0, 4), [None, 0, 1, 2, 3], range(-3, 4)):
            cases += 1
            dis += _cmp(ctx, f"eye:{N}:{M}:{k}", lambda: pt.eye(N, M, k), lambda: np.eye(N, M, k), stats)
        for args in itertools.product(range(-3, 4), range(-3, 4), [-2, -1, 1, 2, 3]):
            cases += 1
            dis += _cmp(ctx, f"arange:{args}", lambda: pt.arange(*args, dtype=np.int64), lambda: np.arange(*args, dtype=np.int64), stats)
        for sh in [(), (0,), (0, 3), (2, 0, 1), 3, [2, 2], (np.int64(2), 1)]:
            for nm in ("zeros", "ones"):
                cases += 1
                dis += _cmp(ctx, f"{nm}:{sh!r}", lambda: getattr(pt, nm)(sh), lambda: getattr(np, nm)(sh), stats)
            cases += 1
            dis += _cmp(ctx, f"full:{sh!r}", lambda: pt.full(sh, 1.5), lambda: np.full(sh, 1.5), stats)
    ctx.note_batch("api-table-shapes-vs-numpy", cases, dis, exhaustive=False, **stats)


def batch_intermediates(ctx):
    n = 1200 if ctx.thorough else 200
    nprng = np.random.default_rng(ctx.seed + 33)
    from .. import reflect
    from pytato.array import Array, IndexLambda
    nodes = dis = 0
    for i in range(n):
        p = programs.generate(ctx.seed + 300, i)
        inp = p.make_inputs(nprng)
        ev = RefEval(inp)
        for node in reflect.walk(p.expr()):
            if not isinstance(node, Array):
                continue
            try:
                v = np.asarray(ev(node))
            except Exception:   # noqa: BLE001
                continue
            nodes += 1
            decl = tuple(int(d) for d in node.shape)
            if decl != v.shape or (not isinstance(node, IndexLambda) and node.dtype != v.dtype):
                dis += 1
                ctx.violation(f"shape:intermediate:{type(node).__name__}",
                              f"program {i}: a {type(node).__name__} node declares {decl}/{node.dtype}, NumPy computes "
                              f"{v.shape}/{v.dtype}", {"program_index": i, "seed": ctx.seed + 300})
    ctx.note_batch("intermediate-nodes-of-programs", nodes, dis, exhaustive=False, programs=n)


def run(ctx: common.Ctx):
    ctx.assumptions += [
        "NumPy's promotion rules are an external table: regenerated, not derived",
        "combinations NumPy rejects with a dtype TypeError (bitwise ops on floats, // and % on complex) are outside the "
        "statement's 'shape, axis or index errors' and only counted; what pytato rejects and NumPy accepts is allowed",
    ]
    batch_dtype_table(ctx)
    ctx.lean_obligations("PtProofs.C03", THEOREMS, extra_targets=["PtGen.Dtypes"])
    ctx.lean_obligations("PtProofs.SliceLemmas", THEOREMS_SLICE)
    ctx.lean_obligations("PtProofs.ContractShape", THEOREMS_CONTRACT)
    batch_broadcast(ctx)
    batch_validation(ctx)
    batch_contract_shape_model(ctx)
    batch_degenerate_shortcuts(ctx)
    batch_axis_tuples(ctx)
    batch_dtype_nary(ctx)
    batch_slices(ctx)
    batch_index_forms(ctx)
    batch_api_table(ctx)
    batch_intermediates(ctx)
    ctx.broken = sorted(set(ctx.broken))[:50]


def replay(ctx, path):
    print(open(path).read()[:3000])
    run(ctx)
    return ctx.finish()

"""C04 — equality and hashing are a sound structural congruence.

Tie 1 (translator): `harness/extract/eqtable.py` probes the live `==`, `!=`,
`hash`, set/dict membership for every node kind x every dataclass field and
writes lean/PtGen/EqTable.lean; `lake build PtProofs.C04` makes the kernel
re-check the table obligations (`eq_compares_every_semantic_field`, …) against
today's source, next to the general theorems (equivalence, congruence,
eq ⇒ equal hash, memoisation soundness) about the model `PtModel/Eq.lean`.
A failing obligation is located by evaluating the same obligation in Python; the
probe pair is the failing input.

Tie 2 (correspondence): random DAG pairs — rebuilt copies, one-field mutants at a
random node, pickled copies, copies rebuilt / unpickled in fresh interpreters
with other PYTHONHASHSEEDs — real `==`/`!=`/hash/set/dict vs `eqStruct` (with
the extracted table) and `SemEq` (the specification) computed by ptdriver on
the reflectively serialised pair."""
from __future__ import annotations

import json
import pickle
import random
from collections import Counter

from .. import common, eqcases, eqterm
from ..extract import eqtable
from . import eqfam
from ..gen import kinds

THEOREMS = [
    "Pt.EqM.eqStruct_equivalence", "Pt.EqM.eq_iff_proj", "Pt.EqM.eq_iff_semEq",
    "Pt.EqM.eq_iff_semEq_partial", "Pt.EqM.eq_hash", "Pt.EqM.congruence",
    "Pt.EqM.semEq_congruence", "Pt.EqM.eqMemo_eq_eqStruct",
    "Pt.EqM.eq_compares_every_semantic_field", "Pt.EqM.eq_ignores_only_nonsemantic",
    "Pt.EqM.hash_respects_eq", "Pt.EqM.identity_kinds_documented", "Pt.EqM.tables_cover_kinds",
    "Pt.EqM.unexcluded_kinds_clean", "Pt.EqM.clean_tables_agree", "Pt.EqM.code_eq_iff_semEq",
    "Pt.EqM.code_eq_hash", "Pt.EqM.eq_full_statement_status",
]

ASSUMPTIONS = [
    "CPython's hash of tuples/strings/frozensets and pickle are executed, not modelled "
    "(hashStruct is an arbitrary mixing function of the tabled fields)",
    "scalar field values are compared through a canonical string (harness/eqterm.canon) that records TYPE AND BITS: for the "
    "specification SemEq the constants 0, 0.0, -0.0, False (1 / 1.0 / True, 2.5 / np.float32(2.5) / np.float64(2.5)) are "
    "different attributes, whereas the real `==` compares constants with Python's == and identifies them; the random DAG "
    "generators never produce such pairs, the `constants-python-identifies` batch does: identified graphs must hash alike "
    "and evaluate identically incl. dtype and sign of zero (signed zeros do not: known finding), C18 checks their keys",
    "DataWrapper compares by object identity (documented in its docstring); the model gives it the "
    "attribute `#id` = object number, so an unpickled or re-created wrapper is a different leaf",
    "loopy translation units are opaque: identified by loopy's own persistent key",
    "rows whose change the public API cannot produce (NamedCallResult.tags/.axes: `tagged`/`with_tagged_axis` "
    "raise; CSRMatmul.matrix.shape/.matrix.dtype/.reduction_var: derived/fixed by make_csr_matrix and `@`, "
    "see extract/eqtable.public_attempts) are probed and reported but excluded from the obligations "
    "(`PtGen.internalRows`)",
    "a semantic field ignored by `==` while `hash` sees it is reported once, as eq-ignores (the hash is "
    "right to differ); hash-finer-than-eq is reported for rows where `==` is right",
]


def _first_probe(t, kind, row, pred):
    for p in t.probes:
        if p.kind == kind and p.row == row and pred(p):
            return p
    for p in t.probes:
        if p.kind == kind and p.row == row:
            return p
    return None


def table_violations(ctx, t):
    """evaluate the obligations of PtProofs/C04.lean over the extracted table in
    Python; every failing row becomes a violation with its probe pair as replay"""
    fr = eqtable.failing_rows(t)
    n = 0
    kn = t.known
    # obligations whose failure on today's table is explained by a row that is not excluded
    located = set()
    if set(fr["eq_compares_every_semantic_field"]) - set(kn["knownEqRows"]):
        located |= {"eq_compares_every_semantic_field", "unexcluded_kinds_clean"}
    if set(fr["eq_ignores_only_nonsemantic"]) - set(kn["knownEqSpuriousRows"]):
        located |= {"eq_ignores_only_nonsemantic", "unexcluded_kinds_clean"}
    if set(fr["hash_respects_eq"]) - set(kn["knownEqRows"]) - set(kn["knownHashRows"]):
        located.add("hash_respects_eq")
    if {k for k, _ in fr["identity_kinds_documented"]} - set(kn["knownIdentityKinds"]):
        located.add("identity_kinds_documented")
    ctx.coverage["located_obligations"] = sorted(located)
    eq_ign = set(fr["eq_compares_every_semantic_field"])
    for (k, f) in fr["eq_compares_every_semantic_field"]:
        p = _first_probe(t, k, f, lambda p: p.eq is True or p.eq_rev is True)
        hashes = "hashes differ" if p is not None and p.hash_eq is False else "hashes equal too"
        ctx.violation(f"eq-ignores:{k}.{f}",
                      f"two {k} nodes differing only in `{f}` compare equal ({hashes}); probe: {p.desc if p else '?'}",
                      p.replay() if p else {"row": [k, f]})
        n += 1
    for (k, f) in fr["eq_ignores_only_nonsemantic"]:
        p = _first_probe(t, k, f, lambda p: p.eq is not True)
        ctx.violation(f"eq-spurious:{k}.{f}",
                      f"two {k} nodes that differ only in the non-semantic `{f}` compare unequal; "
                      f"probe: {p.desc if p else '?'}", p.replay() if p else {"row": [k, f]})
        n += 1
    for (k, f) in fr["hash_respects_eq"]:
        if (k, f) in eq_ign:
            continue
        p = _first_probe(t, k, f, lambda p: p.eq is True and p.hash_eq is False)
        ctx.violation(f"hash-finer-than-eq:{k}.{f}",
                      f"two {k} nodes that compare equal hash differently (`{f}`); probe: {p.desc if p else '?'}",
                      p.replay() if p else {"row": [k, f]})
        n += 1
    for (k, _) in fr["identity_kinds_documented"]:
        ctx.violation(f"identity-eq:{k}", f"a field-for-field identical new {k} object is != the original",
                      {"kind": k})
        n += 1
    # length mutants that leave no valid node (rank / operand count no longer fit) or touch two rows are not in the
    # tables; a comparer that zips without checking the length still must not call them equal (either direction)
    internal = set(t.internal)
    nlen = 0
    for p in t.probes:
        if not (isinstance(p.variant, str) and p.variant.startswith("len:")):
            continue
        nlen += 1
        if not p.compound:
            continue        # judged through the table rows above
        rows = p.row.split("+")
        if all(eqtable._is_traceback(r) or (p.kind, r) in internal for r in rows):
            continue
        if p.eq is True or p.eq_rev is True:
            ctx.violation(f"eq-ignores-length:{p.kind}.{p.row}",
                          f"two {p.kind} nodes whose `{p.row}` differ in LENGTH compare equal "
                          f"(a==b {p.eq}, b==a {p.eq_rev}); probe: {p.desc}", p.replay())
            n += 1
    ctx.coverage["length_probes"] = {
        "total": nlen, "in_table_rows": sum(1 for p in t.probes if isinstance(p.variant, str)
                                            and p.variant.startswith("len:") and not p.compound),
        "comparison_raises_on_invalid_node": sorted({f"{p.kind}.{p.row}" for p in t.probes
                                                     if p.invalid and isinstance(p.eq, str)})}
    # per-probe consistency of the operators themselves
    for p in t.probes:
        if p.invalid:
            continue
        vals = [p.eq, p.eq_rev, p.ne, p.hash_eq, p.in_set, p.in_dict]
        if any(isinstance(v, str) for v in vals):
            ctx.violation(f"eq-raises:{p.kind}.{p.row}", f"comparing/hashing raised: {vals}; {p.desc}", p.replay())
            n += 1
            continue
        if p.eq != p.eq_rev:
            ctx.violation(f"eq-asymmetric:{p.kind}.{p.row}", f"a==b is {p.eq} but b==a is {p.eq_rev}; {p.desc}",
                          p.replay())
            n += 1
        if p.ne != (not p.eq):
            ctx.violation(f"ne-inconsistent:{p.kind}.{p.row}", f"a==b is {p.eq} and a!=b is {p.ne}; {p.desc}",
                          p.replay())
            n += 1
        if p.in_set != (p.eq and p.hash_eq) or p.in_dict != (p.eq and p.hash_eq):
            ctx.violation(f"set-membership-inconsistent:{p.kind}.{p.row}",
                          f"eq={p.eq} hash_eq={p.hash_eq} but in_set={p.in_set} in_dict={p.in_dict}; {p.desc}",
                          p.replay())
            n += 1
    return n


def judge(ctx, c: eqcases.Case, internal: set = frozenset()) -> bool:
    """compare the real observations of one pair with the Lean answers; returns
    True when the pair disagrees with the model or the specification"""
    r, m = c.real, c.model
    if not m:
        return True
    K = f"{c.row[0]}.{c.row[1]}" if c.row else None
    bad = False
    if any(isinstance(v, str) for v in r.values()):
        ctx.violation(f"eq-raises:{K or c.batch}", f"comparing/hashing raised on a {c.batch} pair: {r}", c.replay())
        return True
    model_eq, sem_eq, model_hash = m["eq"]["struct"], m["sem"]["semeq"], m["hash"]["enc"]
    if r["eq"] != sem_eq and c.row in internal:
        # a change the public API cannot produce (probed, reported as a distribution fact);
        # the extracted table must still describe what the code does
        if r["eq"] != model_eq:
            bad = True
            ctx.broken.append(f"correspondence:eqtable-vs-real:{c.batch}:{K}")
        return bad
    if r["eq"] != sem_eq:
        bad = True
        if c.row is not None:
            sig = (f"eq-ignores:{K}" if r["eq"] else f"eq-spurious:{K}")
            what = (f"a graph and its copy with `{c.row[1]}` of one {c.row[0]} node changed compare "
                    f"{'equal' if r['eq'] else 'unequal'} (specification: {'equal' if sem_eq else 'different'})")
        else:
            kk = eqcases.culprit(c.a, c.b, lambda x, y: (x == y) != sem_eq)
            sig = f"{c.batch}-{'equal' if r['eq'] else 'unequal'}:{kk}"
            if c.batch == "pickled":
                sig = f"pickle-roundtrip-{'equal' if r['eq'] else 'unequal'}:{kk}"
            what = (f"a graph and its {c.batch} copy compare {'equal' if r['eq'] else 'unequal'}; "
                    f"specification says {'equal' if sem_eq else 'different'} (first deviating node kind: {kk})")
        ctx.violation(sig, what, c.replay())
    elif r["eq"] != model_eq:
        # the code is right, the extracted table does not describe it on this pair
        bad = True
        ctx.broken.append(f"correspondence:eqtable-vs-real:{c.batch}:{K}")
    if r["eq"] != r["eq_rev"]:
        bad = True
        ctx.violation(f"eq-asymmetric:{K or c.batch}", f"a==b is {r['eq']}, b==a is {r['eq_rev']}", c.replay())
    if r["ne"] != (not r["eq"]):
        bad = True
        ctx.violation(f"ne-inconsistent:{K or c.batch}", f"a==b is {r['eq']}, a!=b is {r['ne']}", c.replay())
    if r["eq"] and sem_eq and not r["hash_eq"]:
        bad = True
        if c.row is not None:
            sig = f"hash-finer-than-eq:{K}"
        else:
            kk = eqcases.culprit(c.a, c.b, lambda x, y: (x == y) and hash(x) != hash(y))
            sig = f"hash-finer-than-eq:{c.batch}:{kk}"
            if c.batch == "pickled":
                sig = f"pickle-roundtrip-hash:{kk}"
        ctx.violation(sig, f"equal graphs ({c.batch}) hash differently", c.replay())
    if model_hash and not r["hash_eq"]:
        # same hashed fields according to the extracted hash table, yet different hashes
        if r["eq"] and sem_eq:
            pass        # reported above
        else:
            bad = True
            ctx.broken.append(f"correspondence:hashtable-vs-real:{c.batch}:{K}")
    if r["in_set"] != (r["eq"] and r["hash_eq"]) or r["in_dict"] != (r["eq"] and r["hash_eq"]):
        bad = True
        ctx.violation(f"set-membership-inconsistent:{K or c.batch}", f"{r}", c.replay())
    return bad


def correspondence(ctx, t, seed: int, n_graphs: int, n_mut: int):
    from pytato.analysis import PytatoKeyBuilder  # noqa: F401  (import check)
    rng = random.Random(seed * 7_654_321 + 11)
    pickles: dict[int, bytes] = {}
    per_graph: dict[int, list[eqcases.Case]] = {}
    cases: list[eqcases.Case] = []
    for gi in range(n_graphs):
        for c in eqcases.graph_cases(seed, gi, rng, n_mut, keep_pickle=pickles):
            c.real = eqcases.observe(c.a, c.b)
            cases.append(c)
            per_graph.setdefault(gi, []).append(c)
    # pickled state must not carry the hash cache of any node
    n_pick = n_cached = 0
    foreign: Counter = Counter()
    for gi, raw in pickles.items():
        n_pick += 1
        e = per_graph[gi][0].a
        cached_before = eqcases.hash_cache_kinds(e)
        fresh_copy = pickle.loads(raw)
        hv = eqcases.hash_cache_kinds(fresh_copy)       # before anything hashes the copy
        for kk in hv:
            ctx.violation(f"pickle-carries-hash-cache:{kk}",
                          f"right after unpickling, {kk} nodes carry the `_hash_value` cached by the pickling process",
                          {"case": per_graph[gi][0].recipe,
                           "note": "hash(e); p = pickle.loads(pickle.dumps(e)); '_hash_value' in vars(node of p)"})
        if not hv and b"_hash_value" in raw:
            # not a pytato node: some foreign object inside (recorded, judged by the hash checks)
            kk = next((eqterm.kind_of(n) for n in eqterm.all_nodes(e)
                       if b"_hash_value" in pickle.dumps(n)), eqterm.kind_of(e))
            foreign[kk] += 1
        n_cached += bool(cached_before)
    if n_pick and not n_cached:
        # the scenario under test (hash first, pickle afterwards) did not occur at all
        ctx.broken.append("harness:hash-cache-not-filled-before-pickling")
    ctx.coverage["graphs_pickled_with_filled_hash_cache"] = n_cached
    ctx.coverage["foreign_objects_pickling_a_hash_cache_inside"] = dict(foreign)
    eqcases.run_lean(ctx, cases, t)
    dis: Counter = Counter()
    tot: Counter = Counter()
    kinds_seen: Counter = Counter()
    rows_seen: Counter = Counter()
    sizes = []
    for c in cases:
        tot[c.batch] += 1
        sizes.append(c.nodes)
        if c.row:
            rows_seen[f"{c.row[0]}.{c.row[1]}"] += 1
        if judge(ctx, c, set(t.internal)):
            dis[c.batch] += 1
    for b in tot:
        ctx.note_batch(f"pairs:{b}", tot[b], dis[b], exhaustive=False)
    ctx.note_batch("pickle-state-has-no-hash-cache", n_pick, 0, exhaustive=False)
    # transitivity on triples: (e, rebuilt, pickled), (rebuilt, e, mutant), (e, mutant, mutant-twin)
    ntri = ntri_bad = 0
    for gi, cs in per_graph.items():
        byb = {}
        for c in cs:
            byb.setdefault(c.batch, []).append(c)
        objs = [cs[0].a] + [c.b for c in cs if c.batch in ("rebuilt", "pickled", "mutant", "mutant-twin",
                                                          "rebuilt-api")]
        k = len(objs)
        eqm = [[bool(objs[i] == objs[j]) for j in range(k)] for i in range(k)]
        for i in range(k):
            for j in range(k):
                for l in range(k):
                    ntri += 1
                    if eqm[i][j] and eqm[j][l] and not eqm[i][l]:
                        ntri_bad += 1
                        ctx.violation(f"eq-not-transitive:{eqterm.kind_of(objs[i])}",
                                      "a==b and b==c but not a==c among a graph, its copies and mutants",
                                      {"case": cs[0].recipe, "triple": [i, j, l]})
    ctx.note_batch("transitivity-triples", ntri, ntri_bad, exhaustive=False)
    for c in cases[:400:37]:
        ctx.sample({"batch": c.batch, "graph": c.recipe.get("graph"), "row": c.row, "real": c.real,
                    "lean": {k: v["struct"] for k, v in c.model.items()}, "nodes": c.nodes, "tree": c.tree})
    ctx.coverage["pair_distribution"] = {
        "mutated_rows": dict(sorted(rows_seen.items())),
        "heap_nodes_max": max(sizes) if sizes else 0,
        "heap_nodes_avg": round(sum(sizes) / len(sizes), 1) if sizes else 0,
        "mutants_equal_by_spec": sum(1 for c in cases if c.batch == "mutant" and c.model
                                     and c.model["sem"]["semeq"]),
        "mutants_different_by_spec": sum(1 for c in cases if c.batch == "mutant" and c.model
                                         and not c.model["sem"]["semeq"]),
    }
    return pickles, per_graph


def batch_spellings(ctx):
    """one node, built through the public API with its arguments SPELLED differently (dtype as class / string /
    np.dtype / alias, shape as tuple / list / numpy integers, axis as int / negative / numpy integer, tags as
    one tag / frozenset): the nodes must be equal, hash alike, carry an np.dtype, and get one persistent key"""
    import numpy as np
    import pytato as pt
    from pytato.analysis import PytatoKeyBuilder
    keyb = PytatoKeyBuilder()
    x = pt.make_placeholder("x", (3, 4), np.float64)
    dts = {"float32": [np.float32, "float32", np.dtype("float32"), "f4", np.dtype("<f4")],
           "int64": [np.int64, "int64", np.dtype("int64"), "i8", int],
           "float64": [np.float64, "float64", np.dtype("float64"), float, "d"],
           "complex128": [np.complex128, "complex128", np.dtype("complex128"), complex],
           "bool": [np.bool_, "bool", np.dtype("bool"), bool]}
    builders = {
        "zeros": lambda dt: pt.zeros((2, 3), dtype=dt), "ones": lambda dt: pt.ones((2, 3), dtype=dt),
        "full": lambda dt: pt.full((2, 3), 1, dtype=dt), "eye": lambda dt: pt.eye(3, dtype=dt),
        "eye-NMk": lambda dt: pt.eye(3, 4, 1, dtype=dt),
        "arange": lambda dt: pt.arange(5, dtype=dt), "placeholder": lambda dt: pt.make_placeholder("p", (2,), dt),
        "astype": lambda dt: x.astype(dt), "zeros_like": lambda dt: pt.zeros_like(x, dtype=dt),
        "ones_like": lambda dt: pt.ones_like(x, dtype=dt), "full_like": lambda dt: pt.full_like(x, 1, dtype=dt),
        "sum-dtype": lambda dt: pt.sum(x, dtype=dt) if dt not in (bool, np.bool_, "bool") else pt.sum(x),
    }
    groups = []
    for bname, b in builders.items():
        for dname, sp in dts.items():
            nodes = []
            for v in sp:
                try:
                    nodes.append((repr(v), b(v)))
                except Exception:   # noqa: BLE001
                    pass
            if len(nodes) >= 2:
                groups.append((f"{bname}:dtype={dname}", nodes))
    i8 = np.int64
    def each(*thunks):
        out = []
        for i, th in enumerate(thunks):
            try:
                out.append((str(i), th()))
            except Exception:   # noqa: BLE001  (a spelling pytato does not accept, e.g. a negative roll axis)
                pass
        return out
    F = kinds.VFooTag
    others = {
        "zeros:shape": each(lambda: pt.zeros((2, 3)), lambda: pt.zeros([2, 3]), lambda: pt.zeros((i8(2), np.int32(3))),
                            lambda: pt.zeros((2, 3), dtype=np.float64)),
        "full:shape+value": each(lambda: pt.full((2,), 1.0), lambda: pt.full([2], 1.0), lambda: pt.full((i8(2),), 1.0),
                                 lambda: pt.full(2, 1.0)),
        "reshape:newshape": each(lambda: pt.reshape(x, (4, 3)), lambda: pt.reshape(x, [4, 3]),
                                 lambda: pt.reshape(x, (i8(4), i8(3))), lambda: pt.reshape(x, (4, -1)),
                                 lambda: pt.reshape(x, (-1, 3)), lambda: x.reshape(4, 3), lambda: x.reshape((4, 3))),
        "reshape:order": each(lambda: pt.reshape(x, (4, 3), order="F"), lambda: pt.reshape(x, (4, 3), order="f")),
        "transpose:axes": each(lambda: pt.transpose(x), lambda: pt.transpose(x, (1, 0)), lambda: pt.transpose(x, [1, 0]),
                               lambda: x.T, lambda: pt.transpose(x, (i8(1), i8(0)))),
        "roll:axis": each(lambda: pt.roll(x, 1, 1), lambda: pt.roll(x, 1, -1), lambda: pt.roll(x, i8(1), i8(1))),
        "sum:axis": each(lambda: pt.sum(x, axis=1), lambda: pt.sum(x, axis=-1), lambda: pt.sum(x, axis=(1,)),
                         lambda: pt.sum(x, axis=i8(1))),
        "sum:all-axes": each(lambda: pt.sum(x), lambda: pt.sum(x, axis=None), lambda: pt.sum(x, axis=(0, 1)),
                             lambda: pt.sum(x, axis=(1, 0))),
        "stack:axis": each(lambda: pt.stack([x, x], axis=2), lambda: pt.stack([x, x], axis=-1),
                           lambda: pt.stack((x, x), axis=2)),
        "concatenate:axis": each(lambda: pt.concatenate([x, x], axis=1), lambda: pt.concatenate((x, x), axis=-1)),
        "index:int": each(lambda: x[1], lambda: x[1, :], lambda: x[i8(1)], lambda: x[-2], lambda: x[1, ...]),
        "index:slice": each(lambda: x[:, 1:3], lambda: x[:, 1:3:1], lambda: x[:, -3:-1], lambda: x[..., 1:3],
                            lambda: x[0:3, 1:3], lambda: x[:, i8(1):i8(3)]),
        "expand_dims": each(lambda: pt.expand_dims(x, 0), lambda: pt.expand_dims(x, (0,)), lambda: pt.expand_dims(x, -3)),
        "einsum:spec": each(lambda: pt.einsum("ij->j", x), lambda: pt.einsum("ab->b", x), lambda: pt.einsum(" ij -> j ", x)),
        "tagged": each(lambda: x.tagged(F()), lambda: x.tagged(frozenset({F()})), lambda: x.tagged([F()]),
                       lambda: x.tagged(F()).tagged(F())),
    }
    for k, nodes in others.items():
        if len(nodes) >= 2:
            groups.append((k, nodes))
    # integer parameters as numpy integers of every width
    for it in (np.int8, np.uint8, np.int16, np.uint16, np.int32, np.uint32, np.int64, np.uint64,
               # distinct scalar TYPES of the same widths (dispatch by type name misses them)
               np.longlong, np.ulonglong, np.intc, np.uintc, np.intp, np.uintp, np.short, np.byte):
        groups.append((f"numpy-integer-parameters:{it.__name__}", each(
            lambda: pt.roll(x, 1, 1), lambda: pt.roll(x, it(1), it(1)))))
        for nm, a, b in [
                ("reshape", lambda: pt.reshape(x, (4, 3)), lambda: pt.reshape(x, (it(4), it(3)))),
                ("transpose", lambda: pt.transpose(x, (1, 0)), lambda: pt.transpose(x, (it(1), it(0)))),
                ("index", lambda: x[1], lambda: x[it(1)]),
                ("slice", lambda: x[:, 1:3], lambda: x[:, it(1):it(3)]),
                ("stack", lambda: pt.stack([x, x], axis=1), lambda: pt.stack([x, x], axis=it(1))),
                ("concatenate", lambda: pt.concatenate([x, x], axis=1), lambda: pt.concatenate([x, x], axis=it(1))),
                ("broadcast_to", lambda: pt.broadcast_to(x, (2, 3, 4)), lambda: pt.broadcast_to(x, (it(2), 3, 4))),
                ("zeros", lambda: pt.zeros((2, 3)), lambda: pt.zeros((it(2), it(3)))),
                ("placeholder", lambda: pt.make_placeholder("p", (2,), np.float64),
                 lambda: pt.make_placeholder("p", (it(2),), np.float64)),
                ("eye", lambda: pt.eye(3), lambda: pt.eye(it(3))),
                ("sum-axis", lambda: pt.sum(x, axis=1), lambda: pt.sum(x, axis=it(1))),
                ("expand_dims", lambda: pt.expand_dims(x, (0,)), lambda: pt.expand_dims(x, (it(0),)))]:
            g = each(a, b)
            if len(g) == 2:
                groups.append((f"numpy-integer-parameters:{it.__name__}:{nm}", g))
    cases = dis = 0
    for label, nodes in groups:
        r0, n0 = nodes[0]
        for r, n in nodes:
            cases += 1
            if not isinstance(n.dtype, np.dtype):
                dis += 1
                ctx.violation("eq:spelling:dtype-not-normalised",
                              f"{label}: the node built with {r} has dtype {n.dtype!r}, not an np.dtype",
                              {"group": label, "spelling": r})
                continue
            eq = (n == n0) and (n0 == n)
            if not eq:
                # two spellings that pytato treats as different programs: only a finding if NumPy treats them alike
                # AND the nodes differ in nothing but the spelling (same shape and dtype) — recorded, judged below
                if n.shape == n0.shape and n.dtype == n0.dtype and label.split(":")[0] not in ("einsum", "sum", "index", "tagged",
                                                                                               "roll", "reshape"):
                    dis += 1
                    ctx.violation("eq:spelling:not-equal",
                                  f"{label}: spellings {r0} and {r} give different nodes", {"group": label, "a": r0, "b": r})
                continue
            if hash(n) != hash(n0):
                dis += 1
                ctx.violation("eq:spelling:equal-but-hash-differs",
                              f"{label}: the nodes built with {r0} and {r} are equal under == but hash differently",
                              {"group": label, "a": r0, "b": r})
            elif keyb(n) != keyb(n0):
                dis += 1
                ctx.violation("eq:spelling:equal-but-key-differs",
                              f"{label}: the nodes built with {r0} and {r} are equal but get different persistent keys",
                              {"group": label, "a": r0, "b": r})
    ctx.note_batch("argument-spellings", cases, dis, exhaustive=False, groups=len(groups))


def cross_process(ctx, seed: int, n: int, pickles, per_graph, hash_seeds):
    """fresh interpreters with other hash seeds: unpickle there, rebuild there, ship back"""
    outs = eqcases.run_children(ctx, seed, n, pickles, hash_seeds, tag="c04", families=eqfam.FAMILIES,
                                pickle_families=("callables", "kind-instances"))
    eqfam.judge_children(ctx, outs, "eq")
    ncase = ndis = 0
    for ch in outs:
        hs = ch["hash_seed"]
        for res in ch["results"]:
            gi = res["i"]
            pk_case = next(c for c in per_graph[gi] if c.batch == "pickled")
            expect_eq = pk_case.model["sem"]["semeq"] if pk_case.model else True
            rep = {"case": {"graph": {"seed": seed, "index": gi}, "kind": "xproc", "hash_seed": hs},
                   "child_report": {k: v for k, v in res.items() if not k.startswith("node_")},
                   "expected_equal": expect_eq}
            ncase += 1
            bad = False
            for kk in res["hv_present"]:
                bad = True
                ctx.violation(f"pickle-carries-hash-cache:{kk}",
                              f"after unpickling in a fresh interpreter (PYTHONHASHSEED={hs}) {kk} nodes already "
                              f"carry `_hash_value` from the pickling process", rep)
            if any(isinstance(res[k], str) for k in ("eq", "eq_rev", "ne", "hash_eq", "in_set")):
                bad = True
                ctx.violation("pickle-xproc-raises", f"comparison raised in the child: {res}", rep)
            else:
                if res["eq"] != expect_eq or res["eq_rev"] != expect_eq:
                    bad = True
                    ctx.violation(f"pickle-xproc-{'equal' if res['eq'] else 'unequal'}:{res.get('culprit_eq', '?')}",
                                  f"graph rebuilt in a fresh interpreter (hash seed {hs}) vs the parent's pickle "
                                  f"unpickled there: == is {res['eq']}/{res['eq_rev']}, expected {expect_eq}", rep)
                if res["eq"] and not res["hash_eq"]:
                    bad = True
                    ctx.violation(f"pickle-xproc-hash:{res.get('culprit_hash', '?')}",
                                  f"in a fresh interpreter (hash seed {hs}) the unpickled graph equals the rebuilt "
                                  f"one but hashes differently", rep)
                if res["ne"] != (not res["eq"]) or res["in_set"] != (res["eq"] and res["hash_eq"]):
                    bad = True
                    ctx.violation("pickle-xproc-operators-inconsistent", f"{res}", rep)
            if res["rt_eq"] != expect_eq or (res["rt_eq"] and not res["rt_hash_eq"]):
                bad = True
                ctx.violation("pickle-roundtrip-child", f"round trip inside the child: {res['rt_eq']}, "
                              f"hash equal {res['rt_hash_eq']}; expected {expect_eq}", rep)
            # the child's own graph, pickled there, unpickled here
            e = per_graph[gi][0].a
            q = pickle.loads(ch["pickles"][gi])
            hv = eqcases.hash_cache_kinds(q)
            ob = eqcases.observe(e, q)
            for kk in hv:
                bad = True
                ctx.violation(f"pickle-carries-hash-cache:{kk}",
                              f"a graph pickled under hash seed {hs} arrives with `_hash_value` set on {kk} nodes", rep)
            if ob["eq"] != expect_eq or ob["eq_rev"] != expect_eq:
                bad = True
                kk = eqcases.culprit(e, q, lambda x, y: (x == y) != expect_eq)
                ctx.violation(f"rebuilt-xproc-{'equal' if ob['eq'] else 'unequal'}:{kk}",
                              f"graph rebuilt and pickled under hash seed {hs}, unpickled here: == is {ob['eq']}, "
                              f"expected {expect_eq}", {**rep, "observed_here": ob})
            elif ob["eq"] is True and ob["hash_eq"] is not True:
                bad = True
                kk = eqcases.culprit(e, q, lambda x, y: (x == y) and hash(x) != hash(y))
                ctx.violation(f"pickle-xproc-hash:{kk}",
                              f"a graph rebuilt and pickled under hash seed {hs} equals the local one but hashes "
                              f"differently here", {**rep, "observed_here": ob})
            ndis += bad
    ctx.note_batch("fresh-interpreter-roundtrips", ncase, ndis, exhaustive=False,
                   hash_seeds=hash_seeds)


def run(ctx: common.Ctx):
    ctx.assumptions += ASSUMPTIONS
    t = eqtable.extract()
    ctx.coverage["generated_tables"] = {"lean/PtGen/EqTable.lean": common.sha256_file(eqtable.OUT)}
    ctx.coverage["table"] = {
        "kinds": len(t.kinds), "rows": sum(len(v) for v in t.fields.values()),
        "semantic_rows": sum(len(v) for v in t.semantic.values()), "probe_pairs": len(t.probes),
        "unprobed_rows": [list(r) for r in t.unprobed], "internal_rows": [list(r) for r in t.internal],
        "identity_kinds": t.identity_kinds,
        "compound_probes": sorted({f"{p.kind}.{p.row}" for p in t.probes if p.compound}),
        "internal_rows_observed": {f"{p.kind}.{p.row}": {"eq": p.eq, "hash_eq": p.hash_eq}
                                   for p in t.probes if (p.kind, p.row) in set(t.internal)},
    }
    for pr in t.problems:
        ctx.broken.append(f"translator:{pr}")
    missing = sorted(set(eqtable.concrete_node_classes()) - set(t.kinds))
    if missing:
        ctx.broken.append(f"translator:node-kinds-without-probe:{missing}")
    # (only the table module this check owns: building all of PtGen would make this check
    #  depend on other properties' generated files)
    ok = ctx.lean_obligations("PtProofs.C04", THEOREMS, extra_targets=["PtGen.EqTable"])
    nviol = table_violations(ctx, t)
    ctx.note_batch("table-probes", len(t.probes), nviol, exhaustive=True,
                   note="every node kind x every (pseudo-)field x every alternative value of gen/kinds.py "
                        "+ extract/eqtable.extra_specs")
    if not ok and any(b.startswith("lean-build:") for b in ctx.broken):
        rest = eqcases.unexplained_build_errors(ctx, "PtProofs/C04.lean",
                                                set(ctx.coverage["located_obligations"]))
        if not rest:
            # every failing declaration is a table obligation whose failing row has been
            # located: the probe pairs are the failing inputs
            ctx.broken = [b for b in ctx.broken if not b.startswith("lean-build:PtProofs.C04")]
        else:
            ctx.coverage["unexplained_build_errors"] = rest
    n_graphs, n_mut = (1500, 6) if ctx.thorough else (150, 3)
    batch_spellings(ctx)
    from .cfg_createdat import batch_createdat
    batch_createdat(ctx, "C04")
    pickles, per_graph = correspondence(ctx, t, ctx.seed, n_graphs, n_mut)
    n_x = 400 if ctx.thorough else 40
    seeds = [1, 2, 3, 4, 12345] if ctx.thorough else [1, 7, 4242]
    cross_process(ctx, ctx.seed, min(n_x, n_graphs), pickles, per_graph, seeds)
    eqfam.einsum_renamings(ctx, "eq")
    eqfam.constants(ctx, "eq")
    eqfam.equal_copies(ctx)
    eqfam.symbolic_shapes(ctx)
    ctx.broken = sorted(set(ctx.broken))[:40]


def replay(ctx, path):
    r = json.loads(open(path).read())
    print(json.dumps({k: r.get(k) for k in ("signature", "what")}, indent=1))
    if "probe" in r:
        pr = r["probe"]
        specs = eqtable.all_specs()
        base, mut = eqtable.build_pair(specs, pr["spec"], pr["field"], pr["variant"])
        from pytato.analysis import PytatoKeyBuilder
        p = eqtable.Probe(pr["kind"], pr["spec"], pr["field"], pr["variant"], pr["row"])
        eqtable.observe(p, base, mut, PytatoKeyBuilder())
        print("probe pair:", r.get("pair"))
        print("stored  :", json.dumps(r.get("observed")))
        print("observed:", json.dumps(p.replay()["observed"]))
        print(f"expected: the pair differs in `{pr['row']}` of a {pr['kind']}; a semantic field must flip == "
              f"(and equal nodes must hash equally)")
        return 0
    if "case" in r and r["case"].get("kind") == "xproc":
        return eqcases.replay_xproc(ctx, r)
    if "case" in r and r["case"].get("kind") not in (None, "xproc"):
        a, b = eqcases.rebuild_case(r["case"])
        from pytato.analysis import PytatoKeyBuilder
        ob = eqcases.observe(a, b, PytatoKeyBuilder())
        t = eqtable.extract(write=False)
        c = eqcases.Case(r.get("batch", "?"), 0, a, b)
        eqcases.run_lean(ctx, [c], t)
        print("case    :", json.dumps(r["case"]))
        print("stored  :", json.dumps(r.get("observed_real")))
        print("observed:", json.dumps(ob))
        print("lean    :", json.dumps({k: v for k, v in c.model.items()}))
        return 0
    print(json.dumps(r, indent=1)[:3000])
    print("re-running the C04 check on the current tree …")
    run(ctx)
    return ctx.finish()

"""C05 — equal-but-distinct duplicates on EVERY edge class.

Property clauses: "every transformation returns a graph with the same outputs" / "deduplicate yields
a duplicate-free graph with the same unfoldings" — on every valid DAG, in particular on DAGs that
contain structurally equal but distinct nodes (what deduplicate is FOR).  Whether a rebuilt node is
"a duplicate the mapper created by mistake" is decided from its predecessors; a predecessor list
that forgets an edge class turns a legitimate rebuild (the child on that edge was replaced by its
equal, first-seen instance) into a spurious diagnostic.

  family   one probe node of every kind (gen.probes) x every array-valued edge of it (operand, index
           array, slice bound, shape component, binding, dictionary entry, CSR parts, send payload, …)
           x the child on that edge replaced by a fresh equal object, the original being an output
             of its own that is visited first / last
  oracle   deduplicate — and the copy mapper with the checks on, after deduplication every other
           transformation of c05.transformations() — returns a graph: no diagnostic; the result is ==
           the argument and (deduplicate) free of duplicates, applying it twice changes nothing.
"""
from __future__ import annotations

import copy

from .. import heapser, reflect
from ..gen import probes


def cases():
    import pytato as pt
    from pytato.array import Array
    out = []
    for kind, node in sorted(probes.probe_nodes(with_loopy=True).items()):
        for label, child in reflect.children(node, into_functions=False):
            if not isinstance(child, Array) or type(child).__name__ in ("NamedCallResult", "LoopyCallResult"):
                continue
            try:
                twin = copy.copy(child)
                if not (twin == child) or twin is child:
                    continue
                rebuilt = probes.replace_child(node, label, twin)
            except Exception:   # noqa: BLE001  (an edge the reflective copy cannot rebuild)
                continue
            if isinstance(rebuilt, Array):
                outs = {"node": rebuilt}
            elif isinstance(rebuilt, pt.DictOfNamedArrays):
                outs = dict(rebuilt._data)
            elif type(rebuilt).__name__ in ("Call", "LoopyCall"):
                try:
                    outs = {f"node_{k}": rebuilt[k] for k in sorted(rebuilt.keys())}
                except Exception:   # noqa: BLE001
                    continue
            else:
                continue
            for order in ("original-first", "original-last"):
                # (both the insertion order and the sorted order of the names put the original first / last)
                key = "a_original" if order == "original-first" else "z_original"
                try:
                    d = dict({key: child}, **outs) if order == "original-first" else dict(outs, **{key: child})
                    g = pt.make_dict_of_named_arrays(d)
                except Exception:   # noqa: BLE001
                    continue
                out.append((kind, probes.edge_class(label), label, order, g))
    return out


def check_duplicates_on_every_edge(ctx, transformations, same_structure):
    import pytato as pt
    from pytato.transform import CopyMapper
    n = bad = 0
    reported = set()
    classes: dict[str, int] = {}
    unsupported: dict[str, int] = {}
    slice_bound_consequences = 0

    def report(sig, text, extra):
        nonlocal bad
        bad += 1
        if sig not in reported:
            reported.add(sig)
            ctx.violation(sig, text, dict(extra, check="dup-edges"))

    for kind, ecls, label, order, g in cases():
        classes[ecls] = classes.get(ecls, 0) + 1
        n += 1
        extra = {"kind": kind, "edge": label, "order": order}
        try:
            d1 = pt.transform.deduplicate(g)
        except Exception as e:   # noqa: BLE001
            report(f"transform:deduplicate:spurious-diagnostic:{ecls}:{type(e).__name__}",
                   f"a {kind} whose child on edge {label} is an equal copy of another output ({order}): deduplicate "
                   f"raises {type(e).__name__}: {e}", extra)
            continue
        # (reflective comparison: a data wrapper rebuilt around the same buffer is not `==` its original)
        if not (d1 == g) and not same_structure(d1, g):
            report(f"transform:deduplicate:changes-the-graph:{ecls}", f"{kind}/{label}/{order}: result != argument", extra)
            continue
        v = heapser.view(d1)
        if len(set(v.cls)) != len(v.cls) and ecls == "slice-bound":
            # consequence of C13's recorded finding mapper-misses:ALL:IndexBase:slice-bound (no mapper enters
            # array-valued slice bounds): counted, not reported a second time here
            slice_bound_consequences += 1
            continue
        if len(set(v.cls)) != len(v.cls):
            report(f"transform:deduplicate:result-has-duplicates:{ecls}",
                   f"{kind}/{label}/{order}: the deduplicated graph still has equal distinct nodes", extra)
            continue
        try:
            if pt.transform.deduplicate(d1) is not d1 and not (pt.transform.deduplicate(d1) == d1):
                report("transform:deduplicate:not-idempotent", f"{kind}/{label}/{order}", extra)
        except Exception as e:   # noqa: BLE001
            report(f"transform:deduplicate:second-application-raises:{type(e).__name__}", f"{kind}/{label}/{order}: {e}", extra)
            continue
        # on the deduplicated graph every transformation (copy mapper with its checks ON) must go through
        runs = dict({k: f for k, (f, _) in transformations.items() if k not in ("deduplicate", "preprocess")},
                    copy_mapper_checked=lambda e: CopyMapper()(e))
        for name, f in runs.items():
            try:
                f(d1)
            except NotImplementedError as e:
                key = f"{name}:{kind}:{str(e)[:40]}"
                unsupported[key] = unsupported.get(key, 0) + 1
            except Exception as e:   # noqa: BLE001
                if "NonUniqueTagError" in type(e).__name__:
                    continue
                report(f"transform:{name}:raises-after-deduplicate:{ecls}:{type(e).__name__}",
                       f"{kind}/{label}/{order}: {name} on the deduplicated graph raises {type(e).__name__}: {e}", extra)
    ctx.note_batch("duplicates-on-every-edge-class", n, bad, exhaustive=True, edge_classes=classes,
                   not_supported=len(unsupported), slice_bound_consequences_of_c13_finding=slice_bound_consequences)

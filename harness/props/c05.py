"""C05 — graph transformations preserve every output and never mutate their input.

Theorems (PtProofs/C05.lean, when present): over the heap model of transform
mappers — identity transformation returns its argument, transformations only
append (input prefix untouched), deduplication yields a duplicate-free heap with
the same unfoldings and is idempotent, a per-node denotation-preserving function
yields a denotation-preserving transformation for any sharing.

Tie / search: each real transformation (copy mapper, map_and_copy(identity),
deduplicate, deduplicate_data_wrappers, eliminate_dead_code,
materialize_with_mpms, unify_axes_tags, preprocessing for code generation),
singly and in seeded pipelines of length <= 4, on C01's programs plus
duplicated sub-expressions, zeros_like/ones_like dead references, multi-output
dictionaries, pre-tagged nodes and axes: same output names; every output keeps
shape, dtype and value (reference evaluator; thorough: also generated code);
the input graph is structurally unchanged (pickle snapshot, own structural
fingerprint) and wrapped data is byte-identical and not written; idempotence of
deduplicate / eliminate_dead_code / materialize_with_mpms; tag-adding
transformations change nothing but tags (reflective comparison ignoring
tag/axes fields)."""
from __future__ import annotations

import dataclasses
import pickle
import random

import numpy as np

from .. import cexec, common, reflect
from ..gen import programs
from ..refeval import close, evaluate
from .c07 import make_tagger

try:
    from .c05_theorems import THEOREMS
except ImportError:
    THEOREMS = []


def fingerprint(expr) -> tuple:
    """structural fingerprint by reflection (ids -> post-order numbers): kinds, scalar fields, tags, edges"""
    order = list(reflect.walk(expr, into_functions=True))
    num = {id(n): i for i, n in enumerate(order)}
    out = []
    for n in order:
        fields = []
        if dataclasses.is_dataclass(n):
            for f in dataclasses.fields(n):
                v = getattr(n, f.name)
                fields.append((f.name, _atom(v, num)))
        else:
            fields.append(("data", tuple(sorted((k, num.get(id(v), -1)) for k, v in getattr(n, "_data", {}).items()))))
            fields.append(("tags", _atom(getattr(n, "tags", None), num)))
        out.append((type(n).__name__, tuple(fields)))
    return tuple(out)


def _atom(v, num):
    from pytato.array import Array, AbstractResultWithNamedArrays
    from pytato.function import FunctionDefinition
    if isinstance(v, (Array, AbstractResultWithNamedArrays, FunctionDefinition)):
        return ("node", num.get(id(v), -1))
    if isinstance(v, np.ndarray):
        return ("ndarray", v.shape, str(v.dtype), v.tobytes())
    if isinstance(v, (tuple, list)):
        return tuple(_atom(x, num) for x in v)
    if isinstance(v, (frozenset, set)):
        return ("set", tuple(sorted(repr(_atom(x, num)) for x in v)))
    if isinstance(v, dict) or hasattr(v, "items"):
        try:
            return ("map", tuple(sorted((str(k), repr(_atom(x, num))) for k, x in v.items())))
        except Exception:   # noqa: BLE001
            return ("opaque", type(v).__name__)
    if dataclasses.is_dataclass(v) and not isinstance(v, type):
        return (type(v).__name__, tuple((f.name, _atom(getattr(v, f.name), num)) for f in dataclasses.fields(v)))
    if isinstance(v, (int, float, complex, str, bool, bytes, type(None), np.generic, np.dtype)):
        return repr(v)
    return ("obj", type(v).__name__, repr(v)[:80] if "0x" not in repr(v) else type(v).__name__)


def same_up_to_tags(a, b, memo=None) -> bool:
    """reflective structural comparison ignoring tags / axes / non_equality_tags"""
    from pytato.array import Array, AbstractResultWithNamedArrays, DictOfNamedArrays
    from pytato.function import FunctionDefinition
    memo = {} if memo is None else memo
    key = (id(a), id(b))
    if key in memo:
        return memo[key]
    memo[key] = True
    r = _sut(a, b, memo)
    memo[key] = r
    return r


def _sut(a, b, memo):
    from pytato.array import Array, AbstractResultWithNamedArrays, DictOfNamedArrays
    from pytato.function import FunctionDefinition
    nodecls = (Array, AbstractResultWithNamedArrays, FunctionDefinition)
    if isinstance(a, nodecls) or isinstance(b, nodecls):
        if type(a) is not type(b):
            return False
        if isinstance(a, DictOfNamedArrays):
            return set(a._data) == set(b._data) and all(same_up_to_tags(a._data[k], b._data[k], memo) for k in a._data)
        for f in dataclasses.fields(a):
            if f.name in ("tags", "axes", "non_equality_tags"):
                continue
            if not _sut(getattr(a, f.name), getattr(b, f.name), memo):
                return False
        return True
    if isinstance(a, np.ndarray) or isinstance(b, np.ndarray):
        return a is b or (isinstance(a, np.ndarray) and isinstance(b, np.ndarray) and a.shape == b.shape
                          and a.dtype == b.dtype and np.array_equal(a, b, equal_nan=a.dtype.kind in "fc"))
    if isinstance(a, (tuple, list)):
        return isinstance(b, (tuple, list)) and len(a) == len(b) and all(_sut(x, y, memo) for x, y in zip(a, b))
    if hasattr(a, "items") and hasattr(b, "items"):
        try:
            return set(a.keys()) == set(b.keys()) and all(_sut(a[k], b[k], memo) for k in a.keys())
        except TypeError:
            return a == b
    if dataclasses.is_dataclass(a) and not isinstance(a, type):
        if type(a) is not type(b):
            return False
        return all(f.name in ("tags",) or _sut(getattr(a, f.name), getattr(b, f.name), memo)
                   for f in dataclasses.fields(a))
    try:
        return bool(a == b)
    except Exception:   # noqa: BLE001
        return a is b


class _Scenario:
    """a hand-built graph with the interface of gen.programs.Program the transformation loop needs"""
    def __init__(self, name, outputs, inputs):
        self.name, self._outputs, self._inputs = name, outputs, inputs
        self.ops = [f"scenario:{name}"]
        self.index = name

    def expr(self):
        import pytato as pt
        return pt.make_dict_of_named_arrays(dict(self._outputs))

    def make_inputs(self, rng):
        return {k: np.array(v) for k, v in self._inputs.items()}

    def uses_single(self):
        return False


try:
    from pytools.tag import Tag as _Tag

    class _AxisTagForCsr(_Tag):
        pass
except Exception:   # noqa: BLE001
    _AxisTagForCsr = None


def scenarios(seed):
    """sharing patterns the seeded program stream produces rarely or never: one operand used several times by
    one node (every multi-operand kind), wrapped data that are overlapping views of one buffer"""
    import pytato as pt
    rng = np.random.default_rng(seed + 57)
    out = []
    xv, yv = rng.integers(-3, 4, 5).astype(np.float64), rng.integers(-3, 4, 5).astype(np.float64)
    mv = rng.integers(-2, 3, (3, 3)).astype(np.float64)
    iv = np.array([0, 2, 1], dtype=np.int64)

    def leaves():
        return (pt.make_placeholder("x", (5,), np.float64), pt.make_placeholder("y", (5,), np.float64),
                pt.make_placeholder("m", (3, 3), np.float64), pt.make_placeholder("i", (3,), np.int64))
    inputs = {"x": xv, "y": yv, "m": mv, "i": iv}
    for variant in ("leaf", "expr"):
        x, y, m, i = leaves()
        if variant == "expr":
            x, m = x + 1, 2 * m
        z = pt.zeros(2, dtype=np.float64)
        rep = {
            "concat-zxz": pt.concatenate([z, x, z]),
            "concat-xx": pt.concatenate([x, x]),
            "concat-mm-axis1": pt.concatenate([m, m, m], axis=1),
            "concat-xyx": pt.concatenate([x, y, x]),
            "stack-xx": pt.stack([x, x]),
            "stack-xyx": pt.stack([x, y, x], axis=1),
            "einsum-xx": pt.einsum("i,i->", x, x),
            "einsum-mm": pt.einsum("ij,jk->ik", m, m),
            "einsum-mmm": pt.einsum("ij,jk,kl->il", m, m, m),
            "matmul-mm": m @ m,
            "mul-xx": x * x,
            "where-xx": pt.where(pt.greater(x, 0), x, x),
            "maximum-xx": pt.maximum(x, x),
            "advindex-ii": m[i, i],
            "advindex-i-slice-i": pt.stack([m, m])[i % 2, :, i],
            "user-of-users": pt.concatenate([x * x, x * x]) + pt.concatenate([x, x]),
        }
        for k, v in rep.items():
            out.append(_Scenario(f"repeated-operand:{variant}:{k}", {"o": v, "p": v + 1}, inputs))
        x, y, m, i = leaves()
        t = x + y
        out.append(_Scenario(f"same-array-two-keys:{variant}", {"a": t, "b": t, "c": pt.concatenate([t, t])}, inputs))

        def f(u, v):
            return u * 2 + v
        x, y, m, i = leaves()
        try:
            out.append(_Scenario(f"call-same-argument-twice:{variant}", {"o": pt.trace_call(f, x, x) + y}, inputs))
        except Exception:   # noqa: BLE001
            pass
    # distinct nodes whose hashes collide (CPython: hash(-1) == hash(-2), hash(2**61 - 1) == hash(0), hash(1.0) == hash(1)):
    # anything keyed on the hash alone merges them
    x, y, m, i = leaves()
    M = 2 ** 61 - 1
    xi = pt.make_placeholder("xi", (5,), np.int64)
    inputs_h = dict(inputs, xi=np.array([3, -1, 0, 7, 2], dtype=np.int64))
    coll = {
        "sub-1-sub-2": (x - 1) * (x - 2),
        "add-neg1-neg2": pt.stack([x + (-1), x + (-2)]),
        "roll-1-roll-2": pt.roll(x, -1) - 2 * pt.roll(x, -2),
        "reverse-step-1-2": pt.concatenate([x[::-1], x[::-2]]),
        "index-1-index-2": x[-1] * 10 + x[-2],
        "int-modulus": pt.stack([xi + 0, xi + M]),
        "float-int-one": pt.stack([x * 1, x * 1.0]) if False else pt.stack([x + 1, x + 1.0]),
        "transpose-vs-identity-perm": pt.stack([pt.transpose(m, (1, 0)), pt.transpose(m, (0, 1))]),
        "full-neg1-neg2": pt.full((3,), -1.0) * 3 + pt.full((3,), -2.0),
        "pad-neg-constants": pt.concatenate([pt.pad(x, 1, constant_values=-1), pt.pad(x, 1, constant_values=-2)]),
    }
    for k, v in coll.items():
        out.append(_Scenario(f"hash-collision:{k}", {"o": v}, inputs_h))
    # wrapped data: overlapping views of one buffer
    base = np.arange(16, dtype=np.float64) * 1.5 - 7
    sq = base.reshape(4, 4)
    v = pt.make_placeholder("v", (4,), np.float64)
    vin = {"v": np.array([1.0, -2.0, 3.0, 0.5])}
    views = {
        "square-and-transpose": (sq, sq.T),
        "same-pointer-other-stride": (base[:4], base[::2][:4]),
        "same-view-twice": (base[:4], base[:4]),
        "offset-views": (base[:4], base[4:8]),
        "overlapping-offset": (base[1:5], base[2:6]),
        "same-pointer-other-shape": (base[:8].reshape(2, 4), base[:8].reshape(4, 2)),
        "same-pointer-other-dtype": (base[:4], base[:4].view(np.int64)),
        "negative-stride": (base[:4], base[3::-1]),
        "equal-contents-other-buffer": (base[:4], base[:4].copy()),
        "fortran-order": (sq, np.asfortranarray(sq)),
        # same start, same strides, same dtype -- only the LENGTH differs (a prefix view), both visiting orders
        "prefix-view-long-first": (base[:12], base[:4]),
        "prefix-view-short-first": (base[:4], base[:12]),
        "prefix-view-2d": (sq[:2], sq),
        "prefix-view-2d-short-first": (sq[:1], sq[:3]),
    }
    for k, (a, b) in views.items():
        da, db = pt.make_data_wrapper(a), pt.make_data_wrapper(b)
        outs = {}
        if a.shape == b.shape and a.dtype == b.dtype:
            outs["diff"] = da - db
        if a.ndim == 2:
            outs["av"] = da @ v
        if b.ndim == 2 and b.shape[1] == 4:
            outs["bv"] = db @ v
        outs["sa"] = pt.sum(da * 2)
        outs["sb"] = pt.sum(db * 3) if b.dtype.kind == "f" else pt.sum(db % 7)
        out.append(_Scenario(f"data-wrapper-views:{k}", outs, vin))
    # a sparse (CSR) product whose three matrix operand arrays each get REPLACED by some transformation: wrapped data
    # sharing a buffer with another wrapper (deduplicate_data_wrappers), expressions with a dead zeros_like / a
    # duplicated sub-expression (eliminate_dead_code, deduplicate), operands reached by an axis tag (unify_axes_tags)
    ev = np.array([-1.5, 2.0, 0.5, 3.0, -2.0])
    ec = np.array([0, 2, 1, 0, 2], dtype=np.int64)
    rs = np.array([0, 2, 3, 5], dtype=np.int64)
    xs = pt.make_placeholder("xs", (3,), np.float64)
    xin = {"xs": np.array([1.0, -2.0, 0.5]), "evp": ev, "ecp": ec, "rsp": rs}

    def csr_cases():
        evw, ecw, rsw = pt.make_data_wrapper(ev), pt.make_data_wrapper(ec), pt.make_data_wrapper(rs)
        evp = pt.make_placeholder("evp", (5,), np.float64)
        ecp = pt.make_placeholder("ecp", (5,), np.int64)
        rsp = pt.make_placeholder("rsp", (4,), np.int64)
        yield "wrappers-sharing-buffers", (evw, ecw, rsw), {"also_ev": pt.make_data_wrapper(ev) * 2,
                                                            "also_ec": pt.make_data_wrapper(ec) + 1,
                                                            "also_rs": pt.make_data_wrapper(rs) - 1}
        yield "operands-with-dead-zeros", (evp + pt.zeros_like(evp), ecp + pt.zeros_like(ecp), rsp + pt.zeros_like(rsp)), {}
        yield "operands-with-duplicated-subexpressions", ((evp * 2) / 2 + (evp * 2) * 0, (ecp + 1) - 1, (rsp + 2) - 2), \
            {"dup": (evp * 2) + 1}
        tagged = evp.with_tagged_axis(0, _AxisTagForCsr())
        yield "operands-reached-by-an-axis-tag", (tagged * 1.0, ecp + 0, rsp + 0), {"t": tagged + 1}
    for lbl, (o_ev, o_ec, o_rs), extra in csr_cases():
        try:
            mat = pt.make_csr_matrix((3, 3), o_ev, o_ec, o_rs)
            y = mat @ xs
        except Exception:   # noqa: BLE001
            continue
        out.append(_Scenario(f"csr-matrix-operands-replaced:{lbl}", dict({"y": y, "y2": 2 * y}, **extra), xin))
    return out


def transformations():
    import pytato as pt
    from pytato.transform import CopyMapper, deduplicate, deduplicate_data_wrappers, map_and_copy
    from pytools.tag import Tag

    def copy_mapper(e):
        return CopyMapper(err_on_collision=False, err_on_created_duplicate=False)(e)

    def lower(e):
        from pytato.codegen import preprocess
        from pytato.target.loopy import LoopyPyOpenCLTarget
        r = preprocess(e, LoopyPyOpenCLTarget())
        # data wrappers became bound placeholders: bind them back for evaluation
        return ("preprocessed", r)

    return {
        "copy_mapper": (copy_mapper, {"values"}),
        "map_and_copy_identity": (lambda e: map_and_copy(e, lambda x: x), {"values", "identity"}),
        "deduplicate": (deduplicate, {"values", "idempotent"}),
        "deduplicate_data_wrappers": (deduplicate_data_wrappers, {"values"}),
        "eliminate_dead_code": (pt.eliminate_dead_code, {"values", "idempotent"}),
        "materialize_with_mpms": (pt.materialize_with_mpms, {"values", "idempotent", "tags-only"}),
        "unify_axes_tags": (lambda e: pt.unify_axes_tags(e), {"values", "tags-only"}),
        "preprocess": (lower, {"values"}),
    }


def run(ctx: common.Ctx):
    import pytato as pt
    from pytato.array import DataWrapper
    ctx.assumptions += [
        "Python-level mutation/aliasing cannot be exhibited by a functional model: monitored by snapshots at run time",
        "every graph is deduplicated before the other transformations, as pytato requires",
    ]
    if THEOREMS:
        ctx.lean_obligations("PtProofs.C05", THEOREMS)
    else:
        ctx.coverage["lean"] = "C05 theorem file not yet present in this revision"
    T = transformations()
    names = sorted(T)
    N = 1500 if ctx.thorough else 300
    rng = random.Random(ctx.seed * 53 + 5)
    nprng = np.random.default_rng(ctx.seed + 51)
    cases = dis = 0
    per: dict[str, int] = {n: 0 for n in names}
    unsupported: dict[str, int] = {}
    pipelines = 0
    codegen_jobs, codegen_meta = [], []
    lean_q: list = []
    scen = scenarios(ctx.seed)
    ctx.coverage["scenarios"] = [sc.name for sc in scen]
    for i in range(N + len(scen)):
        if i < N:
            tagger = make_tagger(ctx.seed * 977 + i, density=0.3) if rng.random() < 0.5 else None
            p = programs.generate(ctx.seed + 500, i, tagger=tagger)
            deduped = rng.random() < 0.8
        else:
            tagger = None
            p = scen[i - N]
            deduped = True
            i = p.name
        try:
            base = pt.transform.deduplicate(p.expr()) if deduped else p.expr()
        except Exception as e:   # noqa: BLE001
            dis += 1
            cases += 1
            ctx.violation(f"transform:deduplicate:raises:{type(e).__name__}",
                          f"program {i} (seed {ctx.seed}): deduplicate raised {type(e).__name__}: {e}",
                          {"program_index": i, "seed": ctx.seed + 500})
            continue
        inp = p.make_inputs(nprng)
        try:
            # the reference comes from the graph AS BUILT: `base` has already been through deduplicate
            ref = evaluate(p.expr(), inp)
        except Exception as e:   # noqa: BLE001
            ctx.broken.append(f"refeval:{type(e).__name__}:program{i}")
            continue
        # what to apply: each transformation singly on some programs, pipelines on others
        if isinstance(i, int) and rng.random() < 0.35:
            inner = [n for n in names if n != "preprocess"]
            seqs = [[rng.choice(inner) for _ in range(rng.randint(2, 4))]]
            if rng.random() < 0.3:
                seqs[0].append("preprocess")     # lowering can only come last (its result is not a plain graph)
            pipelines += 1
        else:
            seqs = [[n] for n in names]
        if not deduped:
            # a graph with structurally equal duplicates: the other mappers are documented to REPORT the
            # collision; only deduplicate (and the copy mapper with the checks off) apply, or come first
            seqs = [["deduplicate"], ["copy_mapper"], ["deduplicate", rng.choice(names)],
                    ["copy_mapper", "deduplicate", rng.choice([n for n in names if n != "preprocess"])]]
        for seq in seqs:
            cases += 1
            snap_pickle = pickle.dumps(base)
            snap_fp = fingerprint(base)
            dws = [n for n in reflect.walk(base) if isinstance(n, DataWrapper)]
            snap_data = [(d.data.tobytes(), d.data.flags.writeable) for d in dws]
            cur = base
            failed = False
            label = "+".join(seq)
            for name in seq:
                f, _props = T[name]
                per[name] += 1
                try:
                    cur2 = f(cur)
                except (NotImplementedError,) as e:
                    key = f"{name}:{type(e).__name__}:{str(e)[:50]}"
                    unsupported[key] = unsupported.get(key, 0) + 1
                    failed = True
                    break
                except Exception as e:   # noqa: BLE001
                    from .c01 import _short
                    failed = True
                    if type(e).__name__ == "NonUniqueTagError" and tagger is not None \
                            and name in ("materialize_with_mpms", "preprocess"):
                        # the user's own ImplInlined / ImplSubstitution on a node the materializer wants stored:
                        # an explicit diagnostic of the tag system, not a changed value
                        key = f"{name}:NonUniqueTagError on a pre-tagged graph"
                        unsupported[key] = unsupported.get(key, 0) + 1
                        break
                    dis += 1
                    ctx.violation(f"transform:{name}:raises:{type(e).__name__}:{_short(str(e))}",
                                  f"program {i} (seed {ctx.seed}) pipeline {label}: {name} raised {type(e).__name__}: {e}",
                                  {"program_index": i, "seed": ctx.seed + 500, "pipeline": seq, "tagged": tagger is not None})
                    break
                if isinstance(cur2, tuple) and cur2 and cur2[0] == "preprocessed":
                    r = cur2[1]
                    cur_eval, bound = r.outputs, {k: np.asarray(v) for k, v in r.bound_arguments.items()}
                    cur = None
                    outs_now = cur_eval
                    inp_now = dict(inp, **bound)
                else:
                    cur = cur2
                    outs_now = cur
                    inp_now = inp
            if failed:
                continue
            # input untouched?
            # (pickle BYTES are not comparable: memoised properties cached on the objects get pickled; and an
            #  unpickled copy never equals a graph with data wrappers, which have identity semantics — the
            #  structural fingerprint by reflection, incl. the bytes of wrapped data, is the snapshot)
            if fingerprint(base) != snap_fp:
                dis += 1
                ctx.violation(f"transform:{label}:mutates-input",
                              f"program {i}: the graph passed to {label} is structurally different afterwards",
                              {"program_index": i, "seed": ctx.seed + 500, "pipeline": seq})
                continue
            if [(d.data.tobytes(), d.data.flags.writeable) for d in dws] != snap_data:
                dis += 1
                ctx.violation(f"transform:{label}:writes-wrapped-data", f"program {i}: wrapped ndarray data changed",
                              {"program_index": i, "seed": ctx.seed + 500, "pipeline": seq})
                continue
            # names, shapes, dtypes, values
            if sorted(outs_now._data) != sorted(base._data):
                dis += 1
                ctx.violation(f"transform:{label}:output-names", f"program {i}: output names changed",
                              {"program_index": i, "seed": ctx.seed + 500, "pipeline": seq})
                continue
            try:
                got = evaluate(outs_now, inp_now)
            except Exception as e:   # noqa: BLE001
                dis += 1
                ctx.violation(f"transform:{label}:result-invalid:{type(e).__name__}",
                              f"program {i}: the result of {label} cannot be evaluated: {e}",
                              {"program_index": i, "seed": ctx.seed + 500, "pipeline": seq})
                continue
            bad = [k for k in ref if tuple(outs_now._data[k].shape) != tuple(base._data[k].shape)
                   or outs_now._data[k].dtype != base._data[k].dtype
                   or not close(got[k], ref[k], single=p.uses_single())]
            if bad:
                dis += 1
                ctx.violation(f"transform:{label}:value-changed",
                              f"program {i} (seed {ctx.seed}): outputs {bad} differ (shape/dtype/value) after {label} "
                              f"(ops {sorted(set(p.ops))})",
                              {"program_index": i, "seed": ctx.seed + 500, "pipeline": seq, "outputs": bad,
                               "tagged": tagger is not None})
                continue
            if len(seq) == 1 and cur is not None and seq[0] != "preprocess":
                # the real result in the Lean heap model: one combined heap of input and output objects
                try:
                    from .. import heapser
                    ign = ("@dw-by-buffer",) if seq[0] == "deduplicate_data_wrappers" else ()
                    hv, (r_in, r_out) = heapser.view_many([base, cur], attr_ignore=ign)
                    heap = hv.sexp()
                    hv_in, _ = heapser.view_many([base], attr_ignore=ign)
                    lean_q.append((i, seq[0], [f"(mapper unfoldeq {heap} {r_in} {r_out})",
                                               f"(mapper sametags {heap} {r_in} {r_out})",
                                               f"(mapper dupfree {heap} {r_out})",
                                               f"(mapper extends {hv_in.sexp()} {heap})"]))
                except Exception as e:   # noqa: BLE001
                    ctx.coverage.setdefault("heap_serialisation_skipped", {})
                    k = f"{type(e).__name__}"
                    ctx.coverage["heap_serialisation_skipped"][k] = ctx.coverage["heap_serialisation_skipped"].get(k, 0) + 1
            if len(seq) == 1 and cur is not None:
                name = seq[0]
                props = T[name][1]
                if "idempotent" in props:
                    try:
                        again = T[name][0](cur)
                        if not (again == cur):
                            dis += 1
                            ctx.violation(f"transform:{name}:not-idempotent",
                                          f"program {i}: applying {name} twice differs from applying it once",
                                          {"program_index": i, "seed": ctx.seed + 500})
                            continue
                    except Exception as e:   # noqa: BLE001
                        dis += 1
                        ctx.violation(f"transform:{name}:second-application-raises:{type(e).__name__}",
                                      f"program {i}: {e}", {"program_index": i, "seed": ctx.seed + 500})
                        continue
                if "tags-only" in props and not same_up_to_tags(cur, base):
                    dis += 1
                    ctx.violation(f"transform:{name}:changes-more-than-tags",
                                  f"program {i}: {name} changed something other than tags/axes tags",
                                  {"program_index": i, "seed": ctx.seed + 500})
                    continue
                if "identity" in props and cur is not base:
                    dis += 1
                    ctx.violation(f"transform:{name}:identity-not-returned",
                                  f"program {i}: {name} with an identity function did not return its argument itself",
                                  {"program_index": i, "seed": ctx.seed + 500})
                    continue
                if ctx.thorough and name in ("materialize_with_mpms", "deduplicate", "eliminate_dead_code") \
                        and len(codegen_jobs) < 400:
                    codegen_jobs.append(cexec.Job(tag=f"t{i}:{name}", expr=cur, runs=[inp], want_source=True))
                    codegen_meta.append((i, name, ref, p))
        if isinstance(i, int) and i % 20 == 0:
            ctx.sample({"batch": "transformations", "program": i, "ops": sorted(set(p.ops))[:10],
                        "pre_tagged": tagger is not None})
    from . import c05_idempotence
    c05_idempotence.check_idempotence(ctx, T, fingerprint)
    from . import c05_dup_edges
    c05_dup_edges.check_duplicates_on_every_edge(ctx, T, same_up_to_tags)
    ctx.note_batch("transformations-vs-reference", cases, dis, exhaustive=False, programs=N, scenarios=len(scen), applications=per,
                   pipelines=pipelines, not_supported=unsupported)
    # verified/structural checkers of the Lean heap model on the REAL inputs and results
    flat = [q for _, _, qs in lean_q for q in qs]
    ans = common.driver_query_parallel(flat)
    ldis = 0
    stats = {"unfold_equal": 0, "same_up_to_tags": 0, "result_dupfree": 0, "extends_input": 0}
    for k, (i, name, qs) in enumerate(lean_q):
        a = ans[4 * k:4 * k + 4]
        unfoldeq, sametags, dupfree, extends = (x.startswith("ok #t") for x in a)
        stats["unfold_equal"] += unfoldeq
        stats["same_up_to_tags"] += sametags
        stats["result_dupfree"] += dupfree
        stats["extends_input"] += extends
        if any(not x.startswith("ok") for x in a):
            ldis += 1
            ctx.broken.append(f"lean-heap-query:{name}:{[x[:40] for x in a if not x.startswith('ok')]}")
            continue
        if not extends:
            ldis += 1
            ctx.violation(f"transform:{name}:input-heap-changed",
                          f"program {i}: in the combined heap the input objects' data differ after {name}",
                          {"program_index": i, "seed": ctx.seed + 500})
        if name in ("deduplicate", "copy_mapper", "map_and_copy_identity", "deduplicate_data_wrappers") and not unfoldeq:
            ldis += 1
            ctx.violation(f"transform:{name}:unfolding-changed",
                          f"program {i}: the result of {name} does not unfold to the same tree as its argument",
                          {"program_index": i, "seed": ctx.seed + 500})
        if name in ("materialize_with_mpms",) and not sametags:
            ldis += 1
            ctx.violation(f"transform:{name}:changes-more-than-tags(heap)",
                          f"program {i}: result and argument differ beyond node tags", {"program_index": i})
        if name == "deduplicate" and not dupfree:
            ldis += 1
            ctx.violation("transform:deduplicate:result-has-duplicates",
                          f"program {i}: the deduplicated graph still contains structurally equal distinct nodes: {a[2]}",
                          {"program_index": i, "seed": ctx.seed + 500})
    ctx.note_batch("lean-heap-checkers-on-real-results", len(lean_q), ldis, exhaustive=False, **stats)
    if codegen_jobs:
        res = cexec.run_jobs(ctx, codegen_jobs)
        cdis = printer = 0
        for (i, name, ref, p), r in zip(codegen_meta, res):
            if r.error:
                continue
            if any(k in r.outputs[0] and not close(r.outputs[0][k], ref[k], single=p.uses_single()) for k in ref):
                from .c01 import _c_bitwise_next_to_comparison
                if _c_bitwise_next_to_comparison(getattr(r, "source", None) or ""):
                    # loopy's C printer (recorded under C01 / C07 / C15): not something the transformation did
                    printer += 1
                    continue
                cdis += 1
                ctx.violation(f"transform:{name}:generated-code-value-changed", f"program {i}",
                              {"program_index": i, "seed": ctx.seed + 500})
        ctx.note_batch("generated-code-of-transformed-graphs", len(codegen_jobs), cdis, exhaustive=False,
                       skipped_known_c_printer_pattern=printer)
    ctx.broken = sorted(set(ctx.broken))[:50]


def replay(ctx, path):
    print(open(path).read()[:3000])
    run(ctx)
    return ctx.finish()

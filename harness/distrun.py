"""distrun — run pytato's distributed layer (unmodified) on fakempi: partition a generated
multi-rank program on every rank-thread, serialise the partitions, execute them under a
scheduler, and check results against the global reference evaluation.  Shared by C08-C10."""
from __future__ import annotations

import dataclasses
import sys
from dataclasses import dataclass, field
from typing import Any

import numpy as np

from . import fakempi
from .gen import comm as G

BASE_TAG = 1000


def setup():
    fakempi.install()


# --------------------------------------------------------------------------- partitioning

@dataclass
class RankPart:
    stage: str = "start"          # last stage entered: build/find/verify/number/done
    status: str = "pending"       # ok | raised | blocked | timeout
    exc_class: str | None = None
    exc_text: str | None = None
    part: Any = None              # symbolic-tag partition
    npart: Any = None             # numbered partition
    next_tag: int | None = None


@dataclass
class PRun:
    spec: dict
    ranks: list[RankPart]
    batches: Any = None           # comm_batches broadcast by rank 0
    gathered_tags: Any = None     # what number_distributed_tags gathered on the root
    tag_maps: list = field(default_factory=list)   # per rank: the broadcast (mapping, next)
    coll_mismatch: list = field(default_factory=list)

    @property
    def all_ok(self):
        return all(r.status == "ok" for r in self.ranks)


def partition_program(spec, timeout=30.0, do_verify=True, do_number=True) -> PRun:
    from pytato.distributed.partition import find_distributed_partition
    from pytato.distributed.tags import number_distributed_tags
    from pytato.distributed.verify import verify_distributed_partition
    n = spec["nranks"]
    rps = [RankPart() for _ in range(n)]

    def fn(comm):
        rp = rps[comm.rank]
        rp.stage = "build"
        outs = G.build(spec, comm.rank)
        rp.stage = "find"
        rp.part = find_distributed_partition(comm, outs)
        if do_verify:
            rp.stage = "verify"
            verify_distributed_partition(comm, rp.part)
        if do_number:
            rp.stage = "number"
            rp.npart, rp.next_tag = number_distributed_tags(comm, rp.part, base_tag=BASE_TAG)
        rp.stage = "done"
        return True

    world = fakempi.World(n, timeout=timeout, scheduled=False)
    outs = world.run(fn)
    for rp, o in zip(rps, outs):
        rp.status = o.status
        if o.exc is not None and o.status == "raised":
            rp.exc_class = type(o.exc).__name__
            rp.exc_text = str(o.exc)[:300]
    pr = PRun(spec, rps, coll_mismatch=list(world.coll_mismatch))
    # collective payloads: the first bcast of find is the batches (or the exception)
    log0 = world.coll_log[0] if world.coll_log else []
    bcasts = [vals for kind, vals in log0 if kind == "bcast"]
    if bcasts:
        pr.batches = bcasts[0][0]
    gathers = [vals for kind, vals in log0 if kind == "gather"]
    if do_number and len(gathers) >= (2 if do_verify else 1):
        pr.gathered_tags = gathers[-1]
    for r in range(n):
        bl = [vals for kind, vals in world.coll_log[r] if kind == "bcast"]
        pr.tag_maps.append(bl[-1][0] if (do_number and len(bl) >= 2) else None)
    return pr


# --------------------------------------------------------------------------- reflective walk

def walk_arrays(root):
    """every Array reachable from `root` through dataclass fields (no pytato mapper involved)"""
    from pytato.array import Array
    from pytato.distributed.nodes import DistributedSend
    seen: dict[int, Any] = {}
    stack = [root]
    while stack:
        x = stack.pop()
        if isinstance(x, (Array, DistributedSend)):
            if id(x) in seen:
                continue
            seen[id(x)] = x
            for f in dataclasses.fields(x):
                if f.name in ("tags", "non_equality_tags", "axes", "dtype", "var_to_reduction_descr"):
                    continue
                stack.append(getattr(x, f.name))
        elif isinstance(x, (tuple, list, frozenset, set)):
            stack.extend(x)
        elif hasattr(x, "items") and not isinstance(x, (str, bytes)):
            try:
                stack.extend(v for _, v in x.items())
            except Exception:
                pass
    return list(seen.values())


def tag_index(spec, tag):
    for i, d in enumerate(spec["tags"]):
        if G.tag_to_py(d) == tag and type(G.tag_to_py(d)) is type(tag):
            return i
    return None


def serialize_partition(pr: PRun, rank: int):
    """one rank's DistributedGraphPartition(s) as plain data (names kept as strings)"""
    from pytato.array import Placeholder
    from pytato.distributed.nodes import DistributedRecv, DistributedSend, DistributedSendRefHolder
    rp = pr.ranks[rank]
    part, npart = rp.part, rp.npart
    spec = pr.spec
    out = {"rank": rank, "parts": [], "overall": list(part.overall_output_names),
           "user": sorted(G.input_args(spec, rank)), "problems": [], "type_problems": []}
    for pid in part.parts:
        p = part.parts[pid]
        if p.pid != pid:
            out["problems"].append(f"pid key {pid!r} != part.pid {p.pid!r}")
        q = npart.parts[pid] if npart is not None else None
        recvs, sends = [], []
        for name in sorted(p.name_to_recv_node):
            rv = p.name_to_recv_node[name]
            ti = tag_index(spec, rv.comm_tag)
            it = q.name_to_recv_node[name].comm_tag if q is not None else None
            recvs.append([name, rv.src_rank, ti, it, list(rv.shape), str(rv.dtype)])
        for name in sorted(p.name_to_send_nodes):
            for k, sd in enumerate(p.name_to_send_nodes[name]):
                ti = tag_index(spec, sd.comm_tag)
                it = q.name_to_send_nodes[name][k].comm_tag if q is not None else None
                sends.append([name, sd.dest_rank, ti, it, list(sd.data.shape), str(sd.data.dtype)])
        # expressions of this part: placeholders read, communication nodes inside
        reads, commnodes, missing_exprs = set(), 0, []
        for on in sorted(p.output_names):
            if on not in part.name_to_output:
                missing_exprs.append(on)
                continue
            for nd in walk_arrays(part.name_to_output[on]):
                if isinstance(nd, Placeholder):
                    reads.add(nd.name)
                elif isinstance(nd, (DistributedRecv, DistributedSendRefHolder, DistributedSend)):
                    commnodes += 1
        for name, sds in p.name_to_send_nodes.items():
            for sd in sds:
                for nd in walk_arrays(sd.data):
                    if isinstance(nd, (DistributedRecv, DistributedSendRefHolder)):
                        commnodes += 1
        # every part-input placeholder must be typed exactly like the array it stands for
        recv_of = {nm: rv for q in part.parts.values() for nm, rv in q.name_to_recv_node.items()}
        exprs = [part.name_to_output[on] for on in sorted(p.output_names) if on in part.name_to_output]
        exprs += [sd.data for sds in p.name_to_send_nodes.values() for sd in sds]
        seen_ph = {}
        for e in exprs:
            for nd in walk_arrays(e):
                if isinstance(nd, Placeholder):
                    seen_ph[nd.name] = nd
        for nm in sorted(p.partition_input_names):
            ph = seen_ph.get(nm)
            prod = recv_of.get(nm, part.name_to_output.get(nm))
            if ph is None or prod is None:
                continue
            for fld in ("shape", "dtype", "axes", "tags"):
                if getattr(ph, fld) != getattr(prod, fld):
                    out["type_problems"].append(
                        f"part-input-type-{fld}:rank{rank}:part{pid}:{nm}:"
                        f"{str(getattr(ph, fld))[:60]}!={str(getattr(prod, fld))[:60]}")
        out["parts"].append({
            "pid": pid, "needs": sorted(p.needed_pids), "user": sorted(p.user_input_names),
            "pin": sorted(p.partition_input_names), "out": sorted(p.output_names),
            "recvs": recvs, "sends": sends, "reads": sorted(reads), "commnodes": commnodes,
            "missing_exprs": missing_exprs})
    return out


def name_tables(psers):
    """per rank: name -> small integer (sorted order)"""
    tabs = []
    for ps in psers:
        names = set(ps["user"]) | set(ps["overall"])
        for p in ps["parts"]:
            names |= set(p["user"]) | set(p["pin"]) | set(p["out"]) | set(p["reads"])
            names |= {r[0] for r in p["recvs"]} | {s[0] for s in p["sends"]}
        tabs.append({nm: i for i, nm in enumerate(sorted(names))})
    return tabs


def _ints(xs):
    return "(" + " ".join(str(int(x)) for x in xs) + ")"


def lean_partition(psers, tabs=None, tagkey=2):
    """the union of all ranks' partitions in ptdriver's wire format.  Tags: index of the
    symbolic tag (tagkey=2) or the integer assigned by number_distributed_tags (tagkey=3).
    Part ids must be integers (they are, in find_distributed_partition's output)."""
    tabs = tabs or name_tables(psers)
    ranks = []
    for ps, tab in zip(psers, tabs):
        parts = []
        for p in ps["parts"]:
            recvs = " ".join(f"({tab[r[0]]} {r[1]} {_tagnum(r[tagkey])})" for r in p["recvs"])
            sends = " ".join(f"({tab[s[0]]} {s[1]} {_tagnum(s[tagkey])})" for s in p["sends"])
            ins = sorted({tab[n] for n in p["user"]} | {tab[n] for n in p["pin"]})
            pure = 1 if (p["commnodes"] == 0 and not p["missing_exprs"]
                         and set(p["reads"]) <= set(p["user"]) | set(p["pin"])) else 0
            parts.append(f"({int(p['pid'])} {_ints(p['needs'])} {_ints(ins)} "
                         f"{_ints(tab[n] for n in p['out'])} ({recvs}) ({sends}) {pure})")
        ranks.append(f"(({' '.join(parts)}) {_ints(tab[n] for n in ps['user'])} "
                     f"{_ints(tab[n] for n in ps['overall'])})")
    return "(" + " ".join(ranks) + ")"


def _tagnum(t):
    if t is None:
        return 999983      # a tag the program does not know: matches nothing
    return int(t)


def lean_graph(spec):
    gs, gr = G.comm_graph(spec)
    sends = " ".join(f"({r} {d} {t} ({' '.join(f'({a} {b})' for a, b in deps)}))" for r, d, t, deps in gs)
    recvs = " ".join(f"({r} {s} {t})" for r, s, t in gr)
    return f"(({sends}) ({recvs}))"


# --------------------------------------------------------------------------- independent clause checks

def py_check_clauses(psers):
    """the seven clauses of C09, checked directly on the serialised partitions.
    Returns a list of 'clause:detail' strings (empty = fine)."""
    bad = []
    for ps in psers:
        r = ps["rank"]
        parts = ps["parts"]
        pids = [p["pid"] for p in parts]
        bypid = {p["pid"]: p for p in parts}
        if len(set(pids)) != len(pids):
            bad.append(f"pids-unique:rank{r}")
        bad += [f"partition-record:rank{r}:{x}" for x in ps["problems"]]
        bad += list(ps.get("type_problems", []))
        # clause 6 (local): needs acyclic; compute ancestors
        anc: dict = {}

        def ancestors(pid, stack=()):
            if pid in anc:
                return anc[pid]
            if pid in stack:
                bad.append(f"part-order-cyclic:rank{r}")
                return set()
            res = set()
            for q in bypid[pid]["needs"]:
                if q not in bypid:
                    bad.append(f"needs-unknown-part:rank{r}:{pid}->{q}")
                    continue
                res |= {q} | ancestors(q, stack + (pid,))
            anc[pid] = res
            return res
        for pid in pids:
            ancestors(pid)
        producer: dict[str, list] = {}
        for p in parts:
            for n in p["out"]:
                producer.setdefault(n, []).append(p["pid"])
        recv_by: dict[str, list] = {}
        for p in parts:
            for rv in p["recvs"]:
                recv_by.setdefault(rv[0], []).append(p["pid"])
        # clause 1
        for n, ps_ in producer.items():
            if len(ps_) != 1:
                bad.append(f"output-produced-once:rank{r}:{n}:{ps_}")
        for n in ps["overall"]:
            if n not in producer:
                bad.append(f"overall-output-produced:rank{r}:{n}")
        for p in parts:
            for s in p["sends"]:
                if s[0] not in p["out"]:
                    bad.append(f"sent-name-is-output:rank{r}:part{p['pid']}:{s[0]}")      # clause 4
            for rv in p["recvs"]:
                if rv[0] in producer:
                    bad.append(f"recv-name-not-output:rank{r}:{rv[0]}")                  # clause 3
            if p["commnodes"]:
                bad.append(f"no-comm-nodes-in-part:rank{r}:part{p['pid']}")              # clause 5
            if p["missing_exprs"]:
                bad.append(f"output-has-expression:rank{r}:part{p['pid']}:{p['missing_exprs']}")
            declared = set(p["user"]) | set(p["pin"])
            if not set(p["reads"]) <= declared:
                bad.append(f"reads-declared:rank{r}:part{p['pid']}:{sorted(set(p['reads']) - declared)}")
            # clause 2
            for n in sorted(declared):
                ok = False
                if n in p["user"] and n in ps["user"]:
                    ok = True
                if any(q == p["pid"] or q in anc.get(p["pid"], ()) for q in recv_by.get(n, [])):
                    ok = True
                if any(q in anc.get(p["pid"], ()) for q in producer.get(n, [])):
                    ok = True
                if not ok:
                    bad.append(f"name-read-is-available:rank{r}:part{p['pid']}:{n}")
        for n, l in recv_by.items():
            if len(l) != 1:
                bad.append(f"recv-name-once:rank{r}:{n}")
    # cross-rank: matching, uniqueness, acyclic part order (clause 6), rounds (clause 7)
    sends = {}
    recvs = {}
    for ps in psers:
        for p in ps["parts"]:
            for s in p["sends"]:
                sends.setdefault((ps["rank"], s[1], s[2]), []).append((ps["rank"], p["pid"]))
            for rv in p["recvs"]:
                recvs.setdefault((rv[1], ps["rank"], rv[2]), []).append((ps["rank"], p["pid"]))
    stype = {(ps["rank"], s_[1], s_[2]): (s_[4], s_[5]) for ps in psers for p in ps["parts"] for s_ in p["sends"]
             if len(s_) > 5}
    for ps in psers:
        for p in ps["parts"]:
            for rv in p["recvs"]:
                cid = (rv[1], ps["rank"], rv[2])
                if len(rv) > 5 and cid in stype and stype[cid] != (rv[4], rv[5]):
                    bad.append(f"recv-matches-send-type:{cid}:send={stype[cid]}:recv={(rv[4], rv[5])}")
    for cid, l in sends.items():
        if len(l) != 1:
            bad.append(f"send-unique:{cid}")
        if cid not in recvs:
            bad.append(f"send-has-recv:{cid}")
    for cid, l in recvs.items():
        if len(l) != 1:
            bad.append(f"recv-unique:{cid}")
        if cid not in sends:
            bad.append(f"recv-has-send:{cid}")
    # global part graph acyclic (Kahn)
    nodes = {(ps["rank"], p["pid"]) for ps in psers for p in ps["parts"]}
    deps = {nd: set() for nd in nodes}
    for ps in psers:
        for p in ps["parts"]:
            me = (ps["rank"], p["pid"])
            for q in p["needs"]:
                deps[me].add((ps["rank"], q))
            for rv in p["recvs"]:
                for sp in sends.get((rv[1], ps["rank"], rv[2]), []):
                    deps[me].add(sp)
    level = {}
    left = set(nodes)
    k = 0
    while left:
        now = {nd for nd in left if all(d in level for d in deps[nd] if d in nodes)}
        if not now:
            bad.append("global-part-order-acyclic")
            break
        for nd in now:
            level[nd] = k
        left -= now
        k += 1
    # clause 7: one global round numbering: round(message) from the *sender's* part position
    # must be consistent with the receiver's part position on every rank
    if not bad:
        rnd = rounds_from_partition(psers)
        if rnd is None:
            bad.append("comm-rounds-consistent")
    return bad


def rounds_from_partition(psers):
    """Solve for a round number per message such that on every rank, in pid order, the
    sequence recvs(p0) < sends(p0) <= recvs(p1) < sends(p1) ... holds with all receives of a
    part in one round and all sends of a part in one round.  Least solution by relaxation;
    None if inconsistent.  (Independent of the Lean computation.)"""
    msgs = set()
    for ps in psers:
        for p in ps["parts"]:
            msgs |= {(ps["rank"], s[1], s[2]) for s in p["sends"]}
            msgs |= {(rv[1], ps["rank"], rv[2]) for rv in p["recvs"]}
    rnd = {m: 0 for m in msgs}
    for _ in range(4 * len(msgs) + 4):
        changed = False

        def raise_to(m, v):
            nonlocal changed
            if rnd[m] < v:
                rnd[m] = v
                changed = True
        for ps in psers:
            r = ps["rank"]
            lo = 0          # minimum round of the next group
            for p in sorted(ps["parts"], key=lambda p: p["pid"]):
                rg = [(rv[1], r, rv[2]) for rv in p["recvs"]]
                sg = [(r, s[1], s[2]) for s in p["sends"]]
                if rg:
                    v = max([lo] + [rnd[m] for m in rg])
                    for m in rg:
                        raise_to(m, v)
                    lo = v + 1
                if sg:
                    v = max([lo] + [rnd[m] for m in sg])
                    for m in sg:
                        raise_to(m, v)
                    lo = v
        if not changed:
            return rnd
    return None


# --------------------------------------------------------------------------- part programs

class PartEvalError(Exception):
    pass


class PartInputMismatch(Exception):
    """a value bound to a part input differs in dtype / shape from the declared placeholder"""


def eval_array(expr, env, memo):
    """independent NumPy evaluation of a part expression (harness/refeval: dispatch on node class,
    NumPy function of the same meaning; never pytato's lowering).  `memo` holds the evaluator."""
    from .refeval import RefEval, RefEvalError
    ev = memo.get("ev")
    if ev is None:
        ev = memo["ev"] = RefEval(env)
    try:
        return np.asarray(ev(expr))
    except RefEvalError as e:
        raise PartEvalError(str(e)) from e


def declared_inputs(partition, part):
    """{placeholder name: (shape, dtype)} as declared in the expressions of the part's outputs"""
    from pytato.array import Placeholder
    out = {}
    for nm in part.output_names:
        if nm in partition.name_to_output:
            for nd in walk_arrays(partition.name_to_output[nm]):
                if isinstance(nd, Placeholder):
                    out[nd.name] = (tuple(nd.shape), np.dtype(nd.dtype))
    return out


def executor_state():
    """(context keys, executed pids, completed names, refcounts) of the calling rank's
    execute_distributed_partition frame — read-only observation of the real executor"""
    f = sys._getframe(1)
    while f is not None:
        if f.f_code.co_name == "execute_distributed_partition":
            loc = f.f_locals
            try:
                return (sorted(loc["context"]), sorted(loc["pids_executed"]),
                        sorted(loc["recv_names_completed"]),
                        sorted(loc["partition_input_names_refcount"].items()))
            except KeyError:
                return None
        f = f.f_back
    return None


def make_programs(world, rank, partition):
    """pid -> callable(queue, allocator=None, **inputs) -> (evt, {name: array})"""
    prgs = {}
    for pid, part in partition.parts.items():
        declared = declared_inputs(partition, part)

        def prg(queue, allocator=None, _pid=pid, _part=part, _declared=declared, **inputs):
            world.log("exec", rank, _pid, tuple(sorted(inputs)), executor_state())
            # the generated kernel would read the buffer AS the declared type: honour it
            for nm, (shp, dt) in sorted(_declared.items()):
                if nm in inputs:
                    v = np.asarray(inputs[nm])
                    if v.dtype != dt or tuple(v.shape) != shp:
                        raise PartInputMismatch(f"part {_pid} input {nm}: declared {dt}{shp}, bound {v.dtype}{v.shape}")
            memo: dict = {}
            res = {}
            for nm in sorted(_part.output_names):
                res[nm] = np.array(eval_array(partition.name_to_output[nm], inputs, memo), copy=True)
            return None, res
        prgs[pid] = prg
    return prgs


# --------------------------------------------------------------------------- execution

@dataclass
class ERun:
    outcomes: list
    events: list
    anomalies: list
    leftover: tuple
    choices: list
    deadlock: bool
    pruned: bool
    world: Any = None
    dict_problems: tuple = ()        # what a call did to the caller's input_args dict


def execute(spec, nparts, scheduler=None, on_choice_point=None, timeout=20.0, input_dicts=None) -> ERun:
    """one call of the real executor per rank; input_dicts[r] (default: fresh dicts) is handed
    to rank r AS IS (the same object): what the call does to it is recorded"""
    from pytato.distributed.execute import execute_distributed_partition
    n = spec["nranks"]
    scheduler = scheduler or fakempi.Scheduler()
    world = fakempi.World(n, scheduler=scheduler, timeout=timeout, scheduled=True,
                          on_choice_point=None)

    # observation hooks: executor state at every Waitsome, available sets at choice points
    orig_waitsome = world._waitsome

    def waitsome(rank, reqs):
        world.log("wait", rank, executor_state())
        return orig_waitsome(rank, reqs)
    world._waitsome = waitsome

    def cp(w):
        w.events.append(("choice", tuple((r, tuple(ids)) for r, ids in sorted(w.available_ids().items()))))
        if on_choice_point is not None:
            return on_choice_point(w)
        return True
    world.on_choice_point = cp

    dict_problems: list = []

    def fn(comm):
        part = nparts[comm.rank]
        prgs = make_programs(world, comm.rank, part)
        inp = input_dicts[comm.rank] if input_dicts is not None else G.input_args(spec, comm.rank)
        before = dict(inp)
        try:
            res = execute_distributed_partition(part, prgs, None, comm, input_args=inp)
        finally:
            gone = sorted(set(before) - set(inp))
            extra = sorted(set(inp) - set(before))
            swapped = sorted(k for k in before if k in inp and inp[k] is not before[k])
            if gone or extra or swapped:
                dict_problems.append(f"rank{comm.rank}:removed{gone}:added{extra}:replaced{swapped}")
        world.log("finish", comm.rank)
        return res

    outs = world.run(fn)
    return ERun(outs, list(world.events), list(world.anomalies), world.leftover(),
                scheduler.choices, world.deadlock, world.pruned, world, tuple(sorted(dict_problems)))


def state_key(world):
    """executor-visible global state at a choice point (for pruning the DFS)"""
    per_rank = []
    last = {}
    for ev in world.events:
        if ev[0] == "wait":
            last[ev[1]] = ev[2]
    for r in range(world.size):
        if r in world._waiting:
            st = last.get(r)
            per_rank.append((r, "w", repr(st)))
        else:
            per_rank.append((r, world.outcomes[r].status))
    net = tuple(sorted(((m.src, m.dst, repr(m.tag)) for m in world.network if not m.consumed)))
    return (tuple(per_rank), net)


def check_exec(run: ERun, ref) -> str | None:
    """failure description of one run, None if fine, 'pruned' if cut by the explorer"""
    if run.pruned:
        return "pruned"
    for r, o in enumerate(run.outcomes):
        if o.status == "timeout":
            raise fakempi.FakeMPITimeout(f"rank {r} timed out")
    for r, o in enumerate(run.outcomes):       # a crashed rank first: peers deadlock as a consequence
        if o.status == "raised":
            return f"raised:rank{r}:{type(o.exc).__name__}:{str(o.exc)[:80]}"
    for r, o in enumerate(run.outcomes):
        if o.status == "spin":
            return f"spin:rank{r}"
    if run.deadlock:
        stuck = [r for r, o in enumerate(run.outcomes) if o.status == "deadlock"]
        return f"deadlock:ranks{stuck}"
    for r, o in enumerate(run.outcomes):
        if o.status != "ok":
            return f"{o.status}:rank{r}"
    if run.anomalies:
        return "mpi-anomaly:" + ";".join(sorted(set(run.anomalies))[:3])
    msgs, recvs = run.leftover
    if msgs or recvs:
        return f"leftover:messages{msgs}:receives{recvs}"
    if ref is None:         # no reference solution (invalid program): values are not judged
        return ("caller-input-dict-modified:" + ";".join(run.dict_problems[:3])) if run.dict_problems else None
    for r, o in enumerate(run.outcomes):
        want = ref[r]
        got = o.value
        if sorted(got) != sorted(want):
            return f"output-names:rank{r}:{sorted(got)}!={sorted(want)}"
        for nm in sorted(want):
            g = np.asarray(got[nm])
            if g.dtype != want[nm].dtype:
                return f"wrong-dtype:rank{r}:{nm}:{g.dtype}!={want[nm].dtype}"
            if g.shape != want[nm].shape or not (np.array_equal(g, want[nm])
                                                 or (g.dtype.kind in "fc" and np.allclose(g, want[nm], rtol=1e-5))):
                return f"wrong-value:rank{r}:{nm}"
    if run.dict_problems:
        # the call was right, but it changed the dict object the caller passed as input_args
        return "caller-input-dict-modified:" + ";".join(run.dict_problems[:3])
    return None


# --------------------------------------------------------------------------- traces for Lean

def lean_trace(run: ERun, psers, tabs, complete=True):
    """the run as an event list for `(dist trace P (events))`"""
    # (src, symbolic tag index) per rank from the integer tag the executor used
    int2sym = {}
    for ps in psers:
        for p in ps["parts"]:
            for rv in p["recvs"]:
                int2sym[(ps["rank"], rv[1], rv[3])] = rv[2]

    def snap(r, st):
        if st is None:
            return None
        ctx, exe, comp, rcs = st
        t = tabs[r]
        try:
            return (f"{_ints(t[n] for n in ctx)} {_ints(exe)} {_ints(t[n] for n in comp)} "
                    f"({' '.join(f'({t[n]} {c})' for n, c in rcs)})")
        except KeyError as e:
            return f"UNKNOWN-NAME {e}"

    evs = []
    for ev in run.events:
        k = ev[0]
        if k == "exec":
            _, r, pid, ins, st = ev
            s = snap(r, st)
            if s is None:
                return None
            evs.append(f"(x {r} {int(pid)} {s})")
        elif k == "wait":
            _, r, st = ev
            s = snap(r, st)
            if s is None:
                return None
            evs.append(f"(w {r} {s})")
        elif k == "choice":
            items = []
            for r, ids in ev[1]:
                items.append(f"({r} " + " ".join(f"({src} {_tagnum(int2sym.get((r, src, tg)))})"
                                                 for src, tg in ids) + ")")
            evs.append("(c " + " ".join(items) + ")")
        elif k == "deliver":
            _, r, ids = ev
            evs.append(f"(d {r} " + " ".join(f"({src} {_tagnum(int2sym.get((r, src, tg)))})"
                                             for src, tg in ids) + ")")
        elif k == "finish":
            evs.append(f"(f {ev[1]})")
    if complete:
        evs.append("(t)")
    return "(" + " ".join(evs) + ")"


# --------------------------------------------------------------------------- model partition (Lean) vs real

def parse_sexp(text):
    """'(a (1 2) b)' -> nested lists; integers become int"""
    toks = text.replace("(", " ( ").replace(")", " ) ").split()
    pos = 0

    def rd():
        nonlocal pos
        t = toks[pos]
        pos += 1
        if t == "(":
            out = []
            while toks[pos] != ")":
                out.append(rd())
            pos += 1
            return out
        try:
            return int(t)
        except ValueError:
            return t
    return rd()


def send_data_ids(spec):
    """((rank dst tag data)…): canonical id of the array every live send sends (first node of
    the rank with the same structural key)"""
    sends, _ = G.comm_ops(spec)
    items = []
    for s in sends:
        rk = spec["ranks"][s["rank"]]
        memo: dict = {}
        key = G.node_key(rk, rk["nodes"][s["node"]]["data"], memo)
        first = next(i for i in range(len(rk["nodes"])) if G.node_key(rk, i, memo) == key)
        items.append((s["rank"], s["dst"], s["tag"], first))
    return items


def skeleton_query(spec):
    datas = " ".join(f"({a} {b} {c} {d})" for a, b, c, d in send_data_ids(spec))
    return f"(dist skeleton {spec['nranks']} {lean_graph(spec)} ({datas}))"


def real_skeleton(psers):
    """per rank [(pid, needs, sorted recv ids, sorted groups of send ids)] from the real partition"""
    out = []
    for ps in psers:
        r = ps["rank"]
        parts = []
        for p in sorted(ps["parts"], key=lambda p: p["pid"]):
            groups: dict = {}
            for s in p["sends"]:
                groups.setdefault(s[0], []).append((r, s[1], s[2]))
            parts.append((p["pid"], sorted(p["needs"]), sorted((rv[1], r, rv[2]) for rv in p["recvs"]),
                          sorted(sorted(g) for g in groups.values())))
        out.append(parts)
    return out


def model_skeleton(answer):
    """parse the driver's answer into the same shape"""
    tree = parse_sexp(answer[3:])
    out = []
    for parts in tree:
        ps = []
        for pid, needs, recvs, groups in parts:
            ps.append((pid, sorted(needs), sorted(tuple(c) for c in recvs),
                       sorted(sorted(tuple(c) for c in g[1]) for g in groups)))
        out.append(ps)
    return out


def skeleton_difference(real, model):
    """None or a short stable description of the first structural difference"""
    for r, (a, b) in enumerate(zip(real, model)):
        if len(a) != len(b):
            return f"number-of-parts:rank{r}:{len(a)}!={len(b)}", "number-of-parts"
        for pa, pb in zip(a, b):
            for k, nm in ((0, "pid"), (1, "needed-pids"), (2, "receives-of-part"), (3, "send-groups-of-part")):
                if pa[k] != pb[k]:
                    return f"{nm}:rank{r}:part{pa[0]}:real={pa[k]}:model={pb[k]}", nm
    return None


NAME_BASE = 1000


def _canon_ids(rk):
    """node index -> canonical index (first node with the same structural key; aliases resolve)"""
    memo: dict = {}
    first: dict = {}
    out = {}
    for i in range(len(rk["nodes"])):
        k = G.node_key(rk, i, memo)
        first.setdefault(k, i)
        out[i] = first[k]
    return out


def user_name_table(spec):
    names = set()
    for rk in spec["ranks"]:
        names |= {nd["name"] for nd in rk["nodes"] if nd["op"] == "input"}
        names |= {nm for nm, _ in rk["outputs"]}
    return {nm: i for i, nm in enumerate(sorted(names))}


def lean_program(spec):
    """the normalised program (live nodes, aliases resolved, equal nodes merged) in the PROG
    wire format of ptdriver, plus the user-name table"""
    tab = user_name_table(spec)
    ranks = []
    for rk in spec["ranks"]:
        can = _canon_ids(rk)
        live = sorted({can[i] for i in G.live_nodes(rk)})
        nodes = []
        for i in live:
            nd = rk["nodes"][i]
            op = nd["op"]
            st = 1 if nd.get("stored") else 0
            if op == "input":
                nodes.append(f"({i} in {tab[nd['name']]} {st})")
            elif op == "data":
                nodes.append(f"({i} data {st})")
            elif op == "recv":
                nodes.append(f"({i} recv {nd['src']} {nd['tag']} {st})")
            elif op == "send":
                nodes.append(f"({i} send {can[nd['data']]} {nd['dst']} {nd['tag']} {can[nd['pass']]})")
            elif op in ("add", "sub", "mul"):
                nodes.append(f"({i} op {st} {can[nd['a']]} {can[nd['b']]})")
            elif op in ("addc", "mulc"):
                nodes.append(f"({i} op {st} {can[nd['a']]})")
            elif op in ("kind", "flat", "bcast"):
                nodes.append(f"({i} op {st} {' '.join(str(can[c]) for c in nd['args'])})")
            elif op == "ctor":
                nodes.append(f"({i} op {st})")
            else:
                raise ValueError(op)
        outs = " ".join(f"({tab[nm]} {can[o]})" for nm, o in rk["outputs"])
        ranks.append(f"(({' '.join(nodes)}) ({outs}))")
    return "(" + " ".join(ranks) + ")", tab


def real_partition_canonical(pr: PRun, spec, tab):
    """every rank's real partition with names canonicalised the way the model names them:
    user names -> table ids, generated names -> NAME_BASE + node id.  Returns (ranks, problems)"""
    import hashlib
    from pytato.array import DataWrapper, Placeholder
    problems = []
    out = []
    for r, rp in enumerate(pr.ranks):
        part = rp.part
        rk = spec["ranks"][r]
        can = _canon_ids(rk)
        name_map: dict = {}
        recv_node = {(nd["src"], nd["tag"]): can[i] for i, nd in enumerate(rk["nodes"]) if nd["op"] == "recv"}
        send_data = {(nd["dst"], nd["tag"]): can[nd["data"]] for i, nd in enumerate(rk["nodes"]) if nd["op"] == "send"
                     and i in set(G.live_nodes(rk))}
        input_node = {nd["name"]: can[i] for i, nd in enumerate(rk["nodes"]) if nd["op"] == "input"}
        data_node = {hashlib.sha256(np.ascontiguousarray(
                         G.cast_small(nd["values"], nd.get("dtype", "int64"))).tobytes()).hexdigest(): can[i]
                     for i, nd in enumerate(rk["nodes"]) if nd["op"] == "data"}
        overall = set(part.overall_output_names)
        for p in part.parts.values():
            for nm, rv in p.name_to_recv_node.items():
                k = (rv.src_rank, tag_index(spec, rv.comm_tag))
                if k in recv_node:
                    name_map[nm] = NAME_BASE + recv_node[k]
            for nm, sds in p.name_to_send_nodes.items():
                for sd in sds:
                    k = (sd.dest_rank, tag_index(spec, sd.comm_tag))
                    if k in send_data:
                        a = send_data[k]
                        while rk["nodes"][a]["op"] == "send":
                            a = can[rk["nodes"][a]["pass"]]
                        name_map.setdefault(nm, NAME_BASE + a)
        for nm, expr in part.name_to_output.items():
            if nm in name_map or nm in overall:
                continue
            if isinstance(expr, Placeholder) and expr.name in input_node:
                name_map[nm] = NAME_BASE + input_node[expr.name]
            elif isinstance(expr, Placeholder) and expr.name in name_map:
                name_map[nm] = name_map[expr.name]      # a holder whose pass-through is a receive
            elif isinstance(expr, DataWrapper):
                ids = [t.k for t in expr.tags if type(t).__name__ == "CommNodeId"]
                dg = hashlib.sha256(np.ascontiguousarray(expr.data).tobytes()).hexdigest()
                if len(ids) == 1:
                    name_map[nm] = NAME_BASE + can[ids[0]]
                elif dg in data_node:
                    name_map[nm] = NAME_BASE + data_node[dg]
            else:
                ids = [t.k for t in expr.tags if type(t).__name__ == "CommNodeId"]
                if len(ids) == 1:
                    name_map[nm] = NAME_BASE + can[ids[0]]
        user_names = {nd["name"] for nd in rk["nodes"] if nd["op"] == "input"}

        def cn(nm, where):
            if nm in name_map:
                return name_map[nm]
            if nm in tab and (nm in overall or nm in user_names):
                return tab[nm]
            problems.append(f"rank{r}:{where}:unidentified-name:{nm}")
            return -1
        parts = []
        for pid in sorted(part.parts):
            p = part.parts[pid]
            decl = declared_inputs(part, p)
            for nm in sorted(p.partition_input_names):
                c = name_map.get(nm)
                if c is None or nm not in decl:
                    continue
                a = c - NAME_BASE
                want_dt = np.dtype(G.spec_dtype(rk["nodes"], a))
                want_shape = tuple(np.shape(G._dummy_value(rk["nodes"], a, spec["n"])))
                if spec.get("scalar") and want_shape == (1,):
                    want_shape = ()
                if decl[nm] != (want_shape, want_dt):
                    problems.append(f"rank{r}:part{pid}:input-type-vs-program:{nm}:declared={decl[nm][1]}{decl[nm][0]}"
                                    f":program-node-{a}={want_dt}{want_shape}")
            parts.append({
                "pid": pid, "needs": sorted(p.needed_pids),
                "inputs": sorted(cn(n, "input") for n in p.user_input_names | p.partition_input_names),
                "outputs": sorted(cn(n, "output") for n in p.output_names),
                "recvs": sorted((cn(nm, "recv"), rv.src_rank, tag_index(spec, rv.comm_tag))
                                for nm, rv in p.name_to_recv_node.items()),
                "sends": sorted((cn(nm, "send"), sd.dest_rank, tag_index(spec, sd.comm_tag))
                                for nm, sds in p.name_to_send_nodes.items() for sd in sds)})
        out.append({"parts": parts, "overall": [tab[n] for n in part.overall_output_names]})
    return out, problems


def model_partition(answer, spec):
    """driver answer of `(dist partition …)` -> same shape as real_partition_canonical.  A
    generated name of a send holder is identified with the name of its pass-through value (the
    expression stored under the holder's name IS the pass-through's): multisets are compared."""
    tree = parse_sexp(answer[3:])
    out = []
    for r, (parts, user, overall) in enumerate(tree):
        rk = spec["ranks"][r]
        can = _canon_ids(rk)

        def strip(nm):
            if nm < NAME_BASE:
                return nm
            a = nm - NAME_BASE
            while rk["nodes"][a]["op"] == "send":
                a = can[rk["nodes"][a]["pass"]]
            return NAME_BASE + a
        ps = []
        for pid, needs, ins, outs, recvs, sends, _pure in parts:
            ps.append({"pid": pid, "needs": sorted(needs), "inputs": sorted(strip(x) for x in ins),
                       "outputs": sorted(strip(x) for x in outs),
                       "recvs": sorted((strip(x[0]), x[1], x[2]) for x in recvs),
                       "sends": sorted((strip(x[0]), x[1], x[2]) for x in sends)})
        out.append({"parts": ps, "overall": list(overall)})
    return out


def partition_difference(real, model):
    for r, (a, b) in enumerate(zip(real, model)):
        if len(a["parts"]) != len(b["parts"]):
            return f"number-of-parts:rank{r}:{len(a['parts'])}!={len(b['parts'])}", "number-of-parts"
        if a["overall"] != b["overall"]:
            return f"overall-output-names:rank{r}", "overall-output-names"
        for pa, pb in zip(a["parts"], b["parts"]):
            for k in ("pid", "needs", "recvs", "sends", "outputs", "inputs"):
                va = [list(x) if isinstance(x, tuple) else x for x in pa[k]] if isinstance(pa[k], list) else pa[k]
                vb = [list(x) if isinstance(x, tuple) else x for x in pb[k]] if isinstance(pb[k], list) else pb[k]
                if va != vb:
                    return f"{k}:rank{r}:part{pa['pid']}:real={va}:model={vb}", f"part-{k}"
    return None

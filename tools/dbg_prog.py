import sys, os, tempfile
sys.path.insert(0,'/repo'); sys.path.insert(0,'/verif')
from harness import common
ctx = common.Ctx("T","quick",0)
os.environ["TMPDIR"]=str(ctx.scratch); os.environ["XDG_CACHE_HOME"]=str(ctx.scratch/"cache"); tempfile.tempdir=str(ctx.scratch)
import numpy as np, pytato as pt
from harness import cexec
from harness.gen import programs
from harness.refeval import evaluate, close
seed, idx = int(sys.argv[1]), int(sys.argv[2])
p = programs.generate(seed, idx)
print("ops", p.ops); print("inputs", p.inputs)
for k,v in p.outputs.items(): print(k, v.shape, v.dtype, type(v).__name__)
inp = p.make_inputs(np.random.default_rng(1))
expr = pt.transform.deduplicate(p.expr())
try:
    prog = pt.generate_loopy(expr, target=cexec._c_target())
    if "-k" in sys.argv: print(prog.program)
except Exception as e:
    import traceback; traceback.print_exc()
r = cexec.run_jobs(ctx, [cexec.Job("x", expr, [inp], want_source="-s" in sys.argv)])[0]
print("stage", r.stage, "err", r.error)
if r.source: print(r.source[-3000:])
ref = evaluate(p.expr(), inp)
for k in p.outputs:
    if r.outputs:
        print(k, "close" if close(r.outputs[0][k], ref[k]) else "MISMATCH")
        if not close(r.outputs[0][k], ref[k]): print(" got", r.outputs[0][k], "\n exp", ref[k])
import shutil; shutil.rmtree(ctx.scratch)

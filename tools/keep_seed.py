#!/usr/bin/env python3
"""Store a confirmed seeded change under /verif/seeded/<id>/ (patch.diff, demo.py, notes.md, meta.json).
Usage: tools/keep_seed.py <id> <srcdir> <property> <detected_by comma list or NONE> "<what it needs to manifest>" """
import json
import shutil
import subprocess
import sys
from pathlib import Path

VERIF = Path(__file__).resolve().parent.parent
sid, src, prop, det, needs = sys.argv[1:6]
src = Path(src)
dst = VERIF / "seeded" / sid
dst.mkdir(parents=True, exist_ok=True)
for f in ("patch.diff", "demo.py", "notes.md"):
    if (src / f).exists():
        shutil.copy(src / f, dst / f)
head = subprocess.check_output(["git", "-C", "/repo", "log", "--oneline", "-1"]).decode().split()[0]
meta = {
    "id": sid, "breaks_property": prop,
    "origin": "fresh sub-agent given only the property text and a scratch worktree" if not sid.startswith("own") else "own mutation (round-0 Appendix C)",
    "needs_to_manifest": needs,
    "based_on_repo_commit": head,
    "confirmed": "demo.py passes on the unchanged tree and fails with the patch (tools/try_patch.py --demo …, PYTHONPATH=tree); "
                 "baseline tests test/test_pytato.py + test/test_linalg.py: same pass/fail set as unchanged (reported by the seeding agent, spot-checked)",
    "checks_run": f"tools/try_patch.py patch.diff <properties> (quick tier, throw-away worktree, PYTATO_REPO)",
    "detected_by_quick_tier": [] if det == "NONE" else det.split(","),
}
(dst / "meta.json").write_text(json.dumps(meta, indent=1) + "\n")
print("kept", dst)

#!/usr/bin/env python3
"""Run the quick tier against every stored seeded change (seeded/<id>/patch.diff) in throw-away worktrees
(tools/try_patch.py; /repo itself is never touched) and record which checks report a violation:
seeded/<id>/meta.json (detected_by_quick_tier, last_run) and the table seeded/README.md.
Usage: tools/run_seeded.py [--only C13-A,C13-B] [--jobs 1]"""
import argparse
import json
import re
import subprocess
import sys
import time
from pathlib import Path

VERIF = Path(__file__).resolve().parent.parent
SEEDED = VERIF / "seeded"


def run_one(sid: str) -> dict:
    d = SEEDED / sid
    meta = json.loads((d / "meta.json").read_text())
    checks = meta.get("checks_to_run") or [meta["breaks_property"]]
    r = subprocess.run([sys.executable, str(VERIF / "tools" / "try_patch.py"), str(d / "patch.diff"), *checks],
                       capture_output=True, text=True, cwd=str(VERIF), env=dict(__import__("os").environ, TRY_PATCH_NO_RESTORE="1"))
    out = r.stdout
    if "PATCH DOES NOT APPLY" in out:
        meta["last_run"] = {"when": time.strftime("%Y-%m-%d %H:%M"), "error": "patch does not apply to the current tree"}
        (d / "meta.json").write_text(json.dumps(meta, indent=1) + "\n")
        return meta
    det, sigs = [], {}
    cur = None
    for line in out.splitlines():
        m = re.match(r"== (C\d\d): exit (\d+) in \d+s; (\d+) violation", line)
        if m:
            cur = m.group(1)
            if m.group(2) == "1" and int(m.group(3)) > 0:
                det.append(cur)
            elif m.group(2) not in ("0", "1"):
                sigs.setdefault(cur, []).append(f"check exited {m.group(2)} (infrastructure)")
            continue
        m = re.match(r"\s+VIOLATION property=(C\d\d) replay=\S*/([^/\s]+)\.json(.*)", line)
        if m:
            sigs.setdefault(m.group(1), []).append(m.group(2) + (" [no-failing-input-found]" if "no-failing" in m.group(3) else ""))
    # a check that only says "the Lean build is broken" (someone is editing the proofs) has detected nothing
    real = [c for c in det if any(not x.startswith(("unproved_lean-build", "unproved_forbidden-tokens"))
                                  for x in sigs.get(c, ["?"]))]
    if len(real) != len(det):
        meta.setdefault("notes", []).append(f"{time.strftime('%Y-%m-%d %H:%M')}: lean-build noise ignored for {sorted(set(det) - set(real))}")
    det = real
    meta["detected_by_quick_tier"] = det
    meta["last_run"] = {"when": time.strftime("%Y-%m-%d %H:%M"), "checks": checks,
                        "repo_commit": subprocess.check_output(["git", "-C", "/repo", "log", "--oneline", "-1"]).decode().split()[0],
                        "first_signatures": {k: v[:3] for k, v in sigs.items()}}
    (d / "meta.json").write_text(json.dumps(meta, indent=1) + "\n")
    return meta


def write_table():
    rows = []
    for d in sorted(SEEDED.iterdir()):
        if not (d / "meta.json").exists():
            continue
        m = json.loads((d / "meta.json").read_text())
        det = m.get("detected_by_quick_tier") or []
        sig = ""
        fs = (m.get("last_run") or {}).get("first_signatures") or {}
        if det and fs.get(det[0]):
            sig = fs[det[0]][0]
        status = ", ".join(det) if det else ("superseded (see meta.json)" if m.get("superseded") else "**missed**")
        rows.append((m["id"], m["breaks_property"], status,
                     "yes" if m.get("missed_when_first_run") else "no", sig[:70],
                     m.get("needs_to_manifest", "")[:150], m.get("strengthening_after_miss", "")))
    lines = ["# Seeded changes", "",
             "Changes of inducer/pytato that break one property while the tree still imports and the baseline tests keep "
             "their pass/fail set. `C??-A/B` were written by fresh sub-agents that saw only the property text and a scratch "
             "worktree; each directory holds `patch.diff`, the agent's `demo.py` (PASS on the unchanged tree, FAIL with the "
             "patch), `notes.md` and `meta.json`. None of them is ever applied to /repo: `tools/try_patch.py` applies a patch in a "
             "throw-away worktree and points the checks at it (`PYTATO_REPO`); `tools/run_seeded.py` does that for all of them "
             "and rewrites this table.", "",
             "| id | property | quick-tier checks that report it | missed when first run | first signature | needs, in order to manifest | strengthening after a miss |",
             "|---|---|---|---|---|---|---|"]
    for r in rows:
        lines.append("| " + " | ".join(str(x).replace("|", "/") for x in r) + " |")
    n = len(rows)
    nd = sum(1 for r in rows if r[2] != "**missed**" and not r[2].startswith("superseded"))
    ns = sum(1 for r in rows if r[2].startswith("superseded"))
    nm = sum(1 for r in rows if r[3] == "yes")
    lines += ["", f"{nd} of {n} are reported by the quick tier now ({ns} superseded by later fixes of /repo: their patch no longer "
              f"applies or has no observable effect); {nm} were missed when first run and led to the strengthening in the last "
              "column (never to a change of the seeded mutation; several patches were re-based onto fixed code (patch.orig.diff kept))."]
    (SEEDED / "README.md").write_text("\n".join(lines) + "\n")


def main():
    ap = argparse.ArgumentParser()
    ap.add_argument("--only", default=None)
    ap.add_argument("--table-only", action="store_true")
    ap.add_argument("--jobs", type=int, default=1, help="seeds run concurrently (each in its own throw-away worktree)")
    ap.add_argument("--since", default=None, help="skip seeds whose last_run.when is >= this 'YYYY-MM-DD HH:MM'")
    a = ap.parse_args()
    ids = sorted(p.name for p in SEEDED.iterdir() if (p / "patch.diff").exists())
    if a.only:
        ids = [i for i in ids if i in a.only.split(",")]
    if a.since:
        def fresh(sid):
            m = json.loads((SEEDED / sid / "meta.json").read_text())
            return ((m.get("last_run") or {}).get("when") or "") >= a.since and "error" not in (m.get("last_run") or {})
        ids = [i for i in ids if not fresh(i)]
    if not a.table_only:
        # several seeds at a time, but never two that run the SAME check: a check regenerates its property's
        # tables (lean/PtGen) from the tree it is pointed at, and two trees must not write one table file at once
        import threading
        busy: set = set()
        cv = threading.Condition()
        todo = list(ids)

        def checks_of(sid):
            m = json.loads((SEEDED / sid / "meta.json").read_text())
            return set(m.get("checks_to_run") or [m["breaks_property"]])

        def worker():
            while True:
                with cv:
                    while True:
                        if not todo:
                            return
                        pick = next((x for x in todo if not (checks_of(x) & busy)), None)
                        if pick is not None:
                            break
                        cv.wait(timeout=5)
                    todo.remove(pick)
                    busy.update(checks_of(pick))
                try:
                    m = run_one(pick)
                    print(pick, "->", m.get("detected_by_quick_tier") or m.get("last_run"), flush=True)
                finally:
                    with cv:
                        busy.difference_update(checks_of(pick))
                        cv.notify_all()
        ths = [threading.Thread(target=worker) for _ in range(max(1, a.jobs))]
        for t in ths:
            t.start()
        for t in ths:
            t.join()
    write_table()
    # try_patch restores lean/PtGen; make sure
    subprocess.call(["git", "-C", str(VERIF), "checkout", "--", "lean/PtGen"])


if __name__ == "__main__":
    main()

#!/usr/bin/env python3
"""Evaluate the checks against a candidate change of inducer/pytato WITHOUT touching /repo:
the patch is applied in a throw-away git worktree and the checks import pytato from there
(PYTATO_REPO).  Usage: tools/try_patch.py <patch.diff> [--demo demo.py] [--tier quick] C02 C11 …
Prints, per property, exit code and VIOLATION / KNOWN-FINDING lines; restores generated tables afterwards."""
import argparse
import os
import shutil
import subprocess
import sys
import tempfile
import time
from pathlib import Path

VERIF = Path(__file__).resolve().parent.parent


def main():
    ap = argparse.ArgumentParser()
    ap.add_argument("patch")
    ap.add_argument("props", nargs="*")
    ap.add_argument("--demo", default=None)
    ap.add_argument("--tier", default="quick")
    ap.add_argument("--seed", default="0")
    ap.add_argument("--baseline-tests", action="store_true")
    a = ap.parse_args()
    wt = Path(tempfile.mkdtemp(prefix="ptmut_", dir="/tmp"))
    shutil.rmtree(wt)
    subprocess.check_call(["git", "-C", "/repo", "worktree", "add", "-q", str(wt), "HEAD"])
    rc_all = 0
    try:
        r = subprocess.run(["git", "-C", str(wt), "apply", os.path.abspath(a.patch)], capture_output=True, text=True)
        if r.returncode != 0:
            print("PATCH DOES NOT APPLY:", r.stderr[:500])
            return 2
        if a.demo:
            for label, tree in (("clean", "/repo"), ("patched", str(wt))):
                d = subprocess.run(["/venv/bin/python", os.path.abspath(a.demo)], cwd=tree, capture_output=True, text=True,
                                   env=dict(os.environ, PYTHONWARNINGS="ignore", PYTHONPATH=tree), timeout=1200)
                print(f"demo on {label}: rc={d.returncode} {(d.stdout + d.stderr).strip().splitlines()[-1:]}" )
        if a.baseline_tests:
            t = subprocess.run(["/venv/bin/python", "-m", "pytest", "-q", "-p", "no:cacheprovider", "--timeout=900",
                                "--continue-on-collection-errors", "test/test_pytato.py", "test/test_linalg.py"],
                               cwd=str(wt), capture_output=True, text=True)
            print("baseline tests on patched tree:", t.stdout.strip().splitlines()[-1:])
            print("  failing:", [l for l in t.stdout.splitlines() if l.startswith("FAILED")])
        env = dict(os.environ, PYTATO_REPO=str(wt), VERIF_SEED=a.seed)
        for p in a.props:
            t0 = time.time()
            c = subprocess.run([str(VERIF / "check"), p, "--tier", a.tier], cwd=str(VERIF), env=env,
                               capture_output=True, text=True)
            lines = [l for l in c.stdout.splitlines() if l.startswith(("VIOLATION", "KNOWN-FINDING"))]
            details = [l for l in c.stdout.splitlines() if l.startswith("  ")]
            print(f"== {p}: exit {c.returncode} in {time.time() - t0:.0f}s; {sum(l.startswith('VIOLATION') for l in lines)} violation line(s)")
            for l, d in list(zip([x for x in lines if x.startswith('VIOLATION')], details))[:4]:
                print("   ", l[:160])
                print("     ", d.strip()[:220])
            if c.returncode not in (0, 1):
                print("   stderr tail:", c.stderr[-600:])
            rc_all |= c.returncode
    finally:
        subprocess.call(["git", "-C", "/repo", "worktree", "remove", "--force", str(wt)])
        # generated tables were regenerated from the patched tree: restore the committed baseline
        # (run_seeded.py runs several of these at once and restores once at the end)
        if not os.environ.get("TRY_PATCH_NO_RESTORE"):
            subprocess.call(["git", "-C", str(VERIF), "checkout", "--", "lean/PtGen"])
    return 0


if __name__ == "__main__":
    sys.exit(main())

#!/usr/bin/env python3
"""Self-validation mutations (DESIGN Appendix C): generates one patch per entry into <outdir>
from exact source replacements on a scratch worktree.  Usage: tools/mk_mutations.py /tmp/mymut"""
import subprocess
import sys
import tempfile
import shutil
from pathlib import Path

L = "pytato/transform/lower_to_index_lambda.py"
U = "pytato/utils.py"
A = "pytato/array.py"
T = "pytato/transform/__init__.py"
CG = "pytato/target/loopy/codegen.py"

# (id, expected properties, file, old, new)
MUTS = [
    ("m01_roll_sign", "C02 C01", L, "indices[axis] = (indices[axis] - expr.shift) % axis_len_expr",
     "indices[axis] = (indices[axis] + expr.shift) % axis_len_expr"),
    ("m03_concat_le", "C02 C11", L, '''concat_expr = If(Comparison(prim.Variable(f"_{expr.axis}"),
                                            "<", ubound),''', '''concat_expr = If(Comparison(prim.Variable(f"_{expr.axis}"),
                                            "<=", ubound),'''),
    ("m05_stack_offby1", "C02", L, 'stack_expr = If(Comparison(prim.Variable(f"_{expr.axis}"), "==", i),',
     'stack_expr = If(Comparison(prim.Variable(f"_{expr.axis}"), "==", i + 1),'),
    ("m06_perm_inverse", "C02", L, '''        for from_index, to_index in enumerate(expr.axis_permutation):
            indices[to_index] = prim.Variable(f"_{from_index}")''', '''        for from_index, to_index in enumerate(expr.axis_permutation):
            indices[from_index] = prim.Variable(f"_{to_index}")'''),
    ("m09_reshape_sizetill", "C02", L, 'old_size_tills = [old_shape[-1] if order == "C" else old_shape[0]]',
     'old_size_tills = [old_shape[-1] if order == "F" else old_shape[0]]'),
    ("m14_slice_pastend", "C02 C11 C03", U, '''            elif start >= axis_len:
                start = axis_len if step > 0 else axis_len - 1''', '''            elif start >= axis_len:
                start = axis_len if step > 0 else axis_len'''),
    ("m15_slicelen", "C03 C02", U, "return (stop - start + step - 1) // step", "return (stop - start) // step"),
    ("m16_bcast_index", "C11 C02 C19", U, '''            assert are_shape_components_equal(dim1, 1)
            indices.append(0)''', '''            assert are_shape_components_equal(dim1, 1)
            indices.append(prim.Variable(f"_{i+i_start}"))'''),
    ("m20_broadcast_no1", "C03", U, '''            if (are_shape_components_equal(axis_len, result_axis_len)
                    or are_shape_components_equal(axis_len, 1)):
                pass''', '''            if are_shape_components_equal(axis_len, result_axis_len):
                pass'''),
    ("m21_truediv_u", "C03", A, 'if dtype.kind in "iub":', 'if dtype.kind in "ib":'),
    ("m24_eq_roll_shift", "C04", "pytato/equality.py", '''        return (expr1.axis == expr2.axis
                and expr1.shift == expr2.shift''', '''        return (expr1.axis == expr2.axis'''),
    ("m29_walk_csr_rowstarts", "C13 C20", T, None, None),   # filled below (needs context)
    ("m32_dce_one", "C05", "pytato/transform/dead_code_elimination.py", None, None),
    ("m35_distribute_power", "C06", "pytato/transform/einsum_distributive_law.py",
     "and ((hlo.binary_op == BinaryOpType.MULT", "and ((hlo.binary_op in [BinaryOpType.MULT, BinaryOpType.POWER]"),
    ("m39_inlined_reverse_subst", "C07 C01", CG,
     'substitutions = {f"_{d}": i for d, i in enumerate(indices)}',
     'substitutions = {f"_{d}": i for d, i in enumerate(reversed(indices))}'),
    ("m40_no_output_names_seed", "C15", CG, "    state.var_name_gen.add_names(outputs)\n", "    pass\n"),
    ("m49_pytarget_stop", "C14", "pytato/target/python/numpy_like.py", '''                            if are_shape_components_equal(-1, idx.stop)''',
     '''                            if are_shape_components_equal(0, idx.stop)'''),
    ("m50_pytarget_roll", "C14", "pytato/target/python/numpy_like.py", None, None),
    ("m51_affine_const", "C16 C03", U, '''    return (aff.is_cst()  # type: ignore[no-any-return]
            and aff.get_constant_val().is_zero())''', '''    return aff.is_cst()  # type: ignore[no-any-return]'''),
    ("m48_substitutor_recurse", "C12", "pytato/transform/calls.py", "        return self.substitutions[expr.name]\n",
     "        return self.rec(self.substitutions[expr.name])\n"),
    ("m36_raise_sub_swapped", "C19 C14 C06", "pytato/raising.py", '''            children = (inner_expr.children[0],
                        inner_expr.children[1].children[1])
            bin_op = BinaryOpType.SUB''', '''            children = (inner_expr.children[1].children[1],
                        inner_expr.children[0])
            bin_op = BinaryOpType.SUB'''),
    ("m37_reduce_lbound", "C19", "pytato/raising.py", '''            if not are_shape_components_equal(lbound, 0):
                return False
''', ""),
    ("m27_key_shape_only", "C18", "pytato/analysis/__init__.py", "        self.rec(key_hash, key.data.tobytes())\n", ""),
    ("m33_tagcount_cache", "C20", "pytato/analysis/__init__.py", None, None),
    ("m41_exec_release_early", "C08", "pytato/distributed/execute.py", None, None),
    ("m53_tags_set", "C17 C09", "pytato/distributed/tags.py", None, None),
]


def main(outdir):
    out = Path(outdir)
    out.mkdir(parents=True, exist_ok=True)
    wt = Path(tempfile.mkdtemp(prefix="ptmk_", dir="/tmp"))
    shutil.rmtree(wt)
    subprocess.check_call(["git", "-C", "/repo", "worktree", "add", "-q", str(wt), "HEAD"])
    made = []
    try:
        for mid, props, f, old, new in MUTS:
            if old is None:
                continue
            p = wt / f
            s = p.read_text()
            if old not in s:
                print("NOT FOUND:", mid)
                continue
            p.write_text(s.replace(old, new, 1))
            d = subprocess.check_output(["git", "-C", str(wt), "diff"]).decode()
            (out / f"{mid}.diff").write_text(d)
            (out / f"{mid}.props").write_text(props)
            subprocess.check_call(["git", "-C", str(wt), "checkout", "--", "."])
            made.append(mid)
    finally:
        subprocess.call(["git", "-C", "/repo", "worktree", "remove", "--force", str(wt)])
    print("made", len(made), made)


if __name__ == "__main__":
    main(sys.argv[1])

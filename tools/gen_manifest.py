#!/usr/bin/env python3
"""Regenerates /verif/MANIFEST.json from the table below (kept next to the
checks so that the manifest never drifts from what exists) and validates it."""
import json
import sys
from pathlib import Path

VERIF = Path(__file__).resolve().parent.parent

COMMON_NOTE = (
    "Trusted base: Lean 4.33.0 kernel; axioms as reported by `#print axioms` for every listed theorem on "
    "each run (allowed: propext, Classical.choice, Quot.sound; no sorry/native_decide/bv_decide/own axioms — "
    "grepped and audited each run); the Python translator/correspondence harness under harness/; ptdriver "
    "(PtModel compiled by the Lean compiler + C toolchain) for the executable side. The theorems are about "
    "the Lean model; the tie to /repo is the correspondence/translation described, re-run on every check. ")

CLAIMED = {
    "C02": dict(
        technique="Lean 4 theorems over hand-written models of the lowering rules + exhaustive bounded "
                  "correspondence of real to_index_lambda against the model, the Lean evaluator and NumPy",
        text="Proved in Lean for all ranks/shapes/parameters (no bound): slice normalisation = CPython's "
             "PySlice_AdjustIndices and its length; every index a normalised slice visits is in bounds; "
             "ravel/unravel are inverse (C and F order); the modelled lowering of roll, axis permutation and "
             "basic indexing (ints+slices) evaluates pointwise to NumPy's element (Spec). Tie: the real "
             "to_index_lambda output is serialised and evaluated by the same Lean evaluator on the exhaustive "
             "bounded scope (all slices start/stop in None,-7..7 x step ±1..3 on n<=6; all rolls, permutations, "
             "stack/concatenate on shapes up to rank 3-4; reshapes C/F up to 24 (quick) / 64 (thorough) elements; "
             "seeded advanced-index/einsum/CSR cases) and compared with NumPy, with the Lean model of the rule and "
             "with the Lean Spec. Every lowering rule now has a theorem (see Extended)."
             "",
        design_ref="§5 C02",
        note="Modelled not verified: NumPy itself (reference), pymbolic expression construction (covered by "
             "serialising the real expression), integer-only test data."),
}

CLAIMED.update({
    "C01": dict(
        technique="Lean 4 theorems (lowering rules; kernel model: verified static check => schedule independence) + "
                  "translation validation of the real loopy kernel in the Lean kernel model + execution via loopy's C target",
        text="Proved (model): every modelled lowering rule evaluates pointwise to NumPy's element for all ranks/shapes/"
             "parameters (stage A, shared with C02); kernel-level theorems of PtProofs/C01.lean as listed in the evidence "
             "(those present in the build are audited each run). Tie: for seeded programs over the whole public API the "
             "real generate_loopy kernel is read back and (i) statically checked and executed by the Lean kernel model "
             "(list order and another dependency-respecting order), (ii) interpreted by an independent Python "
             "interpreter in random topological orders of its depends_on graph, (iii) compiled with loopy's C target + "
             "gcc and executed; all compared with the reference evaluator (NumPy per node + pointwise index-lambda "
             "interpreter); OpenCL device code generation (default target) must succeed; declared shapes/dtypes vs "
             "results; output-order independence (values; text for distinct outputs). Partial: loopy's pipeline, gcc, "
             "libm, floating point and hand-written loopy kernels are executed, not verified.",
        design_ref="§5 C01",
        note="Modelled not verified: loopy's instruction semantics (any order consistent with depends_on; an iname is one "
             "loop shared by the instructions naming it; reductions are folds; substitution rules are macros). cexec "
             "re-declares global temporaries private, drops unused kernel arguments and registers INFINITY/HUGE_VAL/"
             "LONG_MIN manglers + limits.h for loopy's C target (executor work-arounds)."),
    "C07": dict(
        technique="metamorphic correspondence through the real pipeline (tagged vs untagged builds of one program) on top of "
                  "C01's Lean kernel/lowering theorems",
        text="Same theorems as C01 (the kernel model has no notion of tags: denotation is tag-free by construction). Tie: every "
             "generated program is rebuilt with identical structure under several tag assignments (ImplStored, ImplInlined, "
             "ImplSubstitution, PrefixNamed, fresh Named, user array/axis/reduction tags on arbitrary node subsets); all "
             "variants must keep output names/shapes/dtypes, generate code, and compute the untagged and the reference "
             "values. Partial as C01.",
        design_ref="§5 C07", note="As C01."),
    "C11": dict(
        technique="Lean 4 theorems: every access of every modelled lowering rule is in bounds (all sizes) + Lean-evaluated "
                  "access lists of real index lambdas + bounds-checked interpretation of real kernels + loopy's ISL check as search",
        text="Proved (model): every index a normalised slice visits lies in [0,n); unravel results are in bounds; the "
             "per-rule access theorems of PtProofs/C11.lean present in the build (audited each run). Tie: (a) every real "
             "index lambda of C02's exhaustive scope is evaluated by the Lean evaluator which lists each subscript actually "
             "evaluated (only taken branches of conditionals): none affine may be out of bounds; (b) real kernels of "
             "generated programs (concrete shapes) and of symbolic programs at all size valuations 0..4/0..6 are interpreted "
             "instruction by instruction with bounds checks on reads and writes; (c) loopy's ISL access-range check is "
             "switched back on (search tool). Partial: per-kernel symbolic decision is ISL's; hand-written loopy kernels out of scope.",
        design_ref="§5 C11", note="Data-dependent indices excluded as the statement says. Kernel read-back assumes pytato's kernel shape."),
    "C16": dict(
        technique="Lean 4 theorems: affine equality / sign decisions are exact for all valuations + exhaustive/seeded "
                  "correspondence with the real ISL-based decisions + symbolic shape inference and size-generic kernels vs NumPy",
        text="Proved (model): affEq d1 d2 = true <-> for all non-negative valuations d1 = d2; isNonNeg <-> for all valuations >= 0; "
             "normalisation preserves value and yields one entry per parameter; broadcast merge decision sound at every valuation. "
             "Tie: all pairs over one parameter (coefficients in [-3,3], exhaustive) and seeded pairs over 2-3 parameters, built "
             "as pytato expressions in four syntactic forms: real are_shape_components_equal/_is_non_negative/_is_non_positive "
             "vs the Lean model (fed the *structure* of the real expression) vs an independent grid oracle; programs over "
             "symbolic-shape placeholders: Array.shape at sizes 1..6 vs NumPy; one compiled kernel per program executed at "
             "several sizes vs the reference. Partial: ISL is modelled by its closed form, compared on the box.",
        design_ref="§5 C16", note="ISL modelled; loopy C target executes."),
})

CLAIMED["C15"] = dict(
    technique="Lean 4 theorems about a model of the unique-name generator (freshness, pairwise distinctness for any "
              "seeds/requests) + correspondence with pytools + adversarial renaming of real programs with duplicate detection "
              "on the real kernel",
    text="Proved (model Pt.NameGen of pytools.UniqueNameGenerator): a generated name is never an existing one; every request "
         "sequence yields pairwise distinct names disjoint from all seeds, for any prefixes and any user names; add_name rejects "
         "conflicts. Tie: random operation sequences real generator vs model; generated programs rebuilt with inputs/outputs "
         "renamed to exactly the identifiers the kernel contains (inames, temporaries, instruction ids, accumulators) and "
         "near-misses: in the real kernel all argument/temporary/iname/substitution names pairwise distinct, user names kept "
         "verbatim, other names from _pt_, bound data are the wrapped objects, values still right; clash / Named / PrefixNamed / "
         "reserved-name scenarios. An output key equal to an input name is rejected by pytato with an explicit conflict "
         "diagnostic (accepted as allowed outcome, counted).",
    design_ref="§5 C15",
    note="pytools' and loopy's name generators are modelled/observed, not verified; the theorem covers the generator, the "
         "order of seeding in generate_loopy/preprocess is checked by the adversarial batch.")

CLAIMED["C14"] = dict(
    technique="Lean 4 theorem: slice re-synthesis round-trips through CPython's adjustment for all normalised slices + "
              "exhaustive slice correspondence + execution of generated Python against the reference + emitted-name table",
    text="Proved (model): for every normalised slice (any axis length/start/stop/non-zero step) the Python slice the target "
         "emits, adjusted by CPython's rules, is that same normalised slice, hence selects the same elements; _normalize_slice "
         "only produces slices in that range. Tie: every slice of C02's scope (12544) through the real _map_index_base: emitted "
         "text vs the Lean model of the re-synthesis, and executed result vs NumPy; seeded programs (static shapes, no sparse/"
         "loopy calls) generated with the NumPy-like target instantiated with real NumPy, executed, compared with the reference "
         "evaluator; keyword arguments vs user inputs; bound data identity; unsupported constructs must raise NotImplementedError/"
         "UnknownIndexLambdaExpr at generation time, never fail or mis-compute at run time; every function name the target can "
         "emit must exist in the installed NumPy. Partial: NumPy's kernels executed; JAX absent (shared generator + NumPy "
         "interface only).",
    design_ref="§5 C14", note="Dropped casts inside promoted binary operations rely on NumPy promoting identically (C03).")
CLAIMED["C17"] = dict(
    technique="Lean 4 theorems: the modelled name generator is a function of its request sequence + hash-seed sweep of the "
              "real generators in child interpreters (byte-for-byte comparison)",
    text="Proved (model): the only stateful ingredient of the code generators, the unique-name generator, is a function of "
         "(known names as a set, counters, request sequence): equal states and requests give equal answers; membership is all "
         "that is observed of the seeds. Tie: each program (deterministic generator text) is rebuilt in child interpreters with "
         "PYTHONHASHSEED 0..5 (quick) / 0..11 (thorough) and different allocation histories; canonical kernel dump, OpenCL "
         "source, Python source, persistent key, bound-argument names compared byte for byte across children and for two "
         "builds in one process; distributed partition summaries and tag numbering across differently seeded ranks via the "
         "C09 machinery when present. Partial: CPython hashing/allocation are observed, not modelled.",
    design_ref="§5 C17", note="str(kernel)/repr(array) are not compared (their printers list sets in hash order).")

CLAIMED["C04"] = dict(
    technique="Lean 4 theorems over a term/heap model of structural equality + kernel-checked (decide +kernel) obligations over "
              "tables regenerated from the live == / hash by probing + correspondence incl. fresh interpreters",
    text="Proved (model Pt.EqM): eqStruct is reflexive/symmetric/transitive for ANY field table and nesting; eqStruct <-> SemEq when "
         "the table equals the semantic fields; hash table within eq table => equal terms hash equally (any mixing function); "
         "congruence for one-hole contexts of any depth; the memoised id-pair comparison over DAG heaps equals eqStruct of the "
         "unfoldings. Kernel-checked on tables regenerated EVERY run by probing the live code (24 kinds, 139 (kind,field) rows, 174 "
         "probe pairs): == compares every semantic field, ignores only non-semantic ones, hash respects ==, tables cover all kinds "
         "(exclusions only from the committed known_findings.json). Tie: seeded DAG pairs (reflexive, independently rebuilt, "
         "one-field mutants at random depth, pickled, unpickled in fresh interpreters with other PYTHONHASHSEEDs): real ==/!=/hash/"
         "set/dict membership vs eqStruct/SemEq from ptdriver on reflectively serialised terms; _hash_value absent from pickles; "
         "transitivity triples. Partial: CPython hash and pickle are executed, not modelled.",
    design_ref="§5 C04", note="DataWrapper has documented identity semantics (identity kind). Internal rows the public API cannot "
                               "produce are probed and reported, excluded from obligations.")
CLAIMED["C18"] = dict(
    technique="Lean 4 theorems about a prefix-free token encoding (congruence, injectivity) + kernel-checked key-field table "
              "regenerated by probing PytatoKeyBuilder + keys across fresh interpreters",
    text="Proved (model): the field encoding is prefix-free, a congruence (SemEq => same encoding) and injective (same encoding => "
         "SemEq when the key table equals the semantic fields incl. contents/dtype/shape of wrapped data); key faithful under an "
         "injective hash (hypothesis). Kernel-checked each run on the regenerated table: every semantic field flips the key, only "
         "non-semantic ones do not. Tie: (graph, rebuilt graph), (graph, one-component mutant incl. wrapped data differing in one "
         "element / dtype with identical bytes / shape with identical bytes) pairs; keys computed in >=3 child interpreters with "
         "different hash seeds, before and after pickling. Partial: collision resistance of the hash and pytools' KeyBuilder for "
         "built-ins are assumed/executed; traceback tagging fixed off as the statement says.",
    design_ref="§5 C18", note="enc abstracts the KeyBuilder's byte stream.")

CLAIMED["C03"] = dict(
    technique="Lean 4: broadcasting fold = NumPy's rule for all shape lists (theorem) + kernel-checked (decide +kernel) dtype table "
              "regenerated each run from live pytato and the installed NumPy + exhaustive/seeded constructor correspondence",
    text="Proved (model): get_shape_after_broadcasting's per-axis fold equals NumPy's rule (incl. exactly when it fails) for every "
         "list of shapes of any rank; slice normalisation/length = CPython's (shared with C02). Kernel-checked each run: all 9256 "
         "rows (21 binary operators/functions x 13 dtypes^2 and x 10 Python/NumPy scalar kinds on both sides; 19 unary functions "
         "x 13 dtypes) of the regenerated table agree wherever both pytato and NumPy accept, except the deviation categories "
         "committed in known_findings.json. Tie: the table (translator); shape pairs with 0..3 axes of length 0..4 (6000 sampled "
         "quick / all 24k thorough) and triples through the real operator vs the Lean model vs NumPy; every axis argument in "
         "[-ndim-1, ndim+1] of roll/stack/concatenate/expand_dims/squeeze/sum/amax/int index, all permutations and bad "
         "permutations, reshape targets incl. -1 and invalid, einsum/matmul validation: accept/reject + shape vs NumPy on "
         "concrete operands, errors after construction flagged; every intermediate node of generated programs: declared "
         "shape/dtype vs the reference evaluator. Partial: NumPy's promotion table is regenerated, not derived.",
    design_ref="§5 C03",
    note="Combinations NumPy rejects with a dtype TypeError (bitwise on floats, // % on complex) are outside the statement's "
         "'shape, axis or index errors' (counted); what pytato rejects and NumPy accepts is allowed (counted).")

CLAIMED["C08"] = dict(
    technique="Lean 4 theorems about the executor as a transition system (progress, strictly decreasing measure, inputs present, "
              "faithful) for ALL schedules + the real executor on a controlled fake MPI with exhaustive/seeded schedule exploration",
    text="Proved (model Pt.Dist, any number of ranks/parts/messages, every state and every schedule): progress (WFexec P, not "
         "terminal => some exec or deliver step is enabled: no deadlock, deliver only when nothing is ready as in the real loop); "
         "decreasing / execution_bounded (every execution is finite); inputs_present (no use before production or after release, "
         "with the refcount release of execute.py modelled); faithful (a terminal reachable state holds the reference solution for "
         "every overall output); checkWFexec_sound; wf_implies_wfexec. Tie: the real execute_distributed_partition runs unmodified "
         "on thread-ranks of a fake mpi4py whose scheduler owns every choice (Waitsome subsets, arrival order): exhaustive state-"
         "pruned DFS over all choice lists for small programs (<=3 ranks, <=4 messages), default + 10 seeded schedules beyond; every "
         "real trace must be a path of the Lean Step relation with equal enabled sets; every rank's result equals an independent "
         "global reference evaluation; every real partition passes checkWFexec. Partial: MPI, OpenCL transfers and thread timing "
         "are replaced by the scheduler (any delivery order, at least what MPI permits); parts are evaluated with NumPy.",
    design_ref="§5 C08", note="faithful is conditional on IsSolution (the harness's global reference plays that role).")
CLAIMED["C09"] = dict(
    technique="Lean 4 theorems (contract checker soundness, batch levels sound+complete, tag numbering consistent/injective/"
              "deterministic) + real partitions of thread-ranks on a controlled fake MPI fed to the verified checker",
    text="Proved (model Pt.Dist): checkWF_sound and wf_clauses (the seven clauses of the statement + uniqueness); the Kahn-peeling "
         "batch model is sound and complete for 'a ranking exists' (levels_respect_deps / levels_complete); number_tags: total, "
         "injective, distinct (src,dst,tag) keep distinct ids, result is a function of the flattened gathered sequence only. Tie: "
         "800 (quick) / 16000 (thorough) seeded multi-rank programs (1..4 ranks, 0..6 messages, rings/stars/chains/forwarding/"
         "send holders/pass-through outputs, materialised intermediates): the real find_distributed_partition + "
         "verify_distributed_partition + number_distributed_tags run unmodified on thread-ranks of a fake mpi4py; every rank's "
         "DistributedGraphPartition is serialised and checkWF runs on the union in ptdriver; an independent Python clause oracle; "
         "parts vs broadcast batches vs the Lean batch model; integer tags across ranks vs numberTags. Partial: the partitioner "
         "itself (mkPartition/partition_wf) is not modelled — tied per instance; ranks are threads of one interpreter (different "
         "hash seeds per rank: C17).",
    design_ref="§5 C09", note="MPI replaced by a controlled scheduler; _DistributedInputReplacer validated per instance.")
CLAIMED["C10"] = dict(
    technique="Lean 4 theorems (diagnose sound and complete w.r.t. Valid; cyclic exact) + exhaustive single-fault injection at every "
              "communication operation of real programs (+ targeted/seeded pairs) with schedule exploration of anything let through",
    text="Proved (model): diagnose_sound (Valid g -> ok), diagnose_complete (not Valid g -> error of the matching class), "
         "violated_exact, cyclic_exact (cyclic g = true <-> not Acyclic g), acyclic_no_cycle. Tie: for every valid base program "
         "14 fault kinds (drop/duplicate/retag/redirect a send or a receive, self-send, send to nowhere, cross-rank cycle, ...) at "
         "EVERY communication operation, both-ends pairs for every message and seeded pairs: the per-rank outcome of the real "
         "find_distributed_partition/verify_distributed_partition (exception class or partition) vs the model's diagnose; "
         "everything the real code lets through is executed under the schedule explorer (must not deadlock or mis-deliver); a "
         "valid program rejected is a violation. Partial: per-rank control flow (findOutcome/verifyOutcome) is model-only.",
    design_ref="§5 C10", note="A receive from a non-existent rank is only diagnosed by verify on the root (modelled so).")
CLAIMED["C13"] = dict(
    technique="Lean 4 theorems over a heap model of memoised mappers (visits once, reaches all, cached = tree, sharing kept, identity) "
              "+ kernel-checked children tables regenerated by instrumenting every real mapper + behavioural correspondence",
    text="Proved (model, any WF heap/root/mapper, no bound): visits_once (log Nodup however many paths), reaches_all (j in log <-> "
         "reachable via the mapper's edges), reach_complete, cached_eq_tree, log_topological, fuel_irrelevant (fuel is not a bound), "
         "sharing_kept (one result per visited node, heap only grows by |log|, input prefix untouched), identity_same. Kernel-"
         "checked each run: children_tables_complete over the table regenerated by instrumenting 35 real mappers/functions x 33 "
         "probe kinds (1137 rows; every stored edge kind incl. shape components, indices, CSR parts, send payloads, bindings), with "
         "exclusions only from the statement (function bodies for mappers documented not to enter them) and the committed known "
         "findings. Tie: invocation counts and result identities of the real mappers on diamonds, ladders of depth 10..60 (timeout "
         "catches re-traversal), one node through every edge kind, with/without structurally equal duplicates, vs the Lean model "
         "on the reflectively serialised heap; collisions must be reported, identity transforms return the argument. Not proved: "
         "collision_flagged (behavioural only).",
    design_ref="§5 C13", note="Loud refusals of a node kind are recorded and judged by C20.")
CLAIMED["C20"] = dict(
    technique="Lean 4 theorems about the modelled analyses (users/preds converse with multiplicity, topo order valid, counts, tag "
              "count, materialised set) + kernel-checked users tables + correspondence with all real analysis functions",
    text="Proved (model): users_converse (v in users u <-> reachable v and u in preds v; list and set versions), users_multiplicity, "
         "topo_valid (duplicate-free, exactly the reachable counted nodes, no node before a node it depends on), count_distinct / "
         "typeCount_spec / count_distinct_structural, tagcount_eq (the cache-0 trick counts each tagged node once), "
         "materialized_spec. Kernel-checked each run: three_users_agree over the regenerated per-kind edge tables of the three "
         "users/predecessor implementations (94 rows), modulo committed known findings. Tie: all analysis functions on diamonds, "
         "ladders, every-edge graphs, kinds graph, seeded random DAGs incl. duplicates, symbolic shapes, multi-output dicts, "
         "functions, distributed nodes vs the Lean model and vs the reflective walk over dataclass fields.",
    design_ref="§5 C20", note="Analyses modelled as folds over the completion log.")

CLAIMED["C06"] = dict(
    technique="Lean 4 theorems: multilinearity of the einsum semantics in every operand position, soundness of the modelled "
              "distributive-law rewrite for every policy/nesting, kernel-checked truth table of the real distributability predicate "
              "+ all-policies correspondence under the reference evaluator",
    text="Proved (model over Rat): einsum_add/sub/smul/muls/div_scalar (any operand position, repeated and broadcast-unit axes) via "
         "einsum_lincomb; distribute_sound: for every policy, nesting depth and opaque-operation interpretation, if the "
         "distributability predicate only accepts linear cases then the rewritten expression denotes the same array; "
         "not_linear_scalar_over_array (c / x is NOT linear: concrete witness). Kernel-checked each run (decide +kernel): "
         "can_dist_is_linear over the truth table of the REAL _can_hlo_be_distributed regenerated by calling it on synthetic HLOs "
         "(18 operators x operand kinds x shapes equal?; 77 rows) => distribute_sound_table. Tie: the table (translator) + seeded "
         "expressions with 1..3 (nested) einsums whose operands are trees of + - * / with array/scalar operands in both positions, "
         "powers, math functions, indexing, reshapes, transposes, broadcast-unit axes, under EVERY distribution policy (<=64 per "
         "expression): original vs rewritten values under the reference evaluator; rewrite_einsums_with_no_broadcasts likewise "
         "(+ no broadcasting operand may remain). Partial: floating-point reassociation outside the model (tolerance).",
    design_ref="§5 C06", note="The raiser the rewrite consumes is C19's subject.")
CLAIMED["C19"] = dict(
    technique="Lean 4 theorems: soundness of a model of the raising cascade w.r.t. the index-lambda semantics + correspondence of the "
              "model's classification with the real raiser + NumPy interpretation of every real classification",
    text="Proved (model Pt.Raise.raise of index_lambda_to_high_level_op): raise_sound — whenever the cascade classifies an index "
         "lambda as full / binary operation (both operand orders, array or scalar operands, broadcasting) / c99 call / zeros_like / "
         "where / logical_not / broadcast, applying that operation (NumPy broadcasting) reproduces the index lambda's value at "
         "every in-bounds index; raise_sound_reduce for reductions over any axis subset and all six operators; raise_rejects "
         "(permuted/offset/constant subscripts, three-operand sums, lone casts, unknown functions, reductions with non-zero lower "
         "bound or wrong extent are unknown). Tie: 2660 API-built index lambdas (every operator in both orders x array/scalar "
         "operands x broadcasting shapes x dtypes, comparisons, logical, where, math functions, reductions over every axis subset, "
         "full, broadcast_to, zeros_like, logical_not) and 19 hand-built near-misses: the real HighLevelOp is interpreted with NumPy "
         "on the identified operands and compared with the pointwise interpreter; API forms must be recognised, everything else "
         "unknown (never an exception); the Lean model must classify every case like the real raiser. Partial: casts are dropped "
         "before matching (dtype effects compared numerically).",
    design_ref="§5 C19", note="A cast (astype) is none of the high-level operations: reported as unknown.")
CLAIMED["C12"] = dict(
    technique="Lean 4 theorems about placeholder substitution without capture and call inlining over a term model + correspondence "
              "of trace_call / inline_calls with direct application (reference evaluator and generated code)",
    text="Proved (model Pt.Calls, any value type and operation interpretation): subst_no_capture (substituting bindings for "
         "parameters, without re-traversing what was substituted, denotes the body under the bound values — also when caller and "
         "callee names coincide); inline_sound (inlining every call preserves the value: nested/repeated calls, name clashes); "
         "inline_call_free; trace_names_agree and trace_binding_names_nodup (the parameter-name set of a traced definition equals "
         "the binding-name set for any positional/keyword mixture; no collisions given the RE_ARGNAME rejection); retraverse_wrong "
         "(a substitutor that recurses into its own output is wrong on a concrete clash). Tie: seeded functions (1..4 parameters; "
         "array/tuple/dict returns), call sites positional/keyword/mixed, repeated, nested <= 3, caller placeholders named like "
         "callee parameters: trace_call results have the shapes/dtypes/values of direct application; tag_all_calls_to_be_inlined "
         "+ inline_calls gives a call-free graph with identical values; generated code of graphs with calls agrees. Partial: "
         "single-return model; trace_call_denote is validated by the correspondence, not proved.",
    design_ref="§5 C12", note="Graphs are deduplicated first (two trace_calls of one Python function give equal but distinct definitions).")

CLAIMED["C05"] = dict(
    technique="Lean 4 theorems over the heap model of transform mappers (identity, append-only, dedup, denotation lifting) + the "
              "model's structural checkers run on the REAL inputs/results + every real transformation vs the reference evaluator",
    text="Proved (heap model, any WF heap/sharing): copy_identity / map_and_copy_id (identity node function on a duplicate-free "
         "heap returns the argument itself, heap unchanged); input_heap_prefix (every transformation only appends: input nodes keep "
         "their data — 'never mutates its input' in the model); transform_preserves_denote (a node function that preserves a local "
         "denotation lifts to the whole DAG for any sharing: carries dead-code elimination, tag-only transformations, lowering); "
         "tag_transform_same_up_to_tags; dedup_unfold (same unfolded tree), dedup_dupFree, dedup_idem, dedup_of_dupFree. Tie: copy "
         "mapper, map_and_copy(identity), deduplicate, deduplicate_data_wrappers, eliminate_dead_code, materialize_with_mpms, "
         "unify_axes_tags, preprocessing — singly and in seeded pipelines <= 4 — on generated programs incl. non-deduplicated "
         "graphs, dead zeros_like/ones_like references, multi-output dicts, pre-tagged nodes/axes/reductions: same output names; "
         "shape/dtype/value of every output under the reference evaluator (thorough: generated code too); reflective structural "
         "fingerprint of the input incl. bytes + writeable flag of wrapped data unchanged; idempotence; tags-only; identity "
         "returned; and each real (input, result) pair serialised into ONE heap by object identity and checked by the Lean model's "
         "unfoldeq / sametags / dupfree / extends. Partial: Python-level mutation is monitored by snapshots, not modelled; the "
         "concrete mpms/unify/dce node functions enter the theorem through its Preserves hypothesis (validated per instance).",
    design_ref="§5 C05", note="Graphs with duplicates are only given to deduplicate / the unchecked copy mapper first, as pytato documents.")

NOT_YET = "check not built yet in this revision (see DESIGN.md §10 build order); not claimed"

ALL = [f"C{n:02d}" for n in range(1, 21)]


# what later rounds added (after independent seeded changes, DESIGN §10); appended to the texts above
EXTENDED = {
    "C01": "Extended: the public array API function by function vs NumPy's own functions (harness/apitable.py: ~1900 calls incl. "
           "method forms, mixed-rank matmul, compound expressions, constant-valued array operands, integer parameters spelled as "
           "NumPy integers of every width/signedness, comparisons of mixed signedness/width/kind, signed floor division, zero-size "
           "constructors, rank mismatches) — the graph's value and the generated code; special values; loopy calls with colliding "
           "callee names; C compile errors of generated code are classified. Lean: the API construction layer (binop_sound, "
           "where_sound, reduce_sound, full/eye/arange/csr_matmul_sound, api_emits_own_name over a regenerated table) and the loopy "
           "STATEMENT GENERATOR (LoopyGen.lean): loopygen_sound_red_partial / loopygen_checks_red_partial / ..._any_schedule on the "
           "decidable fragment (inlined, stored and named temporaries, outputs using each other, chains of reductions with constant "
           "or data-dependent hoisted bounds, 0-d results); the model's kernel equals the real kernel's read-back statement by "
           "statement on 100 % of the programs, 82 % of them inside the proved fragment (Boolean constants and empty results are "
           "modelled and tied but outside it). A single real-code call that does not "
           "finish (300 s / 16 GB) is reported as a violation by the watchdog of harness/main.py.",
    "C02": "Extended: theorems now also for stack, concatenate, reshape (C and F, total), pad (incl. symbolic axes), einsum "
           "(lower_einsum_correct), advanced indexing (lower_advindex_correct, partial: segment computation tied by text), binary "
           "operators with broadcasting (comparisons in NumPy's promoted operand type), where, reductions over every axis subset, "
           "constructors, CSR matmul; each with an exact expression-text tie on an exhaustive small scope; basic indices written "
           "with an Ellipsis; repeated / equal / distinct index operands on axes of different lengths.",
    "C03": "Extended: exhaustive 1-d slice shapes, exhaustive index forms (ints, slices, index arrays, Ellipsis; 13 563 tuples), "
           "API-table shapes with boundary constructor arguments, n-ary dtype inference over all ordered dtype triples "
           "(concatenate/stack/einsum/where/maximum/minimum, 16 464 cases), axis tuples with mixed signs and duplicates; "
           "matmul/dot/vdot/pad shape rules proved equal to NumPy's documented rules for every rank (matmul_eq_spec, dot_eq_spec, "
           "vdot_eq_spec, matmul_refuses_stretched_contraction, pad_accepts_iff, pad_shape) and tied to the code on all shape pairs "
           "of rank 0..3 over lengths {0,1,3}; degenerate shortcuts x invalid arguments.",
    "C04": "Extended: argument spellings (dtype as class/string/np.dtype, numpy integers of every width): equal, same hash, one key; "
           "length mutants of every variadic field.",
    "C05": "Extended: reference taken from the graph as built; repeated operands for every multi-operand kind; overlapping views of "
           "one buffer; hash-colliding distinct nodes; explicit tag conflicts counted as refusals; idempotence with pre-placed tags.",
    "C06": "Extended: shared operand sub-expressions between einsums of one pattern, same-rank broadcasting sums in table and "
           "generator, several unit axes per operand, unit axis on one occurrence of a repeated index.",
    "C07": "Extended: ImplStored on inputs; exhaustive chain p -> q(p) -> out(p, q) x tag pairs; Named names shared with PrefixNamed; "
           "truthful promise tags; every tag variant's kernel also compared with the Lean statement-generator model (360/360).",
    "C08": "Extended: executor re-validated on the whole node-kind space of payloads/consumers/bystanders; executing one partition twice.",
    "C09": "Extended: the partitioner is modelled in Lean (Partition.lean) and compared field by field with every real partition "
           "(100 % agree on ~1000 programs per seed incl. constructors without operands, reductions, where, pad, zero-size and 0-d "
           "arrays, rings sharing one symbolic tag); partition_wf IN FULL (GoodProgram p -> NamesOK base p -> WF (partitionOf base p), "
           "all 19 clauses as clause_* theorems), partition_exec_faithful, partition_comm_once, partition_deterministic, diagnoses_exact; "
           "tag numbering vs the model partition. Not proved: checkWF (partitionOf p) = true as a theorem, order inside a batch.",
    "C10": "Extended: differential test of the real scheduler against longest-path levels and the Lean batches on shuffled and cyclic "
           "graphs; Lean model of verify_distributed_partition (diagnose_partition_exact/sound/complete) with a partition-level fault layer.",
    "C11": "Extended: access theorems for pad, einsum, advanced indexing (affine parts), binary ops/where, reductions, constructors, CSR; "
           "symbolic programs with pad/strided slices/concatenate/expand_dims/broadcast_to/multi-index einsums and degenerate symbolic lengths.",
    "C12": "Extended: Lean model of multi-return calls, tracing, selective inlining and tag_all (CallsMulti.lean, 34 obligations: "
           "call_result_projection, tuple_names_positional, trace_call_denote, inline_sound_multi for any tagging/nesting, "
           "inline_preserves_sharing, tag_all_complete, ...) with an exhaustive structural tie (767 cases) and a seeded selective-inlining batch.",
    "C13": "Extended: nested shared functions (every body once), result de-duplication with sharing, single-edge replacement for every "
           "kind x edge x transform mapper, ladders through every edge class counted at class level (incl. EqualityComparer, hashing, keys); "
           "extra arguments passed positionally / by keyword / mixed reach every node through every edge class.",
    "C14": "Extended: Lean model of the NumPy-like generator (PyAst/PyGen/PyDenote/PyParse): pygen_sound on the decidable fragment, "
           "pygen_refuses, outputs_aligned, print_parse_roundtrip, print_precedence_sound, il_value_pointwise; the emitted TEXT of the "
           "real generator equals the model's on ~4300 graphs per run (97 % inside the proved fragment); scalar-operand forms, dtype "
           "mismatches, C19's near-misses through the target, API table vs NumPy's functions, Ellipsis next to advanced indices.",
    "C15": "Extended: adversarial name tags (Named/PrefixNamed colliding with inputs, outputs and derived names), Named => exactly that "
           "name; loopy-call scenarios; user names equal to the identifiers of the generated Python module (np, the entry point).",
    "C16": "Extended: every consumer of the shape-equality decision (incl. >= 3 operands, einsum diagonals, rank mismatches); degenerate "
           "affine spellings; every symbolic kernel also interpreted. Lean: shape inference of 13 node kinds over affine dims "
           "(SymShape.lean): symshape_<kind>_sound for every kind, slice_len_sym_sound / _refusals, completeness where true; tie of the "
           "real .shape (affine structure) with the model on ~3000 cases per run.",
    "C17": "Extended: multi-output programs with output-to-output dependencies; fan-in communication with symbolic tags; per-part "
           "generated code across hash seeds; loopy-call programs generated with and without earlier code generation in the process; "
           "names differing only in case.",
    "C18": "Extended: wrapped-data sensitivity (sizes around block boundaries x positions x layouts; views of one buffer); argument "
           "spellings; scalar-constant sensitivity (pairs of constants with differing results must give differing keys).",
    "C19": "Extended: unit-axis shapes for unary/math/reductions, fused-broadcast and flattened-subtraction near-misses, lowered "
           "high-level nodes, operands that do not broadcast, nan/inf fills, NaN of a type without NaN.",
    "C20": "Extended: DependencyMapper / SubsetDependencyMapper / InputGatherer / SizeParamGatherer vs the reflective closure on every node kind.",
}
for _k, _v in EXTENDED.items():
    CLAIMED[_k]["text"] = CLAIMED[_k]["text"].rstrip() + " " + _v


def main():
    checks = []
    for pid in ALL:
        if pid not in CLAIMED:
            continue
        c = CLAIMED[pid]
        checks.append({
            "property_id": pid,
            "quick_cmd": f"./check {pid} --tier quick",
            "thorough_cmd": f"./check {pid} --tier thorough",
            "replay_cmd_template": f"./check {pid} --replay {{path}}",
            "evidence_file": f"/verif/evidence/{pid}.json",
            "engine": "lean4-proof+correspondence",
            "technique": c["technique"],
            "level_claimed": {"category": c.get("category", "proof"), "text": c["text"],
                              "design_ref": c["design_ref"]},
            "level_note": COMMON_NOTE + c["note"],
        })
    man = {
        "version": 1,
        "setup_cmd": "./setup.sh",
        "hooks": {
            "guard": "PYTATO_VERIF",
            "enable": "no source hooks: all instrumentation is done from the harness process "
                      "(subclassing, sys.modules stand-ins); PYTATO_VERIF=1 is exported by ./check but unused by /repo",
            "baseline_off_cmd": "cd /repo && /venv/bin/python -m pytest -ra -q -p no:cacheprovider --timeout=900 "
                                "--continue-on-collection-errors",
            "source_commits": [],
            "add_only": True,
        },
        "engines": [
            {"name": "lean-model-and-proofs", "path": "lean/",
             "serves_properties": sorted(CLAIMED),
             "kind_free_text": "Lean 4 project: PtModel (executable model, Mathlib-free), PtProofs (theorems), "
                               "PtGen (tables regenerated from /repo on each run), ptdriver (line-protocol driver)"},
            {"name": "harness", "path": "harness/", "serves_properties": sorted(CLAIMED),
             "kind_free_text": "Python: translator (table extraction), correspondence harness, failing-input "
                               "searches with independent oracles (NumPy, ilinterp), evidence/replay writer"},
        ],
        "checks": checks,
        "not_applicable": [{"property_id": p, "reason": NOT_YET} for p in ALL if p not in CLAIMED],
        "notes": "Repairs of genuine defects are separate unguarded `fix:` commits in /repo, listed in "
                 "known_findings.json under `fixed`.",
    }
    out = VERIF / "MANIFEST.json"
    out.write_text(json.dumps(man, indent=1) + "\n")
    try:
        import jsonschema
        schema = json.loads(Path("/root/.vp/MANIFEST.schema.json").read_text())
        jsonschema.validate(man, schema)
        print("MANIFEST.json valid;", len(checks), "checks,", len(man["not_applicable"]), "not applicable")
    except ImportError:
        print("jsonschema not available; wrote MANIFEST.json unvalidated")


if __name__ == "__main__":
    sys.exit(main())

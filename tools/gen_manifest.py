#!/usr/bin/env python3
"""Regenerates /verif/MANIFEST.json from the table below (kept next to the
checks so that the manifest never drifts from what exists) and validates it."""
import json
import sys
from pathlib import Path

VERIF = Path(__file__).resolve().parent.parent

COMMON_NOTE = (
    "Trusted base: Lean 4.33.0 kernel; axioms as reported by `#print axioms` for every listed theorem on "
    "each run (allowed: propext, Classical.choice, Quot.sound; no sorry/native_decide/bv_decide/own axioms — "
    "grepped and audited each run); the Python translator/correspondence harness under harness/; ptdriver "
    "(PtModel compiled by the Lean compiler + C toolchain) for the executable side. The theorems are about "
    "the Lean model; the tie to /repo is the correspondence/translation described, re-run on every check. ")

CLAIMED = {
    "C02": dict(
        technique="Lean 4 theorems over hand-written models of the lowering rules + exhaustive bounded "
                  "correspondence of real to_index_lambda against the model, the Lean evaluator and NumPy",
        text="Proved in Lean for all ranks/shapes/parameters (no bound): slice normalisation = CPython's "
             "PySlice_AdjustIndices and its length; every index a normalised slice visits is in bounds; "
             "ravel/unravel are inverse (C and F order); the modelled lowering of roll, axis permutation and "
             "basic indexing (ints+slices) evaluates pointwise to NumPy's element (Spec). Tie: the real "
             "to_index_lambda output is serialised and evaluated by the same Lean evaluator on the exhaustive "
             "bounded scope (all slices start/stop in None,-7..7 x step ±1..3 on n<=6; all rolls, permutations, "
             "stack/concatenate on shapes up to rank 3-4; reshapes C/F up to 24 (quick) / 64 (thorough) elements; "
             "seeded advanced-index/einsum/CSR cases) and compared with NumPy, with the Lean model of the rule and "
             "with the Lean Spec. Rules without a theorem yet (stack, concatenate, reshape, advanced index, einsum, "
             "CSR) are covered by the correspondence with NumPy only; stated in evidence.",
        design_ref="§5 C02",
        note="Modelled not verified: NumPy itself (reference), pymbolic expression construction (covered by "
             "serialising the real expression), integer-only test data."),
}

NOT_YET = "check not built yet in this revision (see DESIGN.md §10 build order); not claimed"

ALL = [f"C{n:02d}" for n in range(1, 21)]


def main():
    checks = []
    for pid in ALL:
        if pid not in CLAIMED:
            continue
        c = CLAIMED[pid]
        checks.append({
            "property_id": pid,
            "quick_cmd": f"./check {pid} --tier quick",
            "thorough_cmd": f"./check {pid} --tier thorough",
            "replay_cmd_template": f"./check {pid} --replay {{path}}",
            "evidence_file": f"/verif/evidence/{pid}.json",
            "engine": "lean4-proof+correspondence",
            "technique": c["technique"],
            "level_claimed": {"category": c.get("category", "proof"), "text": c["text"],
                              "design_ref": c["design_ref"]},
            "level_note": COMMON_NOTE + c["note"],
        })
    man = {
        "version": 1,
        "setup_cmd": "./setup.sh",
        "hooks": {
            "guard": "PYTATO_VERIF",
            "enable": "no source hooks: all instrumentation is done from the harness process "
                      "(subclassing, sys.modules stand-ins); PYTATO_VERIF=1 is exported by ./check but unused by /repo",
            "baseline_off_cmd": "cd /repo && /venv/bin/python -m pytest -ra -q -p no:cacheprovider --timeout=900 "
                                "--continue-on-collection-errors",
            "source_commits": [],
            "add_only": True,
        },
        "engines": [
            {"name": "lean-model-and-proofs", "path": "lean/",
             "serves_properties": sorted(CLAIMED),
             "kind_free_text": "Lean 4 project: PtModel (executable model, Mathlib-free), PtProofs (theorems), "
                               "PtGen (tables regenerated from /repo on each run), ptdriver (line-protocol driver)"},
            {"name": "harness", "path": "harness/", "serves_properties": sorted(CLAIMED),
             "kind_free_text": "Python: translator (table extraction), correspondence harness, failing-input "
                               "searches with independent oracles (NumPy, ilinterp), evidence/replay writer"},
        ],
        "checks": checks,
        "not_applicable": [{"property_id": p, "reason": NOT_YET} for p in ALL if p not in CLAIMED],
        "notes": "Repairs of genuine defects are separate unguarded `fix:` commits in /repo, listed in "
                 "known_findings.json under `fixed`.",
    }
    out = VERIF / "MANIFEST.json"
    out.write_text(json.dumps(man, indent=1) + "\n")
    try:
        import jsonschema
        schema = json.loads(Path("/root/.vp/MANIFEST.schema.json").read_text())
        jsonschema.validate(man, schema)
        print("MANIFEST.json valid;", len(checks), "checks,", len(man["not_applicable"]), "not applicable")
    except ImportError:
        print("jsonschema not available; wrote MANIFEST.json unvalidated")


if __name__ == "__main__":
    sys.exit(main())

import PtProofs.C14
#print axioms Pt.slice_resynth_roundtrip
#print axioms Pt.slice_resynth_selects_same
#print axioms Pt.Py.pygen_sound
#print axioms Pt.Py.pygen_refuses
#print axioms Pt.Py.outputs_aligned
#print axioms Pt.Py.fragment_check_sound
#print axioms Pt.Py.print_parse_roundtrip
#print axioms Pt.Py.print_precedence_sound
#print axioms Pt.Py.il_value_pointwise

import PtProofs.BasicLemmas
import PtProofs.SliceLemmas
import PtProofs.EvalLemmas
import PtProofs.BasicIndexLemmas
import PtProofs.C02

/-
  Lemmas for C14's `pygen_sound`: evaluation of the emitted Python fragment,
  fuel irrelevance of the node denotation (core Lean only).
-/
import PtModel.PyDenote
import PtProofs.C15
namespace Pt
namespace Py

/-! ## the `Gen` monad -/

theorem Gen.bind_ok {α β : Type} {x : Gen α} {f : α → Gen β} {r : β} :
    Gen.bind x f = .ok r ↔ ∃ a, x = .ok a ∧ f a = .ok r := by
  cases x with
  | ok a => simp [Gen.bind]
  | refuse w => simp [Gen.bind]
  | unmodelled w => simp [Gen.bind]

theorem Gen.ofOption_ok {α : Type} {w : String} {o : Option α} {a : α} :
    Gen.ofOption w o = .ok a ↔ o = some a := by
  cases o <;> simp [Gen.ofOption]

/-! ## environments -/

/-- the module names of the generated program are not shadowed -/
structure CleanEnv (env : PEnv) : Prop where
  ptnp : env.get? "_pt_np" = none
  np : env.get? "np" = none
  float : env.get? "float" = none
  complex : env.get? "complex" = none

theorem PEnv.get?_cons (env : PEnv) (l n : String) (v : PyVal) :
    PEnv.get? ((l, v) :: env) n = if l = n then some v else env.get? n := by
  unfold PEnv.get?
  by_cases h : l = n
  · simp [h]
  · simp [List.find?_cons, h]

theorem pyEval_name {env : PEnv} {n : String} {v : PyVal} (h : env.get? n = some v) :
    pyEval env (.name n) = some v := by
  simp [pyEval, h]

theorem pyEval_npf {env : PEnv} (hc : CleanEnv env) (f : String) :
    pyEval env (npf f) = some (.ref "_pt_np" (some f)) := by
  simp [npf, pyEval, hc.ptnp]

theorem pyEval_np_attr {env : PEnv} (hc : CleanEnv env) (t : String) :
    pyEval env (.attr (.name "np") t) = some (.ref "np" (some t)) := by
  simp [pyEval, hc.np]

theorem negate_negate_int (k : Int) : negate (.i (-k)) = .i k := by
  simp [negate]

theorem pyEval_intConst (env : PEnv) (k : Int) : pyEval env (intConst k) = some (.scalar (.i k)) := by
  unfold intConst
  split
  · simp [pyEval, negate]
  · simp [pyEval]

/-- names bound to arrays -/
def BoundTo (env : PEnv) : List String → List (Arr Val) → Prop
  | [], [] => True
  | n :: ns, a :: as => env.get? n = some (.arr a) ∧ BoundTo env ns as
  | _, _ => False

theorem pyEvalList_names {env : PEnv} : ∀ {names : List String} {as : List (Arr Val)},
    BoundTo env names as → pyEvalList env (names.map .name) = some (as.map .arr)
  | [], [], _ => by simp [pyEvalList]
  | n :: ns, a :: as, h => by
    simp [pyEvalList, pyEval_name h.1, pyEvalList_names h.2]
  | [], _ :: _, h => by simp [BoundTo] at h
  | _ :: _, [], h => by simp [BoundTo] at h

theorem pyEvalList_shape (env : PEnv) : ∀ (s : Shape),
    pyEvalList env (s.map fun d => intConst (d : Nat)) = some (s.map fun d => .scalar (.i (d : Nat)))
  | [] => by simp [pyEvalList]
  | d :: r => by simp [pyEvalList, pyEval_intConst, pyEvalList_shape env r]

theorem ints?_nats : ∀ (s : Shape),
    ints? (s.map fun d => PyVal.scalar (.i (d : Nat))) = some (s.map fun (d : Nat) => (d : Int))
  | [] => by simp [ints?]
  | d :: r => by simp [ints?, PyVal.int?, ints?_nats r]

theorem nats?_shape (s : Shape) : nats? (s.map fun d => PyVal.scalar (.i (d : Nat))) = some s := by
  unfold nats?
  rw [ints?_nats]
  simp only [Option.bind_some]
  have h1 : (s.map fun (d : Nat) => (d : Int)).all (· ≥ 0) = true := by
    simp [List.all_eq_true]
  rw [if_pos h1]
  simp [List.map_map, Function.comp_def]

theorem pyEval_shapeTuple (env : PEnv) (s : Shape) :
    pyEval env (shapeTuple s) = some (.seq (s.map fun d => .scalar (.i (d : Nat)))) := by
  simp [shapeTuple, pyEval, pyEvalList_shape]

/-! ## the denotation does not depend on the fuel -/

theorem allSomeArr_congr {d1 d2 : Nat → Option (Arr Val)} : ∀ (cs : List Nat),
    (∀ c, c ∈ cs → d1 c = d2 c) → allSomeArr (cs.map d1) = allSomeArr (cs.map d2)
  | [], _ => rfl
  | c :: r, h => by
    simp only [List.map_cons]
    rw [h c (by simp), List.map_congr_left (fun x hx => h x (by simp [hx]))]

theorem envOf_congr {d1 d2 : Nat → Option (Arr Val)} : ∀ (binds : List (String × Nat)),
    (∀ b, b ∈ binds → d1 b.2 = d2 b.2) → envOf d1 binds = envOf d2 binds
  | [], _ => rfl
  | b :: r, h => by
    unfold envOf
    simp only [List.filterMap_cons]
    rw [h b (by simp)]
    have := envOf_congr r (fun x hx => h x (by simp [hx]))
    unfold envOf at this
    rw [this]

theorem denoteStep_congr (g : PGraph) (inp : Nat → Option (Arr Val)) (d1 d2 : Nat → Option (Arr Val))
    (i : Nat) (h : ∀ c, c ∈ kidsOf g i → d1 c = d2 c) :
    denoteStep g inp d1 i = denoteStep g inp d2 i := by
  unfold denoteStep
  unfold kidsOf at h
  cases hn : (g.get i).node <;> simp only [hn] at h ⊢
  case indexLambda dt e binds lits =>
    have : envOf d1 binds = envOf d2 binds := by
      exact envOf_congr binds (fun b hb => h b.2 (List.mem_map.2 ⟨b, hb, rfl⟩))
    rw [this]
  case roll c s a => rw [h c (by simp)]
  case perm c p => rw [h c (by simp)]
  case reshape c o => rw [h c (by simp)]
  case stack cs a => rw [List.map_congr_left (fun x hx => h x hx)]
  case concat cs a => rw [List.map_congr_left (fun x hx => h x hx)]
  case index c ix => rw [h c (by simp)]
  case alias c => rw [h c (by simp)]

theorem denote_fuel_irrel {g : PGraph} (hw : WFG g) (inp : Nat → Option (Arr Val)) :
    ∀ (f1 f2 i : Nat), i < f1 → i < f2 → denote g inp f1 i = denote g inp f2 i
  | 0, _, _, h, _ => absurd h (Nat.not_lt_zero _)
  | _+1, 0, _, _, h => absurd h (Nat.not_lt_zero _)
  | f1+1, f2+1, i, h1, h2 => by
    show denoteStep g inp (denote g inp f1) i = denoteStep g inp (denote g inp f2) i
    apply denoteStep_congr
    intro c hc
    have hci := hw i c hc
    exact denote_fuel_irrel hw inp f1 f2 c
      (Nat.lt_of_lt_of_le hci (Nat.le_of_lt_succ h1)) (Nat.lt_of_lt_of_le hci (Nat.le_of_lt_succ h2))

/-- the denotation of node `i` in terms of the denotations of its children -/
theorem den_step {g : PGraph} (hw : WFG g) (inp : Nat → Option (Arr Val)) (i : Nat) :
    den g inp i = denoteStep g inp (den g inp) i := by
  show denoteStep g inp (denote g inp i) i = _
  apply denoteStep_congr
  intro c hc
  exact denote_fuel_irrel hw inp _ _ c (hw i c hc) (Nat.lt_succ_self _)

end Py
end Pt

/-
  Property C12 — outlining a function and inlining its calls are
  value-preserving.  Model: `PtModel.Calls` (terms with calls; a function body
  is a separate name space; `substPlaceholders` = `PlaceholderSubstitutor`,
  `inline` = `Inliner` with every call tagged).  The theorems hold for every
  value type `V`, every interpretation `interp` of the opaque operations and
  every `undef`.
-/
import PtProofs.CallsLemmas
import PtProofs.C12Multi   -- several results, trace_call, selective inlining, tag_all (same property)
namespace Pt
open Calls

variable {V : Type} (interp : String → List V → V) (undef : V)

/-- Substitution captures nothing: the value of the substituted body in the
    caller's environment is the value of the body in the environment that maps
    each name to the value (in the CALLER's environment) of the term substituted
    for it — even when those terms mention placeholders named like the
    parameters being replaced. -/
theorem subst_no_capture (σ : String → Term) (body : Term) (env : String → V) :
    denote interp undef env (substPlaceholders σ body)
      = denote interp undef (fun p => denote interp undef env (σ p)) body :=
  subst_denote interp undef σ body env

/-- Inlining every call preserves the value, in every environment: nested calls
    (in bodies and in bindings), repeated calls, caller placeholders named like
    parameters. -/
theorem inline_sound (t : Term) (env : String → V) :
    denote interp undef env (Calls.inline t) = denote interp undef env t :=
  inline_denote interp undef t env

/-- after inlining no `Call` node is left -/
theorem inline_call_free (t : Term) : callFree (Calls.inline t) = true := callFree_inline t

/-- inlining one call site = substituting the (inlined) bindings into the (inlined) body,
    and that is the call's value -/
theorem inline_call (params : List String) (body : Term) (bindings : List (String × Term))
    (env : String → V) :
    denote interp undef env (substPlaceholders (callSubst params bindings) body)
      = denote interp undef env (.call params body bindings) := by
  rw [subst_denote]
  simp only [denote]
  congr 1
  funext p
  exact denote_callSubst interp undef env params bindings p

/-! ## `trace_call`: the parameter names of the definition and the names the call binds -/

/-- both name sets are the same … -/
theorem trace_names_agree (nargs : Nat) (kws : List String) (x : String) :
    x ∈ traceParams nargs kws ↔ x ∈ traceBindingNames nargs kws := by
  simp [traceParams, traceBindingNames, List.map_map, Function.comp]

theorem nodup_map_of_injective {α β : Type} (f : α → β) (hf : ∀ a b, f a = f b → a = b) :
    ∀ (l : List α), l.Nodup → (l.map f).Nodup
  | [], _ => List.nodup_nil
  | a :: l, h => by
    simp only [List.nodup_cons, List.map_cons, List.mem_map, not_exists, not_and] at h ⊢
    exact ⟨fun b hb e => h.1 (hf b a e ▸ hb), nodup_map_of_injective f hf l h.2⟩

/-- … and the call `function(**{…positional…}, **{…keyword…})` has no duplicate
    keyword, for every number of positional arguments and every (duplicate-free)
    set of keyword names none of which is `_pt_<i>` (the names `trace_call`
    rejects through `RE_ARGNAME`) -/
theorem trace_binding_names_nodup (nargs : Nat) (kws : List String) (hk : kws.Nodup)
    (hre : ∀ kw ∈ kws, ∀ i : Nat, kw ≠ "_pt_" ++ toString i) :
    (traceBindingNames nargs kws).Nodup := by
  simp only [traceBindingNames, List.map_map]
  rw [List.nodup_append]
  refine ⟨?_, ?_, ?_⟩
  · exact nodup_map_of_injective posName (fun _ _ h => posName_injective h) _ List.nodup_range
  · exact nodup_map_of_injective kwName (fun _ _ h => kwName_injective h) _ hk
  · intro a ha b hb hab
    obtain ⟨i, _, rfl⟩ := List.mem_map.mp ha
    obtain ⟨kw, hkw, rfl⟩ := List.mem_map.mp hb
    exact posName_ne_kwName (hre kw hkw i) hab

/-! ## re-traversing the substituted terms is WRONG (Appendix-C mutation 48) -/

/-- arithmetic on integers as the interpretation of two operations -/
def cxInterp (f : String) (vs : List Int) : Int :=
  match f, vs with
  | "add1", [v] => v + 1
  | "sub", [a, b] => a - b
  | _, _ => 0

/-- caller: placeholder `x` (= 10); callee `f(x) = x`, called as `f(x = add1(x))`:
    the binding mentions the caller's `x`, named like the parameter -/
def cxEnv (n : String) : Int := if n = "x" then 10 else 0
def cxCall : Term := .call ["x"] (.placeholder "x") [("x", .op "add1" [.placeholder "x"])]

/-- the correct substitutor gives 11; a substitutor that recurses into what it
    substituted gives 12 (one re-traversal) — it captures the caller's `x` -/
theorem retraverse_wrong :
    denote cxInterp 0 cxEnv cxCall = 11 ∧
    denote cxInterp 0 cxEnv (Calls.inline cxCall) = 11 ∧
    denote cxInterp 0 cxEnv
      (substRetraverse (callSubst ["x"] [("x", .op "add1" [.placeholder "x"])]) 1
        (.placeholder "x")) = 12 := by decide

/-! ## non-vacuity -/

/-- `g(a, b) = sub(a, f(b))` with `f(x) = add1(x)`, called as `g(a = y, b = a)` where the caller
    has placeholders `a` (= 5) and `y` (= 100): nested call, caller names clash with parameters -/
def exF (arg : Term) : Term := .call ["x"] (.op "add1" [.placeholder "x"]) [("x", arg)]
def exG : Term :=
  .call ["a", "b"] (.op "sub" [.placeholder "a", exF (.placeholder "b")])
    [("a", .placeholder "y"), ("b", .placeholder "a")]
def exCallEnv (n : String) : Int := if n = "a" then 5 else if n = "y" then 100 else 0

example : denote cxInterp 0 exCallEnv exG = 94 ∧ denote cxInterp 0 exCallEnv (Calls.inline exG) = 94
    ∧ callFree exG = false ∧ callFree (Calls.inline exG) = true := by decide
example : traceBindingNames 2 ["b", "scale"] = ["in__pt_0", "in__pt_1", "in_b", "in_scale"] := by
  decide
example : (["b", "scale"] : List String).Nodup := by decide

end Pt

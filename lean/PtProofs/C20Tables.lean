/-
  Property C20 — the regenerated-table obligation (own module, so that a source
  change that breaks a table row does not hide the general theorems of `PtProofs.C20`).
-/
import PtModel.Tables
import PtGen.Children
namespace Pt

/-! ## the three users / predecessor implementations agree

  `PtGen.usersTables` is rebuilt from the live code on every run: per node kind,
  the edges `ListOfUsersCollector`, `UsersCollector` and
  `ListOfDirectPredecessorsGetter` report.  Every edge any of them reports must be
  reported by all three (with equal multiplicity in the two list-valued ones), and
  none may raise on a kind — except the rows rendered from the committed
  known_findings.json. -/
theorem three_users_agree : PtGen.usersTables.agreeAll true = true := by
  decide +kernel

/-- non-vacuity: the tables are populated -/
example : PtGen.usersTables.usersLabels.length > 30 := by decide +kernel
example : PtGen.usersTables.pattern "CSRMatmul" "csr:row_starts" = [1, 1, 1] := by decide +kernel

end Pt

/-
  C01 generator model, reductions — the chain of reductions at the root of an index lambda through
  the passes of `ilStore` (`hoistBounds`, `replaceBounds`, `renameRed`, `gen`, `substIdx`,
  `readBackBounds`), level by level.
-/
import PtProofs.LoopyGenRed
namespace Pt
namespace LG

/-- one level of a chain with everything the generator attaches to it: the variable `v`, its
    unique name `u`, the bounds `lo`, `hi` as in the index lambda and as generated (`lb`, `ub`), the
    temporaries and instruction ids of the hoisted bounds -/
structure RL where
  op : RedOp
  v : String
  u : String
  lo : SExpr
  hi : SExpr
  lb : SExpr
  ub : SExpr
  tl : String
  il : String
  tu : String
  iu : String

namespace RL
/-- as in the index lambda -/
def sem (r : RL) : Level := (r.op, r.v, r.lo, r.hi)
/-- after `ReductionBoundsReplacer` -/
def hoisted (r : RL) : Level := (r.op, r.v, .var r.tl, .var r.tu)
/-- after the renaming of the reduction variables -/
def renamed (r : RL) : Level := (r.op, r.u, .var r.tl, .var r.tu)
/-- as read back from the kernel -/
def ker (r : RL) : Level := (r.op, r.u, hoistedLo r.tl, hoistedHi r.tu)
def nb (r : RL) : String × SExpr × SExpr := (r.v, .var r.tl, .var r.tu)
def pair (r : RL) : String × String := (r.v, r.u)
def hs (r : RL) : List Hoisted :=
  [{ var := r.v, temp := r.tl, id := r.il, e := r.lb }, { var := r.v, temp := r.tu, id := r.iu, e := r.ub }]
def temps (r : RL) : List String := [r.tl, r.tu]
end RL

theorem splitChain_mk : ∀ (e : SExpr), mkChain (splitChain e).1 (splitChain e).2 = e
  | .reduce op v lo hi body => by
    simp only [splitChain, mkChain]
    rw [splitChain_mk body]
  | .int _ | .bool _ | .rat _ _ | .nan | .idx _ | .var _ | .sub _ _ | .call _ _ | .add _ _ | .mul _ _
  | .quot _ _ | .fdiv _ _ | .rem _ _ | .pow _ _ | .cmp _ _ _ | .land _ _ | .lor _ _ | .lnot _ | .cast _ _
  | .ite _ _ _ => by simp [splitChain, mkChain]

/-! ## lookups in lists built from the levels (distinct variables) -/

theorem find_nb {ls : List RL} (hnd : (ls.map (·.v)).Nodup) : ∀ r ∈ ls,
    (ls.map RL.nb).find? (·.1 == r.v) = some r.nb := by
  induction ls with
  | nil => intro r hr; simp at hr
  | cons a rest ih =>
    intro r hr
    have hnd' : a.v ∉ rest.map (·.v) ∧ (rest.map (·.v)).Nodup := List.nodup_cons.1 hnd
    rcases List.mem_cons.1 hr with rfl | hr
    · simp [RL.nb]
    · have hne : ¬ (a.v = r.v) := fun e => hnd'.1 (e ▸ List.mem_map.2 ⟨r, hr, rfl⟩)
      simp only [List.map_cons]
      rw [List.find?_cons_of_neg (by simpa [RL.nb] using hne)]
      exact ih hnd'.2 r hr

theorem lookup_pair {ls : List RL} (hnd : (ls.map (·.v)).Nodup) : ∀ r ∈ ls,
    lookupStr (ls.map RL.pair) r.v = some r.u := by
  induction ls with
  | nil => intro r hr; simp at hr
  | cons a rest ih =>
    intro r hr
    have hnd' : a.v ∉ rest.map (·.v) ∧ (rest.map (·.v)).Nodup := List.nodup_cons.1 hnd
    unfold lookupStr
    rcases List.mem_cons.1 hr with rfl | hr
    · simp [RL.pair]
    · have hne : ¬ (a.v = r.v) := fun e => hnd'.1 (e ▸ List.mem_map.2 ⟨r, hr, rfl⟩)
      simp only [List.map_cons]
      rw [List.find?_cons_of_neg (by simpa [RL.pair] using hne)]
      exact ih hnd'.2 r hr

/-! ## the passes on a chain -/

theorem replaceBounds_chain {n : Nat} (nbs : List (String × SExpr × SExpr)) (body : SExpr)
    (hb : exprOK n body = true) : ∀ (ls : List RL), (∀ r ∈ ls, nbs.find? (·.1 == r.v) = some r.nb) →
    replaceBounds nbs (mkChain (ls.map RL.sem) body) = mkChain (ls.map RL.hoisted) body
  | [], _ => by simp [mkChain, replaceBounds_of_ok nbs body hb]
  | r :: rest, h => by
    have ih := replaceBounds_chain nbs body hb rest (fun r' hr' => h r' (List.mem_cons_of_mem _ hr'))
    simp only [List.map_cons, RL.sem, mkChain, replaceBounds, h r (by simp), RL.nb, RL.hoisted]
    rw [← ih]

theorem renameRed_chain (ρ : List (String × String)) (body : SExpr) : ∀ (ls : List RL),
    (∀ r ∈ ls, lookupStr ρ r.v = some r.u) →
    renameRed ρ (mkChain (ls.map RL.hoisted) body) = mkChain (ls.map RL.renamed) (renameRed ρ body)
  | [], _ => by simp [mkChain]
  | r :: rest, h => by
    have ih := renameRed_chain ρ body rest (fun r' hr' => h r' (List.mem_cons_of_mem _ hr'))
    simp only [List.map_cons, RL.hoisted, mkChain, renameRed, h r (by simp), RL.renamed]
    rw [← ih]

theorem substIdx_chain_ker (s : List SExpr) (b : SExpr) : ∀ (ls : List RL),
    substIdx s (mkChain (ls.map RL.renamed) b) = mkChain (ls.map RL.renamed) (substIdx s b)
  | [] => by simp [mkChain]
  | r :: rest => by
    have ih := substIdx_chain_ker s b rest
    simp only [List.map_cons, RL.renamed, mkChain, substIdx]
    rw [← ih]

theorem readBackBounds_chain {n : Nat} (hs : List Hoisted) (uniq : List (String × String)) (b : SExpr)
    (hb : exprOK n b = true) : ∀ (ls : List RL),
    (∀ r ∈ ls, hs.any (·.temp == r.tl) = true ∧ hs.any (·.temp == r.tu) = true) →
    readBackBounds hs uniq (mkChain (ls.map RL.renamed) b) = mkChain (ls.map RL.ker) b
  | [], _ => by simp [mkChain, readBackBounds_of_ok hs uniq b hb]
  | r :: rest, h => by
    have ih := readBackBounds_chain hs uniq b hb rest (fun r' hr' => h r' (List.mem_cons_of_mem _ hr'))
    obtain ⟨h1, h2⟩ := h r (by simp)
    simp only [List.map_cons, RL.renamed, mkChain, readBackBounds, h1, h2, if_true, RL.ker,
      Bool.false_eq_true, if_false]
    rw [← ih]

/-! ## the expression generator on a chain -/

theorem gen_var_temp {ns : List (String × Impl)} {sc : List String} {t id : String}
    (hl : lookupNs ns t = some (.stored t [id])) (hsc : t ∉ sc) : gen ns sc (.var t) = some (.var t) := by
  have hc : sc.contains t = false := by simpa using hsc
  simp only [gen, hc, hl, Impl.toExpr, Bool.false_eq_true, if_false, List.isEmpty_nil, if_true]

theorem gen_reduce_eq (ns : List (String × Impl)) (sc : List String) (op : RedOp) (v : String) (lo hi body : SExpr) :
    gen ns sc (.reduce op v lo hi body) =
      (match gen ns sc lo, gen ns sc hi, gen ns (v :: sc) body with
       | some l, some h, some b => some (.reduce op v l h b)
       | _, _, _ => none) := by
  simp only [gen]
  cases gen ns sc lo <;> cases gen ns sc hi <;> cases gen ns (v :: sc) body <;> rfl

theorem gen_chain_inv (ns : List (String × Impl)) (U : List String) (bodyR : SExpr) :
    ∀ (ls : List RL) (scope : List String) (le : SExpr),
      (∀ r ∈ ls, ∃ i1 i2, lookupNs ns r.tl = some (.stored r.tl [i1]) ∧ lookupNs ns r.tu = some (.stored r.tu [i2])) →
      (∀ r ∈ ls, r.tl ∉ U ∧ r.tu ∉ U ∧ r.u ∈ U) → (∀ x ∈ scope, x ∈ U) →
      gen ns scope (mkChain (ls.map RL.renamed) bodyR) = some le →
      ∃ b', gen ns ((ls.map (·.u)).reverse ++ scope) bodyR = some b' ∧ le = mkChain (ls.map RL.renamed) b'
  | [], scope, le, _, _, _, hg => ⟨le, by simpa [mkChain] using hg, by simp [mkChain]⟩
  | r :: rest, scope, le, h1, h2, hsc, hg => by
    obtain ⟨i1, i2, hl1, hl2⟩ := h1 r (by simp)
    obtain ⟨hu1, hu2, huU⟩ := h2 r (by simp)
    simp only [List.map_cons, RL.renamed, mkChain] at hg
    rw [gen_reduce_eq, gen_var_temp hl1 (fun hm => hu1 (hsc _ hm)), gen_var_temp hl2 (fun hm => hu2 (hsc _ hm))] at hg
    cases hb : gen ns (r.u :: scope) (mkChain (rest.map RL.renamed) bodyR) with
    | none =>
      rw [hb] at hg
      simp at hg
    | some b0 =>
      rw [hb] at hg
      simp only [Option.some.injEq] at hg
      obtain ⟨b', hb1, hb2⟩ := gen_chain_inv ns U bodyR rest (r.u :: scope) b0
        (fun r' hr' => h1 r' (List.mem_cons_of_mem _ hr')) (fun r' hr' => h2 r' (List.mem_cons_of_mem _ hr'))
        (by
          intro x hx
          rcases List.mem_cons.1 hx with rfl | hx
          · exact huU
          · exact hsc x hx)
        hb
      refine ⟨b', ?_, ?_⟩
      · simpa [List.reverse_cons, List.append_assoc] using hb1
      · rw [← hg, hb2]
        simp [RL.renamed, mkChain]

/-! ## the bound temporaries do not change what the body generates -/

theorem lookupNs_append_found {ns t : List (String × Impl)} {x : String} (h : lookupNs ns x ≠ none) :
    lookupNs (ns ++ t) x = lookupNs ns x := by
  unfold lookupNs at h ⊢
  rw [List.find?_append]
  cases hf : ns.find? (·.1 == x) with
  | none => simp [hf] at h
  | some p => simp

theorem lookupNs_append_none {ns t : List (String × Impl)} {x : String} (h : lookupNs ns x = none) :
    lookupNs (ns ++ t) x = lookupNs t x := by
  unfold lookupNs at h ⊢
  rw [List.find?_append]
  cases hf : ns.find? (·.1 == x) with
  | none => simp
  | some p => simp [hf] at h

section GenAppend
variable (ns t : List (String × Impl)) (rk : String → Option Nat) (ρ : List (String × String)) (n : Nat)
  (hfound : ∀ x k, rk x = some k → lookupNs ns x ≠ none)
include hfound

mutual
theorem gen_append : ∀ (e : SExpr) (scope : List String),
    (∀ x u, lookupStr ρ x = some u → scope.contains u = true) →
    exprOK n e = true → ranksOKS rk (ρ.map (·.1)) e = true →
    gen (ns ++ t) scope (renameRed ρ e) = gen ns scope (renameRed ρ e)
  | .int _, _, _, _, _ | .rat _ _, _, _, _, _ | .nan, _, _, _, _ | .idx _, _, _, _, _ => by simp [renameRed, gen]
  | .bool _, _, _, h, _ => by simp [exprOK] at h
  | .reduce .., _, _, h, _ => by simp [exprOK] at h
  | .var x, scope, hin, _, hr => by
    simp only [renameRed]
    cases hρ : lookupStr ρ x with
    | some u =>
      have hu := hin x u hρ
      simp only [gen, hu, if_true]
    | none =>
      simp only [gen]
      by_cases hsc : scope.contains x = true
      · rw [if_pos hsc, if_pos hsc]
      · rw [if_neg hsc, if_neg hsc]
        have hnk := lookupStr_none_not_key hρ
        simp only [ranksOKS, hnk, Bool.false_or, beq_iff_eq] at hr
        rw [lookupNs_append_found (hfound x 0 hr)]
  | .sub a ix, scope, hin, h, hr => by
    simp only [exprOK] at h
    simp only [ranksOKS, Bool.and_eq_true, beq_iff_eq] at hr
    simp only [renameRed, gen]
    rw [genList_append ix scope hin h hr.2, lookupNs_append_found (hfound a _ hr.1)]
  | .add a c, scope, hin, h, hr | .mul a c, scope, hin, h, hr | .quot a c, scope, hin, h, hr
  | .fdiv a c, scope, hin, h, hr | .rem a c, scope, hin, h, hr | .pow a c, scope, hin, h, hr
  | .cmp _ a c, scope, hin, h, hr | .land a c, scope, hin, h, hr | .lor a c, scope, hin, h, hr => by
    simp only [exprOK, Bool.and_eq_true] at h
    simp only [ranksOKS, Bool.and_eq_true] at hr
    simp only [renameRed, gen]
    rw [gen_append a scope hin h.1 hr.1, gen_append c scope hin h.2 hr.2]
  | .lnot a, scope, hin, h, hr | .cast _ a, scope, hin, h, hr => by
    simp only [exprOK] at h
    simp only [ranksOKS] at hr
    simp only [renameRed, gen]
    rw [gen_append a scope hin h hr]
  | .ite c t' e, scope, hin, h, hr => by
    simp only [exprOK, Bool.and_eq_true] at h
    simp only [ranksOKS, Bool.and_eq_true] at hr
    simp only [renameRed, gen]
    rw [gen_append c scope hin h.1.1 hr.1.1, gen_append t' scope hin h.1.2 hr.1.2, gen_append e scope hin h.2 hr.2]
  | .call f args, scope, hin, h, hr => by
    simp only [exprOK] at h
    simp only [ranksOKS, Bool.or_eq_true, beq_iff_eq] at hr
    simp only [renameRed, gen]
    by_cases hf : (f == "pytato.zero") = true
    · rw [if_pos hf, if_pos hf]
    · rw [if_neg hf, if_neg hf]
      have hr' : ranksOKSList rk (ρ.map (·.1)) args = true := by
        rcases hr with hr | hr
        · exact absurd (by simpa using hr) hf
        · exact hr
      rw [genList_append args scope hin h hr']
theorem genList_append : ∀ (es : List SExpr) (scope : List String),
    (∀ x u, lookupStr ρ x = some u → scope.contains u = true) →
    exprOKList n es = true → ranksOKSList rk (ρ.map (·.1)) es = true →
    genList (ns ++ t) scope (renameRedList ρ es) = genList ns scope (renameRedList ρ es)
  | [], _, _, _, _ => by simp [renameRedList, genList]
  | e :: es, scope, hin, h, hr => by
    simp only [exprOKList, Bool.and_eq_true] at h
    simp only [ranksOKSList, Bool.and_eq_true] at hr
    simp only [renameRedList, genList]
    rw [gen_append e scope hin h.1 hr.1, genList_append es scope hin h.2 hr.2]
end

end GenAppend

/-! ## what a chain evaluates to -/

theorem eval_reduce_eq (env : Env) (op : RedOp) (v : String) (lo hi body : SExpr) :
    eval env (.reduce op v lo hi body) =
      (match (eval env lo).toInt?, (eval env hi).toInt? with
       | some l, some h =>
         op.fold ((List.range (h - l).toNat).map fun (k : Nat) => eval (env.bind v (l + (k : Int))) body)
       | _, _ => .undef) := by
  simp only [eval]
  cases (eval env lo).toInt? <;> cases (eval env hi).toInt? <;> rfl

theorem eval_add_eq (env : Env) (a c : SExpr) : eval env (.add a c) = Val.add (eval env a) (eval env c) := by
  simp only [eval]

theorem lookupStr_append (ρ : List (String × String)) (p : String × String) (x : String) :
    lookupStr (ρ ++ [p]) x = match lookupStr ρ x with
      | some y => some y
      | none => if p.1 = x then some p.2 else none := by
  unfold lookupStr
  rw [List.find?_append]
  cases hf : ρ.find? (·.1 == x) with
  | some q => simp
  | none =>
    simp only [Option.none_or, Option.map_none]
    by_cases hp : p.1 = x
    · rw [List.find?_cons_of_pos (by simpa using hp), if_pos hp]; rfl
    · rw [List.find?_cons_of_neg (by simpa using hp), if_neg hp]; rfl

theorem lookupStr_some_mem {ρ : List (String × String)} {x y : String} (h : lookupStr ρ x = some y) :
    x ∈ ρ.map (·.1) ∧ y ∈ ρ.map (·.2) := by
  unfold lookupStr at h
  obtain ⟨p, hp, hy⟩ := Option.map_eq_some_iff.1 h
  have h1 := List.mem_of_find?_eq_some hp
  have h2 := List.find?_some hp
  simp only [beq_iff_eq] at h2
  exact ⟨List.mem_map.2 ⟨p, h1, h2⟩, List.mem_map.2 ⟨p, h1, hy⟩⟩

/-- one more reduction variable in scope on both sides -/
theorem Ren.step {ρ : List (String × String)} {Δ Γ : List (String × Int)} (h : Ren ρ Δ Γ) {v u : String}
    (hv : v ∉ ρ.map (·.1)) (hu : u ∉ ρ.map (·.2)) (n : Int) :
    Ren (ρ ++ [(v, u)]) ((v, n) :: Δ) ((u, n) :: Γ) := by
  constructor
  · intro x y hxy
    rw [lookupStr_append] at hxy
    cases hρ : lookupStr ρ x with
    | some y' =>
      simp only [hρ, Option.some.injEq] at hxy
      subst hxy
      obtain ⟨hx, hy⟩ := lookupStr_some_mem hρ
      obtain ⟨k, h1, h2⟩ := h.bound x y' hρ
      refine ⟨k, ?_, ?_⟩
      · rw [lookupIxL_cons, if_neg (fun (e : v = x) => hv (by rw [e]; exact hx))]; exact h1
      · rw [lookupIxL_cons, if_neg (fun (e : u = y') => hu (by rw [e]; exact hy))]; exact h2
    | none =>
      simp only [hρ] at hxy
      by_cases hvx : v = x
      · rw [if_pos hvx] at hxy
        simp only [Option.some.injEq] at hxy
        subst hvx hxy
        exact ⟨n, by rw [lookupIxL_cons, if_pos rfl], by rw [lookupIxL_cons, if_pos rfl]⟩
      · rw [if_neg hvx] at hxy
        cases hxy
  · intro x hx
    rw [lookupStr_append] at hx
    cases hρ : lookupStr ρ x with
    | some y' => simp [hρ] at hx
    | none =>
      simp only [hρ] at hx
      by_cases hvx : v = x
      · rw [if_pos hvx] at hx; cases hx
      · rw [lookupIxL_cons, if_neg hvx]
        exact h.only x hρ

/-- the bound temporaries hold the bounds (`VL r`, `VH r`), as 0-d arrays -/
def TempsHold (σl : Store) (VL VH : RL → Val) (ls : List RL) : Prop :=
  ∀ r ∈ ls, (∃ a, σl.get? r.tl = some a ∧ a.shape = [] ∧ a.get [] = VL r) ∧
    (∃ a, σl.get? r.tu = some a ∧ a.shape = [] ∧ a.get [] = VH r)

theorem eval_temp {σl : Store} {t : String} {v : Val} {pt : Idx} {Γ : List (String × Int)}
    (ha : ∃ a, σl.get? t = some a ∧ a.shape = [] ∧ a.get [] = v) (hΓ : lookupIxL Γ t = none) :
    eval { pt := pt, ix := Γ, arr := σl } (.var t) = v := by
  obtain ⟨a, h1, h2, h3⟩ := ha
  have e1 : Env.lookupIx { pt := pt, ix := Γ, arr := σl } t = none := hΓ
  have e2 : Env.lookupArr { pt := pt, ix := Γ, arr := σl } t = some a := h1
  simp only [eval, e1, e2, h2, if_true, h3]

/-- loopy's spelling `-1 + u + 1` of a hoisted upper bound is the bound, as an integer -/
theorem toInt_hoistedHi (v : Val) : (Val.add (Val.add (.i (-1)) v) (.i 1)).toInt? = v.toInt? := by
  cases v with
  | i n => show some (-1 + n + 1) = some n; congr 1; omega
  | b c => cases c <;> rfl
  | q r => rfl
  | undef => rfl

/-- **a chain of reductions as read back from the kernel** (unique variable names, bounds in
    temporaries) evaluates to what the chain of the index lambda evaluates to, if the bodies do
    whenever the loop environments correspond.  `P`: whatever else is known of the kernel's loop
    environment and survives binding a unique name; the index lambda's chain is `Safe`, and so is
    the body wherever it is evaluated; `V`: the chain's variables — the only names the index
    lambda's loop environment ever binds; a bound that is evaluated (safely) has the value its
    temporary holds. -/
theorem chain_eval (σl : Store) (bs : List (String × Arr Val)) (P : List (String × Int) → Prop) (pK p : Idx)
    (body bodyK : SExpr) (U T V : List String) (VL VH : RL → Val) (hUT : ∀ t ∈ T, t ∉ U)
    (hP : ∀ Γ u n, u ∈ U → P Γ → P ((u, n) :: Γ)) :
    ∀ (rest : List RL) (ρp : List (String × String)) (Δ Γ : List (String × Int)),
      Ren ρp Δ Γ → P Γ → (∀ t ∈ T, lookupIxL Γ t = none) → (∀ x, x ∉ V → lookupIxL Δ x = none) →
      (∀ r ∈ rest, r.u ∈ U ∧ r.tl ∈ T ∧ r.tu ∈ T ∧ r.v ∈ V ∧ r.v ∉ ρp.map (·.1) ∧ r.u ∉ ρp.map (·.2)) →
      (rest.map (·.v)).Nodup → (rest.map (·.u)).Nodup → TempsHold σl VL VH rest →
      (∀ r ∈ rest, ∀ Δ', (∀ x, x ∉ V → lookupIxL Δ' x = none) →
        (Safe { pt := p, ix := Δ', arr := bs } r.lo → eval { pt := p, ix := Δ', arr := bs } r.lo = VL r) ∧
        (Safe { pt := p, ix := Δ', arr := bs } r.hi → eval { pt := p, ix := Δ', arr := bs } r.hi = VH r)) →
      Safe { pt := p, ix := Δ, arr := bs } (mkChain (rest.map RL.sem) body) →
      (∀ Δ' Γ', Ren (ρp ++ rest.map RL.pair) Δ' Γ' → P Γ' → Safe { pt := p, ix := Δ', arr := bs } body →
        eval { pt := pK, ix := Γ', arr := σl } bodyK = eval { pt := p, ix := Δ', arr := bs } body) →
      eval { pt := pK, ix := Γ, arr := σl } (mkChain (rest.map RL.ker) bodyK) =
        eval { pt := p, ix := Δ, arr := bs } (mkChain (rest.map RL.sem) body)
  | [], ρp, Δ, Γ, hren, hav, _, _, _, _, _, _, _, hsafe, hbody => by
    simpa [mkChain] using hbody Δ Γ (by simpa using hren) hav (by simpa [mkChain] using hsafe)
  | r :: rest, ρp, Δ, Γ, hren, hav, hT, hΔ, hr, hndv, hndu, hth, hsem, hsafe, hbody => by
    obtain ⟨hrU, hrtl, hrtu, hrV, hrv, hru⟩ := hr r (by simp)
    obtain ⟨hl, hh⟩ := hth r (by simp)
    have hndv' : r.v ∉ rest.map (·.v) ∧ (rest.map (·.v)).Nodup := List.nodup_cons.1 hndv
    have hndu' : r.u ∉ rest.map (·.u) ∧ (rest.map (·.u)).Nodup := List.nodup_cons.1 hndu
    simp only [List.map_cons, RL.ker, RL.sem, mkChain] at hsafe ⊢
    simp only [Safe] at hsafe
    obtain ⟨hslo, hshi, hsbody⟩ := hsafe
    obtain ⟨hsemL, hsemH⟩ := hsem r (by simp) Δ hΔ
    rw [eval_reduce_eq, eval_reduce_eq]
    have e1 : eval { pt := pK, ix := Γ, arr := σl } (hoistedLo r.tl) = VL r := eval_temp hl (hT _ hrtl)
    have e2 : (eval { pt := pK, ix := Γ, arr := σl } (hoistedHi r.tu)).toInt? = (VH r).toInt? := by
      have h0 := eval_temp (pt := pK) hh (hT _ hrtu)
      unfold hoistedHi
      rw [eval_add_eq, eval_add_eq, h0]
      exact toInt_hoistedHi (VH r)
    have e3 := hsemL hslo
    have e4 := hsemH hshi
    rw [e1, e2, e3, e4]
    cases hvl : (VL r).toInt? with
    | none => rfl
    | some l =>
      cases hvh : (VH r).toInt? with
      | none => rfl
      | some h =>
        simp only
        congr 1
        apply List.map_congr_left
        intro k hk
        have hk' : k < (h - l).toNat := List.mem_range.1 hk
        have hsafe' : Safe { pt := p, ix := (r.v, l + (k : Int)) :: Δ, arr := bs } (mkChain (rest.map RL.sem) body) :=
          hsbody l h (by rw [e3]; exact hvl) (by rw [e4]; exact hvh) k hk'
        have hren' := hren.step hrv hru (l + (k : Int))
        apply chain_eval σl bs P pK p body bodyK U T V VL VH hUT hP rest (ρp ++ [(r.v, r.u)]) _ _ hren'
        · exact hP _ _ _ hrU hav
        · intro t ht
          rw [lookupIxL_cons, if_neg (fun (e : r.u = t) => hUT t ht (by rw [← e]; exact hrU))]
          exact hT t ht
        · intro x hx
          rw [lookupIxL_cons, if_neg (fun (e : r.v = x) => hx (by rw [← e]; exact hrV))]
          exact hΔ x hx
        · intro r' hr'
          obtain ⟨a1, a2, a3, a3', a4, a5⟩ := hr r' (List.mem_cons_of_mem _ hr')
          refine ⟨a1, a2, a3, a3', ?_, ?_⟩
          · simp only [List.map_append, List.map_cons, List.map_nil, List.mem_append, List.mem_singleton, not_or]
            exact ⟨a4, fun e => hndv'.1 (e ▸ List.mem_map.2 ⟨r', hr', rfl⟩)⟩
          · simp only [List.map_append, List.map_cons, List.map_nil, List.mem_append, List.mem_singleton, not_or]
            exact ⟨a5, fun e => hndu'.1 (e ▸ List.mem_map.2 ⟨r', hr', rfl⟩)⟩
        · exact hndv'.2
        · exact hndu'.2
        · exact fun r' hr' => hth r' (List.mem_cons_of_mem _ hr')
        · exact fun r' hr' => hsem r' (List.mem_cons_of_mem _ hr')
        · exact hsafe'
        · intro Δ' Γ' h1 h2 h3
          apply hbody Δ' Γ' _ h2 h3
          simpa [RL.pair, List.append_assoc] using h1

end LG
end Pt

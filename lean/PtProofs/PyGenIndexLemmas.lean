/-
  C14: basic indexing — the subscript the target writes (re-synthesised slices, trailing trivial
  slices dropped) selects what the `BasicIndex` node's normalised slices select.
-/
import PtProofs.PyGenNodeLemmas
import PtProofs.C14Slice
namespace Pt
namespace Py

/-! ## NumPy's basic indexing = indexing with the adjusted slices -/

theorem basicShape_adjust : ∀ (s : Shape) (ix : List Spec.BIdx),
    Spec.basicShape s ix = gShape s (adjust s ix)
  | [], [] => rfl
  | [], _ :: _ => by simp [Spec.basicShape, gShape]
  | _ :: _, [] => by simp [Spec.basicShape, adjust, gShape]
  | n :: ns, .int k :: ix => by simp [Spec.basicShape, adjust, gShape, basicShape_adjust ns ix]
  | n :: ns, .slice st sp step :: ix => by
    simp [Spec.basicShape, adjust, gShape, basicShape_adjust ns ix]

theorem basicSrc_adjust : ∀ (s : Shape) (ix : List Spec.BIdx) (i : Idx),
    Spec.basicSrc s ix i = gSrc s (adjust s ix) i
  | [], [], _ => by simp [Spec.basicSrc, gSrc]
  | [], _ :: _, _ => by simp [Spec.basicSrc, gSrc]
  | _ :: _, [], _ => by simp [Spec.basicSrc, adjust, gSrc]
  | n :: ns, .int k :: ix, i => by simp [Spec.basicSrc, adjust, gSrc, basicSrc_adjust ns ix i]
  | n :: ns, .slice st sp step :: ix, [] => by simp [Spec.basicSrc, adjust, gSrc]
  | n :: ns, .slice st sp step :: ix, j :: i => by
    simp [Spec.basicSrc, adjust, gSrc, basicSrc_adjust ns ix i, cpyAdjust]

theorem basicIndex_adjust (ix : List Spec.BIdx) (a : Arr Val) :
    Spec.basicIndex ix a = gIndex (adjust a.shape ix) a := by
  unfold Spec.basicIndex gIndex
  congr 1
  · exact basicShape_adjust _ _
  · funext i
    rw [basicSrc_adjust]

/-! ## the emitted entries, adjusted, are the node's entries -/

theorem isNormB_sound {s : NSlice} {n : Int} (h : isNormB s n = true) : s.IsNorm n := by
  unfold isNormB at h
  unfold NSlice.IsNorm
  simp only [Bool.or_eq_true, Bool.and_eq_true, decide_eq_true_eq] at h
  rcases h with ⟨⟨⟨⟨h1, h2⟩, h3⟩, h4⟩, h5⟩ | ⟨⟨⟨⟨h1, h2⟩, h3⟩, h4⟩, h5⟩
  · exact Or.inl ⟨h1, h2, h3, h4, h5⟩
  · exact Or.inr ⟨h1, h2, h3, h4, h5⟩

def fullB : Spec.BIdx := .slice none none 1

theorem adjust_full (n : Nat) : cpyAdjust none none 1 n = ⟨0, n, 1⟩ := by
  simp [cpyAdjust]

/-- the first `emittedIdxCount` entries as the target writes them, padded with full slices,
    adjust to exactly the node's entries -/
theorem adjust_emitted : ∀ (ix : List PIdx) (ds : Shape) (gs : List GIdx),
    basicNorm ix ds = true → toGs ix = some gs →
    adjust ds (emittedB (ix.take (emittedIdxCount ix ds)) ds
      ++ List.replicate (ds.length - emittedIdxCount ix ds) fullB) = gs
  | [], [], gs, _, hg => by
    simp only [toGs, Option.some.injEq] at hg
    subst hg
    simp [adjust]
  | [], _ :: _, _, hn, _ => by simp [basicNorm] at hn
  | _ :: _, [], _, hn, _ => by
    rename_i x r
    cases x <;> simp [basicNorm] at hn
  | .arr c :: r, d :: ds, _, hn, _ => by simp [basicNorm] at hn
  | .int k :: r, d :: ds, gs, hn, hg => by
    simp only [basicNorm] at hn
    simp only [toGs, PIdx.toG] at hg
    cases hr : toGs r with
    | none => simp [hr] at hg
    | some gr =>
      simp only [hr, Option.some.injEq] at hg
      subst hg
      have ih := adjust_emitted r ds gr hn hr
      simp only [emittedIdxCount, idxTrivial]
      by_cases hk : emittedIdxCount r ds > 0
      · rw [if_pos hk]
        simp only [List.take_succ_cons, emittedB, List.tail_cons, List.cons_append, adjust, List.length_cons,
          Nat.add_sub_add_right]
        rw [ih]
      · have hk0 : emittedIdxCount r ds = 0 := by omega
        rw [if_neg hk]
        simp only [Bool.false_eq_true, if_false, List.take_succ_cons, List.take_zero, emittedB,
          List.cons_append, adjust, List.length_cons, Nat.add_sub_cancel]
        rw [hk0] at ih
        simp only [List.take_zero, emittedB, List.nil_append, Nat.sub_zero] at ih ⊢
        rw [ih]
  | .slice s :: r, d :: ds, gs, hn, hg => by
    simp only [basicNorm, Bool.and_eq_true] at hn
    simp only [toGs, PIdx.toG] at hg
    cases hr : toGs r with
    | none => simp [hr] at hg
    | some gr =>
      simp only [hr, Option.some.injEq] at hg
      subst hg
      have ih := adjust_emitted r ds gr hn.2 hr
      have hrt := slice_resynth_roundtrip s (d : Nat) (Int.natCast_nonneg d) (isNormB_sound hn.1)
      simp only [emittedIdxCount]
      by_cases hk : emittedIdxCount r ds > 0
      · rw [if_pos hk]
        simp only [List.take_succ_cons, emittedB, List.tail_cons, List.headD_cons, List.cons_append, adjust,
          List.length_cons, Nat.add_sub_add_right]
        rw [ih, hrt]
      · have hk0 : emittedIdxCount r ds = 0 := by omega
        rw [if_neg hk]
        rw [hk0] at ih
        simp only [List.take_zero, emittedB, List.nil_append, Nat.sub_zero] at ih
        by_cases ht : idxTrivial (.slice s) d = true
        · rw [if_pos ht]
          simp only [List.take_zero, emittedB, List.nil_append, Nat.sub_zero, List.length_cons,
            List.replicate_succ, fullB, adjust]
          have hs : s = ⟨0, d, 1⟩ := by
            simp only [idxTrivial, sliceTrivial, Bool.and_eq_true, beq_iff_eq] at ht
            obtain ⟨a, b, c⟩ := s
            simp only at ht
            obtain ⟨⟨rfl, rfl⟩, rfl⟩ := ht
            rfl
          rw [adjust_full, hs]
          congr 1
        · rw [if_neg ht]
          simp only [List.take_succ_cons, List.take_zero, emittedB, List.headD_cons,
            List.cons_append, List.nil_append, adjust, List.length_cons, Nat.add_sub_cancel]
          rw [ih, hrt]

/-! ## an index of full slices only is the array

  `denoteStep` lets such a node denote its child (the target emits no statement for it); this is
  the justification: indexing with those slices gives the same shape and the same element at
  every index of the right length. -/

theorem cpyLen_full (d : Nat) : (cpyLen ⟨0, d, 1⟩).toNat = d := by
  unfold cpyLen
  simp only
  by_cases h : (0 : Int) < d
  · simp only [show ¬ ((1 : Int) < 0) by omega, if_false, h, if_true]
    simp
  · simp only [show ¬ ((1 : Int) < 0) by omega, if_false, h, if_false]
    omega

theorem gIndex_trivial : ∀ (ix : List PIdx) (ds : Shape) (gs : List GIdx),
    basicNorm ix ds = true → toGs ix = some gs → emittedIdxCount ix ds = 0 →
    gShape ds gs = ds ∧ ∀ i : Idx, i.length = ds.length → gSrc ds gs i = i
  | [], [], gs, _, hg, _ => by
    simp only [toGs, Option.some.injEq] at hg
    subst hg
    refine ⟨rfl, fun i hi => ?_⟩
    cases i with
    | nil => rfl
    | cons _ _ => simp at hi
  | [], _ :: _, _, hn, _, _ => by simp [basicNorm] at hn
  | .arr _ :: _, _, _, hn, _, _ => by simp [basicNorm] at hn
  | .int k :: r, [], _, hn, _, _ => by simp [basicNorm] at hn
  | .slice s :: r, [], _, hn, _, _ => by simp [basicNorm] at hn
  | .int k :: r, d :: ds, gs, _, _, hk => by
    simp only [emittedIdxCount, idxTrivial] at hk
    split at hk <;> simp at hk
  | .slice s :: r, d :: ds, gs, hn, hg, hk => by
    simp only [basicNorm, Bool.and_eq_true] at hn
    simp only [toGs, PIdx.toG] at hg
    cases hr : toGs r with
    | none => simp [hr] at hg
    | some gr =>
      simp only [hr, Option.some.injEq] at hg
      subst hg
      simp only [emittedIdxCount] at hk
      by_cases hk' : emittedIdxCount r ds > 0
      · rw [if_pos hk'] at hk; omega
      · rw [if_neg hk'] at hk
        by_cases ht : idxTrivial (.slice s) d = true
        · have hs : s = ⟨0, d, 1⟩ := by
            simp only [idxTrivial, sliceTrivial, Bool.and_eq_true, beq_iff_eq] at ht
            obtain ⟨a, b, c⟩ := s
            simp only at ht
            obtain ⟨⟨rfl, rfl⟩, rfl⟩ := ht
            rfl
          subst hs
          obtain ⟨h1, h2⟩ := gIndex_trivial r ds gr hn.2 hr (by omega)
          refine ⟨by simp only [gShape, cpyLen_full, h1], fun i hi => ?_⟩
          cases i with
          | nil => simp at hi
          | cons j i =>
            simp only [List.length_cons, Nat.add_right_cancel_iff] at hi
            simp only [gSrc, h2 i hi]
            simp
        · rw [if_neg ht] at hk; omega

/-! ## what the emitted entries evaluate to -/

theorem basicNorm_toGs : ∀ (ix : List PIdx) (ds : Shape), basicNorm ix ds = true →
    ∃ gs, toGs ix = some gs
  | [], [], _ => ⟨[], rfl⟩
  | [], _ :: _, h => by simp [basicNorm] at h
  | .arr _ :: _, _, h => by simp [basicNorm] at h
  | .int k :: r, [], h => by simp [basicNorm] at h
  | .slice s :: r, [], h => by simp [basicNorm] at h
  | .int k :: r, d :: ds, h => by
    simp only [basicNorm] at h
    obtain ⟨gs, hg⟩ := basicNorm_toGs r ds h
    exact ⟨.int k :: gs, by simp [toGs, PIdx.toG, hg]⟩
  | .slice s :: r, d :: ds, h => by
    simp only [basicNorm, Bool.and_eq_true] at h
    obtain ⟨gs, hg⟩ := basicNorm_toGs r ds h.2
    exact ⟨.slice s :: gs, by simp [toGs, PIdx.toG, hg]⟩

def isBasic : PIdx → Bool
  | .arr _ => false
  | _ => true

theorem basicNorm_basic : ∀ (ix : List PIdx) (ds : Shape), basicNorm ix ds = true →
    ix.all isBasic = true ∧ ix.length = ds.length
  | [], [], _ => ⟨rfl, rfl⟩
  | [], _ :: _, h => by simp [basicNorm] at h
  | .arr _ :: _, _, h => by simp [basicNorm] at h
  | .int k :: r, [], h => by simp [basicNorm] at h
  | .slice s :: r, [], h => by simp [basicNorm] at h
  | .int k :: r, d :: ds, h => by
    simp only [basicNorm] at h
    obtain ⟨h1, h2⟩ := basicNorm_basic r ds h
    exact ⟨by simp [isBasic, h1], by simp [h2]⟩
  | .slice s :: r, d :: ds, h => by
    simp only [basicNorm, Bool.and_eq_true] at h
    obtain ⟨h1, h2⟩ := basicNorm_basic r ds h.2
    exact ⟨by simp [isBasic, h1], by simp [h2]⟩

theorem emittedIdxCount_le : ∀ (ix : List PIdx) (ds : Shape), emittedIdxCount ix ds ≤ ix.length
  | [], _ => by simp [emittedIdxCount]
  | x :: r, [] => by
    have := emittedIdxCount_le r []
    simp only [emittedIdxCount, List.length_cons]
    split
    · omega
    · cases x <;> simp
  | x :: r, d :: ds => by
    have := emittedIdxCount_le r ds
    simp only [emittedIdxCount, List.length_cons]
    split
    · omega
    · split <;> omega

theorem pyEvalOpt_optInt (env : PEnv) (o : Option Int) : pyEvalOpt env (optInt o) = some o := by
  cases o with
  | none => simp [optInt, pyEvalOpt]
  | some k => simp [optInt, pyEvalOpt, pyEval_intConst, PyVal.int?]

theorem pyEvalIdx_slice (env : PEnv) (s : NSlice) (dim : Nat) :
    pyEvalIdx env (sliceExpr s dim)
      = some (.slice (resynthSlice s dim).1 (resynthSlice s dim).2.1 (resynthSlice s dim).2.2) := by
  simp only [sliceExpr, pyEvalIdx, pyEvalOpt_optInt]
  by_cases h : (resynthSlice s dim).2.2 = 1
  · rw [if_pos h]
    simp [pyEvalOpt, h]
  · rw [if_neg h]
    simp [pyEvalOpt, pyEval_intConst, PyVal.int?]

theorem idx_eval (env : PEnv) : ∀ (ix : List PIdx) (ds : Shape), ix.all isBasic = true →
    ∃ vals, pyEvalIdxs env (fillISlots (idxSlots ix ds) []) = some vals ∧
      vals.map IdxVal.toB = emittedB ix ds ∧ islotKids (idxSlots ix ds) = [] ∧ vals.length = ix.length
  | [], ds, _ => ⟨[], by simp [idxSlots, fillISlots, pyEvalIdxs], by simp [emittedB], by simp [idxSlots, islotKids],
      rfl⟩
  | .arr c :: r, ds, h => by simp [isBasic] at h
  | .int k :: r, ds, h => by
    simp only [List.all_cons, Bool.and_eq_true] at h
    obtain ⟨vals, h1, h2, h3, h4⟩ := idx_eval env r ds.tail h.2
    refine ⟨.int k :: vals, ?_, ?_, ?_, by simp [h4]⟩
    · simp [idxSlots, fillISlots, pyEvalIdxs, pyEvalIdx, pyEval_intConst, PyVal.int?, h1]
    · simp [emittedB, IdxVal.toB, h2]
    · simp [idxSlots, islotKids, h3]
  | .slice s :: r, ds, h => by
    simp only [List.all_cons, Bool.and_eq_true] at h
    obtain ⟨vals, h1, h2, h3, h4⟩ := idx_eval env r ds.tail h.2
    refine ⟨.slice (resynthSlice s (ds.headD 0)).1 (resynthSlice s (ds.headD 0)).2.1
      (resynthSlice s (ds.headD 0)).2.2 :: vals, ?_, ?_, ?_, by simp [h4]⟩
    · simp [idxSlots, fillISlots, pyEvalIdxs, pyEvalIdx_slice, h1]
    · simp [emittedB, IdxVal.toB, h2]
    · simp [idxSlots, islotKids, h3]

theorem all_take {α : Type} (p : α → Bool) : ∀ (l : List α) (k : Nat), l.all p = true → (l.take k).all p = true
  | [], _, _ => by simp
  | _ :: _, 0, _ => by simp
  | x :: r, k + 1, h => by
    simp only [List.all_cons, Bool.and_eq_true] at h
    simp [h.1, all_take p r k h.2]

/-- **the subscript is sound.**  The subscript written for a basic index evaluates, on the child's
    array, to indexing with the node's normalised slices. -/
theorem subscript_sound {env : PEnv} {n : String} {a : Arr Val} (hna : env.get? n = some (.arr a))
    (ix : List PIdx) (gs : List GIdx) (hnorm : basicNorm ix a.shape = true) (hg : toGs ix = some gs) :
    pyEval env (.subscript (.name n)
      (fillISlots (idxSlots (ix.take (emittedIdxCount ix a.shape)) a.shape) []))
      = some (.arr (gIndex gs a)) := by
  obtain ⟨hbasic, hlen⟩ := basicNorm_basic ix a.shape hnorm
  obtain ⟨vals, h1, h2, _, h4⟩ := idx_eval env (ix.take (emittedIdxCount ix a.shape)) a.shape
    (all_take _ _ _ hbasic)
  have hname := pyEval_name hna
  rw [pyEval, hname, h1]
  simp only
  have hk := emittedIdxCount_le ix a.shape
  have hvl : vals.length = emittedIdxCount ix a.shape := by
    rw [h4, List.length_take]; omega
  unfold pyBasic
  rw [basicIndex_adjust, h2, hvl]
  have := adjust_emitted ix a.shape gs hnorm hg
  unfold fullB at this
  rw [this]

end Py
end Pt

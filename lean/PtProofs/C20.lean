/-
  Property C20 — graph analyses agree with the graph and with each other.
  Property theorems only; lemmas are in MapperLemmas / AnalysisLemmas.

  Model: `PtModel.Analysis` over the heap of `PtModel.Mapper`.  Every theorem
  holds for EVERY well-formed heap (`WFHeap`: children strictly below parents),
  every root, every edge table — no bound on size, depth or sharing.
-/
import PtModel.Analysis
import PtProofs.MapperLemmas
import PtProofs.AnalysisLemmas
namespace Pt

/-- **Users and predecessors are converse**: `v` is reported as a user of `u`
    exactly when `v` is a node of the graph and `u` is a direct predecessor of `v`
    (both read off the same edge table `tbl`). -/
theorem users_converse (walk tbl : String → String → Bool) (h : Heap) (root u v : Nat)
    (hw : WFHeap h) :
    (v ∈ usersList walk tbl h root u ↔ Reach (kidsFn walk h) root v ∧ u ∈ preds tbl h v)
    ∧ (v ∈ usersSet walk tbl h root u ↔ Reach (kidsFn walk h) root v ∧ u ∈ preds tbl h v) := by
  have h1 : v ∈ usersList walk tbl h root u ↔ Reach (kidsFn walk h) root v ∧ u ∈ preds tbl h v := by
    rw [mem_usersList, mem_visitLog hw]
  refine ⟨h1, ?_⟩
  unfold usersSet
  rw [List.mem_eraseDups]
  exact h1

/-- … **with multiplicity** for the list version: `v` occurs in the user list of `u`
    as often as `u` occurs among the predecessors of `v` (x + x uses x twice). -/
theorem users_multiplicity (walk tbl : String → String → Bool) (h : Heap) (root u v : Nat)
    (hw : WFHeap h) (hv : Reach (kidsFn walk h) root v) :
    (usersList walk tbl h root u).count v = (preds tbl h v).count u := by
  rw [count_usersList hw, if_pos ((mem_visitLog hw walk root v).2 hv)]

/-- **The topological order is valid**: it lists every reachable recorded node
    exactly once, and no entry depends (directly or indirectly) on a later one —
    i.e. every node comes after all nodes it depends on. -/
theorem topo_valid (walk : String → String → Bool) (counted : NodeData → Bool) (h : Heap)
    (root : Nat) (hw : WFHeap h) :
    (topo walk counted h root).Nodup
    ∧ (∀ j, j ∈ topo walk counted h root ↔
        Reach (kidsFn walk h) root j ∧ counted (h.node j) = true)
    ∧ (topo walk counted h root).Pairwise (fun a b => ¬ Reach (kidsFn walk h) a b) := by
  refine ⟨?_, ?_, ?_⟩
  · exact List.Nodup.sublist List.filter_sublist (visitLog_nodup hw walk root)
  · intro j
    unfold topo
    rw [List.mem_filter, mem_visitLog hw]
  · exact List.Pairwise.sublist List.filter_sublist (visitLog_sorted hw walk root)

/-- **Node counts, duplicates counted** (`count_duplicates=True`, key `id`): the count is
    the length of a duplicate-free enumeration of exactly the reachable counted objects. -/
theorem count_distinct (walk : String → String → Bool) (counted : NodeData → Bool) (h : Heap)
    (root : Nat) (hw : WFHeap h) :
    ∃ l : List Nat, l.Nodup
      ∧ (∀ j, j ∈ l ↔ Reach (kidsFn walk h) root j ∧ counted (h.node j) = true)
      ∧ countNodesDup walk counted h root = l.length :=
  ⟨topo walk counted h root, (topo_valid walk counted h root hw).1,
    (topo_valid walk counted h root hw).2.1, rfl⟩

/-- Σ over kinds: the per-type counts are the same enumeration split by kind. -/
theorem typeCount_spec (walk : String → String → Bool) (h : Heap) (root : Nat) (kind : String)
    (hw : WFHeap h) :
    ∃ l : List Nat, l.Nodup
      ∧ (∀ j, j ∈ l ↔ Reach (kidsFn walk h) root j ∧ ((h.node j).kind == kind) = true)
      ∧ typeCount walk h root kind = l.length :=
  ⟨topo walk (fun nd => nd.kind == kind) h root,
    (topo_valid walk _ h root hw).1, (topo_valid walk _ h root hw).2.1, rfl⟩

/-- **Node counts, duplicates merged** (`count_duplicates=False`, key = structural
    equality): the walk visits only reachable nodes, one per structural class
    (`key` values pairwise distinct), and every reachable node's class is represented —
    so the number of visits is the number of distinct (structural) reachable nodes.
    Hypotheses: structural equality is a congruence for the children (`KeyCongr`) and no
    node equals one of its own descendants (`HtCompat` for some height). -/
theorem count_distinct_structural (kids : Nat → List Nat) (key ht : Nat → Nat) (root : Nat)
    (hb : Below kids) (hc : KeyCongr kids key) (hh : HtCompat kids key ht) :
    let l := dfsK kids key (root + 1) root []
    (l.map key).Nodup
      ∧ (∀ j, j ∈ l → Reach kids root j)
      ∧ (∀ j, Reach kids root j → key j ∈ l.map key) := by
  intro l
  refine ⟨?_, ?_, ?_⟩
  · exact dfsK_keys_nodup hh _ _ _ List.nodup_nil
  · intro j hj
    rcases dfsK_reach_sound _ _ _ _ hj with h | h
    · simp at h
    · exact h
  · intro j hj
    have hcl : ClosedK kids key l := dfsK_closedK hb _ _ _ (Nat.lt_succ_self _) trivial
    have hroot : key root ∈ l.map key := dfsK_key_self _ _ _ (Nat.succ_pos _)
    obtain ⟨r, hr, hkr⟩ := List.mem_map.1 hroot
    exact closedK_reach hc l hcl hj r hr hkr

/-- **Tag counts**: caching 0 after the first visit makes the sum count each node
    once — the result is the number of reachable nodes carrying all wanted tags. -/
theorem tagcount_eq (walk : String → String → Bool) (counted : NodeData → Bool)
    (want : List String) (h : Heap) (root : Nat) (hw : WFHeap h) :
    ∃ l : List Nat, l.Nodup
      ∧ (∀ j, j ∈ l ↔ Reach (kidsFn walk h) root j
            ∧ (counted (h.node j) && hasTags want (h.node j)) = true)
      ∧ tagCount walk counted want h root = l.length := by
  have hb := below_of_wf hw walk
  refine ⟨(dfs (kidsFn walk h) (root + 1) root []).filter
      (fun j => counted (h.node j) && hasTags want (h.node j)), ?_, ?_, ?_⟩
  · exact List.Nodup.sublist List.filter_sublist (dfs_root_nodup hb root)
  · intro j
    rw [List.mem_filter, dfs_root_mem_iff hb]
  · exact tcVisit_root root

/-- **Materialised nodes**: exactly the reachable nodes materialised by their own kind
    or tags (inputs, received arrays, call results, stored-tagged, …), the children a
    reachable node materialises by use (send payloads, loopy / call bindings) and —
    if asked — the outputs. -/
theorem materialized_spec (walk : String → String → Bool) (matNode : NodeData → Bool)
    (matEdge : String → String → Bool) (h : Heap) (root : Nat) (inc : Bool) (j : Nat)
    (hw : WFHeap h) :
    j ∈ materialized walk matNode matEdge h root inc ↔
      (Reach (kidsFn walk h) root j ∧ matNode (h.node j) = true)
      ∨ (∃ p, Reach (kidsFn walk h) root p ∧ j ∈ kidsFn matEdge h p)
      ∨ (inc = true ∧ j ∈ outputsOf h root) := by
  unfold materialized
  simp only [List.mem_eraseDups, List.mem_append, List.mem_filter, List.mem_flatMap,
    mem_visitLog hw]
  constructor
  · rintro ((h1 | h2) | h3)
    · exact Or.inl h1
    · exact Or.inr (Or.inl h2)
    · refine Or.inr (Or.inr ?_)
      cases inc <;> simp_all
  · rintro (h1 | h2 | h3)
    · exact Or.inl (Or.inl h1)
    · exact Or.inl (Or.inr h2)
    · refine Or.inr ?_
      simp [h3.1, h3.2]

/-! ## non-vacuity -/

/-- `out = {a: (x+x) * y[idx], b: x+x}` with `x+x` shared; node 2 uses node 0 twice -/
def exGraph : Heap := #[
  { kind := "Placeholder", tags := [], kids := [] },
  { kind := "Placeholder", tags := [], kids := [] },
  { kind := "IndexLambda", tags := ["ImplStored"], kids := [("bind:_in0", 0), ("bind:_in1", 0)] },
  { kind := "Placeholder", tags := [], kids := [] },
  { kind := "AdvancedIndexInContiguousAxes", tags := [], kids := [("operand:array", 1), ("index:0", 3)] },
  { kind := "IndexLambda", tags := [], kids := [("bind:_in0", 2), ("bind:_in1", 4)] },
  { kind := "DictOfNamedArrays", tags := [], kids := [("entry:a", 5), ("entry:b", 2)] }]

def exAll : String → String → Bool := fun _ _ => true
def exIsArray (nd : NodeData) : Bool := nd.kind != "DictOfNamedArrays"

example : WFHeap exGraph := (wfHeap_iff _).1 (by decide)
example : Reach (kidsFn exAll exGraph) 6 2 :=
  Reach.step (c := 2) (by decide) (Reach.refl 2)
example : usersList exAll exAll exGraph 6 0 = [2, 2] ∧ preds exAll exGraph 2 = [0, 0] := by decide
example : usersSet exAll exAll exGraph 6 2 = [5, 6] := by decide
example : topo exAll exIsArray exGraph 6 = [0, 2, 1, 3, 4, 5] := by decide
example : countNodesDup exAll exIsArray exGraph 6 = 6 := by decide
example : tagCount exAll exIsArray ["ImplStored"] exGraph 6 = 1 := by decide
/-- the mutant that caches the result instead of 0 counts the shared tagged node twice -/
example : (tcVisitBad (kidsFn exAll exGraph)
    (fun j => exIsArray (exGraph.node j) && hasTags ["ImplStored"] (exGraph.node j)) 7 6 []).1 = 2 := by
  decide
example : materialized exAll (fun nd => nd.kind == "Placeholder" || nd.tags.contains "ImplStored")
    (fun _ _ => false) exGraph 6 true = [0, 2, 1, 3, 5] := by decide
example : Below (fun i => if i = 2 then [0, 1] else []) ∧
    KeyCongr (fun i => if i = 2 then [0, 1] else []) id ∧
    HtCompat (fun i => if i = 2 then [0, 1] else []) id (fun i => if i = 2 then 1 else 0) := by
  refine ⟨?_, ?_, ?_, ?_⟩
  · intro i c hc
    by_cases h : i = 2 <;> simp [h] at hc <;> omega
  · intro a b hab
    simp only [id] at hab
    rw [hab]
  · intro a b hab
    simp only [id] at hab
    rw [hab]
  · intro i c hc
    by_cases h : i = 2 <;> simp [h] at hc
    rcases hc with rfl | rfl <;> simp [h]

end Pt

/-
  C01 generator model, traversal level (reduction-free fragment): helper lemmas about the state
  monad, the identity passes, frames of executed statements, and what an implemented result
  keeps promising when a further statement is executed.
-/
import PtProofs.LoopyGenStmt
import PtProofs.C15
namespace Pt
namespace LG

/-! ## the result monad -/

theorem Res.bind_ok {α β : Type} {x : Res α} {f : α → Res β} {r : β} :
    Res.bind x f = .ok r ↔ ∃ a, x = .ok a ∧ f a = .ok r := by
  cases x with
  | ok a => simp [Res.bind]
  | refuse w => simp [Res.bind]
  | unmodelled w => simp [Res.bind]

/-! ## passes that do nothing without reductions -/

theorem lookupStr_nil (x : String) : lookupStr [] x = none := rfl

mutual
theorem renameRed_nil : ∀ (e : SExpr), renameRed [] e = e
  | .int _ | .bool _ | .rat _ _ | .nan | .idx _ => by simp [renameRed]
  | .var x => by simp [renameRed, lookupStr_nil]
  | .sub a ix => by simp [renameRed, renameRedList_nil ix]
  | .add a c | .mul a c | .quot a c | .fdiv a c | .rem a c | .pow a c | .cmp _ a c | .land a c | .lor a c => by
    simp [renameRed, renameRed_nil a, renameRed_nil c]
  | .lnot a | .cast _ a => by simp [renameRed, renameRed_nil a]
  | .ite c t e => by simp [renameRed, renameRed_nil c, renameRed_nil t, renameRed_nil e]
  | .reduce _ v lo hi body => by simp [renameRed, lookupStr_nil, renameRed_nil body]
  | .call _ args => by simp [renameRed, renameRedList_nil args]
theorem renameRedList_nil : ∀ (es : List SExpr), renameRedList [] es = es
  | [] => by simp [renameRedList]
  | e :: es => by simp [renameRedList, renameRed_nil e, renameRedList_nil es]
end

theorem replaceBounds_of_ok {n : Nat} (nb : List (String × SExpr × SExpr)) : ∀ (e : SExpr),
    exprOK n e = true → replaceBounds nb e = e
  | .int _, _ | .rat _ _, _ | .nan, _ | .var _, _ | .idx _, _ | .sub _ _, _ | .call _ _, _ => by
    simp [replaceBounds]
  | .bool _, h => by simp [exprOK] at h
  | .reduce .., h => by simp [exprOK] at h
  | .add a c, h | .mul a c, h | .quot a c, h | .fdiv a c, h | .rem a c, h | .pow a c, h | .cmp _ a c, h
  | .land a c, h | .lor a c, h => by
    simp only [exprOK, Bool.and_eq_true] at h
    simp [replaceBounds, replaceBounds_of_ok nb a h.1, replaceBounds_of_ok nb c h.2]
  | .lnot a, h | .cast _ a, h => by
    simp only [exprOK] at h
    simp [replaceBounds, replaceBounds_of_ok nb a h]
  | .ite c t e, h => by
    simp only [exprOK, Bool.and_eq_true] at h
    simp [replaceBounds, replaceBounds_of_ok nb c h.1.1, replaceBounds_of_ok nb t h.1.2,
      replaceBounds_of_ok nb e h.2]

theorem readBackBounds_of_ok {n : Nat} (hs : List Hoisted) (uniq : List (String × String)) : ∀ (e : SExpr),
    exprOK n e = true → readBackBounds hs uniq e = e
  | .int _, _ | .rat _ _, _ | .nan, _ | .var _, _ | .idx _, _ | .sub _ _, _ | .call _ _, _ => by
    simp [readBackBounds]
  | .bool _, h => by simp [exprOK] at h
  | .reduce .., h => by simp [exprOK] at h
  | .add a c, h | .mul a c, h | .quot a c, h | .fdiv a c, h | .rem a c, h | .pow a c, h | .cmp _ a c, h
  | .land a c, h | .lor a c, h => by
    simp only [exprOK, Bool.and_eq_true] at h
    simp [readBackBounds, readBackBounds_of_ok hs uniq a h.1, readBackBounds_of_ok hs uniq c h.2]
  | .lnot a, h | .cast _ a, h => by
    simp only [exprOK] at h
    simp [readBackBounds, readBackBounds_of_ok hs uniq a h]
  | .ite c t e, h => by
    simp only [exprOK, Bool.and_eq_true] at h
    simp [readBackBounds, readBackBounds_of_ok hs uniq c h.1.1, readBackBounds_of_ok hs uniq t h.1.2,
      readBackBounds_of_ok hs uniq e h.2]

/-! ## drawing names -/

theorem St.var_ok {st st1 : St} {b n : String} (h : st.var b = .ok (n, st1)) :
    ∃ g', st.vng.gen b = some (n, g') ∧ st1 = { st with vng := g' } := by
  unfold St.var at h
  cases hg : st.vng.gen b with
  | none => simp [hg] at h
  | some p =>
    obtain ⟨n', g'⟩ := p
    simp only [hg, Res.ok.injEq, Prod.mk.injEq] at h
    obtain ⟨rfl, rfl⟩ := h
    exact ⟨g', rfl, rfl⟩

theorem St.insnId_ok {st st1 : St} {b n : String} (h : st.insnId b = .ok (n, st1)) :
    ∃ g', st.ing.gen b = some (n, g') ∧ st1 = { st with ing := g' } := by
  unfold St.insnId at h
  cases hg : st.ing.gen b with
  | none => simp [hg] at h
  | some p =>
    obtain ⟨n', g'⟩ := p
    simp only [hg, Res.ok.injEq, Prod.mk.injEq] at h
    obtain ⟨rfl, rfl⟩ := h
    exact ⟨g', rfl, rfl⟩

/-- what drawing a name does to the state: only the generator grows, by the fresh name -/
structure Drew (st st1 : St) (n : String) : Prop where
  fresh : n ∉ st.vng.existing
  ex : st1.vng.existing = n :: st.vng.existing
  ing : st1.ing = st.ing
  results : st1.results = st.results
  stmts : st1.stmts = st.stmts

theorem St.var_drew {st st1 : St} {b n : String} (h : st.var b = .ok (n, st1)) : Drew st st1 n := by
  obtain ⟨g', hg, rfl⟩ := St.var_ok h
  obtain ⟨hf, he⟩ := gen_fresh _ _ _ _ hg
  exact ⟨hf, he, rfl, rfl, rfl⟩

/-- several names in a row: pairwise distinct, none known before, all known afterwards -/
structure DrewMany (st st1 : St) (ns : List String) : Prop where
  nodup : ns.Nodup
  fresh : ∀ n ∈ ns, n ∉ st.vng.existing
  mem : ∀ x, x ∈ st1.vng.existing ↔ x ∈ ns ∨ x ∈ st.vng.existing
  ing : st1.ing = st.ing
  results : st1.results = st.results
  stmts : st1.stmts = st.stmts

theorem St.vars_drew : ∀ {bs : List String} {st st1 : St} {ns : List String},
    St.vars st bs = .ok (ns, st1) → DrewMany st st1 ns ∧ ns.length = bs.length
  | [], st, st1, ns, h => by
    simp only [St.vars, Res.ok.injEq, Prod.mk.injEq] at h
    obtain ⟨rfl, rfl⟩ := h
    exact ⟨⟨List.nodup_nil, by simp, by simp, rfl, rfl, rfl⟩, rfl⟩
  | b :: bs, st, st1, ns, h => by
    simp only [St.vars] at h
    obtain ⟨p, hp, h⟩ := Res.bind_ok.1 h
    obtain ⟨n, st2⟩ := p
    obtain ⟨q, hq, h⟩ := Res.bind_ok.1 h
    obtain ⟨ns', st3⟩ := q
    simp only [Res.ok.injEq, Prod.mk.injEq] at h
    obtain ⟨rfl, rfl⟩ := h
    have d1 := St.var_drew hp
    obtain ⟨d2, hl⟩ := St.vars_drew hq
    refine ⟨⟨?_, ?_, ?_, by rw [d2.ing, d1.ing], by rw [d2.results, d1.results], by rw [d2.stmts, d1.stmts]⟩,
      by simp [hl]⟩
    · refine List.nodup_cons.2 ⟨fun hm => ?_, d2.nodup⟩
      exact d2.fresh n hm (by rw [d1.ex]; simp)
    · intro m hm
      rcases List.mem_cons.1 hm with rfl | hm
      · exact d1.fresh
      · intro hx
        exact d2.fresh m hm (by rw [d1.ex]; exact List.mem_cons_of_mem _ hx)
    · intro x
      rw [d2.mem, d1.ex]
      simp only [List.mem_cons]
      constructor
      · rintro (h | h | h)
        · exact Or.inl (Or.inr h)
        · exact Or.inl (Or.inl h)
        · exact Or.inr h
      · rintro ((h | h) | h)
        · exact Or.inr (Or.inl h)
        · exact Or.inl h
        · exact Or.inr (Or.inr h)

theorem tempName_drew {st st1 : St} {tag : NameTag} {n : String} (h : tempName st tag = .ok (n, st1)) :
    Drew st st1 n := by
  cases tag with
  | none => exact St.var_drew h
  | prefixed p => exact St.var_drew h
  | named m =>
    simp only [tempName] at h
    split at h
    · cases h
    · rename_i hc
      simp only [Res.ok.injEq, Prod.mk.injEq] at h
      obtain ⟨rfl, rfl⟩ := h
      exact ⟨by simpa using hc, rfl, rfl, rfl, rfl⟩

theorem length_dimNames (name : String) (n : Nat) : (dimNames name n).length = n := by simp [dimNames]

/-! ## executing the statements emitted so far -/

theorem execOrder_snoc (σ : Store) (l : List KStmt) (s : KStmt) :
    execOrder σ (l ++ [s]) = execStmt (execOrder σ l) s := by
  simp [execOrder, List.foldl_append]

theorem execStmt_frame' (σ : Store) (s : KStmt) (y : String) (h : s.noop = true ∨ y ≠ s.lhs) :
    (execStmt σ s).get? y = σ.get? y := by
  rcases h with h | h
  · unfold execStmt; rw [if_pos h]
  · exact execStmt_frame σ s y h

theorem execOrder_frame (y : String) : ∀ (l : List KStmt) (σ : Store),
    (∀ s ∈ l, s.noop = true ∨ y ≠ s.lhs) → (execOrder σ l).get? y = σ.get? y
  | [], σ, _ => rfl
  | s :: l, σ, h => by
    show (execOrder (execStmt σ s) l).get? y = _
    rw [execOrder_frame y l _ (fun t ht => h t (List.mem_cons_of_mem _ ht)),
      execStmt_frame' σ s y (h s (by simp))]

/-! ## promises survive further statements -/

theorem StoredOK.frame {σ σ' : Store} {name : String} {D : Arr Val} (h : StoredOK σ name D)
    (hf : σ'.get? name = σ.get? name) : StoredOK σ' name D := by
  obtain ⟨a, ha, hs, hg⟩ := h
  exact ⟨a, by rw [hf, ha], hs, hg⟩

/-- a result keeps implementing its array when a store that agrees on every array name known so
    far replaces the store, and more names become array names -/
theorem ImplOK.mono {σ σ' : Store} {G G' : String → Prop} {r : Impl} {D : Arr Val}
    (h : ImplOK σ G r D) (hG : ∀ x, G x → G' x) (hσ : ∀ x, G x → σ'.get? x = σ.get? x) :
    ImplOK σ' G' r D := by
  cases r with
  | stored name deps =>
    exact ⟨hG name h.1, h.2.frame (hσ name h.1)⟩
  | inlined le deps =>
    obtain ⟨h1, h2, h3⟩ := h
    refine ⟨h1, fun x hx => hG x (h2 x hx), fun j Γ hj hΓ => ?_⟩
    rw [← h3 j Γ hj (fun x hx => hΓ x (hG x hx))]
    exact eval_congr le _ _ rfl rfl (fun x hx => hσ x (h2 x hx))

end LG
end Pt

/-
  Helper lemmas for property C11 (memory safety of the lowering rules): which
  accesses (`Pt.accesses`) the expressions built by the lowering rules make.
-/
import PtProofs.EvalLemmas
import PtProofs.BasicIndexLemmas
import PtProofs.StackConcatLemmas
import PtProofs.ReshapeLemmas
namespace Pt
open Lower Spec

/-! ### expressions without subscripts make no accesses -/

mutual
theorem accesses_nil_of_noSub : ∀ (e : SExpr) (env : Env), hasSub e = false → accesses env e = []
  | .int _, _, _ => by simp [accesses]
  | .bool _, _, _ => by simp [accesses]
  | .rat _ _, _, _ => by simp [accesses]
  | .nan, _, _ => by simp [accesses]
  | .idx _, _, _ => by simp [accesses]
  | .var _, _, _ => by simp [accesses]
  | .sub _ _, _, h => by simp [hasSub] at h
  | .add a c, env, h => by
    simp only [hasSub, Bool.or_eq_false_iff] at h
    simp [accesses, accesses_nil_of_noSub a env h.1, accesses_nil_of_noSub c env h.2]
  | .mul a c, env, h => by
    simp only [hasSub, Bool.or_eq_false_iff] at h
    simp [accesses, accesses_nil_of_noSub a env h.1, accesses_nil_of_noSub c env h.2]
  | .quot a c, env, h => by
    simp only [hasSub, Bool.or_eq_false_iff] at h
    simp [accesses, accesses_nil_of_noSub a env h.1, accesses_nil_of_noSub c env h.2]
  | .fdiv a c, env, h => by
    simp only [hasSub, Bool.or_eq_false_iff] at h
    simp [accesses, accesses_nil_of_noSub a env h.1, accesses_nil_of_noSub c env h.2]
  | .rem a c, env, h => by
    simp only [hasSub, Bool.or_eq_false_iff] at h
    simp [accesses, accesses_nil_of_noSub a env h.1, accesses_nil_of_noSub c env h.2]
  | .pow a c, env, h => by
    simp only [hasSub, Bool.or_eq_false_iff] at h
    simp [accesses, accesses_nil_of_noSub a env h.1, accesses_nil_of_noSub c env h.2]
  | .cmp _ a c, env, h => by
    simp only [hasSub, Bool.or_eq_false_iff] at h
    simp [accesses, accesses_nil_of_noSub a env h.1, accesses_nil_of_noSub c env h.2]
  | .land a c, env, h => by
    simp only [hasSub, Bool.or_eq_false_iff] at h
    simp [accesses, accesses_nil_of_noSub a env h.1, accesses_nil_of_noSub c env h.2]
  | .lor a c, env, h => by
    simp only [hasSub, Bool.or_eq_false_iff] at h
    simp [accesses, accesses_nil_of_noSub a env h.1, accesses_nil_of_noSub c env h.2]
  | .lnot a, env, h => by
    simp only [hasSub] at h
    simp [accesses, accesses_nil_of_noSub a env h]
  | .cast _ a, env, h => by
    simp only [hasSub] at h
    simp [accesses, accesses_nil_of_noSub a env h]
  | .ite c t e, env, h => by
    simp only [hasSub, Bool.or_eq_false_iff] at h
    simp only [accesses, accesses_nil_of_noSub c env h.1.1, List.nil_append]
    cases (eval env c).truthy? with
    | none => rfl
    | some b =>
      cases b
      · exact accesses_nil_of_noSub e env h.2
      · exact accesses_nil_of_noSub t env h.1.2
  | .reduce _ v lo hi body, env, h => by
    simp only [hasSub, Bool.or_eq_false_iff] at h
    simp only [accesses, accesses_nil_of_noSub lo env h.1.1, accesses_nil_of_noSub hi env h.1.2,
      List.nil_append]
    cases (eval env lo).toInt? with
    | none => rfl
    | some l =>
      cases (eval env hi).toInt? with
      | none => rfl
      | some hh =>
        simp only [List.flatMap_eq_nil_iff]
        intro k _
        exact accesses_nil_of_noSub body _ h.2
  | .call _ args, env, h => by
    simp only [hasSub] at h
    simp [accesses, accessesList_nil_of_noSub args env h]
theorem accessesList_nil_of_noSub : ∀ (es : List SExpr) (env : Env),
    hasSubList es = false → accessesList env es = []
  | [], _, _ => by simp [accessesList]
  | e :: es, env, h => by
    simp only [hasSubList, Bool.or_eq_false_iff] at h
    simp [accessesList, accesses_nil_of_noSub e env h.1, accessesList_nil_of_noSub es env h.2]
end

theorem hasSubList_eq_false_iff : ∀ (es : List SExpr),
    hasSubList es = false ↔ ∀ e ∈ es, hasSub e = false
  | [] => by simp [hasSubList]
  | e :: es => by simp [hasSubList, hasSubList_eq_false_iff es]

theorem hasSubList_append (a b : List SExpr) :
    hasSubList (a ++ b) = false ↔ hasSubList a = false ∧ hasSubList b = false := by
  simp only [hasSubList_eq_false_iff, List.mem_append]
  constructor
  · intro h; exact ⟨fun e he => h e (Or.inl he), fun e he => h e (Or.inr he)⟩
  · rintro ⟨h1, h2⟩ e (he | he)
    · exact h1 e he
    · exact h2 e he

theorem hasSub_ivar (k : Nat) : hasSub (ivar k) = false := by simp [ivar, hasSub]

theorem hasSub_subConst (x : SExpr) (c : Int) : hasSub (subConst x c) = hasSub x := by
  simp [subConst, hasSub]

/-- a subscript whose index expressions are subscript-free and evaluate to an
    in-bounds index of the binding makes exactly one access, affine and in bounds -/
theorem accesses_sub_ok (env : Env) (nm : String) (ix : List SExpr) (arr : Arr Val) (j : Idx)
    (hns : hasSubList ix = false) (harr : env.lookupArr nm = some arr)
    (hj : toNatIdx (evalList env ix) = some j) (hin : inB arr.shape j = true) :
    accesses env (.sub nm ix) = [⟨nm, evalList env ix, true, true⟩] := by
  simp [accesses, accessesList_nil_of_noSub ix env hns, harr, hj, hin, hns]

theorem accesses_ite_true (env : Env) (c t e : SExpr) (h : eval env c = .b true)
    (hc : hasSub c = false) : accesses env (.ite c t e) = accesses env t := by
  simp [accesses, accesses_nil_of_noSub c env hc, h, Val.truthy?]

theorem accesses_ite_false (env : Env) (c t e : SExpr) (h : eval env c = .b false)
    (hc : hasSub c = false) : accesses env (.ite c t e) = accesses env e := by
  simp [accesses, accesses_nil_of_noSub c env hc, h, Val.truthy?]

/-! ### roll -/

theorem roll_index (shift : Int) (axis : Nat) (a : Arr Val) (i : Idx)
    (hi : inB a.shape i = true) (hax : axis < a.shape.length) :
    ∃ j, toNatIdx (evalList (idxEnv i [("_in0", a)]) ((List.range a.shape.length).map fun d =>
        if d = axis then SExpr.rem (subConst (ivar d) shift) (.int ((a.shape.getD axis 0 : Nat) : Int))
        else ivar d)) = some j ∧ inB a.shape j = true := by
  have hlen := inB_length hi
  have hlt := inB_getD_lt axis hi hax
  have hnpos : (0 : Int) < (a.shape.getD axis 0 : Nat) := by omega
  obtain ⟨hm0, hm1⟩ := pyMod_nonneg_lt (a := ((i.getD axis 0 : Nat) : Int) - shift) hnpos
  refine ⟨i.set axis (pyMod (((i.getD axis 0 : Nat) : Int) - shift) (a.shape.getD axis 0 : Nat)).toNat,
    ?_, inB_set _ _ hi (by omega)⟩
  rw [evalList_map]
  have hev : (List.range a.shape.length).map (fun d => eval (idxEnv i [("_in0", a)])
        (if d = axis then
          SExpr.rem (subConst (ivar d) shift) (.int ((a.shape.getD axis 0 : Nat) : Int))
         else ivar d))
      = (List.range i.length).map (fun d => Val.i ((if d = axis then
          (pyMod (((i.getD axis 0 : Nat) : Int) - shift) (a.shape.getD axis 0 : Nat)).toNat
          else i.getD d 0 : Nat))) := by
    rw [hlen]
    apply List.map_congr_left
    intro d hd
    have hd' : d < i.length := by simpa [hlen] using hd
    by_cases h : d = axis
    · subst h
      simp only [if_true]
      rw [eval_mod_shift i _ d shift _ hd' (by omega)]
      congr 1; omega
    · simp only [h, if_false, ivar, eval_idx i _ d hd']
  rw [hev, toNatIdx_map_nat, map_range_set]

theorem hasSubList_map_range (n : Nat) (f : Nat → SExpr) (h : ∀ d, hasSub (f d) = false) :
    hasSubList ((List.range n).map f) = false := by
  rw [hasSubList_eq_false_iff]
  intro e he
  obtain ⟨d, _, rfl⟩ := List.mem_map.mp he
  exact h d

/-! ### axis permutation -/

theorem perm_index (p : List Nat) (a : Arr Val) (i : Idx)
    (hlen : p.length = a.shape.length)
    (hperm : ∀ d, d < p.length → d ∈ p)
    (hi : inB (Spec.transpose p a).shape i = true) :
    ∃ j, toNatIdx (evalList (idxEnv i [("_in0", a)])
        ((List.range p.length).map fun d => ivar (p.idxOf d))) = some j
      ∧ inB a.shape j = true := by
  have hil : i.length = p.length := by
    have := inB_length hi
    simpa [Spec.transpose] using this
  refine ⟨(List.range p.length).map fun d => i.getD (p.idxOf d) 0, ?_, ?_⟩
  · rw [evalList_map]
    have hev : (List.range p.length).map (fun d => eval (idxEnv i [("_in0", a)])
          (ivar (p.idxOf d)))
        = (List.range p.length).map (fun d => Val.i ((i.getD (p.idxOf d) 0 : Nat))) := by
      apply List.map_congr_left
      intro d hd
      have hd' : d < p.length := by simpa using hd
      have : p.idxOf d < i.length := by
        rw [hil]; exact List.idxOf_lt_length_of_mem (hperm d hd')
      simp only [ivar, eval_idx i _ _ this]
    rw [hev, toNatIdx_map_nat]
  · apply inB_of_forall
    · simp [hlen]
    · intro k hk
      have hk' : k < p.length := by omega
      have hmem := hperm k hk'
      have hidx : p.idxOf k < p.length := List.idxOf_lt_length_of_mem hmem
      have h1 := inB_getD_lt (p.idxOf k) hi (by simpa [Spec.transpose] using hidx)
      simp only [Spec.transpose, List.getD_eq_getElem?_getD, List.getElem?_map] at h1
      simp only [List.getD_eq_getElem?_getD, List.getElem?_map, List.getElem?_range hk',
        Option.map_some, Option.getD_some]
      have h2 : p[p.idxOf k]? = some k := by
        rw [List.getElem?_eq_getElem hidx]; simp [List.getElem_idxOf hidx]
      simpa [h2] using h1

/-! ### basic indexing -/

theorem hasSubList_basicIdxFrom : ∀ (ix : List NIdx) (ns : Shape) (j : Nat),
    hasSubList (basicIdxFrom j ix ns) = false
  | [], _, _ => by simp [basicIdxFrom, hasSubList]
  | _ :: _, [], _ => by simp [basicIdxFrom, hasSubList]
  | .int k :: ix, n :: ns, j => by
    simp [basicIdxFrom, hasSubList, hasSub, hasSubList_basicIdxFrom ix ns j]
  | .slice s :: ix, n :: ns, j => by
    simp only [basicIdxFrom, hasSubList, hasSubList_basicIdxFrom ix ns (j + 1), Bool.or_false]
    split_ifs <;> simp [hasSub, ivar]

/-! ### stack: only the operand selected by the guards is touched -/

theorem accesses_stackFrom (env : Env) (axis nd : Nat) (subscript : List SExpr) (j : Nat)
    (hpt : env.pt[axis]? = some j) :
    ∀ (n i : Nat), i ≤ j → j < i + n →
      accesses env (stackFrom axis nd subscript i n) = accesses env (.sub (inName j) subscript)
  | 0, i, h1, h2 => by omega
  | k + 1, i, h1, h2 => by
    unfold stackFrom
    by_cases hk : k = 0
    · have : i = j := by omega
      simp [hk, this]
    · simp only [hk, if_false]
      have hc : eval env (.cmp .eq (ivar axis) (.int i)) = .b (decide (j = i)) := by
        simp only [eval, ivar, hpt]
        exact cmp_eq_nat j i
      have hns : hasSub (.cmp .eq (ivar axis) (.int i)) = false := by simp [hasSub, ivar]
      by_cases hji : j = i
      · rw [accesses_ite_true _ _ _ _ (by simp [hc, hji]) hns, hji]
      · rw [accesses_ite_false _ _ _ _ (by simp [hc, hji]) hns]
        exact accesses_stackFrom env axis nd subscript j hpt k (i + 1) (by omega) (by omega)

/-! ### concatenate: only the operand selected by the guards is touched -/

theorem hasSubList_shiftIx (axis nd lb : Nat) : hasSubList (shiftIx axis nd lb) = false := by
  apply hasSubList_map_range
  intro d
  split_ifs <;> simp [hasSub_subConst, hasSub_ivar]

theorem accesses_concatFrom (pt : Idx) (b : List (String × Arr Val)) (axis : Nat)
    (hax : axis < pt.length) :
    ∀ (lens : List Nat) (i lb k o : Nat), lb ≤ pt.getD axis 0 →
      concatLocate lens (pt.getD axis 0 - lb) = some (k, o) →
      accesses (idxEnv pt b) (concatFrom axis pt.length i lb lens)
        = accesses (idxEnv pt b)
            (.sub (inName (i + k)) (shiftIx axis pt.length (pt.getD axis 0 - o)))
  | [], i, lb, k, o, _, h => by simp [concatLocate] at h
  | [n], i, lb, k, o, hlb, h => by
    unfold concatLocate at h
    by_cases hj : pt.getD axis 0 - lb < n
    · simp only [hj, if_true, Option.some.injEq, Prod.mk.injEq] at h
      obtain ⟨rfl, rfl⟩ := h
      have e : pt.getD axis 0 - (pt.getD axis 0 - lb) = lb := by omega
      simp only [concatFrom, Nat.add_zero, e, shiftIx]
    · rw [if_neg hj] at h; simp [concatLocate] at h
  | n :: m :: rest, i, lb, k, o, hlb, h => by
    unfold concatLocate at h
    have hc : eval (idxEnv pt b) (.cmp .lt (ivar axis) (.int ((lb + n : Nat) : Int)))
        = .b (decide (pt.getD axis 0 < lb + n)) := by
      simp only [eval, ivar, idxEnv_pt pt b axis hax]
      exact cmp_lt_nat _ _
    have hns : hasSub (.cmp .lt (ivar axis) (.int ((lb + n : Nat) : Int))) = false := by
      simp [hasSub, ivar]
    by_cases hj : pt.getD axis 0 - lb < n
    · simp only [hj, if_true, Option.some.injEq, Prod.mk.injEq] at h
      obtain ⟨rfl, rfl⟩ := h
      have e : pt.getD axis 0 - (pt.getD axis 0 - lb) = lb := by omega
      have hlt : pt.getD axis 0 < lb + n := by omega
      rw [concatFrom]
      · rw [accesses_ite_true _ _ _ _ (by rw [hc, decide_eq_true hlt]) hns]
        simp only [Nat.add_zero, e, shiftIx]
      · simp
    · simp only [hj, if_false, Option.map_eq_some_iff] at h
      obtain ⟨⟨k', o'⟩, h1, h2⟩ := h
      simp only [Prod.mk.injEq] at h2
      obtain ⟨rfl, rfl⟩ := h2
      have hlt : ¬ pt.getD axis 0 < lb + n := by omega
      have e : pt.getD axis 0 - lb - n = pt.getD axis 0 - (lb + n) := by omega
      rw [e] at h1
      have := accesses_concatFrom pt b axis hax (m :: rest) (i + 1) (lb + n) k' o' (by omega) h1
      have e2 : i + 1 + k' = i + (k' + 1) := by omega
      rw [concatFrom]
      · rw [accesses_ite_false _ _ _ _ (by rw [hc, decide_eq_false hlt]) hns, this, e2]
      · simp

/-! ### reshape: the generated index expressions contain no subscripts -/

theorem hasSub_foldl_add : ∀ (ts : List SExpr) (t : SExpr), hasSub t = false →
    (∀ u ∈ ts, hasSub u = false) → hasSub (ts.foldl .add t) = false
  | [], t, ht, _ => by simpa using ht
  | u :: ts, t, ht, h => by
    simp only [List.foldl_cons]
    apply hasSub_foldl_add ts
    · simp [hasSub, ht, h u (by simp)]
    · intro w hw; exact h w (by simp [hw])

theorem hasSub_flatIndex (vars : List SExpr) (strs : List Nat) (h : hasSubList vars = false) :
    hasSub (flatIndex vars strs) = false := by
  rw [hasSubList_eq_false_iff] at h
  have hterms : ∀ t ∈ (vars.zip strs).map (fun (v, s) => SExpr.mul v (.int s)),
      hasSub t = false := by
    intro t ht
    obtain ⟨⟨v, s⟩, hvs, rfl⟩ := List.mem_map.mp ht
    simp [hasSub, h v (List.of_mem_zip hvs).1]
  unfold flatIndex
  generalize ((vars.zip strs).map fun (v, s) => SExpr.mul v (.int s)) = ts at hterms
  cases ts with
  | nil => simp [hasSub]
  | cons t ts =>
    exact hasSub_foldl_add ts t (hterms t (by simp)) (fun u hu => hterms u (by simp [hu]))

theorem hasSubList_genIdx (o : Order) (old new : Shape) (vars ix : List SExpr)
    (h : hasSubList vars = false) (hg : genIdx o old new vars = some ix) :
    hasSubList ix = false := by
  unfold genIdx at hg
  split_ifs at hg with h1 h2 h3
  · cases hg; simp [hasSubList, hasSub]
  · cases hg; exact h
  · simp only [Option.some.injEq] at hg
    subst hg
    have hf := hasSub_flatIndex vars (strides o new) h
    rw [hasSubList_eq_false_iff]
    intro e he
    obtain ⟨⟨st, str⟩, _, rfl⟩ := List.mem_map.mp he
    simp only
    split_ifs <;> simp [hasSub, hf]

theorem hasSubList_groupIdx (o : Order) : ∀ (gs : List Group) (v0 : Nat) (ix : List SExpr),
    groupIdx o gs v0 = some ix → hasSubList ix = false
  | [], _, ix, h => by
    simp only [groupIdx, Option.some.injEq] at h
    subst h; simp [hasSubList]
  | g :: gs, v0, ix, h => by
    unfold groupIdx at h
    simp only at h
    by_cases hold : g.old = []
    · rw [if_pos hold] at h
      by_cases hnew : g.new = [1]
      · rw [if_pos hnew] at h
        exact hasSubList_groupIdx o gs _ ix h
      · rw [if_neg hnew] at h; cases h
    · rw [if_neg hold] at h
      cases hga : genIdx o g.old g.new ((List.range g.new.length).map fun k => ivar (v0 + k)) with
      | none => rw [hga] at h; cases h
      | some a =>
        cases hgb : groupIdx o gs (v0 + g.new.length) with
        | none => rw [hga, hgb] at h; cases h
        | some r =>
          rw [hga, hgb] at h
          simp only [Option.some.injEq] at h
          subst h
          rw [hasSubList_append]
          exact ⟨hasSubList_genIdx o _ _ _ a
            (hasSubList_map_range _ _ (fun d => hasSub_ivar _)) hga,
            hasSubList_groupIdx o gs _ r hgb⟩

theorem hasSubList_reshapeIdx (o : Order) (old new : Shape) (ix : List SExpr)
    (h : reshapeIdx o old new = some ix) : hasSubList ix = false := by
  have hv : hasSubList ((List.range new.length).map ivar) = false :=
    hasSubList_map_range _ _ hasSub_ivar
  unfold reshapeIdx at h
  simp only at h
  split_ifs at h with h0 h1 h2 h3
  · cases h; simp [hasSubList]
  · exact hasSubList_genIdx o old new _ ix hv h
  · exact hasSubList_genIdx o old new _ ix hv h
  · obtain ⟨gs, _, hgi⟩ := Option.bind_eq_some_iff.mp h
    exact hasSubList_groupIdx o gs 0 ix hgi

end Pt

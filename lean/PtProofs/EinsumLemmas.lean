/-
  Multilinearity of `Spec.einsum` (property C06): in every operand position,
  with broadcast-unit and repeated axes, over exact rationals.
-/
import PtModel.Einsum
import Mathlib.Algebra.Field.Rat
import Mathlib.Tactic.Ring
namespace Pt
open Spec

theorem sumL_lincomb (α β : Rat) {ι : Type} (f g : ι → Rat) : ∀ (l : List ι),
    sumL (l.map fun r => α * f r + β * g r) = α * sumL (l.map f) + β * sumL (l.map g)
  | [] => by simp [sumL]
  | r :: l => by
    simp only [List.map_cons, sumL, sumL_lincomb α β f g l]
    ring

/-- the shapes of the operands after replacing operand `k` by an array of the same shape -/
theorem map_shape_set (args : List (Arr Rat)) (k : Nat) (x a : Arr Rat) (h : x.shape = a.shape) :
    (args.set k x).map (·.shape) = (args.set k a).map (·.shape) := by
  simp [List.map_set, h]

/-- one product term is linear in operand `k` -/
theorem einsumTerm_lincomb (tbl : List (EAxis × Nat)) (α β : Rat) (x a b : Arr Rat) (i r : Idx)
    (hxa : x.shape = a.shape) (hxb : x.shape = b.shape)
    (hx : ∀ j, x.get j = α * a.get j + β * b.get j) :
    ∀ (descrs : List (List EAxis)) (args : List (Arr Rat)) (k : Nat),
      k < descrs.length → k < args.length →
      einsumTerm tbl descrs (args.set k x) i r
        = α * einsumTerm tbl descrs (args.set k a) i r
          + β * einsumTerm tbl descrs (args.set k b) i r
  | [], _, _, h, _ => by simp at h
  | _ :: _, [], _, _, h => by simp at h
  | d :: ds, y :: ys, 0, _, _ => by
    simp only [einsumTerm, List.set_cons_zero, List.zip_cons_cons, List.map_cons, prodL, hx,
      ← hxa, ← hxb]
    ring
  | d :: ds, y :: ys, k + 1, h1, h2 => by
    have ih := einsumTerm_lincomb tbl α β x a b i r hxa hxb hx ds ys k
      (by simpa using h1) (by simpa using h2)
    simp only [einsumTerm] at ih
    simp only [einsumTerm, List.set_cons_succ, List.zip_cons_cons, List.map_cons, prodL, ih]
    ring

/-- `Spec.einsum` is linear in operand `k`: if `x = α·a + β·b` pointwise (equal
    shapes), the einsum with `x` in position `k` is the same combination of the
    einsums with `a` and `b` there — at EVERY index, and the shapes agree -/
theorem einsum_lincomb (descrs : List (List EAxis)) (nout : Nat) (args : List (Arr Rat)) (k : Nat)
    (hk : k < descrs.length) (hk' : k < args.length) (α β : Rat) (x a b : Arr Rat)
    (hxa : x.shape = a.shape) (hxb : x.shape = b.shape)
    (hx : ∀ j, x.get j = α * a.get j + β * b.get j) :
    (einsum descrs nout (args.set k x)).shape = (einsum descrs nout (args.set k a)).shape ∧
    (einsum descrs nout (args.set k x)).shape = (einsum descrs nout (args.set k b)).shape ∧
    ∀ i, (einsum descrs nout (args.set k x)).get i
      = α * (einsum descrs nout (args.set k a)).get i
        + β * (einsum descrs nout (args.set k b)).get i := by
  have sa := map_shape_set args k x a hxa
  have sb := map_shape_set args k x b hxb
  refine ⟨by simp only [einsum, sa], by simp only [einsum, sb], ?_⟩
  intro i
  simp only [einsum, ← sa, ← sb]
  rw [← sumL_lincomb]
  congr 1
  apply List.map_congr_left
  intro r _
  exact einsumTerm_lincomb _ α β x a b i r hxa hxb hx descrs args k hk hk'

theorem Arr.ext' {a b : Arr Rat} (hs : a.shape = b.shape) (hg : ∀ i, a.get i = b.get i) : a = b := by
  cases a; cases b
  simp only [Arr.mk.injEq]
  exact ⟨hs, funext hg⟩

/-! ### the four identities, as equalities of arrays (same shape, same value at
    every index), for any operand position `k` -/

theorem einsum_add (descrs : List (List EAxis)) (nout : Nat) (args : List (Arr Rat)) (k : Nat)
    (hk : k < descrs.length) (hk' : k < args.length) (a b : Arr Rat) (hab : a.shape = b.shape) :
    einsum descrs nout (args.set k (Arr.add a b))
      = Arr.add (einsum descrs nout (args.set k a)) (einsum descrs nout (args.set k b)) := by
  obtain ⟨h1, _, h3⟩ := einsum_lincomb descrs nout args k hk hk' 1 1 (Arr.add a b) a b rfl hab
    (fun j => by simp [Arr.add])
  exact Arr.ext' h1 (fun i => by rw [h3 i]; simp [Arr.add])

theorem einsum_sub (descrs : List (List EAxis)) (nout : Nat) (args : List (Arr Rat)) (k : Nat)
    (hk : k < descrs.length) (hk' : k < args.length) (a b : Arr Rat) (hab : a.shape = b.shape) :
    einsum descrs nout (args.set k (Arr.sub a b))
      = Arr.sub (einsum descrs nout (args.set k a)) (einsum descrs nout (args.set k b)) := by
  obtain ⟨h1, _, h3⟩ := einsum_lincomb descrs nout args k hk hk' 1 (-1) (Arr.sub a b) a b rfl hab
    (fun j => by simp only [Arr.sub]; ring)
  exact Arr.ext' h1 (fun i => by rw [h3 i]; simp only [Arr.sub]; ring)

/-- scalar on the left: `c * x` -/
theorem einsum_smul (descrs : List (List EAxis)) (nout : Nat) (args : List (Arr Rat)) (k : Nat)
    (hk : k < descrs.length) (hk' : k < args.length) (c : Rat) (a : Arr Rat) :
    einsum descrs nout (args.set k (Arr.smul c a))
      = Arr.smul c (einsum descrs nout (args.set k a)) := by
  obtain ⟨h1, _, h3⟩ := einsum_lincomb descrs nout args k hk hk' c 0 (Arr.smul c a) a a rfl rfl
    (fun j => by simp only [Arr.smul]; ring)
  exact Arr.ext' h1 (fun i => by rw [h3 i]; simp only [Arr.smul]; ring)

/-- scalar on the right: `x * c` -/
theorem einsum_muls (descrs : List (List EAxis)) (nout : Nat) (args : List (Arr Rat)) (k : Nat)
    (hk : k < descrs.length) (hk' : k < args.length) (c : Rat) (a : Arr Rat) :
    einsum descrs nout (args.set k (Arr.muls a c))
      = Arr.muls (einsum descrs nout (args.set k a)) c := by
  obtain ⟨h1, _, h3⟩ := einsum_lincomb descrs nout args k hk hk' c 0 (Arr.muls a c) a a rfl rfl
    (fun j => by simp only [Arr.muls]; ring)
  exact Arr.ext' h1 (fun i => by rw [h3 i]; simp only [Arr.muls]; ring)

/-- division by a scalar: `x / c` (also for `c = 0` under Lean's `x / 0 = 0`) -/
theorem einsum_div_scalar (descrs : List (List EAxis)) (nout : Nat) (args : List (Arr Rat))
    (k : Nat) (hk : k < descrs.length) (hk' : k < args.length) (c : Rat) (a : Arr Rat) :
    einsum descrs nout (args.set k (Arr.sdiv a c))
      = Arr.sdiv (einsum descrs nout (args.set k a)) c := by
  obtain ⟨h1, _, h3⟩ := einsum_lincomb descrs nout args k hk hk' c⁻¹ 0 (Arr.sdiv a c) a a rfl rfl
    (fun j => by simp only [Arr.sdiv, div_eq_mul_inv]; ring)
  exact Arr.ext' h1 (fun i => by rw [h3 i]; simp only [Arr.sdiv, div_eq_mul_inv]; ring)

end Pt

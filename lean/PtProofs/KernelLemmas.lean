/-
  Helper lemmas for the kernel model (`PtModel.Kernel`), properties C01/C07:
  B1  evaluation depends only on the arrays an expression names;
  B2  frame and congruence of statement execution;
  B3  schedule independence for abstract statements;
  B4  soundness of the static check `checkKernel`.
-/
import PtModel.Kernel
namespace Pt

/-! ### B1: evaluation depends only on the arrays named in the expression -/

theorem lookupArr_bind (env : Env) (v : String) (n : Int) (x : String) :
    (env.bind v n).lookupArr x = env.lookupArr x := rfl

mutual
theorem eval_congr : ∀ (e : SExpr) (env₁ env₂ : Env), env₁.pt = env₂.pt → env₁.ix = env₂.ix →
    (∀ x ∈ readNames e, env₁.lookupArr x = env₂.lookupArr x) → eval env₁ e = eval env₂ e
  | .int _, _, _, _, _, _ => by simp [eval]
  | .bool _, _, _, _, _, _ => by simp [eval]
  | .rat _ _, _, _, _, _, _ => by simp [eval]
  | .nan, _, _, _, _, _ => by simp [eval]
  | .idx k, _, _, hp, _, _ => by simp only [eval, hp]
  | .var x, env₁, env₂, _, hx, h => by
    simp only [eval, Env.lookupIx, hx, h x (by simp [readNames])]
  | .sub a ix, env₁, env₂, hp, hx, h => by
    simp only [eval]
    rw [h a (by simp [readNames]),
      evalList_congr ix env₁ env₂ hp hx (fun x hm => h x (by simp [readNames, hm]))]
  | .add a c, env₁, env₂, hp, hx, h => by
    simp only [eval]
    rw [eval_congr a env₁ env₂ hp hx (fun x hm => h x (by simp [readNames, hm])),
      eval_congr c env₁ env₂ hp hx (fun x hm => h x (by simp [readNames, hm]))]
  | .mul a c, env₁, env₂, hp, hx, h => by
    simp only [eval]
    rw [eval_congr a env₁ env₂ hp hx (fun x hm => h x (by simp [readNames, hm])),
      eval_congr c env₁ env₂ hp hx (fun x hm => h x (by simp [readNames, hm]))]
  | .quot a c, env₁, env₂, hp, hx, h => by
    simp only [eval]
    rw [eval_congr a env₁ env₂ hp hx (fun x hm => h x (by simp [readNames, hm])),
      eval_congr c env₁ env₂ hp hx (fun x hm => h x (by simp [readNames, hm]))]
  | .fdiv a c, env₁, env₂, hp, hx, h => by
    simp only [eval]
    rw [eval_congr a env₁ env₂ hp hx (fun x hm => h x (by simp [readNames, hm])),
      eval_congr c env₁ env₂ hp hx (fun x hm => h x (by simp [readNames, hm]))]
  | .rem a c, env₁, env₂, hp, hx, h => by
    simp only [eval]
    rw [eval_congr a env₁ env₂ hp hx (fun x hm => h x (by simp [readNames, hm])),
      eval_congr c env₁ env₂ hp hx (fun x hm => h x (by simp [readNames, hm]))]
  | .pow a c, env₁, env₂, hp, hx, h => by
    simp only [eval]
    rw [eval_congr a env₁ env₂ hp hx (fun x hm => h x (by simp [readNames, hm])),
      eval_congr c env₁ env₂ hp hx (fun x hm => h x (by simp [readNames, hm]))]
  | .cmp _ a c, env₁, env₂, hp, hx, h => by
    simp only [eval]
    rw [eval_congr a env₁ env₂ hp hx (fun x hm => h x (by simp [readNames, hm])),
      eval_congr c env₁ env₂ hp hx (fun x hm => h x (by simp [readNames, hm]))]
  | .land a c, env₁, env₂, hp, hx, h => by
    simp only [eval]
    rw [eval_congr a env₁ env₂ hp hx (fun x hm => h x (by simp [readNames, hm])),
      eval_congr c env₁ env₂ hp hx (fun x hm => h x (by simp [readNames, hm]))]
  | .lor a c, env₁, env₂, hp, hx, h => by
    simp only [eval]
    rw [eval_congr a env₁ env₂ hp hx (fun x hm => h x (by simp [readNames, hm])),
      eval_congr c env₁ env₂ hp hx (fun x hm => h x (by simp [readNames, hm]))]
  | .lnot a, env₁, env₂, hp, hx, h => by
    simp only [eval]
    rw [eval_congr a env₁ env₂ hp hx (fun x hm => h x (by simp [readNames, hm]))]
  | .cast _ a, env₁, env₂, hp, hx, h => by
    simp only [eval]
    rw [eval_congr a env₁ env₂ hp hx (fun x hm => h x (by simp [readNames, hm]))]
  | .ite c t e, env₁, env₂, hp, hx, h => by
    simp only [eval]
    rw [eval_congr c env₁ env₂ hp hx (fun x hm => h x (by simp [readNames, hm])),
      eval_congr t env₁ env₂ hp hx (fun x hm => h x (by simp [readNames, hm])),
      eval_congr e env₁ env₂ hp hx (fun x hm => h x (by simp [readNames, hm]))]
  | .reduce op v lo hi body, env₁, env₂, hp, hx, h => by
    simp only [eval]
    rw [eval_congr lo env₁ env₂ hp hx (fun x hm => h x (by simp [readNames, hm])),
      eval_congr hi env₁ env₂ hp hx (fun x hm => h x (by simp [readNames, hm]))]
    have hb : ∀ n : Int, eval (env₁.bind v n) body = eval (env₂.bind v n) body := fun n =>
      eval_congr body (env₁.bind v n) (env₂.bind v n) hp (by simp [Env.bind, hx])
        (fun x hm => by
          rw [lookupArr_bind, lookupArr_bind]; exact h x (by simp [readNames, hm]))
    simp only [hb]
  | .call _ args, env₁, env₂, hp, hx, h => by
    simp only [eval]
    rw [evalList_congr args env₁ env₂ hp hx (fun x hm => h x (by simp [readNames, hm]))]
theorem evalList_congr : ∀ (es : List SExpr) (env₁ env₂ : Env), env₁.pt = env₂.pt →
    env₁.ix = env₂.ix → (∀ x ∈ readNamesList es, env₁.lookupArr x = env₂.lookupArr x) →
    evalList env₁ es = evalList env₂ es
  | [], _, _, _, _, _ => by simp [evalList]
  | e :: es, env₁, env₂, hp, hx, h => by
    simp only [evalList]
    rw [eval_congr e env₁ env₂ hp hx (fun x hm => h x (by simp [readNamesList, hm])),
      evalList_congr es env₁ env₂ hp hx (fun x hm => h x (by simp [readNamesList, hm]))]
end

/-! ### B2: frame and congruence of statement execution -/

/-- two stores agree on the names satisfying `N` (as arrays: `Arr` equality is
    extensional — same shape and, by `funext`, same `get` on all indices) -/
def Agree (N : String → Prop) (σ₁ σ₂ : Store) : Prop := ∀ x, N x → σ₁.get? x = σ₂.get? x

theorem Store.get?_cons (x : String) (a : Arr Val) (σ : Store) (y : String) :
    Store.get? ((x, a) :: σ) y = if x = y then some a else σ.get? y := by
  unfold Store.get?
  by_cases h : x = y
  · rw [List.find?_cons_of_pos (by simpa using h), if_pos h]; rfl
  · rw [List.find?_cons_of_neg (by simpa using h), if_neg h]

theorem Store.lookupArr_eq (pt : Idx) (ix : List (String × Int)) (σ : Store) (x : String) :
    Env.lookupArr { pt := pt, ix := ix, arr := σ } x = σ.get? x := rfl

theorem Store.get?_write_ne (σ : Store) (x y : String) (i : Idx) (v : Val) (h : y ≠ x) :
    (σ.write x i v).get? y = σ.get? y := by
  unfold Store.write
  cases hx : σ.get? x with
  | none => rfl
  | some a => simp only []; rw [Store.get?_cons, if_neg (fun e => h e.symm)]

theorem Store.get?_write_self (σ : Store) (x : String) (i : Idx) (v : Val) :
    (σ.write x i v).get? x = (σ.get? x).map (·.write i v) := by
  unfold Store.write
  cases hx : σ.get? x with
  | none => simp [hx]
  | some a => simp only []; rw [Store.get?_cons, if_pos rfl]; rfl

theorem execPoint_frame (s : KStmt) (σ : Store) (ix : List (String × Int)) (y : String)
    (h : y ≠ s.lhs) : (execPoint s σ ix).get? y = σ.get? y := by
  unfold execPoint
  simp only
  cases toNatIdx (evalList _ s.lhsIdx) with
  | none => rfl
  | some i => exact Store.get?_write_ne _ _ _ _ _ h

theorem foldl_execPoint_frame (s : KStmt) (y : String) (h : y ≠ s.lhs) :
    ∀ (pts : List (List (String × Int))) (σ : Store),
      (pts.foldl (execPoint s) σ).get? y = σ.get? y
  | [], _ => rfl
  | p :: pts, σ => by
    rw [List.foldl_cons, foldl_execPoint_frame s y h pts, execPoint_frame s σ p y h]

/-- frame: a statement changes only its left-hand side -/
theorem execStmt_frame (σ : Store) (s : KStmt) (y : String) (h : y ≠ s.lhs) :
    (execStmt σ s).get? y = σ.get? y := by
  unfold execStmt
  by_cases hn : s.noop = true
  · rw [if_pos hn]
  · rw [if_neg hn]; exact foldl_execPoint_frame s y h _ σ

theorem iterPoints_congr (σ₁ σ₂ : Store) :
    ∀ (loops : List (String × SExpr × SExpr)) (acc : List (String × Int)),
      (∀ l ∈ loops, ∀ x, x ∈ readNames l.2.1 ∨ x ∈ readNames l.2.2 → σ₁.get? x = σ₂.get? x) →
      iterPoints σ₁ loops acc = iterPoints σ₂ loops acc
  | [], _, _ => rfl
  | (v, lo, hi) :: rest, acc, h => by
    simp only [iterPoints]
    rw [eval_congr lo { pt := [], ix := acc, arr := σ₁ } { pt := [], ix := acc, arr := σ₂ } rfl rfl
        (fun x hx => h (v, lo, hi) (by simp) x (Or.inl hx)),
      eval_congr hi { pt := [], ix := acc, arr := σ₁ } { pt := [], ix := acc, arr := σ₂ } rfl rfl
        (fun x hx => h (v, lo, hi) (by simp) x (Or.inr hx))]
    have ih : ∀ acc', iterPoints σ₁ rest acc' = iterPoints σ₂ rest acc' := fun acc' =>
      iterPoints_congr σ₁ σ₂ rest acc' (fun l hl => h l (by simp [hl]))
    simp only [ih]

theorem bindLets_congr (N : String → Prop) (ix : List (String × Int)) :
    ∀ (lets : List (String × SExpr)) (σ₁ σ₂ : Store), Agree N σ₁ σ₂ →
      (∀ l ∈ lets, ∀ x ∈ readNames l.2, N x) →
      Agree N (bindLets ix lets σ₁) (bindLets ix lets σ₂)
  | [], _, _, h, _ => h
  | (x, e) :: rest, σ₁, σ₂, h, hN => by
    simp only [bindLets]
    have hv : eval { pt := [], ix := ix, arr := σ₁ } e = eval { pt := [], ix := ix, arr := σ₂ } e :=
      eval_congr e _ _ rfl rfl (fun y hy => h y (hN (x, e) (by simp) y hy))
    rw [hv]
    apply bindLets_congr N ix rest _ _ _ (fun l hl => hN l (by simp [hl]))
    intro y hy
    rw [Store.get?_cons, Store.get?_cons, h y hy]

theorem write_congr (N : String → Prop) (σ₁ σ₂ : Store) (x : String) (i : Idx) (v : Val)
    (hx : N x) (h : Agree N σ₁ σ₂) : Agree N (σ₁.write x i v) (σ₂.write x i v) := by
  intro y hy
  by_cases e : y = x
  · subst e; rw [Store.get?_write_self, Store.get?_write_self, h y hy]
  · rw [Store.get?_write_ne _ _ _ _ _ e, Store.get?_write_ne _ _ _ _ _ e, h y hy]

theorem mem_rawReads_rhs {s : KStmt} {x : String} (h : x ∈ readNames s.rhs) : x ∈ s.rawReads := by
  simp [KStmt.rawReads, h]
theorem mem_rawReads_lhsIdx {s : KStmt} {x : String} (h : x ∈ readNamesList s.lhsIdx) :
    x ∈ s.rawReads := by
  simp [KStmt.rawReads, h]
theorem mem_rawReads_lets {s : KStmt} {x : String} {l : String × SExpr} (hl : l ∈ s.lets)
    (h : x ∈ readNames l.2) : x ∈ s.rawReads := by
  simp only [KStmt.rawReads, List.mem_append, List.mem_flatMap]
  exact Or.inl (Or.inr ⟨l, hl, h⟩)
theorem mem_rawReads_loops {s : KStmt} {x : String} {l : String × SExpr × SExpr} (hl : l ∈ s.loops)
    (h : x ∈ readNames l.2.1 ∨ x ∈ readNames l.2.2) : x ∈ s.rawReads := by
  simp only [KStmt.rawReads, List.mem_append, List.mem_flatMap]
  exact Or.inr ⟨l, hl, h⟩

theorem execPoint_congr (N : String → Prop) (s : KStmt) (σ₁ σ₂ : Store) (ix : List (String × Int))
    (hl : N s.lhs) (hr : ∀ x ∈ s.rawReads, N x) (h : Agree N σ₁ σ₂) :
    Agree N (execPoint s σ₁ ix) (execPoint s σ₂ ix) := by
  have hσl := bindLets_congr N ix s.lets σ₁ σ₂ h
    (fun l hl' x hx => hr x (mem_rawReads_lets hl' hx))
  unfold execPoint
  simp only
  rw [eval_congr s.rhs { pt := [], ix := ix, arr := bindLets ix s.lets σ₁ }
      { pt := [], ix := ix, arr := bindLets ix s.lets σ₂ } rfl rfl
      (fun x hx => hσl x (hr x (mem_rawReads_rhs hx))),
    evalList_congr s.lhsIdx { pt := [], ix := ix, arr := bindLets ix s.lets σ₁ }
      { pt := [], ix := ix, arr := bindLets ix s.lets σ₂ } rfl rfl
      (fun x hx => hσl x (hr x (mem_rawReads_lhsIdx hx)))]
  cases toNatIdx (evalList _ s.lhsIdx) with
  | none => exact h
  | some i => exact write_congr N σ₁ σ₂ s.lhs i _ hl h

theorem foldl_execPoint_congr (N : String → Prop) (s : KStmt)
    (hl : N s.lhs) (hr : ∀ x ∈ s.rawReads, N x) :
    ∀ (pts : List (List (String × Int))) (σ₁ σ₂ : Store), Agree N σ₁ σ₂ →
      Agree N (pts.foldl (execPoint s) σ₁) (pts.foldl (execPoint s) σ₂)
  | [], _, _, h => h
  | p :: pts, σ₁, σ₂, h => by
    simp only [List.foldl_cons]
    exact foldl_execPoint_congr N s hl hr pts _ _ (execPoint_congr N s σ₁ σ₂ p hl hr h)

/-- congruence: stores that agree on a set of names containing the statement's
    left-hand side and every name occurring in it still agree on that set after
    executing the statement -/
theorem execStmt_congr (N : String → Prop) (s : KStmt) (σ₁ σ₂ : Store)
    (hl : N s.lhs) (hr : ∀ x ∈ s.rawReads, N x) (h : Agree N σ₁ σ₂) :
    Agree N (execStmt σ₁ s) (execStmt σ₂ s) := by
  unfold execStmt
  by_cases hn : s.noop = true
  · rw [if_pos hn, if_pos hn]; exact h
  · rw [if_neg hn, if_neg hn, iterPoints_congr σ₁ σ₂ s.loops []
      (fun l hl' x hx => h x (hr x (mem_rawReads_loops hl' hx)))]
    exact foldl_execPoint_congr N s hl hr _ σ₁ σ₂ h

/-- the array a statement leaves in its left-hand side depends only on the
    store restricted to the names occurring in it and the left-hand side -/
theorem execStmt_lhs_congr (s : KStmt) (σ₁ σ₂ : Store)
    (h : ∀ x, x = s.lhs ∨ x ∈ s.rawReads → σ₁.get? x = σ₂.get? x) :
    (execStmt σ₁ s).get? s.lhs = (execStmt σ₂ s).get? s.lhs :=
  execStmt_congr (fun x => x = s.lhs ∨ x ∈ s.rawReads) s σ₁ σ₂ (Or.inl rfl)
    (fun _ hx => Or.inr hx) h s.lhs (Or.inl rfl)

/-! ### B3: schedule independence, abstractly -/

/-- an abstract statement: the name it writes, the names it may read, its effect -/
structure AStmt where
  lhs : String
  reads : List String
  run : Store → Store

/-- frame + congruence (the properties B2 establishes for kernel statements) -/
structure AStmt.Lawful (s : AStmt) : Prop where
  frame : ∀ σ x, x ≠ s.lhs → (s.run σ).get? x = σ.get? x
  congr : ∀ σ₁ σ₂, (∀ x, x = s.lhs ∨ x ∈ s.reads → σ₁.get? x = σ₂.get? x) →
    (s.run σ₁).get? s.lhs = (s.run σ₂).get? s.lhs

def runAll (σ : Store) (l : List AStmt) : Store := l.foldl (fun σ s => s.run σ) σ

/-- a valid order: single assignment, and every name a statement reads is
    written by no statement at all or by an earlier statement -/
structure AValid (l : List AStmt) : Prop where
  nodup : (l.map (·.lhs)).Nodup
  ready : ∀ pre s post, l = pre ++ s :: post → ∀ x ∈ s.reads,
    x ∉ l.map (·.lhs) ∨ x ∈ pre.map (·.lhs)

/-- in a valid order no statement reads what it writes -/
theorem AValid.lhs_not_read {l : List AStmt} (h : AValid l) {pre post : List AStmt} {s : AStmt}
    (hl : l = pre ++ s :: post) : s.lhs ∉ s.reads := by
  intro hx
  have hn := h.nodup
  rw [hl] at hn
  simp only [List.map_append, List.map_cons] at hn
  have hd := List.nodup_append.mp hn
  rcases h.ready pre s post hl _ hx with h1 | h1
  · apply h1; rw [hl]; simp
  · exact hd.2.2 _ h1 _ (by simp) rfl

theorem runAll_frame (x : String) : ∀ (l : List AStmt) (σ : Store), (∀ s ∈ l, s.Lawful) →
    (∀ s ∈ l, s.lhs ≠ x) → (runAll σ l).get? x = σ.get? x
  | [], _, _, _ => rfl
  | s :: l, σ, hl, hx => by
    simp only [runAll, List.foldl_cons]
    have := runAll_frame x l (s.run σ) (fun t ht => hl t (by simp [ht]))
      (fun t ht => hx t (by simp [ht]))
    simp only [runAll] at this
    rw [this, (hl s (by simp)).frame σ x (fun e => hx s (by simp) e.symm)]

/-- the equations a final store satisfies: untouched names keep their initial
    value; the value of each statement's lhs is what the statement computes from
    a store holding the FINAL values of its reads and the INITIAL value of its lhs -/
structure Sol (σ₀ : Store) (S : List AStmt) (F : Store) : Prop where
  untouched : ∀ x, x ∉ S.map (·.lhs) → F.get? x = σ₀.get? x
  computed : ∀ s ∈ S, ∃ G : Store, (∀ x ∈ s.reads, G.get? x = F.get? x) ∧
    G.get? s.lhs = σ₀.get? s.lhs ∧ F.get? s.lhs = (s.run G).get? s.lhs

theorem sol_of_valid (σ₀ : Store) (l : List AStmt) (hl : ∀ s ∈ l, s.Lawful) (hv : AValid l) :
    Sol σ₀ l (runAll σ₀ l) := by
  constructor
  · intro x hx
    apply runAll_frame x l σ₀ hl
    intro s hs e
    exact hx (List.mem_map.mpr ⟨s, hs, e⟩)
  · intro s hs
    obtain ⟨pre, post, hsplit⟩ := List.append_of_mem hs
    have hn := hv.nodup
    rw [hsplit] at hn
    simp only [List.map_append, List.map_cons] at hn
    have hd := List.nodup_append.mp hn
    have hd2 := List.nodup_cons.mp hd.2.1
    have hlpre : ∀ t ∈ pre, t.Lawful := fun t ht => hl t (by rw [hsplit]; simp [ht])
    have hlpost : ∀ t ∈ post, t.Lawful := fun t ht => hl t (by rw [hsplit]; simp [ht])
    have hrun : runAll σ₀ l = runAll (s.run (runAll σ₀ pre)) post := by
      rw [hsplit]; simp [runAll, List.foldl_append]
    -- post does not write s.lhs, pre does not write s.lhs
    have hpost_lhs : ∀ t ∈ post, t.lhs ≠ s.lhs := fun t ht e =>
      hd2.1 (List.mem_map.mpr ⟨t, ht, e⟩)
    have hpre_lhs : ∀ t ∈ pre, t.lhs ≠ s.lhs := fun t ht e =>
      hd.2.2 _ (List.mem_map.mpr ⟨t, ht, rfl⟩) _ (by simp) e
    refine ⟨runAll σ₀ pre, ?_, runAll_frame _ pre σ₀ hlpre hpre_lhs, ?_⟩
    · intro x hx
      have hxs : x ≠ s.lhs := fun e => hv.lhs_not_read hsplit (e ▸ hx)
      have hxpost : ∀ t ∈ post, t.lhs ≠ x := by
        intro t ht e
        rcases hv.ready pre s post hsplit x hx with h1 | h1
        · apply h1; rw [hsplit]; simp only [List.map_append, List.map_cons, List.mem_append,
            List.mem_cons, List.mem_map]
          exact Or.inr (Or.inr ⟨t, ht, e⟩)
        · exact hd.2.2 _ h1 _ (List.mem_cons_of_mem _ (List.mem_map.mpr ⟨t, ht, rfl⟩)) e.symm
      rw [hrun, runAll_frame x post _ hlpost hxpost, (hl s hs).frame _ x hxs]
    · rw [hrun, runAll_frame _ post _ hlpost hpost_lhs]

theorem sol_unique (σ₀ : Store) (l : List AStmt) (hl : ∀ s ∈ l, s.Lawful) (hv : AValid l)
    (F₁ F₂ : Store) (h₁ : Sol σ₀ l F₁) (h₂ : Sol σ₀ l F₂) : ∀ x, F₁.get? x = F₂.get? x := by
  have key : ∀ n, ∀ t ∈ l.take n, F₁.get? t.lhs = F₂.get? t.lhs := by
    intro n
    induction n with
    | zero => intro t ht; simp at ht
    | succ n ih =>
      intro t ht
      by_cases hn : n < l.length
      · rw [List.take_succ_eq_append_getElem hn] at ht
        rcases List.mem_append.mp ht with ht | ht
        · exact ih t ht
        · simp only [List.mem_singleton] at ht
          subst ht
          have hsplit : l = l.take n ++ l[n] :: l.drop (n + 1) := by
            rw [← List.drop_eq_getElem_cons hn, List.take_append_drop]
          have hs : l[n] ∈ l := List.getElem_mem hn
          obtain ⟨G₁, r₁, i₁, c₁⟩ := h₁.computed _ hs
          obtain ⟨G₂, r₂, i₂, c₂⟩ := h₂.computed _ hs
          rw [c₁, c₂]
          apply (hl _ hs).congr
          intro x hx
          rcases hx with rfl | hx
          · rw [i₁, i₂]
          · rw [r₁ x hx, r₂ x hx]
            rcases hv.ready _ _ _ hsplit x hx with h | h
            · rw [h₁.untouched x h, h₂.untouched x h]
            · obtain ⟨u, hu, rfl⟩ := List.mem_map.mp h
              exact ih u hu
      · rw [List.take_of_length_le (by omega)] at ht
        exact ih t (by rw [List.take_of_length_le (by omega)]; exact ht)
  intro x
  by_cases hx : x ∈ l.map (·.lhs)
  · obtain ⟨t, ht, rfl⟩ := List.mem_map.mp hx
    exact key l.length t (by rw [List.take_length]; exact ht)
  · rw [h₁.untouched x hx, h₂.untouched x hx]

theorem sol_perm {σ₀ : Store} {l₁ l₂ : List AStmt} {F : Store} (hp : l₁.Perm l₂)
    (h : Sol σ₀ l₁ F) : Sol σ₀ l₂ F :=
  ⟨fun x hx => h.untouched x (fun hm => hx ((hp.map _).mem_iff.mp hm)),
   fun s hs => h.computed s (hp.mem_iff.mpr hs)⟩

/-- B3: two valid orders of the same lawful statements, run from the same
    initial store, produce stores that agree on every name -/
theorem schedule_independent_abstract (l₁ l₂ : List AStmt) (hl : ∀ s ∈ l₁, s.Lawful)
    (hp : l₁.Perm l₂) (h₁ : AValid l₁) (h₂ : AValid l₂) (σ : Store) :
    ∀ x, (runAll σ l₁).get? x = (runAll σ l₂).get? x := by
  have hl₂ : ∀ s ∈ l₂, s.Lawful := fun s hs => hl s (hp.mem_iff.mpr hs)
  exact sol_unique σ l₁ hl h₁ _ _ (sol_of_valid σ l₁ hl h₁)
    (sol_perm hp.symm (sol_of_valid σ l₂ hl₂ h₂))

/-! ### B4: kernels as abstract statements; soundness of `checkKernel` -/

/-- a kernel statement as an abstract statement; its reads are ALL names
    occurring in it (a superset of `KStmt.reads`, which drops the local names) -/
def KStmt.toA (s : KStmt) : AStmt := ⟨s.lhs, s.rawReads, fun σ => execStmt σ s⟩

theorem KStmt.toA_lawful (s : KStmt) : s.toA.Lawful :=
  ⟨fun σ x h => execStmt_frame σ s x h, fun σ₁ σ₂ h => execStmt_lhs_congr s σ₁ σ₂ h⟩

/-- the statements of an order that do something -/
def active (order : List KStmt) : List KStmt := order.filter (!·.noop)

theorem execOrder_eq_runAll : ∀ (order : List KStmt) (σ : Store),
    execOrder σ order = runAll σ ((active order).map KStmt.toA)
  | [], _ => rfl
  | s :: rest, σ => by
    have ih := execOrder_eq_runAll rest
    simp only [execOrder, runAll] at ih
    by_cases hn : s.noop = true
    · have : execStmt σ s = σ := by simp [execStmt, hn]
      simp only [execOrder, List.foldl_cons, this, active, List.filter_cons, hn, Bool.not_true,
        Bool.false_eq_true, if_false]
      exact ih σ
    · have hn' : s.noop = false := by simpa using hn
      simp only [execOrder, runAll, List.foldl_cons, active, List.filter_cons, hn', Bool.not_false,
        if_true, List.map_cons]
      exact ih _

/-- a valid order of kernel statements: single assignment among the active
    statements, and every name occurring in an active statement is written by
    no active statement or by an earlier one -/
structure ValidOrder (order : List KStmt) : Prop where
  nodup : ((active order).map (·.lhs)).Nodup
  ready : ∀ pre s post, order = pre ++ s :: post → s.noop = false → ∀ x ∈ s.rawReads,
    x ∉ (active order).map (·.lhs) ∨ x ∈ (active pre).map (·.lhs)

/-- a split of the active statements comes from a split of the order -/
theorem active_split : ∀ (order : List KStmt) (pre' post' : List KStmt) (s : KStmt),
    active order = pre' ++ s :: post' →
    ∃ pre post, order = pre ++ s :: post ∧ s.noop = false ∧ active pre = pre' ∧ active post = post'
  | [], pre', post', s, h => by simp [active] at h
  | t :: rest, pre', post', s, h => by
    by_cases hn : t.noop = true
    · have : active (t :: rest) = active rest := by simp [active, hn]
      rw [this] at h
      obtain ⟨pre, post, e, hs, hp, hq⟩ := active_split rest pre' post' s h
      refine ⟨t :: pre, post, by rw [e]; rfl, hs, ?_, hq⟩
      simp only [active, List.filter_cons, hn, Bool.not_true, Bool.false_eq_true, if_false]
      exact hp
    · have hn' : t.noop = false := by simpa using hn
      have ht : active (t :: rest) = t :: active rest := by simp [active, hn']
      rw [ht] at h
      cases pre' with
      | nil =>
        simp only [List.nil_append, List.cons.injEq] at h
        obtain ⟨rfl, hr⟩ := h
        exact ⟨[], rest, rfl, hn', rfl, hr⟩
      | cons u pre'' =>
        simp only [List.cons_append, List.cons.injEq] at h
        obtain ⟨rfl, hr⟩ := h
        obtain ⟨pre, post, e, hs, hp, hq⟩ := active_split rest pre'' post' s hr
        refine ⟨t :: pre, post, by rw [e]; rfl, hs, ?_, hq⟩
        simp only [active, List.filter_cons, hn', Bool.not_false, if_true, List.cons.injEq, true_and]
        exact hp

theorem map_split {α β : Type} (f : α → β) : ∀ (l : List α) (pre' post' : List β) (b : β),
    l.map f = pre' ++ b :: post' →
    ∃ pre a post, l = pre ++ a :: post ∧ f a = b ∧ pre.map f = pre' ∧ post.map f = post'
  | [], pre', post', b, h => by simp at h
  | x :: l, [], post', b, h => by
    simp only [List.map_cons, List.nil_append, List.cons.injEq] at h
    exact ⟨[], x, l, rfl, h.1, rfl, h.2⟩
  | x :: l, c :: pre'', post', b, h => by
    simp only [List.map_cons, List.cons_append, List.cons.injEq] at h
    obtain ⟨pre, a, post, e, ha, hp, hq⟩ := map_split f l pre'' post' b h.2
    exact ⟨x :: pre, a, post, by rw [e]; rfl, ha, by simp [h.1, hp], hq⟩

theorem ValidOrder.toA {order : List KStmt} (h : ValidOrder order) :
    AValid ((active order).map KStmt.toA) := by
  have hmap : ∀ l : List KStmt, (l.map KStmt.toA).map (·.lhs) = l.map (·.lhs) := by
    intro l; simp [KStmt.toA]
  constructor
  · rw [hmap]; exact h.nodup
  · intro pre' a post' hsplit x hx
    obtain ⟨pre1, s, post1, e1, hs, hp1, _⟩ := map_split KStmt.toA _ _ _ _ hsplit
    obtain ⟨pre, post, e, hn, hp, _⟩ := active_split order pre1 post1 s e1
    subst hs
    rw [hmap, ← hp1, hmap, ← hp]
    exact h.ready pre s post e hn x hx

/-! #### from `respectsDeps` and `checkKernel` to `ValidOrder` -/

theorem respectsDeps_go_spec : ∀ (l : List KStmt) (done : List String),
    respectsDeps.go l done = true → ∀ pre s post, l = pre ++ s :: post →
    ∀ d ∈ s.deps, d ∈ pre.map (·.id) ∨ d ∈ done
  | [], _, _, pre, s, post, h, _, _ => by simp at h
  | t :: rest, done, hgo, pre, s, post, h, d, hd => by
    simp only [respectsDeps.go, Bool.and_eq_true, List.all_eq_true] at hgo
    cases pre with
    | nil =>
      simp only [List.nil_append, List.cons.injEq] at h
      obtain ⟨rfl, _⟩ := h
      right
      have := hgo.1 d hd
      simpa using this
    | cons u pre' =>
      simp only [List.cons_append, List.cons.injEq] at h
      obtain ⟨rfl, hr⟩ := h
      rcases respectsDeps_go_spec rest (t.id :: done) hgo.2 pre' s post hr d hd with h1 | h1
      · left; simp [h1]
      · simp only [List.mem_cons] at h1
        rcases h1 with h1 | h1
        · left; simp [h1]
        · right; exact h1

/-- everything `depClosure` returns lies in any set that contains the seeds and
    is closed under `deps` -/
theorem depClosure_subset (k : Kernel) (P : String → Prop)
    (hP : ∀ t ∈ k, P t.id → ∀ d ∈ t.deps, P d) :
    ∀ (fuel : Nat) (acc : List String), (∀ x ∈ acc, P x) → ∀ x ∈ depClosure k fuel acc, P x
  | 0, acc, h, x, hx => h x (by simpa [depClosure] using hx)
  | fuel + 1, acc, h, x, hx => by
    simp only [depClosure] at hx
    apply depClosure_subset k P hP fuel _ _ x hx
    intro y hy
    rw [List.mem_eraseDups] at hy
    rcases List.mem_append.mp hy with hy | hy
    · exact h y hy
    · obtain ⟨t, ht, hd⟩ := List.mem_flatMap.mp hy
      obtain ⟨htk, htacc⟩ := List.mem_filter.mp ht
      exact hP t htk (h _ (by simpa using htacc)) y hd

theorem eq_of_map_eq_of_nodup {α β : Type} (f : α → β) : ∀ (l : List α), (l.map f).Nodup →
    ∀ {a b : α}, a ∈ l → b ∈ l → f a = f b → a = b
  | [], _, _, _, ha, _, _ => by simp at ha
  | x :: l, hn, a, b, ha, hb, h => by
    simp only [List.map_cons, List.nodup_cons, List.mem_map, not_exists, not_and] at hn
    simp only [List.mem_cons] at ha hb
    rcases ha with rfl | ha <;> rcases hb with rfl | hb
    · rfl
    · exact absurd h.symm (hn.1 b hb)
    · exact absurd h (hn.1 a ha)
    · exact eq_of_map_eq_of_nodup f l hn.2 ha hb h

theorem eq_of_id_eq {l : List KStmt} (hn : (l.map (·.id)).Nodup) {a b : KStmt}
    (ha : a ∈ l) (hb : b ∈ l) (h : a.id = b.id) : a = b :=
  eq_of_map_eq_of_nodup (·.id) l hn ha hb h

/-- two valid orders of the same kernel statements, executed from the same
    initial store, agree on every name -/
theorem schedule_independent_of_valid (o₁ o₂ : List KStmt) (hp : o₁.Perm o₂)
    (h₁ : ValidOrder o₁) (h₂ : ValidOrder o₂) (σ : Store) (x : String) :
    (execOrder σ o₁).get? x = (execOrder σ o₂).get? x := by
  rw [execOrder_eq_runAll, execOrder_eq_runAll]
  apply schedule_independent_abstract _ _ _ ((hp.filter _).map _) h₁.toA h₂.toA
  intro s hs
  obtain ⟨t, _, rfl⟩ := List.mem_map.mp hs
  exact t.toA_lawful

end Pt

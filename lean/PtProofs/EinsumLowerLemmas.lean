/-
  Helper lemmas for the `map_einsum` lowering rule (C02 value, C11 accesses).
-/
import PtModel.EinsumLower
import PtProofs.EvalLemmas
import PtProofs.StackConcatLemmas
import PtProofs.AccessLemmas
import PtProofs.NoBroadcastLemmas
namespace Pt
open Lower Spec

theorem rName_injective {j k : Nat} (h : rName j = rName k) : j = k := by
  unfold rName at h
  exact Nat.repr_injective ((String.append_right_inj "_r").mp h)

/-- bind the reduction indices of the axes `js` to the values `r`, first axis outermost -/
def bindAll : Env → List Nat → Idx → Env
  | env, [], _ => env
  | env, _ :: _, [] => env
  | env, j :: js, x :: xs => bindAll (env.bind (rName j) (x : Int)) js xs

theorem bindAll_pt : ∀ (js : List Nat) (r : Idx) (env : Env), (bindAll env js r).pt = env.pt
  | [], _, _ => rfl
  | _ :: _, [], _ => rfl
  | j :: js, x :: xs, env => by rw [bindAll, bindAll_pt js xs]; rfl

theorem bindAll_arr : ∀ (js : List Nat) (r : Idx) (env : Env), (bindAll env js r).arr = env.arr
  | [], _, _ => rfl
  | _ :: _, [], _ => rfl
  | j :: js, x :: xs, env => by rw [bindAll, bindAll_arr js xs]; rfl

theorem bindAll_lookupArr (js : List Nat) (r : Idx) (env : Env) (nm : String) :
    (bindAll env js r).lookupArr nm = env.lookupArr nm := by
  simp only [Env.lookupArr, bindAll_arr]

theorem bindAll_lookupIx_notin : ∀ (js : List Nat) (r : Idx) (env : Env) (j : Nat), j ∉ js →
    (bindAll env js r).lookupIx (rName j) = env.lookupIx (rName j)
  | [], _, _, _, _ => rfl
  | _ :: _, [], _, _, _ => rfl
  | j0 :: js, x :: xs, env, j, h => by
    simp only [List.mem_cons, not_or] at h
    rw [bindAll, bindAll_lookupIx_notin js xs _ j h.2]
    simp only [Env.lookupIx, Env.bind]
    rw [List.find?_cons_of_neg]
    simp only [beq_iff_eq]
    exact fun e => h.1 (rName_injective e).symm

/-- the reduction index of axis `j` holds the entry of `r` at `j`'s position -/
theorem bindAll_lookupIx : ∀ (js : List Nat) (r : Idx) (env : Env) (j : Nat), js.Nodup → j ∈ js →
    r.length = js.length →
    (bindAll env js r).lookupIx (rName j) = some ((r.getD (js.idxOf j) 0 : Nat) : Int)
  | [], _, _, _, _, h, _ => by simp at h
  | _ :: _, [], _, _, _, _, h => by simp at h
  | j0 :: js, x :: xs, env, j, hnd, hj, hlen => by
    simp only [List.nodup_cons] at hnd
    by_cases e : j = j0
    · subst e
      rw [bindAll, bindAll_lookupIx_notin js xs _ j hnd.1]
      simp [Env.lookupIx, Env.bind]
    · simp only [List.mem_cons, e, false_or] at hj
      rw [bindAll, bindAll_lookupIx js xs _ j hnd.2 hj (by simpa using hlen)]
      have : (j0 :: js).idxOf j = js.idxOf j + 1 := by
        simp [List.idxOf_cons, show (j0 == j) = false by simpa using fun h => e h.symm]
      rw [this]; simp

/-- nested `Reduce(sum)`s evaluate to the iterated sum of the body -/
theorem eval_wrapReduces (tbl : List (EAxis × Nat)) (body : SExpr) : ∀ (js : List Nat) (env : Env),
    eval env (wrapReduces tbl js body)
      = sumOver (js.map fun j => axisLen tbl (.red j)) fun r => eval (bindAll env js r) body
  | [], env => by simp [wrapReduces, sumOver, bindAll]
  | j :: js, env => by
    simp only [wrapReduces, eval, Val.toInt?, List.map_cons, sumOver, Int.sub_zero, Int.toNat_natCast]
    congr 1
    apply List.map_congr_left
    intro x _
    rw [eval_wrapReduces tbl body js]
    simp only [bindAll, Int.zero_add]

theorem sumOver_congr : ∀ (shape : Shape) (f g : Idx → Val),
    (∀ r, inB shape r = true → f r = g r) → sumOver shape f = sumOver shape g
  | [], f, g, h => by simpa [sumOver] using h [] (by simp [inB])
  | n :: ns, f, g, h => by
    simp only [sumOver]
    congr 1
    apply List.map_congr_left
    intro x hx
    apply sumOver_congr ns
    intro r hr
    exact h (x :: r) (inB_cons.mpr ⟨by simpa using hx, hr⟩)

theorem eval_foldl_mul (env : Env) : ∀ (ts : List SExpr) (t : SExpr),
    eval env (ts.foldl .mul t) = (ts.map (eval env)).foldl Val.mul (eval env t)
  | [], _ => rfl
  | u :: ts, t => by
    simp only [List.foldl_cons, List.map_cons, eval_foldl_mul env ts]
    rfl

theorem eval_mulFold (env : Env) (ts : List SExpr) (h : ts ≠ []) :
    eval env (mulFold ts) = mulFoldV (ts.map (eval env)) := by
  cases ts with
  | nil => exact absurd rfl h
  | cons t ts => simp only [mulFold, List.map_cons, mulFoldV, eval_foldl_mul]

/-! ### one operand -/

theorem red_lt_numRed (descrs : List (List EAxis)) (j : Nat) (h : EAxis.red j ∈ descrs.flatMap id) :
    j < numRed descrs := by
  have := ((foldl_redStep_le (descrs.flatMap id) 0 (numRed descrs)).mp
    (Nat.le_of_eq (numRed_eq descrs).symm)).2 j h
  omega

theorem range_map_getD (n : Nat) (f : Nat → Nat) (j : Nat) (h : j < n) :
    ((List.range n).map f).getD j 0 = f j := by
  simp [List.getD_eq_getElem?_getD, List.getElem?_map, List.getElem?_range h]

theorem inB_map_of_lt (val : EAxis × Nat → Nat) : ∀ (l : List (EAxis × Nat)),
    (∀ q ∈ l, val q < q.2) → inB (l.map (·.2)) (l.map val) = true
  | [], _ => by simp [inB]
  | q :: l, h => by
    simp only [List.map_cons, inB, Bool.and_eq_true, decide_eq_true_eq]
    exact ⟨h q (by simp), inB_map_of_lt val l (fun q' h' => h q' (by simp [h']))⟩

/-- the facts about the evaluation point that make every operand subscript evaluate in bounds -/
structure PointOK (tbl : List (EAxis × Nat)) (nout nred : Nat) (env : Env) (i r : Idx) : Prop where
  hpt : env.pt = i
  hi : inB ((List.range nout).map fun k => axisLen tbl (.elem k)) i = true
  hr : inB ((List.range nred).map fun k => axisLen tbl (.red k)) r = true
  hix : ∀ j, j < nred → env.lookupIx (rName j) = some ((r.getD j 0 : Nat) : Int)

/-- the subscript of one operand evaluates to the index the reference semantics
    reads, and that index is within the operand -/
theorem einsumSubscript_index {tbl nout nred env i r} (hp : PointOK tbl nout nred env i r)
    (d : List EAxis) (s : Shape) (hwf : d.length = s.length)
    (hbc : ∀ q ∈ d.zip s, q.2 = axisLen tbl q.1 ∨ q.2 = 1)
    (helem : ∀ j, EAxis.elem j ∈ d → j < nout) (hred : ∀ j, EAxis.red j ∈ d → j < nred) :
    ((d.zip s).map (einsumIx tbl)).map (eval env)
      = (operandIdx tbl d s i r).map (fun x => Val.i (x : Nat))
    ∧ inB s (operandIdx tbl d s i r) = true := by
  have hilen : i.length = nout := by have := inB_length hp.hi; simpa using this
  have key : ∀ q ∈ d.zip s,
      eval env (einsumIx tbl q)
        = Val.i (((if q.2 ≠ axisLen tbl q.1 then 0
            else match q.1 with | .elem k => i.getD k 0 | .red k => r.getD k 0 : Nat)) : Int)
      ∧ (if q.2 ≠ axisLen tbl q.1 then 0
            else match q.1 with | .elem k => i.getD k 0 | .red k => r.getD k 0) < q.2 := by
    intro q hq
    obtain ⟨ax, n⟩ := q
    unfold einsumIx
    by_cases hb : n = axisLen tbl ax
    · simp only [hb, ne_eq, not_true_eq_false, if_false]
      have hmem : ax ∈ d := (List.of_mem_zip hq).1
      cases ax with
      | elem j =>
        have hj := helem j hmem
        have hlt := inB_getD_lt j hp.hi (by simpa using hj)
        rw [range_map_getD nout _ j hj] at hlt
        refine ⟨?_, hlt⟩
        simp only [ivar, eval, hp.hpt, List.getD_eq_getElem?_getD,
          List.getElem?_eq_getElem (show j < i.length by omega), Option.getD_some]
      | red j =>
        have hj := hred j hmem
        have hlt := inB_getD_lt j hp.hr (by simpa using hj)
        rw [range_map_getD nred _ j hj] at hlt
        refine ⟨?_, hlt⟩
        simp only [eval, hp.hix j hj]
    · simp only [hb, ne_eq, not_false_eq_true, if_true]
      rcases hbc (ax, n) hq with h | h
      · exact absurd h hb
      · simp only at h
        exact ⟨by simp [eval], by omega⟩
  constructor
  · simp only [operandIdx, List.map_map]
    apply List.map_congr_left
    intro q hq
    exact (key q hq).1
  · have hs : s = (d.zip s).map (·.2) := by rw [List.map_snd_zip (Nat.le_of_eq hwf.symm)]
    have h2 := inB_map_of_lt _ (d.zip s) (fun q hq => (key q hq).2)
    rw [← hs] at h2
    exact h2

/-! ### all operands -/

theorem idxOf_range' : ∀ (n s j : Nat), j < n → (List.range' s n).idxOf (s + j) = j
  | 0, _, _, h => by omega
  | n + 1, s, 0, _ => by simp [List.range'_succ]
  | n + 1, s, j + 1, h => by
    have ih := idxOf_range' n (s + 1) j (by omega)
    have e : s + 1 + j = s + (j + 1) := by omega
    rw [e] at ih
    simp only [List.range'_succ, List.idxOf_cons]
    have : (s == s + (j + 1)) = false := by simp
    simp [this, ih]

theorem idxOf_range (n j : Nat) (h : j < n) : (List.range n).idxOf j = j := by
  have := idxOf_range' n 0 j h
  simpa [List.range_eq_range'] using this

theorem hasSubList_einsumIx (tbl : List (EAxis × Nat)) (d : List EAxis) (s : Shape) :
    hasSubList ((d.zip s).map (einsumIx tbl)) = false := by
  rw [hasSubList_eq_false_iff]
  intro e he
  obtain ⟨⟨ax, n⟩, _, rfl⟩ := List.mem_map.mp he
  unfold einsumIx
  by_cases hb : n = axisLen tbl ax
  · cases ax <;> simp [hb, hasSub, ivar]
  · simp [hb, hasSub]

/-- hypotheses on the operands, relative to a table of axis lengths -/
structure OpsOK (tbl : List (EAxis × Nat)) (nout nred : Nat) (ops : List (List EAxis × Arr Val)) :
    Prop where
  hwf : ∀ p ∈ ops, p.1.length = p.2.shape.length
  hbc : ∀ p ∈ ops, ∀ q ∈ p.1.zip p.2.shape, q.2 = axisLen tbl q.1 ∨ q.2 = 1
  helem : ∀ p ∈ ops, ∀ j, EAxis.elem j ∈ p.1 → j < nout
  hred : ∀ p ∈ ops, ∀ j, EAxis.red j ∈ p.1 → j < nred

theorem OpsOK.tail {tbl nout nred p ops} (h : OpsOK tbl nout nred (p :: ops)) :
    OpsOK tbl nout nred ops :=
  ⟨fun q hq => h.hwf q (by simp [hq]), fun q hq => h.hbc q (by simp [hq]),
   fun q hq => h.helem q (by simp [hq]), fun q hq => h.hred q (by simp [hq])⟩

/-- every operand subscript evaluates to the element the reference semantics multiplies -/
theorem einsumSubscripts_eval {tbl nout nred env i r} (hp : PointOK tbl nout nred env i r) :
    ∀ (ops : List (List EAxis × Arr Val)) (k : Nat), OpsOK tbl nout nred ops →
      (∀ idx (h : idx < ops.length), env.lookupArr (inName (k + idx)) = some ops[idx].2) →
      (einsumSubscripts tbl k (ops.map fun p => (p.1, p.2.shape))).map (eval env)
        = ops.map fun p => p.2.get (operandIdx tbl p.1 p.2.shape i r)
  | [], _, _, _ => rfl
  | p :: ops, k, hok, hl => by
    obtain ⟨hev, hin⟩ := einsumSubscript_index hp p.1 p.2.shape (hok.hwf p (by simp))
      (hok.hbc p (by simp)) (hok.helem p (by simp)) (hok.hred p (by simp))
    have h0 := hl 0 (by simp)
    simp only [Nat.add_zero, List.getElem_cons_zero] at h0
    have ih := einsumSubscripts_eval hp ops (k + 1) hok.tail (fun idx h => by
      have := hl (idx + 1) (by simpa using h)
      simp only [List.getElem_cons_succ] at this
      rw [← this]; congr 2; omega)
    simp only [List.map_cons, einsumSubscripts, List.cons.injEq]
    refine ⟨?_, ih⟩
    unfold einsumSubscript
    rw [eval_sub_of _ _ _ _ hev, h0]
    simp only [hin, if_true]

/-- every access made by the operand subscripts is affine and in bounds -/
theorem einsumSubscripts_accesses {tbl nout nred env i r} (hp : PointOK tbl nout nred env i r) :
    ∀ (ops : List (List EAxis × Arr Val)) (k : Nat), OpsOK tbl nout nred ops →
      (∀ idx (h : idx < ops.length), env.lookupArr (inName (k + idx)) = some ops[idx].2) →
      ∀ t ∈ einsumSubscripts tbl k (ops.map fun p => (p.1, p.2.shape)),
        ∀ acc ∈ accesses env t, acc.ok = true ∧ acc.affine = true
  | [], _, _, _, t, ht => by simp [einsumSubscripts] at ht
  | p :: ops, k, hok, hl, t, ht => by
    simp only [List.map_cons, einsumSubscripts, List.mem_cons] at ht
    rcases ht with rfl | ht
    · obtain ⟨hev, hin⟩ := einsumSubscript_index hp p.1 p.2.shape (hok.hwf p (by simp))
        (hok.hbc p (by simp)) (hok.helem p (by simp)) (hok.hred p (by simp))
      have h0 := hl 0 (by simp)
      simp only [Nat.add_zero, List.getElem_cons_zero] at h0
      intro acc hacc
      unfold einsumSubscript at hacc
      rw [accesses_sub_ok env _ _ p.2 _ (hasSubList_einsumIx tbl p.1 p.2.shape) h0
        (by rw [evalList_eq_map, hev, toNatIdx_map_i]) hin] at hacc
      simp only [List.mem_singleton] at hacc
      subst hacc
      exact ⟨rfl, rfl⟩
    · exact einsumSubscripts_accesses hp ops (k + 1) hok.tail (fun idx h => by
        have := hl (idx + 1) (by simpa using h)
        simp only [List.getElem_cons_succ] at this
        rw [← this]; congr 2; omega) t ht

theorem accesses_foldl_mul (env : Env) : ∀ (ts : List SExpr) (t : SExpr) (acc : Access),
    acc ∈ accesses env (ts.foldl .mul t) → acc ∈ accesses env t ∨ ∃ u ∈ ts, acc ∈ accesses env u
  | [], _, _, h => Or.inl h
  | u :: ts, t, acc, h => by
    simp only [List.foldl_cons] at h
    rcases accesses_foldl_mul env ts (.mul t u) acc h with h | ⟨w, hw, h⟩
    · simp only [accesses, List.mem_append] at h
      rcases h with h | h
      · exact Or.inl h
      · exact Or.inr ⟨u, by simp, h⟩
    · exact Or.inr ⟨w, by simp [hw], h⟩

/-- accesses under the nested reductions come from the body at an in-bounds
    valuation of the reduction indices -/
theorem accesses_wrapReduces (tbl : List (EAxis × Nat)) (body : SExpr) :
    ∀ (js : List Nat) (env : Env) (acc : Access), acc ∈ accesses env (wrapReduces tbl js body) →
      ∃ r, inB (js.map fun j => axisLen tbl (.red j)) r = true ∧
        acc ∈ accesses (bindAll env js r) body
  | [], env, acc, h => ⟨[], by simp [inB], by simpa [wrapReduces, bindAll] using h⟩
  | j :: js, env, acc, h => by
    simp only [wrapReduces, accesses, eval, Val.toInt?, List.nil_append, Int.sub_zero,
      Int.toNat_natCast, List.mem_flatMap, List.mem_range] at h
    obtain ⟨x, hx, hacc⟩ := h
    obtain ⟨r, hr, hb⟩ := accesses_wrapReduces tbl body js _ acc hacc
    refine ⟨x :: r, by simp only [List.map_cons]; exact inB_cons.mpr ⟨hx, hr⟩, ?_⟩
    simpa only [bindAll, Int.zero_add] using hb

/-! ### the whole rule -/

/-- hypotheses of the einsum theorems: one descriptor per operand, one entry per
    operand axis; every operand axis has the length of its einsum axis or 1
    (NumPy-style broadcasting); output axes are `< nout`; the reduction axes are
    numbered contiguously; the index is within the output shape -/
structure EinsumOK (descrs : List (List EAxis)) (nout : Nat) (args : List (Arr Val)) (i : Idx) :
    Prop where
  hlen : descrs.length = args.length
  hne : args ≠ []
  hwf : ∀ p ∈ descrs.zip args, p.1.length = p.2.shape.length
  hbc : ∀ p ∈ descrs.zip args, ∀ q ∈ p.1.zip p.2.shape,
    q.2 = axisLen (axisLenTable descrs (args.map (·.shape))) q.1 ∨ q.2 = 1
  helem : ∀ p ∈ descrs.zip args, ∀ j, EAxis.elem j ∈ p.1 → j < nout
  hredAll : ∀ j, j < numRed descrs → EAxis.red j ∈ descrs.flatMap id
  hi : inB (einsumV descrs nout args).shape i = true

theorem EinsumOK.ops {descrs nout args i} (h : EinsumOK descrs nout args i) :
    OpsOK (axisLenTable descrs (args.map (·.shape))) nout (numRed descrs) (descrs.zip args) :=
  ⟨h.hwf, h.hbc, h.helem, fun p hp j hj =>
    red_lt_numRed descrs j (List.mem_flatMap.mpr ⟨p.1, (List.of_mem_zip hp).1, hj⟩)⟩

theorem redAxes_eq {descrs : List (List EAxis)}
    (h : ∀ j, j < numRed descrs → EAxis.red j ∈ descrs.flatMap id) :
    redAxes descrs = List.range (numRed descrs) := by
  unfold redAxes
  apply List.filter_eq_self.mpr
  intro j hj
  simpa using h j (by simpa using hj)

theorem EinsumOK.point {descrs nout args i} (h : EinsumOK descrs nout args i) (r : Idx)
    (hr : inB ((List.range (numRed descrs)).map fun k =>
      axisLen (axisLenTable descrs (args.map (·.shape))) (.red k)) r = true) :
    PointOK (axisLenTable descrs (args.map (·.shape))) nout (numRed descrs)
      (bindAll (idxEnv i (inBinds args)) (List.range (numRed descrs)) r) i r := by
  have hrl : r.length = numRed descrs := by have := inB_length hr; simpa using this
  refine ⟨by rw [bindAll_pt]; rfl, h.hi, hr, fun j hj => ?_⟩
  rw [bindAll_lookupIx _ _ _ j List.nodup_range (by simpa using hj) (by simpa using hrl),
    idxOf_range _ _ hj]

theorem EinsumOK.lookups {descrs nout args i} (h : EinsumOK descrs nout args i) (r : Idx) :
    ∀ idx (hx : idx < (descrs.zip args).length),
      (bindAll (idxEnv i (inBinds args)) (List.range (numRed descrs)) r).lookupArr
        (inName (0 + idx)) = some (descrs.zip args)[idx].2 := by
  intro idx hx
  have hx' : idx < args.length := by simp [List.length_zip, h.hlen] at hx; exact hx
  rw [bindAll_lookupArr, Nat.zero_add, lookupArr_inBinds, List.getElem?_eq_getElem hx']
  simp [List.getElem_zip]

theorem zip_shapes (descrs : List (List EAxis)) (args : List (Arr Val)) :
    descrs.zip (args.map (·.shape)) = (descrs.zip args).map fun p => (p.1, p.2.shape) := by
  rw [List.zip_map_right]; rfl

theorem subs_ne_nil {descrs nout args i} (h : EinsumOK descrs nout args i)
    (tbl : List (EAxis × Nat)) :
    einsumSubscripts tbl 0 ((descrs.zip args).map fun p => (p.1, p.2.shape)) ≠ [] := by
  have hne := h.hne
  have hlen := h.hlen
  cases args with
  | nil => exact absurd rfl hne
  | cons a as =>
    cases descrs with
    | nil => simp at hlen
    | cons d ds => simp [einsumSubscripts]

/-- `map_einsum` is correct: the lowered expression evaluates to the einsum -/
theorem einsum_eval {descrs nout args i} (h : EinsumOK descrs nout args i) :
    eval (idxEnv i (inBinds args)) (Lower.einsum descrs (args.map (·.shape)))
      = (einsumV descrs nout args).get i := by
  unfold Lower.einsum
  simp only
  rw [redAxes_eq h.hredAll, eval_wrapReduces, zip_shapes]
  simp only [einsumV]
  apply sumOver_congr
  intro r hr
  have hp := h.point r hr
  rw [eval_mulFold _ _ (subs_ne_nil h _),
    einsumSubscripts_eval hp _ 0 h.ops (h.lookups r)]

/-- every access of the lowered einsum — for every valuation of the reduction
    indices within their bounds — is affine and within the accessed operand -/
theorem einsum_accesses {descrs nout args i} (h : EinsumOK descrs nout args i) :
    ∀ acc ∈ accesses (idxEnv i (inBinds args)) (Lower.einsum descrs (args.map (·.shape))),
      acc.ok = true ∧ acc.affine = true := by
  intro acc hacc
  unfold Lower.einsum at hacc
  simp only at hacc
  rw [redAxes_eq h.hredAll, zip_shapes] at hacc
  obtain ⟨r, hr, hb⟩ := accesses_wrapReduces _ _ _ _ acc hacc
  have hp := h.point r hr
  have hall := einsumSubscripts_accesses hp _ 0 h.ops (h.lookups r)
  generalize hts : einsumSubscripts (axisLenTable descrs (args.map (·.shape))) 0
    ((descrs.zip args).map fun p => (p.1, p.2.shape)) = ts at hb hall
  cases ts with
  | nil => simp [mulFold, accesses] at hb
  | cons t ts =>
    simp only [mulFold] at hb
    rcases accesses_foldl_mul _ ts t acc hb with h1 | ⟨u, hu, h1⟩
    · exact hall t (by simp) acc h1
    · exact hall u (by simp [hu]) acc h1

end Pt

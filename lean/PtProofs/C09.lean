/-
  Property C09 — every distributed partition is well-formed and all ranks agree on it.
  Property theorems only; proofs live in DistLemmas / DistGraph.

  `WF P` (PtModel.Dist) is the conjunction, over all ranks, of the clauses of the property
  statement; `checkWF` is the executable checker `ptdriver` runs on the union of the
  `DistributedGraphPartition`s the real `find_distributed_partition` returns on all ranks
  (harness/props/c09.py).  `numberTags` models `number_distributed_tags`.
-/
import PtProofs.DistGraph
namespace Pt.Dist

/-- The executable checker is sound: a partition it accepts satisfies the contract. -/
theorem checkWF_sound (P : Partition) (h : checkWF P = true) : WF P :=
  checkWF_sound_lemma P h

/-- What `WF` says, clause by clause, in the words of the property statement (for some level
    function `lvl` on parts and some round numbering `round` on messages):
    1. every output name is produced by exactly one part, overall outputs are produced;
    2. names read are user inputs, received by the same or an earlier part, or outputs of an
       earlier part;  3. received names are never part outputs;  4. sent names are outputs of
    the sending part;  5. no communication nodes inside parts;  6. the part order is acyclic
    (needed parts and senders have strictly lower level; every receive has a sender);
    7. rounds: the two ends of a message share one round, a part's receives precede its
    sends, and rounds never go backwards along `needed_pids` — on every rank alike. -/
theorem wf_clauses {P : Partition} (h : WF P) :
    ∃ (lvl : Nat → Nat → Nat) (round : Nat → Nat → Nat → Nat), ∀ r, r < P.length →
      ((allOutputs (P.parts r)).Nodup ∧ ∀ n ∈ P.overall r, n ∈ allOutputs (P.parts r))
      ∧ (∀ p ∈ P.parts r, ∀ n ∈ p.inputs,
          n ∈ P.user r
          ∨ (∃ q ∈ P.parts r, sameOrEarlier (P.parts r) q p ∧ n ∈ q.recvNames)
          ∨ (∃ q ∈ P.parts r, earlier (P.parts r) q p ∧ n ∈ q.outputs))
      ∧ (∀ rc ∈ allRecvs (P.parts r), rc.name ∉ allOutputs (P.parts r))
      ∧ (∀ p ∈ P.parts r, ∀ sd ∈ p.sends, sd.name ∈ p.outputs)
      ∧ (∀ p ∈ P.parts r, p.pure = true)
      ∧ ((∀ p ∈ P.parts r, ∀ q ∈ p.needs, (∃ p' ∈ P.parts r, p'.pid = q) ∧ lvl r q < lvl r p.pid)
          ∧ (∀ p ∈ P.parts r, ∀ rc ∈ p.recvs,
              ∃ q ∈ P.parts rc.src, (∃ sd ∈ q.sends, matchesRecv r rc sd) ∧ lvl rc.src q.pid < lvl r p.pid))
      ∧ ((∀ p ∈ P.parts r, ∀ rc ∈ p.recvs, ∀ sd ∈ p.sends, round rc.src r rc.tag < round r sd.dst sd.tag)
          ∧ (∀ p ∈ P.parts r, ∀ q ∈ P.parts r, q.pid ∈ p.needs →
              (∀ sd ∈ q.sends, ∀ rc ∈ p.recvs, round r sd.dst sd.tag ≤ round rc.src r rc.tag)
              ∧ (∀ sd ∈ q.sends, ∀ sd' ∈ p.sends, round r sd.dst sd.tag < round r sd'.dst sd'.tag))) := by
  obtain ⟨lvl, round, hwf⟩ := h
  refine ⟨lvl, round, ?_⟩
  intro r hr
  obtain ⟨_, h2, h3, h4, h5, h6, h7, _, h9, _, _, h14, _, _, _, h18, _, _, h21⟩ := hwf r hr
  exact ⟨⟨h4, h5⟩, h7, h9, h6, h14, ⟨h2, h3⟩, ⟨h18, h21⟩⟩

/-- **Dependency levels respect dependencies** (model of `_calculate_dependency_levels` /
    `_schedule_task_batches` by peeling): if peeling places every node, the nodes admit a
    ranking that strictly decreases along every dependency. -/
theorem levels_respect_deps {α : Type} [DecidableEq α] (nodes : List α) (deps : α → List α)
    (h : acyclicB nodes deps = true) :
    ∃ lvl : α → Nat, ∀ c ∈ nodes, ∀ d ∈ deps c, lvl d < lvl c :=
  acyclicB_sound nodes deps h

/-- … and conversely peeling never gives up on a graph that has such a ranking. -/
theorem levels_complete {α : Type} [DecidableEq α] (nodes : List α) (deps : α → List α)
    (lvl : α → Nat) (hrank : ∀ c ∈ nodes, ∀ d ∈ deps c, d ∈ nodes ∧ lvl d < lvl c) :
    acyclicB nodes deps = true :=
  acyclicB_complete nodes deps lvl hrank

/-! ### `number_distributed_tags` -/

/-- Every symbolic tag that occurs in the gathered sequence gets an integer in
    `[base, next_tag)`.  The two ends of a message carry the same symbolic tag and both apply
    this one broadcast table, hence get the same integer. -/
theorem number_tags_total {α : Type} [DecidableEq α] (base : Nat) (gathered : List (List α)) (t : α)
    (ht : t ∈ gathered.flatten) :
    ∃ k, intTag (numberTags base gathered).1 t = some k ∧ base ≤ k ∧ k < (numberTags base gathered).2 :=
  numberTags_total base gathered t ht

/-- Distinct symbolic tags get distinct integers. -/
theorem number_tags_injective {α : Type} [DecidableEq α] (base : Nat) (gathered : List (List α))
    (t t' : α) (k : Nat)
    (h : intTag (numberTags base gathered).1 t = some k)
    (h' : intTag (numberTags base gathered).1 t' = some k) : t = t' :=
  numberTags_injective base gathered t t' k h h'

/-- renumbering of a message identifier -/
def renumber (m : List (Nat × Nat)) (c : CommId) : Option CommId :=
  (intTag m c.tag).map fun k => { c with tag := k }

/-- Distinct messages between the same pair of ranks keep distinct identifiers after
    numbering (and the identifier of a message does not depend on which end computes it:
    `renumber` is a function of the message). -/
theorem number_tags_messages (base : Nat) (gathered : List (List Nat)) (c c' d : CommId)
    (h : renumber (numberTags base gathered).1 c = some d)
    (h' : renumber (numberTags base gathered).1 c' = some d) : c = c' := by
  unfold renumber at h h'
  cases hk : intTag (numberTags base gathered).1 c.tag with
  | none => simp [hk] at h
  | some k =>
    cases hk' : intTag (numberTags base gathered).1 c'.tag with
    | none => simp [hk'] at h'
    | some k' =>
      simp only [hk, hk', Option.map_some, Option.some.injEq] at h h'
      have hd : ({ c with tag := k } : CommId) = { c' with tag := k' } := h.trans h'.symm
      have hkk : k = k' := by
        have := congrArg CommId.tag hd
        simpa using this
      subst hkk
      have htag := number_tags_injective base gathered c.tag c'.tag k hk hk'
      have hsrc := congrArg CommId.src hd
      have hdst := congrArg CommId.dst hd
      simp at hsrc hdst
      cases c; cases c'
      simp_all

/-- The numbering is a function of the flattened gathered sequence (and `base`) only. -/
theorem number_tags_deterministic {α : Type} [DecidableEq α] (base : Nat)
    (g g' : List (List α)) (h : g.flatten = g'.flatten) : numberTags base g = numberTags base g' := by
  unfold numberTags; rw [h]

/-! ## non-vacuity -/

/-- a two-rank partition accepted by the checker -/
def exP9 : Partition :=
  [ { parts := [{ pid := 0, needs := [], inputs := [0], outputs := [1], recvs := [],
                  sends := [⟨1, 1, 7⟩] }],
      user := [0], overall := [1] },
    { parts := [{ pid := 0, needs := [], inputs := [2], outputs := [3], recvs := [⟨2, 0, 7⟩],
                  sends := [] }],
      user := [], overall := [3] } ]

example : checkWF exP9 = true := by decide +kernel
example : WF exP9 := checkWF_sound exP9 (by decide +kernel)

/-- a chain a → b → c is placed completely by peeling -/
example : acyclicB [0, 1, 2] (fun c => if c = 0 then [] else [c - 1]) = true := by decide
example : ∀ c ∈ [0, 1, 2], ∀ d ∈ (fun c => if c = 0 then [] else [c - 1]) c,
    d ∈ [0, 1, 2] ∧ (fun x : Nat => x) d < (fun x : Nat => x) c := by decide

example : numberTags 10 [[3, 4, 3], [5, 4]] = ([(3, 10), (4, 11), (5, 12)], 13) := by decide
example : (4 : Nat) ∈ ([[3, 4, 3], [5, 4]] : List (List Nat)).flatten := by decide
example : intTag (numberTags 10 [[3, 4, 3], [5, 4]]).1 4 = some 11 := by decide
example : renumber (numberTags 10 [[3, 4, 3], [5, 4]]).1 ⟨0, 1, 4⟩ = some ⟨0, 1, 11⟩ := by decide

end Pt.Dist

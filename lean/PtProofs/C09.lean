/-
  Property C09 — every distributed partition is well-formed and all ranks agree on it.
  Property theorems only; proofs live in DistLemmas / DistGraph.

  `WF P` (PtModel.Dist) is the conjunction, over all ranks, of the clauses of the property
  statement; `checkWF` is the executable checker `ptdriver` runs on the union of the
  `DistributedGraphPartition`s the real `find_distributed_partition` returns on all ranks
  (harness/props/c09.py).  `numberTags` models `number_distributed_tags`.
-/
import PtProofs.DistGraph
import PtProofs.PartitionGood
import PtProofs.PartitionWFFull
namespace Pt.Dist

/-- The executable checker is sound: a partition it accepts satisfies the contract. -/
theorem checkWF_sound (P : Partition) (h : checkWF P = true) : WF P :=
  checkWF_sound_lemma P h

/-- What `WF` says, clause by clause, in the words of the property statement (for some level
    function `lvl` on parts and some round numbering `round` on messages):
    1. every output name is produced by exactly one part, overall outputs are produced;
    2. names read are user inputs, received by the same or an earlier part, or outputs of an
       earlier part;  3. received names are never part outputs;  4. sent names are outputs of
    the sending part;  5. no communication nodes inside parts;  6. the part order is acyclic
    (needed parts and senders have strictly lower level; every receive has a sender);
    7. rounds: the two ends of a message share one round, a part's receives precede its
    sends, and rounds never go backwards along `needed_pids` — on every rank alike. -/
theorem wf_clauses {P : Partition} (h : WF P) :
    ∃ (lvl : Nat → Nat → Nat) (round : Nat → Nat → Nat → Nat), ∀ r, r < P.length →
      ((allOutputs (P.parts r)).Nodup ∧ ∀ n ∈ P.overall r, n ∈ allOutputs (P.parts r))
      ∧ (∀ p ∈ P.parts r, ∀ n ∈ p.inputs,
          n ∈ P.user r
          ∨ (∃ q ∈ P.parts r, sameOrEarlier (P.parts r) q p ∧ n ∈ q.recvNames)
          ∨ (∃ q ∈ P.parts r, earlier (P.parts r) q p ∧ n ∈ q.outputs))
      ∧ (∀ rc ∈ allRecvs (P.parts r), rc.name ∉ allOutputs (P.parts r))
      ∧ (∀ p ∈ P.parts r, ∀ sd ∈ p.sends, sd.name ∈ p.outputs)
      ∧ (∀ p ∈ P.parts r, p.pure = true)
      ∧ ((∀ p ∈ P.parts r, ∀ q ∈ p.needs, (∃ p' ∈ P.parts r, p'.pid = q) ∧ lvl r q < lvl r p.pid)
          ∧ (∀ p ∈ P.parts r, ∀ rc ∈ p.recvs,
              ∃ q ∈ P.parts rc.src, (∃ sd ∈ q.sends, matchesRecv r rc sd) ∧ lvl rc.src q.pid < lvl r p.pid))
      ∧ ((∀ p ∈ P.parts r, ∀ rc ∈ p.recvs, ∀ sd ∈ p.sends, round rc.src r rc.tag < round r sd.dst sd.tag)
          ∧ (∀ p ∈ P.parts r, ∀ q ∈ P.parts r, q.pid ∈ p.needs →
              (∀ sd ∈ q.sends, ∀ rc ∈ p.recvs, round r sd.dst sd.tag ≤ round rc.src r rc.tag)
              ∧ (∀ sd ∈ q.sends, ∀ sd' ∈ p.sends, round r sd.dst sd.tag < round r sd'.dst sd'.tag))) := by
  obtain ⟨lvl, round, hwf⟩ := h
  refine ⟨lvl, round, ?_⟩
  intro r hr
  obtain ⟨_, h2, h3, h4, h5, h6, h7, _, h9, _, _, h14, _, _, _, h18, _, _, h21⟩ := hwf r hr
  exact ⟨⟨h4, h5⟩, h7, h9, h6, h14, ⟨h2, h3⟩, ⟨h18, h21⟩⟩

/-- **Dependency levels respect dependencies** (model of `_calculate_dependency_levels` /
    `_schedule_task_batches` by peeling): if peeling places every node, the nodes admit a
    ranking that strictly decreases along every dependency. -/
theorem levels_respect_deps {α : Type} [DecidableEq α] (nodes : List α) (deps : α → List α)
    (h : acyclicB nodes deps = true) :
    ∃ lvl : α → Nat, ∀ c ∈ nodes, ∀ d ∈ deps c, lvl d < lvl c :=
  acyclicB_sound nodes deps h

/-- … and conversely peeling never gives up on a graph that has such a ranking. -/
theorem levels_complete {α : Type} [DecidableEq α] (nodes : List α) (deps : α → List α)
    (lvl : α → Nat) (hrank : ∀ c ∈ nodes, ∀ d ∈ deps c, d ∈ nodes ∧ lvl d < lvl c) :
    acyclicB nodes deps = true :=
  acyclicB_complete nodes deps lvl hrank

/-! ### `number_distributed_tags` -/

/-- Every symbolic tag that occurs in the gathered sequence gets an integer in
    `[base, next_tag)`.  The two ends of a message carry the same symbolic tag and both apply
    this one broadcast table, hence get the same integer. -/
theorem number_tags_total {α : Type} [DecidableEq α] (base : Nat) (gathered : List (List α)) (t : α)
    (ht : t ∈ gathered.flatten) :
    ∃ k, intTag (numberTags base gathered).1 t = some k ∧ base ≤ k ∧ k < (numberTags base gathered).2 :=
  numberTags_total base gathered t ht

/-- Distinct symbolic tags get distinct integers. -/
theorem number_tags_injective {α : Type} [DecidableEq α] (base : Nat) (gathered : List (List α))
    (t t' : α) (k : Nat)
    (h : intTag (numberTags base gathered).1 t = some k)
    (h' : intTag (numberTags base gathered).1 t' = some k) : t = t' :=
  numberTags_injective base gathered t t' k h h'

/-- renumbering of a message identifier -/
def renumber (m : List (Nat × Nat)) (c : CommId) : Option CommId :=
  (intTag m c.tag).map fun k => { c with tag := k }

/-- Distinct messages between the same pair of ranks keep distinct identifiers after
    numbering (and the identifier of a message does not depend on which end computes it:
    `renumber` is a function of the message). -/
theorem number_tags_messages (base : Nat) (gathered : List (List Nat)) (c c' d : CommId)
    (h : renumber (numberTags base gathered).1 c = some d)
    (h' : renumber (numberTags base gathered).1 c' = some d) : c = c' := by
  unfold renumber at h h'
  cases hk : intTag (numberTags base gathered).1 c.tag with
  | none => simp [hk] at h
  | some k =>
    cases hk' : intTag (numberTags base gathered).1 c'.tag with
    | none => simp [hk'] at h'
    | some k' =>
      simp only [hk, hk', Option.map_some, Option.some.injEq] at h h'
      have hd : ({ c with tag := k } : CommId) = { c' with tag := k' } := h.trans h'.symm
      have hkk : k = k' := by
        have := congrArg CommId.tag hd
        simpa using this
      subst hkk
      have htag := number_tags_injective base gathered c.tag c'.tag k hk hk'
      have hsrc := congrArg CommId.src hd
      have hdst := congrArg CommId.dst hd
      simp at hsrc hdst
      cases c; cases c'
      simp_all

/-- The numbering is a function of the flattened gathered sequence (and `base`) only. -/
theorem number_tags_deterministic {α : Type} [DecidableEq α] (base : Nat)
    (g g' : List (List α)) (h : g.flatten = g'.flatten) : numberTags base g = numberTags base g' := by
  unfold numberTags; rw [h]

/-! ### the partitioner itself (PtModel.Partition: model of `find_distributed_partition`) -/

/-- **The partitioner produces partitions the executor can run** (`partition_wf`, the part the
    executor needs).  For EVERY program satisfying `GoodProgram` — matched, duplicate-free,
    acyclic communication (C10's `Valid`), operands before users, unique node ids, and the two
    hypotheses that exclude the recorded findings: `payloadValue` (no payload computed through a
    send holder whose stapled send depends on a receive) and `noForward` (no received array sent
    on unchanged) — the partition the model computes (batches → local parts → placement of
    every materialised / sent / output array with the MIN over dependent sends → promotion →
    part inputs / outputs / `needed_pids`) satisfies `WFexec`: unique pids; acyclic part order in
    which every receive has a sender of strictly lower level; overall outputs are produced; sent
    names are outputs of the sending part; every name a part reads is a user input, a name
    received by that or an EARLIER part, or an output of an EARLIER part. -/
theorem partition_wf_partial (base : Nat) {p : Program} (hp : GoodProgram p) :
    WFexec (partitionOf base p) :=
  partitionOf_wfexec base hp

/-- **`partition_wf`: the partitioner produces well-formed partitions** — EVERY clause of `WF`
    (the seven clauses of the property statement and the uniqueness / round clauses): besides
    the executor clauses of `partition_wf_partial`, every output name is produced by exactly one
    part; received names are never part outputs nor user inputs and are received once; inputs
    are duplicate-free; parts are free of communication nodes; one send / one receive per
    message id on a rank; every send has a receive on the destination rank; within a part all
    receives belong to one round and all sends to one later round, and rounds never go backwards
    along `needed_pids` (`round` = batch index of the message, the same on both ends).
    Hypotheses: `GoodProgram p` and `NamesOK base p` (user names below the base of generated
    names, distinct output names). -/
theorem partition_wf (base : Nat) {p : Program} (hp : GoodProgram p) (hn : NamesOK base p) :
    WF (partitionOf base p) :=
  partitionOf_wf base hp hn

/-- the executable name check is sufficient for `NamesOK` -/
theorem partition_names_check_sound {base : Nat} {p : Program} (h : checkNames base p = true) :
    NamesOK base p :=
  checkNames_sound h

/-- the executable check run by the tie is sufficient for `GoodProgram` -/
theorem partition_check_sound {p : Program} (h : checkGood p = true) : GoodProgram p :=
  checkGood_sound h

/-- **End to end**: executing the model's partition of a good program, under ANY interleaving of
    ranks and ANY `Waitsome` outcomes, never deadlocks, every part finds its inputs, and every
    terminal state holds the reference solution for every overall output. -/
theorem partition_exec_faithful (base : Nat) {p : Program} (hp : GoodProgram p) {V : Type} (sem : Sem V) :
    (∀ s : GState V, ¬ Terminal (partitionOf base p) s → ∃ l s', Step sem (partitionOf base p) s l s')
    ∧ (∀ {ref : Nat → Name → V}, IsSolution sem (partitionOf base p) ref →
        ∀ {s : GState V}, Reachable sem (partitionOf base p) s → Terminal (partitionOf base p) s →
        ∀ r, r < (partitionOf base p).length → ∀ n ∈ (partitionOf base p).overall r,
          (s.rk r).ctx n = some (ref r n)) :=
  ⟨fun s hn => progress_lemma sem (partitionOf_wfexec base hp) s hn,
   fun hsol _ hreach hterm r hr => faithful_lemma sem (partitionOf_wfexec base hp) hsol hreach hterm r hr⟩

/-- every send / receive of a valid program appears in exactly one part of its rank, and the
    receiving part is strictly later in batch order than the sending part (any ranks) -/
theorem partition_comm_once {g : CommGraph} (hv : Valid g) (hd : DepsAreRecvs g) :
    (∀ c ∈ g.sendIds, ∃ q ∈ partsOf c.src (rawBatches g), c ∈ q.sends)
    ∧ (∀ c ∈ g.recvIds, ∃ q ∈ partsOf c.dst (rawBatches g), c ∈ q.recvs)
    ∧ (∀ r (q q' : SkelPart) c, q ∈ partsOf r (rawBatches g) → q' ∈ partsOf r (rawBatches g) →
        ((c ∈ q.sends → c ∈ q'.sends → q = q') ∧ (c ∈ q.recvs → c ∈ q'.recvs → q = q')))
    ∧ (∀ rs rd (q q' : SkelPart) c, q ∈ partsOf rs (rawBatches g) → q' ∈ partsOf rd (rawBatches g) →
        c ∈ q.sends → c ∈ q'.recvs → q.cand < q'.cand) :=
  ⟨fun _ hc => skel_send_exists hv hd hc, fun _ hc => skel_recv_exists hv hd hc,
   fun _ _ _ _ hq hq' => ⟨fun h h' => skel_send_unique hv hq hq' h h', fun h h' => skel_recv_unique hv hq hq' h h'⟩,
   fun _ _ _ _ _ hq hq' h h' => skel_recv_after_send hv hq hq' h h'⟩

/-- **Determinism / order independence of the global merge** (`_set_dict_union_mpi` under
    `allreduce`): the merged dependency dictionary is the same mapping to sets for every
    permutation of the ranks' contributions (and union is commutative, associative, idempotent:
    `DepDict.union_comm/assoc/idem`), so `partitionOf`, a function of the program alone, does
    not depend on the fold order. -/
theorem partition_deterministic {l l' : List DepDict} (h : l.Perm l') :
    (l.foldl DepDict.union []).Equiv (l'.foldl DepDict.union []) :=
  DepDict.fold_perm h

/-- **The ill-formed inputs are exactly the diagnosed ones** (tie to C10): the modelled
    diagnosis accepts a communication graph iff it is `Valid`. -/
theorem diagnoses_exact (g : CommGraph) : diagnose g = .ok () ↔ Valid g := by
  constructor
  · intro h
    apply Classical.byContradiction
    intro hnv
    obtain ⟨d, hd, _⟩ := diagnose_complete_lemma hnv
    rw [hd] at h
    cases h
  · exact diagnose_sound_lemma

/-! ## non-vacuity -/

/-- rank 0 computes `x + …` (node 1), sends it (tag 7) to rank 1; rank 1 receives it and
    computes its output from it -/
def exProg : Program :=
  [ { nodes := [⟨0, .input 0, false⟩, ⟨1, .op [0, 0], false⟩, ⟨2, .send 1 1 7 0, false⟩],
      outputs := [(5, 2)] },
    { nodes := [⟨0, .recv 0 7, false⟩, ⟨1, .op [0, 0], true⟩], outputs := [(6, 1)] } ]

example : checkGood exProg = true := by decide +kernel
example : GoodProgram exProg := partition_check_sound (by decide +kernel)
example : checkWF (partitionOf 100 exProg) = true := by decide +kernel
example : checkNames 100 exProg = true := by decide +kernel
example : WF (partitionOf 100 exProg) :=
  partition_wf 100 (partition_check_sound (by decide +kernel)) (partition_names_check_sound (by decide +kernel))

/-- a two-rank partition accepted by the checker -/
def exP9 : Partition :=
  [ { parts := [{ pid := 0, needs := [], inputs := [0], outputs := [1], recvs := [],
                  sends := [⟨1, 1, 7⟩] }],
      user := [0], overall := [1] },
    { parts := [{ pid := 0, needs := [], inputs := [2], outputs := [3], recvs := [⟨2, 0, 7⟩],
                  sends := [] }],
      user := [], overall := [3] } ]

example : checkWF exP9 = true := by decide +kernel
example : WF exP9 := checkWF_sound exP9 (by decide +kernel)

/-- a chain a → b → c is placed completely by peeling -/
example : acyclicB [0, 1, 2] (fun c => if c = 0 then [] else [c - 1]) = true := by decide
example : ∀ c ∈ [0, 1, 2], ∀ d ∈ (fun c => if c = 0 then [] else [c - 1]) c,
    d ∈ [0, 1, 2] ∧ (fun x : Nat => x) d < (fun x : Nat => x) c := by decide

example : numberTags 10 [[3, 4, 3], [5, 4]] = ([(3, 10), (4, 11), (5, 12)], 13) := by decide
example : (4 : Nat) ∈ ([[3, 4, 3], [5, 4]] : List (List Nat)).flatten := by decide
example : intTag (numberTags 10 [[3, 4, 3], [5, 4]]).1 4 = some 11 := by decide
example : renumber (numberTags 10 [[3, 4, 3], [5, 4]]).1 ⟨0, 1, 4⟩ = some ⟨0, 1, 11⟩ := by decide

end Pt.Dist

/-
  Property C02 — lowering any array node to an index lambda preserves its
  meaning.  Property theorems only; helper lemmas live in the *Lemmas files.

  Each `lower_X_correct` says: the scalar expression the model of pytato's
  lowering rule builds (`Pt.Lower.X`, tied to the real `to_index_lambda` by the
  correspondence check), evaluated by the index-lambda semantics at ANY in-bounds
  output index, for ANY operand of ANY rank/shape and ANY parameter value,
  yields the element NumPy's operation (`Pt.Spec.X`) puts there.
-/
import PtProofs.EvalLemmas
import PtProofs.BasicIndexLemmas
import PtProofs.StackConcatLemmas
import PtProofs.ReshapeLemmas
import PtProofs.PadLemmas
import PtProofs.EinsumLowerLemmas
import PtProofs.AdvIndexLemmas
import PtProofs.BinopLemmas
import PtProofs.ReduceLemmas
import PtProofs.ConstructLemmas
import PtGen.ApiNames
namespace Pt

/-! ## re-exported slice / linearisation theorems (statements in SliceLemmas / BasicLemmas) -/

/-! ## roll -/

theorem lower_roll_correct (shift : Int) (axis : Nat) (a : Arr Val) (i : Idx)
    (hi : inB a.shape i = true) (hax : axis < a.shape.length) :
    eval (idxEnv i [("_in0", a)])
        (Lower.roll shift axis a.shape.length (a.shape.getD axis 0))
      = (Spec.roll shift axis a).get i := by
  have hlen := inB_length hi
  have hlt := inB_getD_lt axis hi hax
  have hnpos : (0 : Int) < (a.shape.getD axis 0 : Nat) := by omega
  obtain ⟨hm0, hm1⟩ := pyMod_nonneg_lt (a := ((i.getD axis 0 : Nat) : Int) - shift) hnpos
  unfold Lower.roll Spec.roll
  simp only [eval, lookupArr_head, evalList_map]
  -- evaluate every index expression
  have hev : (List.range a.shape.length).map (fun d => eval (idxEnv i [("_in0", a)])
        (if d = axis then
          SExpr.rem (Lower.subConst (Lower.ivar d) shift) (.int ((a.shape.getD axis 0 : Nat) : Int))
         else Lower.ivar d))
      = (List.range i.length).map (fun d => Val.i ((if d = axis then
          (pyMod (((i.getD axis 0 : Nat) : Int) - shift) (a.shape.getD axis 0 : Nat)).toNat
          else i.getD d 0 : Nat))) := by
    rw [hlen]
    apply List.map_congr_left
    intro d hd
    have hd' : d < i.length := by simpa [hlen] using hd
    by_cases h : d = axis
    · subst h
      simp only [if_true]
      rw [eval_mod_shift i _ d shift _ hd' (by omega)]
      congr 1; omega
    · simp only [h, if_false, Lower.ivar, eval_idx i _ d hd']
  rw [hev, toNatIdx_map_nat, map_range_set]
  have hin : inB a.shape (i.set axis
      (pyMod (((i.getD axis 0 : Nat) : Int) - shift) (a.shape.getD axis 0 : Nat)).toNat) = true :=
    inB_set _ _ hi (by omega)
  simp only [hin, if_true]

/-! ## axis permutation -/

theorem lower_perm_correct (p : List Nat) (a : Arr Val) (i : Idx)
    (hlen : p.length = a.shape.length)
    (hperm : ∀ d, d < p.length → d ∈ p)
    (hi : inB (Spec.transpose p a).shape i = true) :
    eval (idxEnv i [("_in0", a)]) (Lower.perm p) = (Spec.transpose p a).get i := by
  have hil : i.length = p.length := by
    have := inB_length hi
    simpa [Spec.transpose] using this
  unfold Lower.perm
  simp only [eval, lookupArr_head, evalList_map]
  have hev : (List.range p.length).map (fun d => eval (idxEnv i [("_in0", a)])
        (Lower.ivar (p.idxOf d)))
      = (List.range p.length).map (fun d => Val.i ((i.getD (p.idxOf d) 0 : Nat))) := by
    apply List.map_congr_left
    intro d hd
    have hd' : d < p.length := by simpa using hd
    have : p.idxOf d < i.length := by
      rw [hil]; exact List.idxOf_lt_length_of_mem (hperm d hd')
    simp only [Lower.ivar, eval_idx i _ _ this]
  rw [hev, toNatIdx_map_nat]
  have hin : inB a.shape ((List.range p.length).map fun d => i.getD (p.idxOf d) 0) = true := by
    apply inB_of_forall
    · simp [hlen]
    · intro k hk
      have hk' : k < p.length := by omega
      have hmem := hperm k hk'
      have hidx : p.idxOf k < p.length := List.idxOf_lt_length_of_mem hmem
      have h1 := inB_getD_lt (p.idxOf k) hi (by simpa [Spec.transpose] using hidx)
      simp only [Spec.transpose, List.getD_eq_getElem?_getD, List.getElem?_map] at h1
      simp only [List.getD_eq_getElem?_getD, List.getElem?_map, List.getElem?_range hk',
        Option.map_some, Option.getD_some]
      have h2 : p[p.idxOf k]? = some k := by
        rw [List.getElem?_eq_getElem hidx]; simp [List.getElem_idxOf hidx]
      simpa [h2] using h1
  simp only [hin, if_true, Spec.transpose]

/-! ## basic indexing (ints and slices) -/

/-- `x[ix]` for any mixture of integer indices and slices (any start/stop/step,
    `None`, negative, past the end), any rank, any axis lengths. -/
theorem lower_basic_correct (ix : List Spec.BIdx) (a : Arr Val) (i : Idx)
    (hv : Lower.validIx a.shape ix)
    (hi : inB (Spec.basicIndex ix a).shape i = true) :
    eval (idxEnv i [("in", a)]) (Lower.basic (Lower.normIdx a.shape ix) a.shape)
      = (Spec.basicIndex ix a).get i := by
  obtain ⟨h1, h2⟩ := basicIdxFrom_eval i [("in", a)] ix a.shape 0 hv (by simpa [Spec.basicIndex] using hi)
  unfold Lower.basic
  simp only [eval, lookupArr_head, h1, List.drop_zero] at h2 ⊢
  simp only [h2, if_true, Spec.basicIndex]

/-! ## stack -/

/-- `numpy.stack(as, axis)` for any number of operands of any common shape `s`
    (any rank), any `axis ≤ rank`; the bindings are `_in<k> ↦ as[k]`.
    (`as ≠ []` follows from `hi`: the stacked shape has `as.length` along `axis`.) -/
theorem lower_stack_correct (s : Shape) (axis : Nat) (as : List (Arr Val)) (i : Idx)
    (hshape : ∀ a ∈ as, a.shape = s) (hax : axis ≤ s.length)
    (hi : inB (Spec.stack s axis as .undef).shape i = true) :
    eval (idxEnv i (Lower.inBinds as)) (Lower.stack as.length axis (s.length + 1))
      = (Spec.stack s axis as .undef).get i := by
  obtain ⟨hj, hin, haxi⟩ := inB_stack axis s as.length i hax (by simpa [Spec.stack] using hi)
  have hlen : i.length = s.length + 1 := by
    have := inB_length hi
    simp only [Spec.stack, List.length_append, List.length_take, List.length_drop,
      List.length_cons, List.length_nil] at this
    omega
  unfold Lower.stack
  rw [eval_stackFrom (idxEnv i (Lower.inBinds as)) axis _ _ (i.getD axis 0)
    (idxEnv_pt i _ axis haxi) as.length 0 (by omega) (by omega)]
  have hsub : (((List.range (s.length + 1)).filter (· ≠ axis)).map Lower.ivar).map
      (eval (idxEnv i (Lower.inBinds as))) = (i.eraseIdx axis).map fun x => Val.i (x : Nat) := by
    rw [← filter_ne_map_getD, hlen, List.map_map, List.map_map]
    apply List.map_congr_left
    intro d hd
    have hd' : d < i.length := by
      have := (List.mem_filter.mp hd).1
      simp at this; omega
    simp only [Function.comp, Lower.ivar, eval_idx i _ d hd']
  rw [eval_sub_of _ _ _ _ hsub, lookupArr_inBinds]
  simp only [Spec.stack]
  have hget : as[i.getD axis 0]? = some as[i.getD axis 0] := List.getElem?_eq_getElem hj
  rw [hget]
  have hsh := hshape _ (List.getElem_mem hj)
  simp only [hsh, hin, if_true]

/-! ## concatenate -/

/-- `numpy.concatenate([a0, *rest], axis)`: any number of operands of any rank
    that agree with `a0`'s shape except along `axis` (any lengths along `axis`,
    including 0); the bindings are `_in<k> ↦ as[k]`. -/
theorem lower_concat_correct (axis : Nat) (a0 : Arr Val) (rest : List (Arr Val)) (i : Idx)
    (hax : axis < a0.shape.length)
    (hshape : ∀ a ∈ a0 :: rest, a.shape = a0.shape.set axis (a.shape.getD axis 0))
    (hi : inB (Spec.concatenate axis (a0 :: rest) .undef).shape i = true) :
    eval (idxEnv i (Lower.inBinds (a0 :: rest)))
        (Lower.concat ((a0 :: rest).map (·.shape.getD axis 0)) axis a0.shape.length)
      = (Spec.concatenate axis (a0 :: rest) .undef).get i := by
  generalize has : a0 :: rest = as at *
  have hs0 : (as.head?.map (·.shape)).getD [] = a0.shape := by rw [← has]; rfl
  simp only [Spec.concatenate, hs0] at hi ⊢
  have hlen : i.length = a0.shape.length := by
    have := inB_length hi; simpa using this
  have haxi : axis < i.length := by omega
  have hj : i.getD axis 0 < (as.map (·.shape.getD axis 0)).sum := by
    have := inB_getD_lt axis hi (by simpa using hax)
    simpa [List.getD, List.getElem?_set, hax] using this
  obtain ⟨k, o, hloc, hk, ho, hoj⟩ := concatLocate_spec _ _ hj
  unfold Lower.concat
  rw [← hlen, eval_concatFrom i _ axis haxi _ 0 0 k o (Nat.zero_le _) (by simpa using hloc)]
  have hix := shiftIx_eval i (Lower.inBinds as) axis (i.getD axis 0 - o) (by omega)
  have e : i.getD axis 0 - (i.getD axis 0 - o) = o := by omega
  rw [e] at hix
  rw [eval_sub_of _ _ _ _ hix, Nat.zero_add, lookupArr_inBinds, hloc]
  have hk' : k < as.length := by simpa using hk
  have hget : as[k]? = some as[k] := List.getElem?_eq_getElem hk'
  have hsh := hshape _ (List.getElem_mem hk')
  have ho' : o < as[k].shape.getD axis 0 := by
    simpa [List.getD, List.getElem?_map, hget] using ho
  have hin : inB as[k].shape (i.set axis o) = true := by
    rw [hsh]; exact inB_set_set _ _ _ _ _ _ hi ho'
  simp only [hget, hin, if_true]

/-! ## reshape: one axis group (`_generate_index_expressions`) -/

/-- C order: for any non-scalar old shape and any new shape of the same size,
    whichever branch `_generate_index_expressions` takes (pass-through for
    `old = new`, or mixed-radix digits of the flattened index, with the
    `% old_size` and `// 1` shortcuts), the subscript reads NumPy's element. -/
theorem lower_reshape1_correct_C (old new : Shape) (a : Arr Val) (i : Idx) (ix : List SExpr)
    (ha : a.shape = old) (hne : old ≠ []) (hprod : prod old = prod new)
    (hi : inB new i = true)
    (hg : Lower.genIdx .C old new ((List.range new.length).map Lower.ivar) = some ix) :
    eval (idxEnv i [("_in0", a)]) (.sub "_in0" ix) = (Spec.reshapeC new a).get i := by
  rw [reshape1_eval .C old new a i ix ha hne hprod hi hg, Spec.reshapeC, ha]; rfl

/-- Fortran order, as `lower_reshape1_correct_C` -/
theorem lower_reshape1_correct_F (old new : Shape) (a : Arr Val) (i : Idx) (ix : List SExpr)
    (ha : a.shape = old) (hne : old ≠ []) (hprod : prod old = prod new)
    (hi : inB new i = true)
    (hg : Lower.genIdx .F old new ((List.range new.length).map Lower.ivar) = some ix) :
    eval (idxEnv i [("_in0", a)]) (.sub "_in0" ix) = (Spec.reshapeF new a).get i := by
  rw [reshape1_eval .F old new a i ix ha hne hprod hi hg, Spec.reshapeF, ha]; rfl

/-! ## reshape: the full grouped algorithm (`_get_reshaped_indices`, `map_reshape`) -/

/-- C order: for any old and new shape of the same size (any ranks, incl. scalars,
    zero-length and length-1 axes), whenever the axis-grouping algorithm produces
    an expression, it reads NumPy's element at every in-bounds index. -/
theorem lower_reshape_correct_C (old new : Shape) (a : Arr Val) (i : Idx) (e : SExpr)
    (ha : a.shape = old) (hprod : prod old = prod new) (hi : inB new i = true)
    (hg : Lower.reshape .C old new = some e) :
    eval (idxEnv i [("_in0", a)]) e = (Spec.reshapeC new a).get i := by
  rw [reshape_eval .C old new a i e ha hprod hi hg, Spec.reshapeC, ha]; rfl

/-- Fortran order, as `lower_reshape_correct_C` -/
theorem lower_reshape_correct_F (old new : Shape) (a : Arr Val) (i : Idx) (e : SExpr)
    (ha : a.shape = old) (hprod : prod old = prod new) (hi : inB new i = true)
    (hg : Lower.reshape .F old new = some e) :
    eval (idxEnv i [("_in0", a)]) e = (Spec.reshapeF new a).get i := by
  rw [reshape_eval .F old new a i e ha hprod hi hg, Spec.reshapeF, ha]; rfl

/-- the hypothesis `Lower.reshape o old new = some e` of the two theorems above
    holds for every pair of shapes of equal size: the algorithm never gives up
    (none of the Python `assert`s can fire). -/
theorem lower_reshape_total (o : Lower.Order) (old new : Shape) (hprod : prod old = prod new) :
    (Lower.reshape o old new).isSome = true := by
  obtain ⟨e, he⟩ := reshape_total o old new hprod
  rw [he]; rfl

/-! ## pad (constant mode) -/

/-- `pt.pad(a, widths, constant_values=cvals)`: for ANY rank, axis lengths (also 0),
    pad widths (also 0, asymmetric) and per-axis constants, with each upper guard
    either the literal `axis_len + before` or a variable that the environment
    binds to that number (symbolic axis length), the expression pytato builds
    evaluates, at every in-bounds index of the padded shape, to NumPy's
    `np.pad` — including the corners, where the LAST axis' constant wins in both. -/
theorem pad_sound (a : Arr Val) (widths : List (Nat × Nat)) (cvals : List (SExpr × SExpr))
    (bounds : List SExpr) (binds : List (String × Arr Val)) (i : Idx)
    (hw : widths.length = a.shape.length) (hc : cvals.length = a.shape.length)
    (hb : bounds.length = a.shape.length)
    (hin0 : (idxEnv i binds).lookupArr "in_0" = some a)
    (hbounds : bounds.map (eval (idxEnv i binds))
      = (a.shape.zip widths).map fun p => Val.i ((p.1 + p.2.1 : Nat) : Int))
    (hi : inB (Spec.padConst widths (cvals.map fun c =>
      (eval (idxEnv i binds) c.1, eval (idxEnv i binds) c.2)) a).shape i = true) :
    eval (idxEnv i binds) (Lower.padExpr widths cvals bounds)
      = (Spec.padConst widths (cvals.map fun c =>
          (eval (idxEnv i binds) c.1, eval (idxEnv i binds) c.2)) a).get i :=
  padExpr_eval ⟨hw, hc, hb, hin0, boundsOK_of_map hw hc hb hbounds, hi⟩

/-! ## einsum -/

/-- `map_einsum`: for EVERY einsum in explicit mode — any number of operands,
    repeated axes within an operand (diagonals), any output order, any number of
    reduction axes — with operand axis lengths consistent up to NumPy-style
    length-1 broadcasting, and all operand values, the lowered expression
    evaluated at any in-bounds output index is the einsum
    `Σ_r Π_k args[k][…]` (`Spec.einsumV`).  The reduction bounds are the EINSUM
    axis lengths: taking a bound from an operand in which the axis is a
    broadcast-unit axis sums one term only (see the example below). -/
theorem lower_einsum_correct (descrs : List (List EAxis)) (nout : Nat) (args : List (Arr Val))
    (i : Idx)
    (hlen : descrs.length = args.length) (hne : args ≠ [])
    (hwf : ∀ p ∈ descrs.zip args, p.1.length = p.2.shape.length)
    (hbc : ∀ p ∈ descrs.zip args, ∀ q ∈ p.1.zip p.2.shape,
      q.2 = Spec.axisLen (Spec.axisLenTable descrs (args.map (·.shape))) q.1 ∨ q.2 = 1)
    (helem : ∀ p ∈ descrs.zip args, ∀ j, EAxis.elem j ∈ p.1 → j < nout)
    (hred : ∀ j, j < Spec.numRed descrs → EAxis.red j ∈ descrs.flatMap id)
    (hi : inB (Spec.einsumV descrs nout args).shape i = true) :
    eval (idxEnv i (Lower.inBinds args)) (Lower.einsum descrs (args.map (·.shape)))
      = (Spec.einsumV descrs nout args).get i :=
  einsum_eval ⟨hlen, hne, hwf, hbc, helem, hred, hi⟩

/-! ## advanced indexing -/

/-- `map_contiguous_advanced_index` / `map_non_contiguous_advanced_index`: for an
    array of ANY rank indexed, per axis, by an integer, a slice (any
    start/stop/step) or an integer index array — the index arrays of any shapes
    that broadcast to `B`, any number of them — the lowered expression evaluated
    at any in-bounds index of the result is the element NumPy's advanced indexing
    reads (`Spec.advIndex`: slices feed the output axes in order; the axes of `B`
    sit after the last advanced index in the contiguous case and come first
    otherwise; negative index values wrap).
    Preconditions: what the node constructor checks (`advValid`: integers within
    `[-n, n)`, steps non-zero) and the DATA-DEPENDENT one NumPy enforces at run
    time: every index-array value is an integer within `[-n, n)`.  `first`/`last`
    are the positions of the first / last advanced index (`AdvSeg`, contiguous case). -/
theorem lower_advindex_correct (contig : Bool) (B : Shape) (first last : Nat) (ixs : List RAIdx)
    (a : Arr Val) (in0 : String) (names : List String) (i : Idx)
    (hv : Lower.advValid ixs a.shape)
    (hB : ∀ x ∈ Lower.arrsOf ixs, Raise.Bcastable x.shape B)
    (hnd : (in0 :: names).Nodup) (hn : names.length = (Lower.arrsOf ixs).length)
    (hs : contig = true → ∃ pre blk post, AdvSeg ixs pre blk post first last)
    (hi : inB (Spec.advIndex contig B first last ixs a).shape i = true) :
    eval (idxEnv i (advBinds in0 names a (Lower.arrsOf ixs)))
        (Lower.advIndexWith contig first last in0 names B (Lower.normAIdx a.shape ixs) a.shape)
      = (Spec.advIndex contig B first last ixs a).get i := by
  have hva := advValid_affine ixs a.shape hv
  cases contig with
  | false => exact advIndex_noncontig_eval ⟨hva, hB, hnd, hn, hi⟩ hv
  | true =>
    obtain ⟨pre, blk, post, hseg⟩ := hs rfl
    exact advIndex_contig_eval ⟨hva, hB, hnd, hn, hi⟩ hseg hv

/-! ## the array API: binary operators, comparisons, logical operations, `where` -/

/-- `broadcast_binary_op` (every arithmetic / bitwise operator in both operand
    orders, every comparison, `logical_and/or`): for ALL operand shapes that
    broadcast (any ranks, stretched length-1 axes, missing leading axes, 0-d
    arrays, Python / NumPy scalars on either side), all operand values and every
    operator, the index lambda the API builds — with its `TypeCast`s — evaluates
    at any in-bounds index to NumPy's broadcasting semantics
    `op (cast a[bcast i]) (cast b[bcast i])` (`Spec.binopV`; `SUB` is
    `a + (-1)*b`, also when pymbolic folds a constant second operand). -/
theorem binop_sound (op : Raise.BinOp) (o1 o2 : BOpd) (v1 v2 : Option (Arr Val)) (r : Shape)
    (res : String) (cast isPow : Bool) (binds : List (String × Arr Val)) (i : Idx)
    (hr : ptBroadcast [Lower.opdShape o1, Lower.opdShape o2] = some r)
    (h1 : OpdOK 0 o1 v1 binds) (h2 : OpdOK 1 o2 v2 binds) (hi : inB r i = true) :
    eval (idxEnv i binds) (Lower.binopExpr op o1 o2 r res cast isPow)
      = (Spec.binopV op o1 o2 v1 v2 r res cast isPow).get i :=
  binopExpr_eval op o1 o2 v1 v2 r res cast isPow binds i hr h1 h2 hi

/-- `pt.where(c, x, y)` = `numpy.where` with broadcasting of all three operands -/
theorem where_sound (oc ox oy : BOpd) (vc vx vy : Option (Arr Val)) (r : Shape)
    (binds : List (String × Arr Val)) (i : Idx)
    (hr : ptBroadcast [Lower.opdShape oc, Lower.opdShape ox, Lower.opdShape oy] = some r)
    (h1 : OpdOK 0 oc vc binds) (h2 : OpdOK 1 ox vx binds) (h3 : OpdOK 2 oy vy binds)
    (hi : inB r i = true) :
    eval (idxEnv i binds) (Lower.whereExpr oc ox oy r) = (Spec.whereV oc ox oy vc vx vy r).get i :=
  whereExpr_eval oc ox oy vc vx vy r binds i hr h1 h2 h3 hi

/-! ## the array API: reductions (`sum, prod, amax, amin, all, any`) -/

/-- `_make_reduction_lambda`: for ALL operand shapes (any rank), every set of
    reduction axes (`axis=None`, an int, any tuple — `Lower.redMask`) and each of
    the six reduction operations, whenever the API builds an index lambda at all
    (`reduceExpr … = some e`: some axis is reduced, all axes are in range, and
    `amax`/`amin` have no empty reduction axis), the `Reduce` expression — kept
    axes indexed `_0, _1, …`, reduced axes `_r0, _r1, …` over `0 ≤ _r < axis_len`
    — evaluates at any in-bounds output index to the iterated reduction of the
    operand over the reduced axes (`Spec.reduceV`, compared with NumPy by the
    harness). -/
theorem reduce_sound (op : RedOp) (a : Arr Val) (axes : Option (List Nat)) (e : SExpr)
    (binds : List (String × Arr Val)) (i : Idx)
    (he : Lower.reduceExpr op a.shape axes = some e)
    (hl : Raise.lookupEnv binds "in" = some a)
    (hi : inB (Spec.reduceV op axes a).shape i = true) :
    eval (idxEnv i binds) e = (Spec.reduceV op axes a).get i :=
  reduceExpr_eval op a axes e binds i he hl hi

/-- the API returns its argument unchanged (no index lambda) iff no axis is reduced;
    the model then has no expression, and the specification is the identity -/
theorem reduce_no_axes (op : RedOp) (shape : Shape) :
    Lower.reduceExpr op shape (some []) = none := by
  unfold Lower.reduceExpr
  have : Lower.maskShape true (Lower.redMask shape.length (some [])) shape = [] := by
    have h : ∀ (m : List Bool) (s : Shape), (∀ b ∈ m, b = false) → Lower.maskShape true m s = [] := by
      intro m
      induction m with
      | nil => intro s _; cases s <;> rfl
      | cons b m ih =>
        intro s hb
        cases s with
        | nil => rfl
        | cons n ns =>
          have : b = false := hb b (by simp)
          subst this
          simp only [Lower.maskShape, Bool.false_eq_true, if_false]
          exact ih ns fun b' hb' => hb b' (by simp [hb'])
    apply h
    intro b hb
    simp [Lower.redMask] at hb
    exact hb.2
  simp [this]

/-! ## the array API: constructors (`full / zeros / ones`, `eye`, `arange`) and the CSR product -/

/-- `pt.full(shape, fill, dtype)` (hence `zeros`, `ones`): the literal the API puts
    into the index lambda is, at every index, numerically the fill value converted
    to the dtype (`Val.cast`: truncation toward zero into integers, truthiness into
    `bool`); for integer and `bool` dtypes it is that value exactly. -/
theorem full_sound (shape s' : Shape) (dt : String) (fill e : SExpr)
    (binds : List (String × Arr Val)) (i : Idx)
    (h : Lower.full shape dt fill = some (s', e)) :
    s' = (Spec.fullV shape dt fill).shape
    ∧ Val.sameNum (eval (idxEnv i binds) e) ((Spec.fullV shape dt fill).get i)
    ∧ (dt = "bool" ∨ Lower.isIntDtype dt = true →
        eval (idxEnv i binds) e = (Spec.fullV shape dt fill).get i) := by
  unfold Lower.full at h
  cases hl : Lower.fullLit dt fill with
  | none => rw [hl] at h; simp at h
  | some e' =>
    rw [hl] at h
    simp only [Option.map_some, Option.some.injEq, Prod.mk.injEq] at h
    obtain ⟨hs, he⟩ := h
    subst hs he
    exact ⟨rfl, fullLit_eval dt fill e' _ hl⟩

/-- `pt.eye(N, M, k)`: `If((_1 - _0) == k, 1, 0)` is 1 exactly on the `k`-th diagonal
    (`column = row + k`, any sign of `k`), 0 elsewhere -/
theorem eye_sound (n m : Nat) (k : Int) (binds : List (String × Arr Val)) (i : Idx)
    (hi : inB (Lower.eye n m k).1 i = true) :
    eval (idxEnv i binds) (Lower.eye n m k).2 = (Spec.eyeV n m k).get i
    ∧ ∀ r c : Nat, (Spec.eyeV n m k).get [r, c] = if (c : Int) = r + k then .i 1 else .i 0 :=
  ⟨eyeExpr_eval n m k binds i hi, eyeV_get n m k⟩

/-- the length `pt.arange` computes, `max(0, ⌈(stop - start)/step⌉)` (NumPy's formula),
    counts exactly the points `start + j·step` lying strictly before `stop` in the
    direction of the step — for positive and negative steps, and 0 when there is none -/
theorem arange_len (start stop step : ℚ) :
    (Lower.arangeLen start stop step : Int) = max 0 ⌈(stop - start) / step⌉
    ∧ (step ≠ 0 → ∀ j : Nat, j < Lower.arangeLen start stop step ↔
        (0 < step ∧ start + j * step < stop) ∨ (step < 0 ∧ stop < start + j * step)) :=
  ⟨arangeLen_eq_ceil start stop step, fun hs j => arangeLen_lt_iff start stop step hs j⟩

/-- `pt.arange(start, stop, step, dtype)`: entry `j` of `start + _0 * step` is
    `start + j·step` (an integer for an integer dtype) and the shape is `arange_len` -/
theorem arange_sound (isInt : Bool) (start stop step : ℚ) (shape : Shape) (e : SExpr)
    (binds : List (String × Arr Val)) (i : Idx)
    (h : Lower.arange isInt start stop step = some (shape, e)) (hi : inB shape i = true) :
    shape = [Lower.arangeLen start stop step]
    ∧ eval (idxEnv i binds) e = (Spec.arangeV isInt start stop step).get i
    ∧ (Spec.arangeV isInt start stop step).get i
        = (if isInt then .i (start.num + (i.getD 0 0 : Nat) * step.num)
           else .q (start + (i.getD 0 0 : Nat) * step)) :=
  ⟨(arange_eval isInt start stop step shape e binds i h hi).1,
   (arange_eval isInt start stop step shape e binds i h hi).2, rfl⟩

/-- `make_csr_matrix((nrows, ncols), elem_values, elem_col_indices, row_starts) @ b`:
    under CSR well-formedness (`CsrOK`: the shapes `make_csr_matrix` checks;
    `row_starts` integers delimiting positions within `0 … nnz`; column indices
    within `0 … ncols`; numeric entries) the lowered `Reduce` with DATA-DEPENDENT
    bounds `row_starts[_0] ≤ _r0 < row_starts[_0+1]` equals, at every in-bounds
    index, the product of the DENSE matrix the triple denotes (`Spec.csrDense`,
    duplicates add up) with `b` — any rank of `b`, any number of stored entries
    per row (also none), columns in any order. -/
theorem csr_matmul_sound {nrows ncols nnz : Nat} {ev ec rs b : Arr Val}
    {R : Nat → Int} {C : Nat → Nat} {E : Nat → ℚ} {B : Idx → ℚ}
    (h : CsrOK nrows ncols nnz ev ec rs b R C E B) {binds : List (String × Arr Val)}
    (hb : CsrBinds binds ev ec rs b) :
    ∃ e, Lower.csrMatmul nrows ncols ev.shape ec.shape rs.shape b.shape
        = some ((Spec.csrMatmulV nrows ncols ev ec rs b).shape, e)
      ∧ ∀ i, inB (Spec.csrMatmulV nrows ncols ev ec rs b).shape i = true →
          Val.sameNum (eval (idxEnv i binds) e) ((Spec.csrMatmulV nrows ncols ev ec rs b).get i)
          ∧ (eval (idxEnv i binds) e).toRat? ≠ none := by
  refine ⟨Lower.csrExpr b.shape.length, ?_, fun i hi => csrExpr_sound h hb i hi⟩
  simp [Lower.csrMatmul, h.evS, h.ecS, h.rsS, h.bS, Spec.csrMatmulV]

/-! ### every API function emits the operation of its own name

The INTENDED table, written by hand — this is the specification:
API function ↦ the C99 function it must call ↦ the NumPy function of that meaning
(the name the Python target must emit for the C99 call; the loopy target emits
the C99 name itself).  `PtGen.apiCallRows / apiOpRows / c99NumpyRows` are
regenerated from the live pytato code on every run. -/

def intendedCalls : List (String × String × String) := [
  ("abs", "abs", "abs"), ("sqrt", "sqrt", "sqrt"),
  ("sin", "sin", "sin"), ("cos", "cos", "cos"), ("tan", "tan", "tan"),
  ("arcsin", "asin", "arcsin"), ("arccos", "acos", "arccos"), ("arctan", "atan", "arctan"),
  ("arctan2", "atan2", "arctan2"),
  ("sinh", "sinh", "sinh"), ("cosh", "cosh", "cosh"), ("tanh", "tanh", "tanh"),
  ("exp", "exp", "exp"), ("log", "log", "log"), ("log10", "log10", "log10"),
  ("isnan", "isnan", "isnan"), ("real", "real", "real"), ("imag", "imag", "imag"),
  ("conj", "conj", "conj")]

/-- operator / function ↦ head of the scalar expression and operand order
    (`0` = the left operand of the Python expression, `1` = the right one) -/
def intendedOps : List (String × String) := [
  ("__add__", "add 0 1"), ("__radd__", "add 0 1"), ("__sub__", "sub 0 1"), ("__rsub__", "sub 0 1"),
  ("__mul__", "mul 0 1"), ("__rmul__", "mul 0 1"),
  ("__truediv__", "quot 0 1"), ("__rtruediv__", "quot 0 1"),
  ("__floordiv__", "fdiv 0 1"), ("__rfloordiv__", "fdiv 0 1"),
  ("__mod__", "rem 0 1"), ("__rmod__", "rem 0 1"), ("__pow__", "pow 0 1"), ("__rpow__", "pow 0 1"),
  ("__and__", "call bitand 0 1"), ("__rand__", "call bitand 0 1"),
  ("__or__", "call bitor 0 1"), ("__ror__", "call bitor 0 1"),
  ("__xor__", "call bitxor 0 1"), ("__rxor__", "call bitxor 0 1"),
  ("equal", "cmp == 0 1"), ("not_equal", "cmp != 0 1"), ("less", "cmp < 0 1"),
  ("less_equal", "cmp <= 0 1"), ("greater", "cmp > 0 1"), ("greater_equal", "cmp >= 0 1"),
  ("logical_and", "and 0 1"), ("logical_or", "or 0 1")]

def intendedC99 (api : String) : Option String :=
  (intendedCalls.find? (·.1 == api)).map (·.2.1)
def intendedNumpy (c99 : String) : Option String :=
  (intendedCalls.find? (·.2.1 == c99)).map (·.2.2)
def intendedOp (api : String) : Option String := (intendedOps.find? (·.1 == api)).map (·.2)

/-- every function of `pytato.cmath` emits the call `pytato.c99.<its own C99 name>`
    (the mutant `pt.sinh ↦ "cosh"` fails here), every operator / comparison /
    logical function emits its own expression head with its operands in order,
    and the Python target translates every C99 name to the NumPy function of the
    same meaning — kernel-checked against today's pytato. -/
theorem api_emits_own_name :
    (∀ r ∈ PtGen.apiCallRows, (intendedC99 r.1).map ("pytato.c99." ++ ·) = some r.2.1) ∧
    (∀ r ∈ PtGen.apiOpRows, intendedOp r.1 = some r.2) ∧
    (∀ r ∈ PtGen.c99NumpyRows, intendedNumpy r.1 = some r.2) ∧
    (∀ a ∈ intendedCalls, PtGen.apiCallRows.any (·.1 == a.1) = true) ∧
    (∀ a ∈ intendedOps, PtGen.apiOpRows.any (·.1 == a.1) = true) := by decide +kernel

/-! ## non-vacuity: concrete instances satisfying the hypotheses -/

/-- a 2×3 test array with entries 1..6 -/
def exArr : Arr Val := Arr.ofList [2, 3] [.i 1, .i 2, .i 3, .i 4, .i 5, .i 6] .undef

example : inB exArr.shape [1, 2] = true ∧ 1 < exArr.shape.length := by decide
example : (Spec.roll (-4) 1 exArr).get [1, 0] = .i 5 := by decide
example : ([1, 0] : List Nat).length = exArr.shape.length ∧ (∀ d, d < 2 → d ∈ [1, 0])
    ∧ inB (Spec.transpose [1, 0] exArr).shape [2, 1] = true := by decide
example : Lower.validIx exArr.shape [.int (-1), .slice none (some (-5)) (-2)] := by
  simp [Lower.validIx, exArr, Arr.ofList]
example : inB (Spec.basicIndex [.int (-1), .slice none (some (-5)) (-2)] exArr).shape [1] = true := by
  decide

/-- a second 2×3 array (entries 101..106) and a 2×2 one (entries 201..204) -/
def exArr2 : Arr Val := Arr.ofList [2, 3] [.i 101, .i 102, .i 103, .i 104, .i 105, .i 106] .undef
def exArr3 : Arr Val := Arr.ofList [2, 2] [.i 201, .i 202, .i 203, .i 204] .undef

-- stack: two 2×3 operands along axis 1, output index [1, 1, 2]
example : (∀ a ∈ [exArr, exArr2], a.shape = [2, 3]) ∧ 1 ≤ ([2, 3] : Shape).length
    ∧ inB (Spec.stack [2, 3] 1 [exArr, exArr2] .undef).shape [1, 1, 2] = true := by decide
example : (Spec.stack [2, 3] 1 [exArr, exArr2] .undef).get [1, 1, 2] = .i 106 := by decide
example : eval (idxEnv [1, 1, 2] (Lower.inBinds [exArr, exArr2])) (Lower.stack 2 1 3) = .i 106 := by
  decide
-- concatenate: 2×3 and 2×2 along axis 1, output index [1, 4] (inside the second operand)
example : 1 < exArr.shape.length
    ∧ (∀ a ∈ [exArr, exArr3], a.shape = exArr.shape.set 1 (a.shape.getD 1 0))
    ∧ inB (Spec.concatenate 1 [exArr, exArr3] .undef).shape [1, 4] = true := by decide
example : (Spec.concatenate 1 [exArr, exArr3] .undef).get [1, 4] = .i 204 := by decide
example : eval (idxEnv [1, 4] (Lower.inBinds [exArr, exArr3])) (Lower.concat [3, 2] 1 2) = .i 204 := by
  decide
-- reshape, one group: general branch ([2,3] → [3,2]) and pass-through ([2,3] → [2,3]), both orders
example : exArr.shape = [2, 3] ∧ ([2, 3] : Shape) ≠ [] ∧ prod [2, 3] = prod [3, 2]
    ∧ inB [3, 2] [2, 1] = true
    ∧ (Lower.genIdx .C [2, 3] [3, 2] ((List.range 2).map Lower.ivar)).isSome = true
    ∧ (Lower.genIdx .F [2, 3] [3, 2] ((List.range 2).map Lower.ivar)).isSome = true
    ∧ (Lower.genIdx .C [2, 3] [2, 3] ((List.range 2).map Lower.ivar)).isSome = true := by decide
example : (Spec.reshapeC [3, 2] exArr).get [2, 1] = .i 6
    ∧ (Spec.reshapeF [3, 2] exArr).get [1, 1] = .i 3 := by decide
example : (Lower.reshape .C [2, 3] [3, 2]).map (eval (idxEnv [2, 1] [("_in0", exArr)])) = some (.i 6)
    ∧ (Lower.reshape .F [2, 3] [3, 2]).map (eval (idxEnv [1, 1] [("_in0", exArr)])) = some (.i 3) := by
  decide
-- reshape, grouped: [2,3,1,4] → [6,2,2] (groups [2,3]→[6], [1]→[], [4]→[2,2]), both orders;
-- a scalar source; shapes with a 0
example : prod [2, 3, 1, 4] = prod [6, 2, 2] ∧ inB [6, 2, 2] [5, 1, 0] = true
    ∧ (Lower.reshape .C [2, 3, 1, 4] [6, 2, 2]).isSome = true
    ∧ (Lower.reshape .F [2, 3, 1, 4] [6, 2, 2]).isSome = true
    ∧ (Lower.groups [2, 3, 1, 4] [6, 2, 2]) =
        some [⟨[2, 3], [6]⟩, ⟨[1], []⟩, ⟨[4], [2, 2]⟩]
    ∧ (Lower.reshape .C [] [1, 1]).isSome = true
    ∧ (Lower.reshape .C [2, 0] [0, 3]).isSome = true := by decide

-- pad: exArr (2×3) padded by ((1,2),(2,1)) with constants ((10,20),(30,40)); constant axis
-- lengths (literal bounds 3 and 5), and the same with axis 0 symbolic (bound `in_1` = 0-d array 3)
def exPadScalar : Arr Val := ⟨[], fun _ => .i 3⟩
example : ([(1, 2), (2, 1)] : List (Nat × Nat)).length = exArr.shape.length
    ∧ (idxEnv [0, 0] [("in_0", exArr)]).lookupArr "in_0" = some exArr
    ∧ ([SExpr.int 3, .int 5].map (eval (idxEnv [0, 0] [("in_0", exArr)]))
        = (exArr.shape.zip [(1, 2), (2, 1)]).map fun p => Val.i ((p.1 + p.2.1 : Nat) : Int))
    ∧ inB (Spec.padConst [(1, 2), (2, 1)] [(.i 10, .i 20), (.i 30, .i 40)] exArr).shape [4, 5] = true :=
  ⟨rfl, rfl, by decide, by decide⟩
example : ([SExpr.var "in_1", .int 5].map
      (eval (idxEnv [4, 0] [("in_0", exArr), ("in_1", exPadScalar)]))
    = (exArr.shape.zip [(1, 2), (2, 1)]).map fun p => Val.i ((p.1 + p.2.1 : Nat) : Int)) := by decide
example : (Spec.padConst [(1, 2), (2, 1)] [(.i 10, .i 20), (.i 30, .i 40)] exArr).toList
    = [.i 30, .i 30, .i 10, .i 10, .i 10, .i 40, .i 30, .i 30, .i 1, .i 2, .i 3, .i 40,
       .i 30, .i 30, .i 4, .i 5, .i 6, .i 40, .i 30, .i 30, .i 20, .i 20, .i 20, .i 40,
       .i 30, .i 30, .i 20, .i 20, .i 20, .i 40] := by decide
example : (evalIL (Lower.padExpr [(1, 2), (2, 1)] [(.int 10, .int 20), (.int 30, .int 40)]
      [.var "in_1", .int 5]) [5, 6] [("in_0", exArr), ("in_1", exPadScalar)]).toList
    = (Spec.padConst [(1, 2), (2, 1)] [(.i 10, .i 20), (.i 30, .i 40)] exArr).toList := by decide

-- einsum: matmul, trace, broadcast operand, outer product, three operands
def exM23 : Arr Val := exArr
def exM34 : Arr Val := Arr.ofList [3, 4] ((List.range 12).map fun (k : Nat) => Val.i ((k + 1 : Nat) : Int)) .undef
def exM13 : Arr Val := Arr.ofList [1, 3] [.i 10, .i 20, .i 30] .undef
def exM33 : Arr Val := Arr.ofList [3, 3] ((List.range 9).map fun (k : Nat) => Val.i ((k + 1 : Nat) : Int)) .undef
def exV2 : Arr Val := Arr.ofList [2] [.i 5, .i 7] .undef
def exV3 : Arr Val := Arr.ofList [3] [.i 1, .i 2, .i 3] .undef
/-- all hypotheses of `lower_einsum_correct` except the index, decidable -/
def einsumHyp (descrs : List (List EAxis)) (nout : Nat) (args : List (Arr Val)) : Prop :=
  descrs.length = args.length ∧ args ≠ []
  ∧ (∀ p ∈ descrs.zip args, p.1.length = p.2.shape.length)
  ∧ (∀ p ∈ descrs.zip args, ∀ q ∈ p.1.zip p.2.shape,
      q.2 = Spec.axisLen (Spec.axisLenTable descrs (args.map (·.shape))) q.1 ∨ q.2 = 1)
  ∧ (∀ p ∈ descrs.zip args, ∀ j ∈ List.range 8, EAxis.elem j ∈ p.1 → j < nout)
  ∧ (∀ j ∈ List.range (Spec.numRed descrs), EAxis.red j ∈ descrs.flatMap id)
instance (descrs nout args) : Decidable (einsumHyp descrs nout args) := by
  unfold einsumHyp; infer_instance
def einsumAgrees (ins : List (List Char)) (out : List Char) (args : List (Arr Val)) : Bool :=
  let d := Lower.einsumDescrs ins out
  let sp := Spec.einsumV d out.length args
  (evalIL (Lower.einsum d (args.map (·.shape))) sp.shape (Lower.inBinds args)).toList == sp.toList
example : einsumHyp (Lower.einsumDescrs ["ij".toList, "jk".toList] "ik".toList) 2 [exM23, exM34]
    ∧ einsumAgrees ["ij".toList, "jk".toList] "ik".toList [exM23, exM34] = true
    ∧ (Spec.einsumV (Lower.einsumDescrs ["ij".toList, "jk".toList] "ik".toList) 2
        [exM23, exM34]).toList = [.i 38, .i 44, .i 50, .i 56, .i 83, .i 98, .i 113, .i 128] := by
  decide
example : einsumHyp (Lower.einsumDescrs ["ii".toList] "".toList) 0 [exM33]
    ∧ einsumAgrees ["ii".toList] "".toList [exM33] = true
    ∧ (Spec.einsumV (Lower.einsumDescrs ["ii".toList] "".toList) 0 [exM33]).toList = [.i 15] := by
  decide
example : einsumHyp (Lower.einsumDescrs ["ij".toList, "ij".toList] "i".toList) 1 [exM23, exM13]
    ∧ einsumAgrees ["ij".toList, "ij".toList] "i".toList [exM23, exM13] = true
    ∧ (Spec.einsumV (Lower.einsumDescrs ["ij".toList, "ij".toList] "i".toList) 1
        [exM23, exM13]).toList = [.i 140, .i 320] := by decide
example : einsumHyp (Lower.einsumDescrs ["i".toList, "j".toList] "ji".toList) 2 [exV2, exV3]
    ∧ einsumAgrees ["i".toList, "j".toList] "ji".toList [exV2, exV3] = true
    ∧ (Spec.einsumV (Lower.einsumDescrs ["i".toList, "j".toList] "ji".toList) 2
        [exV2, exV3]).toList = [.i 5, .i 7, .i 10, .i 14, .i 15, .i 21] := by decide
example : einsumHyp (Lower.einsumDescrs ["ij".toList, "jk".toList, "k".toList] "i".toList) 1
      [exM23, exM34, Arr.ofList [4] [.i 1, .i 0, .i 2, .i 1] .undef]
    ∧ einsumAgrees ["ij".toList, "jk".toList, "k".toList] "i".toList [exM23, exM34, Arr.ofList [4] [.i 1, .i 0, .i 2, .i 1] .undef]
        = true := by decide
/-- the mutant "bound of `_r0` from the first operand that mentions it": for
    `ij,ij->i` with a (2,1) first operand the bound would be 1 instead of 3 and
    one term only is summed — not the einsum -/
example : (evalIL (.reduce .sum "_r0" (.int 0) (.int 1)
      (.mul (.sub "_in0" [.idx 0, .int 0]) (.sub "_in1" [.idx 0, .var "_r0"]))) [2]
      (Lower.inBinds [Arr.ofList [2, 1] [.i 2, .i 3] .undef, exM23])).toList = [.i 2, .i 12]
    ∧ (Spec.einsumV (Lower.einsumDescrs ["ij".toList, "ij".toList] "i".toList) 1
        [Arr.ofList [2, 1] [.i 2, .i 3] .undef, exM23]).toList = [.i 12, .i 45]
    ∧ einsumAgrees ["ij".toList, "ij".toList] "i".toList [Arr.ofList [2, 1] [.i 2, .i 3] .undef, exM23] = true := by
  decide

-- advanced indexing: x (3×4, entries 1..12); contiguous `x[1:, [[-1],[0]] (2×1 array) …]` and
-- non-contiguous `x3[[0,-1], ::2, [1,-2]]`; the model's own `advIndex` (names, first/last computed)
def exX34 : Arr Val := exM34
def exI21 : Arr Val := Arr.ofList [2, 1] [.i (-1), .i 0] .undef
def exI2a : Arr Val := Arr.ofList [2] [.i 0, .i (-1)] .undef
def exI2b : Arr Val := Arr.ofList [2] [.i 1, .i (-2)] .undef
def exX342 : Arr Val := Arr.ofList [3, 4, 2] ((List.range 24).map fun (k : Nat) => Val.i ((k + 1 : Nat) : Int)) .undef
def exAdvC : List RAIdx := [.slice (some 1) none 1, .arr exI21 false]
def exAdvN : List RAIdx := [.arr exI2a false, .slice none none 2, .arr exI2b false]
example : (Lower.advIndex true (Lower.normAIdx [3, 4] exAdvC) [3, 4]).map
      (fun e => (evalIL e [2, 2, 1] (advBinds "in" ["in_0"] exX34 [exI21])).toList)
    = some (Spec.advIndex true [2, 1] 1 1 exAdvC exX34).toList
    ∧ (Spec.advIndex true [2, 1] 1 1 exAdvC exX34).toList = [.i 8, .i 5, .i 12, .i 9]
    ∧ (Spec.advIndex true [2, 1] 1 1 exAdvC exX34).shape = [2, 2, 1] := by decide
example : (Lower.advIndex false (Lower.normAIdx [3, 4, 2] exAdvN) [3, 4, 2]).map
      (fun e => (evalIL e [2, 2] (advBinds "in" ["in_0", "in_1"] exX342 [exI2a, exI2b])).toList)
    = some (Spec.advIndex false [2] 0 2 exAdvN exX342).toList
    ∧ (Spec.advIndex false [2] 0 2 exAdvN exX342).toList = [.i 2, .i 6, .i 17, .i 21] := by decide
example : AdvSeg exAdvC [.slice (some 1) none 1] [.arr exI21 false] [] 1 1 :=
  ⟨rfl, by simp [RAIdx.isSlice], by simp [RAIdx.isSlice], by simp, rfl, rfl⟩
example : Lower.advValidAffine exAdvC [3, 4] ∧ Lower.advValidAffine exAdvN [3, 4, 2] := by
  simp [Lower.advValidAffine, exAdvC, exAdvN]

-- the API layer: int64 (2×3) + float64 (3,) with a cast, 2.5 - x, x - 2 (folded), where with a (2,1) condition
def exB21 : Arr Val := Arr.ofList [2, 1] [.b true, .b false] .undef
def exF3 : Arr Val := Arr.ofList [3] [.q (1/2), .i 2, .q (-3/2)] .undef
example : ptBroadcast [Lower.opdShape (.arr [2, 3] "int64"), Lower.opdShape (.arr [3] "float64")] = some [2, 3]
    ∧ OpdOK 0 (.arr [2, 3] "int64") (some exArr) [("_in0", exArr), ("_in1", exF3)]
    ∧ OpdOK 1 (.arr [3] "float64") (some exF3) [("_in0", exArr), ("_in1", exF3)] :=
  ⟨by decide, ⟨rfl, rfl⟩, ⟨rfl, rfl⟩⟩
example : (Lower.binop .add (.arr [2, 3] "int64") (.arr [3] "float64") "float64" true false).map
      (fun p => (p.1, (evalIL p.2 p.1 [("_in0", exArr), ("_in1", exF3)]).toList))
    = some ([2, 3], (Spec.binopV .add (.arr [2, 3] "int64") (.arr [3] "float64") (some exArr) (some exF3)
        [2, 3] "float64" true false).toList) := by decide +kernel
example : (Lower.binop .sub (.pyScalar (.rat 5 2)) (.arr [2, 3] "int64") "float64" true false).map
      (fun p => (evalIL p.2 p.1 [("_in1", exArr)]).toList)
    = some [.q (3/2), .q (1/2), .q (-1/2), .q (-3/2), .q (-5/2), .q (-7/2)] := by decide +kernel
example : (Lower.binop .sub (.arr [2, 3] "int64") (.pyScalar (.int 2)) "int64" true false).map
      (fun p => (evalIL p.2 p.1 [("_in0", exArr)]).toList)
    = some [.i (-1), .i 0, .i 1, .i 2, .i 3, .i 4] := by decide +kernel
example : (Lower.where_ (.arr [2, 1] "bool") (.arr [2, 3] "int64") (.pyScalar (.int 0))).map
      (fun p => (p.1, (evalIL p.2 p.1 [("_in0", exB21), ("_in1", exArr)]).toList))
    = some ([2, 3], [.i 1, .i 2, .i 3, .i 0, .i 0, .i 0]) := by decide +kernel

-- reductions: sum over axis 1, amax over all axes, all(axis=0) of a (2,1) bool array;
-- nothing to reduce / an empty amax have no index lambda
example : Raise.lookupEnv [("in", exArr)] "in" = some exArr := rfl
example : (Lower.reduceExpr .sum [2, 3] (some [1])).map (fun e => (evalIL e [2] [("in", exArr)]).toList)
      = some (Spec.reduceV .sum (some [1]) exArr).toList
    ∧ (Spec.reduceV .sum (some [1]) exArr).toList = [.i 6, .i 15] := by decide +kernel
example : (Lower.reduceExpr .max [2, 3] none).map (fun e => (evalIL e [] [("in", exArr)]).toList)
      = some [.i 6]
    ∧ (Spec.reduceV .max none exArr).toList = [.i 6]
    ∧ (Spec.reduceV .prod (some [0]) exArr).toList = [.i 4, .i 10, .i 18] := by decide +kernel
example : (Lower.reduceExpr .all [2, 1] (some [0])).map (fun e => (evalIL e [1] [("in", exB21)]).toList)
      = some [.b false] := by decide +kernel
example : Lower.reduceExpr .sum [2, 3] (some [1])
    = some (.reduce .sum "_r0" (.int 0) (.int 3) (.sub "in" [.idx 0, .var "_r0"])) := by rfl
example : Lower.reduceExpr .max [2, 0] (some [1]) = none ∧ Lower.reduceExpr .sum [2, 0] (some [1]) ≠ none
    ∧ Lower.reduceExpr .sum [2, 3] (some [2]) = none := by decide +kernel

-- constructors: full(2.5 -> int64) truncates, ones(float64) = 1.0, eye(2,3,1), arange(10,1,-3), arange(0,1,0.25)
example : (Lower.full [2] "int64" (.rat (-5) 2)).map (fun p => (p.1, (evalIL p.2 p.1 []).toList))
      = some ([2], [.i (-2), .i (-2)])
    ∧ (Lower.ones [2] "float64").map (fun p => (p.1, (evalIL p.2 p.1 []).toList)) = some ([2], [.q 1, .q 1])
    ∧ (Lower.full [] "bool" (.int 3)).map (fun p => (p.1, (evalIL p.2 p.1 []).toList)) = some ([], [.b true])
    ∧ (Spec.fullV [2] "int64" (.rat (-5) 2)).toList = [.i (-2), .i (-2)]
    ∧ (Lower.full [2] "int64" .nan).isNone = true := by decide +kernel
example : (evalIL (Lower.eye 2 3 1).2 (Lower.eye 2 3 1).1 []).toList = [.i 0, .i 1, .i 0, .i 0, .i 0, .i 1]
    ∧ (Spec.eyeV 2 3 1).toList = [.i 0, .i 1, .i 0, .i 0, .i 0, .i 1] := by decide +kernel
example : (Lower.arange true 10 1 (-3)).map (fun p => (p.1, (evalIL p.2 p.1 []).toList))
      = some ([3], [.i 10, .i 7, .i 4])
    ∧ (Lower.arange false 0 1 (1/4)).map (fun p => (p.1, (evalIL p.2 p.1 []).toList))
      = some ([4], [.q 0, .q (1/4), .q (1/2), .q (3/4)])
    ∧ Lower.arangeLen 5 0 1 = 0 ∧ Lower.arangeLen 0 5 2 = 3 ∧ Lower.arangeLen 0 (-5) (-2) = 3
    ∧ (Lower.arange true 0 5 0).isNone = true := by decide +kernel
-- CSR: [[5,0,6],[0,7,0]] stored as values (5 6 7), columns (0 2 1), row starts (0 2 3); b is 3x2
def exCsrV : Arr Val := ⟨[3], fun p => .i ((p.getD 0 0 : Nat) + 5)⟩
def exCsrCol (p : Nat) : Nat := match p with | 0 => 0 | 1 => 2 | _ => 1
def exCsrC : Arr Val := ⟨[3], fun p => .i (exCsrCol (p.getD 0 0) : Nat)⟩
def exCsrRow (r : Nat) : Int := match r with | 0 => 0 | 1 => 2 | _ => 3
def exCsrR : Arr Val := ⟨[3], fun r => .i (exCsrRow (r.getD 0 0))⟩
def exCsrB : Arr Val := ⟨[3, 2], fun j => .i ((2 * j.getD 0 0 + j.getD 1 0 + 1 : Nat))⟩
def exCsrBinds : List (String × Arr Val) :=
  [("_in0", exCsrV), ("_in1", exCsrC), ("_in2", exCsrR), ("_in3", exCsrB)]
example : CsrOK 2 3 3 exCsrV exCsrC exCsrR exCsrB exCsrRow exCsrCol (fun p => (p : ℚ) + 5)
    (fun j => ((2 * j.getD 0 0 + j.getD 1 0 + 1 : Nat) : ℚ)) :=
  ⟨rfl, rfl, rfl, rfl, fun _ _ => rfl, by decide, by decide, by decide,
   fun p _ => by simp [exCsrV, Val.toRat?], fun j _ => by simp [exCsrB, Val.toRat?]⟩
example : CsrBinds exCsrBinds exCsrV exCsrC exCsrR exCsrB := ⟨rfl, rfl, rfl, rfl⟩
example : (Lower.csrMatmul 2 3 [3] [3] [3] [3, 2]).map (fun p => (p.1, (evalIL p.2 p.1 exCsrBinds).toList))
      = some ([2, 2], [.i 35, .i 46, .i 21, .i 28])
    ∧ (Spec.csrMatmulV 2 3 exCsrV exCsrC exCsrR exCsrB).toList = [.i 35, .i 46, .i 21, .i 28]
    ∧ (Spec.csrDense 2 3 exCsrV exCsrC exCsrR).toList = [.i 5, .i 0, .i 6, .i 0, .i 7, .i 0]
    ∧ (Lower.csrMatmul 2 3 [3] [3] [2] [3, 2]).isNone = true := by decide +kernel

end Pt

/-
  Property C02 — lowering any array node to an index lambda preserves its
  meaning.  Property theorems only; helper lemmas live in the *Lemmas files.

  Each `lower_X_correct` says: the scalar expression the model of pytato's
  lowering rule builds (`Pt.Lower.X`, tied to the real `to_index_lambda` by the
  correspondence check), evaluated by the index-lambda semantics at ANY in-bounds
  output index, for ANY operand of ANY rank/shape and ANY parameter value,
  yields the element NumPy's operation (`Pt.Spec.X`) puts there.
-/
import PtProofs.EvalLemmas
import PtProofs.BasicIndexLemmas
namespace Pt

/-! ## re-exported slice / linearisation theorems (statements in SliceLemmas / BasicLemmas) -/

/-! ## roll -/

theorem lower_roll_correct (shift : Int) (axis : Nat) (a : Arr Val) (i : Idx)
    (hi : inB a.shape i = true) (hax : axis < a.shape.length) :
    eval (idxEnv i [("_in0", a)])
        (Lower.roll shift axis a.shape.length (a.shape.getD axis 0))
      = (Spec.roll shift axis a).get i := by
  have hlen := inB_length hi
  have hlt := inB_getD_lt axis hi hax
  have hnpos : (0 : Int) < (a.shape.getD axis 0 : Nat) := by omega
  obtain ⟨hm0, hm1⟩ := pyMod_nonneg_lt (a := ((i.getD axis 0 : Nat) : Int) - shift) hnpos
  unfold Lower.roll Spec.roll
  simp only [eval, lookupArr_head, evalList_map]
  -- evaluate every index expression
  have hev : (List.range a.shape.length).map (fun d => eval (idxEnv i [("_in0", a)])
        (if d = axis then
          SExpr.rem (Lower.subConst (Lower.ivar d) shift) (.int ((a.shape.getD axis 0 : Nat) : Int))
         else Lower.ivar d))
      = (List.range i.length).map (fun d => Val.i ((if d = axis then
          (pyMod (((i.getD axis 0 : Nat) : Int) - shift) (a.shape.getD axis 0 : Nat)).toNat
          else i.getD d 0 : Nat))) := by
    rw [hlen]
    apply List.map_congr_left
    intro d hd
    have hd' : d < i.length := by simpa [hlen] using hd
    by_cases h : d = axis
    · subst h
      simp only [if_true]
      rw [eval_mod_shift i _ d shift _ hd' (by omega)]
      congr 1; omega
    · simp only [h, if_false, Lower.ivar, eval_idx i _ d hd']
  rw [hev, toNatIdx_map_nat, map_range_set]
  have hin : inB a.shape (i.set axis
      (pyMod (((i.getD axis 0 : Nat) : Int) - shift) (a.shape.getD axis 0 : Nat)).toNat) = true :=
    inB_set _ _ hi (by omega)
  simp only [hin, if_true]

/-! ## axis permutation -/

theorem lower_perm_correct (p : List Nat) (a : Arr Val) (i : Idx)
    (hlen : p.length = a.shape.length)
    (hperm : ∀ d, d < p.length → d ∈ p)
    (hi : inB (Spec.transpose p a).shape i = true) :
    eval (idxEnv i [("_in0", a)]) (Lower.perm p) = (Spec.transpose p a).get i := by
  have hil : i.length = p.length := by
    have := inB_length hi
    simpa [Spec.transpose] using this
  unfold Lower.perm
  simp only [eval, lookupArr_head, evalList_map]
  have hev : (List.range p.length).map (fun d => eval (idxEnv i [("_in0", a)])
        (Lower.ivar (p.idxOf d)))
      = (List.range p.length).map (fun d => Val.i ((i.getD (p.idxOf d) 0 : Nat))) := by
    apply List.map_congr_left
    intro d hd
    have hd' : d < p.length := by simpa using hd
    have : p.idxOf d < i.length := by
      rw [hil]; exact List.idxOf_lt_length_of_mem (hperm d hd')
    simp only [Lower.ivar, eval_idx i _ _ this]
  rw [hev, toNatIdx_map_nat]
  have hin : inB a.shape ((List.range p.length).map fun d => i.getD (p.idxOf d) 0) = true := by
    apply inB_of_forall
    · simp [hlen]
    · intro k hk
      have hk' : k < p.length := by omega
      have hmem := hperm k hk'
      have hidx : p.idxOf k < p.length := List.idxOf_lt_length_of_mem hmem
      have h1 := inB_getD_lt (p.idxOf k) hi (by simpa [Spec.transpose] using hidx)
      simp only [Spec.transpose, List.getD_eq_getElem?_getD, List.getElem?_map] at h1
      simp only [List.getD_eq_getElem?_getD, List.getElem?_map, List.getElem?_range hk',
        Option.map_some, Option.getD_some]
      have h2 : p[p.idxOf k]? = some k := by
        rw [List.getElem?_eq_getElem hidx]; simp [List.getElem_idxOf hidx]
      simpa [h2] using h1
  simp only [hin, if_true, Spec.transpose]

/-! ## basic indexing (ints and slices) -/

/-- `x[ix]` for any mixture of integer indices and slices (any start/stop/step,
    `None`, negative, past the end), any rank, any axis lengths. -/
theorem lower_basic_correct (ix : List Spec.BIdx) (a : Arr Val) (i : Idx)
    (hv : Lower.validIx a.shape ix)
    (hi : inB (Spec.basicIndex ix a).shape i = true) :
    eval (idxEnv i [("in", a)]) (Lower.basic (Lower.normIdx a.shape ix) a.shape)
      = (Spec.basicIndex ix a).get i := by
  obtain ⟨h1, h2⟩ := basicIdxFrom_eval i [("in", a)] ix a.shape 0 hv (by simpa [Spec.basicIndex] using hi)
  unfold Lower.basic
  simp only [eval, lookupArr_head, h1, List.drop_zero] at h2 ⊢
  simp only [h2, if_true, Spec.basicIndex]

/-! ## non-vacuity: concrete instances satisfying the hypotheses -/

/-- a 2×3 test array with entries 1..6 -/
def exArr : Arr Val := Arr.ofList [2, 3] [.i 1, .i 2, .i 3, .i 4, .i 5, .i 6] .undef

example : inB exArr.shape [1, 2] = true ∧ 1 < exArr.shape.length := by decide
example : (Spec.roll (-4) 1 exArr).get [1, 0] = .i 5 := by decide
example : ([1, 0] : List Nat).length = exArr.shape.length ∧ (∀ d, d < 2 → d ∈ [1, 0])
    ∧ inB (Spec.transpose [1, 0] exArr).shape [2, 1] = true := by decide
example : Lower.validIx exArr.shape [.int (-1), .slice none (some (-5)) (-2)] := by
  simp [Lower.validIx, exArr, Arr.ofList]
example : inB (Spec.basicIndex [.int (-1), .slice none (some (-5)) (-2)] exArr).shape [1] = true := by
  decide

end Pt

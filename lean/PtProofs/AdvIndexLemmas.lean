/-
  Helper lemmas for the advanced-indexing lowering rules (C02 value, C11 accesses).
-/
import PtModel.AdvIndex
import PtProofs.EvalLemmas
import PtProofs.BasicIndexLemmas
import PtProofs.StackConcatLemmas
import PtProofs.ReshapeLemmas
import PtProofs.AccessLemmas
import PtProofs.RaiseLemmas
namespace Pt
open Lower Spec

/-! ### the broadcast subscript of an index array, at a point longer than its reference shape -/

theorem getD_take_lt (i : Idx) (m k : Nat) (h : k < m) : (i.take m).getD k 0 = i.getD k 0 := by
  simp [List.getD_eq_getElem?_getD, h]

/-- `get_indexing_expression(s, r)` evaluated at a point `i` that extends `r`:
    it reads the entries of `i` aligned with the END of `r` -/
theorem bcastSubscript_eval_at (s r : Shape) (i : Idx) (b : List (String × Arr Val))
    (hb : Raise.Bcastable s r) (hlen : r.length ≤ i.length)
    (hlt : ∀ k, k < s.length →
      i.getD (r.length - s.length + k) 0 < r.getD (r.length - s.length + k) 0) :
    (bcastSubscript s r).map (eval (idxEnv i b))
        = (bcastIdx s (i.take r.length)).map (fun x => Val.i (x : Nat))
      ∧ inB s (bcastIdx s (i.take r.length)) = true := by
  have hsr := hb.1
  have htl : (i.take r.length).length = r.length := by simp; omega
  have hsl : s.length ≤ (i.take r.length).length := by omega
  have hvals : ∀ k, k < s.length →
      eval (idxEnv i b) (if s.getD k 0 ≠ r.getD (r.length - s.length + k) 0 then SExpr.int 0
        else ivar (r.length - s.length + k))
        = Val.i (((bcastIdx s (i.take r.length)).getD k 0 : Nat))
      ∧ (bcastIdx s (i.take r.length)).getD k 0 < s.getD k 0 := by
    intro k hk
    have hlt' := hlt k hk
    rw [Raise.bcastIdx_getD s _ hsl k hk, htl, getD_take_lt i _ _ (by omega)]
    rcases hb.2 k hk with h1 | h1
    · rw [if_neg (by simpa using h1)]
      simp only [ivar, eval_idx i b _ (by omega : r.length - s.length + k < i.length)]
      by_cases h2 : s.getD k 0 = 1
      · rw [if_pos h2]
        have : i.getD (r.length - s.length + k) 0 = 0 := by omega
        exact ⟨by rw [this], by omega⟩
      · rw [if_neg h2]; exact ⟨rfl, by omega⟩
    · by_cases h2 : s.getD k 0 = r.getD (r.length - s.length + k) 0
      · rw [if_neg (by simpa using h2), if_pos h1]
        simp only [ivar, eval_idx i b _ (by omega : r.length - s.length + k < i.length)]
        have : i.getD (r.length - s.length + k) 0 = 0 := by omega
        exact ⟨by rw [this], by omega⟩
      · rw [if_pos h2, if_pos h1]; exact ⟨by simp [eval], by omega⟩
  constructor
  · apply List.ext_getElem
    · simp [bcastSubscript, Raise.bcastIdx_length s _ hsl]
    · intro k h1 h2
      have hk : k < s.length := by simpa [bcastSubscript] using h1
      simp only [bcastSubscript, List.getElem_map, List.getElem_range]
      rw [(hvals k hk).1]
      simp [List.getD_eq_getElem?_getD,
        List.getElem?_eq_getElem (by simpa using h2 : k < (bcastIdx s (i.take r.length)).length)]
  · apply inB_of_forall (Raise.bcastIdx_length s _ hsl)
    intro k hk
    exact (hvals k hk).2

/-! ### one index -/

theorem eval_intIx (env : Env) (k : Int) (n : Nat) (h : -(n : Int) ≤ k ∧ k < n) :
    eval env (.int (pyMod k n)) = .i (((if k < 0 then k + n else k).toNat : Nat) : Int)
    ∧ (if k < 0 then k + n else k).toNat < n := by
  have hval : pyMod k n = if k < 0 then k + n else k := by
    by_cases hk : k < 0
    · rw [if_pos hk]; exact pyMod_of_neg_ge hk h.1
    · rw [if_neg hk]; exact pyMod_of_nonneg_lt (by omega) h.2
  simp only [eval, hval]
  constructor
  · congr 1; split <;> omega
  · split <;> omega

theorem eval_sliceIx (pt : Idx) (b : List (String × Arr Val)) (st sp : Option Int) (step : Int)
    (n c x : Nat) (hs : step ≠ 0) (hc : c < pt.length) (hx : pt.getD c 0 = x)
    (hxl : (x : Int) < cpyLen (cpyAdjust st sp step n)) :
    eval (idxEnv pt b) (sliceIx (ptNormSlice st sp step n) n c)
      = .i ((((cpyAdjust st sp step n).start + step * (x : Nat)).toNat : Nat) : Int)
    ∧ ((cpyAdjust st sp step n).start + step * (x : Nat)).toNat < n := by
  have hn0 : (0 : Int) ≤ n := by omega
  have hnorm := slice_norm_eq_cpython n hn0 st sp step hs
  obtain ⟨hb0, hb1⟩ := slice_indices_inbounds n hn0 st sp step hs x (by omega) hxl
  have hstep : (cpyAdjust st sp step n).step = step := rfl
  refine ⟨?_, by omega⟩
  unfold sliceIx
  rw [hnorm]
  by_cases hid : (cpyAdjust st sp step n).stop = n ∧ (cpyAdjust st sp step n).step = 1
        ∧ (cpyAdjust st sp step n).start = 0
  · rw [if_pos hid]
    simp only [ivar, eval_idx pt b c hc, hx]
    rw [hstep] at hid
    congr 1; rw [hid.2.2, hid.2.1]; omega
  · rw [if_neg hid]
    simp only [ivar, eval, idxEnv_pt pt b c hc, hx, Val.add, Val.mul, Val.arith, Val.toInt?, hstep]
    congr 1; omega

/-- the facts about an index array's reference shape that make its broadcast
    subscript evaluate, in bounds, to the NumPy broadcast index -/
def ArrRefOK (ref : Shape) (i : Idx) (s : Shape) : Prop :=
  Raise.Bcastable s ref ∧ ref.length ≤ i.length ∧
    ∀ k, k < s.length → i.getD (ref.length - s.length + k) 0 < ref.getD (ref.length - s.length + k) 0

theorem eval_arrIx (i : Idx) (b : List (String × Arr Val)) (nm : String) (a : Arr Val) (nn : Bool)
    (n : Nat) (ref : Shape) (hl : (idxEnv i b).lookupArr nm = some a) (hr : ArrRefOK ref i a.shape)
    (hv : ∀ j, inB a.shape j = true →
      ∃ z : Int, a.get j = .i z ∧ (if nn then 0 ≤ z else -(n : Int) ≤ z) ∧ z < n) :
    eval (idxEnv i b) (arrIx nm a.shape ref nn n)
      = .i ((wrapIdx (a.get (bcastIdx a.shape (i.take ref.length))) n : Nat) : Int)
    ∧ wrapIdx (a.get (bcastIdx a.shape (i.take ref.length))) n < n := by
  obtain ⟨hev, hin⟩ := bcastSubscript_eval_at a.shape ref i b hr.1 hr.2.1 hr.2.2
  obtain ⟨z, hz, hlo, hhi⟩ := hv _ hin
  have hsub : eval (idxEnv i b) (.sub nm (bcastSubscript a.shape ref)) = .i z := by
    rw [eval_sub_of _ _ _ _ hev, hl]
    simp only [hin, if_true, hz]
  unfold arrIx
  cases nn with
  | true =>
    simp only [if_true] at hlo ⊢
    rw [hsub, hz]
    simp only [wrapIdx]
    have : ¬ z < 0 := by omega
    simp only [this, if_false]
    exact ⟨by congr 1; omega, by omega⟩
  | false =>
    simp only [Bool.false_eq_true, if_false] at hlo ⊢
    have hn : ¬ ((n : Int) = 0) := by omega
    have hval : pyMod z n = if z < 0 then z + n else z := by
      by_cases hk : z < 0
      · rw [if_pos hk]; exact pyMod_of_neg_ge hk hlo
      · rw [if_neg hk]; exact pyMod_of_nonneg_lt (by omega) hhi
    have hrem : eval (idxEnv i b) (.rem (.sub nm (bcastSubscript a.shape ref)) (.int n))
        = Val.rem (eval (idxEnv i b) (.sub nm (bcastSubscript a.shape ref))) (.i n) := rfl
    rw [hrem, hsub, hz]
    simp only [Val.rem, Val.toInt?, hn, if_false, wrapIdx, hval]
    constructor
    · congr 1; split <;> omega
    · split <;> omega

/-! ### all indices -/

theorem toNatIdx_cons_nat (x : Nat) (vs : List Val) (r : Idx) (h : toNatIdx vs = some r) :
    toNatIdx (Val.i (x : Nat) :: vs) = some (x :: r) := by
  rw [toNatIdx_cons_i _ (Int.natCast_nonneg x) _ _ h]; simp

theorem drop_cons_of_inB {n : Nat} {ns : Shape} {i : Idx} {c : Nat}
    (h : inB (n :: ns) (i.drop c) = true) :
    c < i.length ∧ i.getD c 0 < n ∧ inB ns (i.drop (c + 1)) = true := by
  have hc : c < i.length := by
    rcases Nat.lt_or_ge c i.length with h' | h'
    · exact h'
    · rw [List.drop_eq_nil_of_le h'] at h; simp [inB] at h
  rw [List.drop_eq_getElem_cons hc] at h
  obtain ⟨h1, h2⟩ := inB_cons.mp h
  refine ⟨hc, ?_, h2⟩
  simpa [List.getD_eq_getElem?_getD, List.getElem?_eq_getElem hc] using h1

/-- skipping the inserted block `B` (if this is the jump position) -/
theorem inB_skip {jump : Option Nat} {p : Nat} {B rest : Shape} {i : Idx} {c : Nat}
    (h : inB ((if jump = some p then B else []) ++ rest) (i.drop c) = true) :
    inB rest (i.drop (if jump = some p then c + B.length else c)) = true := by
  by_cases hj : jump = some p
  · simp only [hj, if_true] at h ⊢
    have := (inB_append_split B rest _ h).2
    rwa [List.drop_drop] at this
  · simpa [hj] using h

variable {i : Idx} {binds : List (String × Arr Val)} {ref B : Shape} {jump : Option Nat}

/-- the loop invariant of both rules: the index expressions evaluate to the
    element NumPy reads, which is within the indexed array -/
theorem advIxFrom_eval :
    ∀ (ixs : List RAIdx) (ns : Shape) (p c : Nat) (names : List String),
      advValid ixs ns →
      inB (advShapeFrom jump B p ixs ns) (i.drop c) = true →
      names.length = (arrsOf ixs).length →
      (∀ k (h : k < names.length) (h' : k < (arrsOf ixs).length),
        (idxEnv i binds).lookupArr names[k] = some (arrsOf ixs)[k]) →
      (∀ a ∈ arrsOf ixs, ArrRefOK ref i a.shape) →
      toNatIdx (evalList (idxEnv i binds)
          (advIxFrom ref jump B.length p c (normAIdx ns ixs) ns names))
        = some (advSrcFrom i (i.take ref.length) jump B.length p c ixs ns)
      ∧ inB ns (advSrcFrom i (i.take ref.length) jump B.length p c ixs ns) = true
  | [], [], _, _, _, _, _, _, _, _ => by simp [normAIdx, advIxFrom, evalList, toNatIdx, advSrcFrom, inB]
  | [], _ :: _, _, _, _, hv, _, _, _, _ => by simp [advValid] at hv
  | _ :: _, [], _, _, _, hv, _, _, _, _ => by cases ‹RAIdx› <;> simp [advValid] at hv
  | .int k :: ixs, n :: ns, p, c, names, hv, hi, hn, hl, hr => by
    simp only [advValid] at hv
    simp only [advShapeFrom] at hi
    have hi' := inB_skip hi
    obtain ⟨h1, h2⟩ := advIxFrom_eval ixs ns (p + 1) _ names hv.2 hi' hn hl hr
    obtain ⟨e1, e2⟩ := eval_intIx (idxEnv i binds) k n hv.1
    simp only [normAIdx, advIxFrom, evalList, advSrcFrom]
    rw [e1, toNatIdx_cons_nat _ _ _ h1]
    exact ⟨rfl, inB_cons.mpr ⟨e2, h2⟩⟩
  | .slice st sp step :: ixs, n :: ns, p, c, names, hv, hi, hn, hl, hr => by
    simp only [advValid] at hv
    simp only [advShapeFrom] at hi
    obtain ⟨hc, hx, hrest⟩ := drop_cons_of_inB hi
    have hi' := inB_skip hrest
    have hcnt : (if jump = some p then c + 1 + B.length else c + 1)
        = (if jump = some p then (c + 1) + B.length else c + 1) := rfl
    obtain ⟨h1, h2⟩ := advIxFrom_eval ixs ns (p + 1) _ names hv.2 hi' hn hl hr
    have hlen0 := slice_len_nonneg (cpyAdjust st sp step n)
    obtain ⟨e1, e2⟩ := eval_sliceIx i binds st sp step n c (i.getD c 0) hv.1 hc rfl (by omega)
    simp only [normAIdx, advIxFrom, evalList, advSrcFrom]
    rw [e1, toNatIdx_cons_nat _ _ _ h1]
    exact ⟨rfl, inB_cons.mpr ⟨e2, h2⟩⟩
  | .arr a nn :: ixs, n :: ns, p, c, names, hv, hi, hn, hl, hr => by
    simp only [advValid] at hv
    simp only [advShapeFrom] at hi
    have hi' := inB_skip hi
    cases names with
    | nil => simp [arrsOf] at hn
    | cons nm names =>
      have hl0 := hl 0 (by simp) (by simp [arrsOf])
      simp only [List.getElem_cons_zero, arrsOf] at hl0
      obtain ⟨h1, h2⟩ := advIxFrom_eval ixs ns (p + 1) _ names hv.2 hi'
        (by simpa [arrsOf] using hn)
        (fun k h h' => by
          have := hl (k + 1) (by simpa using h) (by simpa [arrsOf] using h')
          simpa [arrsOf] using this)
        (fun a' ha' => hr a' (by simp [arrsOf, ha']))
      obtain ⟨e1, e2⟩ := eval_arrIx i binds nm a nn n ref hl0 (hr a (by simp [arrsOf])) hv.1
      simp only [normAIdx, advIxFrom, evalList, advSrcFrom]
      rw [e1, toNatIdx_cons_nat _ _ _ h1]
      exact ⟨rfl, inB_cons.mpr ⟨e2, h2⟩⟩

/-! ### bindings -/

/-- the bindings of the lowered node: the indexed array and the index arrays -/
def advBinds (in0 : String) (names : List String) (a : Arr Val) (arrs : List (Arr Val)) :
    List (String × Arr Val) := (in0, a) :: names.zip arrs

theorem lookup_zip (pt : Idx) : ∀ (names : List String) (arrs : List (Arr Val)) (k : Nat)
    (h : k < names.length) (h' : k < arrs.length), names.Nodup →
    (idxEnv pt (names.zip arrs)).lookupArr names[k] = some arrs[k]
  | [], _, _, h, _, _ => by simp at h
  | _ :: _, [], _, _, h', _ => by simp at h'
  | nm :: names, a :: arrs, 0, _, _, _ => by simp [Env.lookupArr, idxEnv]
  | nm :: names, a :: arrs, k + 1, h, h', hnd => by
    simp only [List.nodup_cons] at hnd
    have ih := lookup_zip pt names arrs k (by simpa using h) (by simpa using h') hnd.2
    simp only [Env.lookupArr, idxEnv, List.zip_cons_cons, List.getElem_cons_succ] at ih ⊢
    rw [List.find?_cons_of_neg]
    · exact ih
    · simp only [beq_iff_eq]
      intro e
      exact hnd.1 (e ▸ List.getElem_mem _)

theorem advBinds_lookups (pt : Idx) (in0 : String) (names : List String) (a : Arr Val)
    (arrs : List (Arr Val)) (hnd : (in0 :: names).Nodup) :
    (idxEnv pt (advBinds in0 names a arrs)).lookupArr in0 = some a ∧
    ∀ k (h : k < names.length) (h' : k < arrs.length),
      (idxEnv pt (advBinds in0 names a arrs)).lookupArr names[k] = some arrs[k] := by
  simp only [List.nodup_cons] at hnd
  refine ⟨by simp [advBinds, Env.lookupArr, idxEnv], fun k h h' => ?_⟩
  have := lookup_zip pt names arrs k h h' hnd.2
  simp only [advBinds, Env.lookupArr, idxEnv] at this ⊢
  rw [List.find?_cons_of_neg]
  · exact this
  · simp only [beq_iff_eq]
    intro e
    exact hnd.1 (e ▸ List.getElem_mem _)

theorem eval_sub_src (env : Env) (nm : String) (ix : List SExpr) (a : Arr Val) (j : Idx)
    (hl : env.lookupArr nm = some a) (h1 : toNatIdx (evalList env ix) = some j)
    (h2 : inB a.shape j = true) : eval env (.sub nm ix) = a.get j := by
  simp only [eval, hl, h1, h2, if_true]

/-! ### the non-contiguous rule -/

/-- hypotheses of the advanced-indexing theorems -/
structure AdvOK (contig : Bool) (B : Shape) (first last : Nat) (ixs : List RAIdx) (a : Arr Val)
    (in0 : String) (names : List String) (i : Idx) : Prop where
  hv : advValidAffine ixs a.shape
  hB : ∀ x ∈ arrsOf ixs, Raise.Bcastable x.shape B
  hnd : (in0 :: names).Nodup
  hn : names.length = (arrsOf ixs).length
  hi : inB (Spec.advIndex contig B first last ixs a).shape i = true

/-- the facts the non-contiguous rule's loop starts from -/
theorem noncontig_facts {B first last ixs a in0 names i}
    (h : AdvOK false B first last ixs a in0 names i) :
    inB (advShapeFrom none B 0 ixs a.shape) (i.drop B.length) = true ∧
    ∀ x ∈ arrsOf ixs, ArrRefOK B i x.shape := by
  have hi := h.hi
  simp only [Spec.advIndex, Bool.false_eq_true, if_false] at hi
  obtain ⟨hiB, hirest⟩ := inB_append_split _ _ _ hi
  have hil := inB_length hi
  simp only [List.length_append] at hil
  refine ⟨hirest, fun x hx => ?_⟩
  have hb := h.hB x hx
  refine ⟨hb, by omega, fun k hk => ?_⟩
  have := inB_getD_lt (B.length - x.shape.length + k) hiB (by have := hb.1; omega)
  rwa [getD_take_lt i _ _ (by have := hb.1; omega)] at this

theorem advIndex_noncontig_eval {B first last ixs a in0 names i}
    (h : AdvOK false B first last ixs a in0 names i) (hv : advValid ixs a.shape) :
    eval (idxEnv i (advBinds in0 names a (arrsOf ixs)))
        (advIndexWith false first last in0 names B (normAIdx a.shape ixs) a.shape)
      = (Spec.advIndex false B first last ixs a).get i := by
  obtain ⟨hirest, href⟩ := noncontig_facts h
  obtain ⟨hl0, hls⟩ := advBinds_lookups i in0 names a (arrsOf ixs) h.hnd
  obtain ⟨h1, h2⟩ := advIxFrom_eval (i := i) (binds := advBinds in0 names a (arrsOf ixs))
    (ref := B) (B := B) (jump := none) ixs a.shape 0 B.length names hv hirest h.hn hls href
  simp only [advIndexWith, Spec.advIndex, Bool.false_eq_true, if_false]
  exact eval_sub_src _ _ _ a _ hl0 h1 h2

/-! ### the contiguous rule -/

def RAIdx.isSlice : RAIdx → Bool
  | .slice _ _ _ => true
  | _ => false

/-- before the block of advanced indices: one output axis per slice -/
theorem advShapeFrom_pre (last : Nat) (B : Shape) : ∀ (pre : List RAIdx) (ns : Shape) (p : Nat)
    (rest : List RAIdx), (∀ x ∈ pre, RAIdx.isSlice x = true) → p + pre.length ≤ last →
    pre.length ≤ ns.length →
    ∃ L : Shape, L.length = pre.length ∧
      advShapeFrom (some last) B p (pre ++ rest) ns
        = L ++ advShapeFrom (some last) B (p + pre.length) rest (ns.drop pre.length)
  | [], ns, p, rest, _, _, _ => ⟨[], rfl, by simp⟩
  | x :: pre, [], _, _, _, _, h => by simp at h
  | x :: pre, n :: ns, p, rest, hs, hp, hl => by
    have hx := hs x (by simp)
    cases x with
    | slice st sp step =>
      simp only [List.length_cons] at hp hl
      obtain ⟨L, hL, hE⟩ := advShapeFrom_pre last B pre ns (p + 1) rest
        (fun y hy => hs y (by simp [hy])) (by omega) (by omega)
      refine ⟨(cpyLen (cpyAdjust st sp step n)).toNat :: L, by simp [hL], ?_⟩
      have hj : ¬ (some last = some p) := by simp; omega
      simp only [List.cons_append, advShapeFrom, hj, if_false, List.nil_append, hE,
        List.length_cons, List.drop_succ_cons]
      congr 3; omega
    | int k => simp [RAIdx.isSlice] at hx
    | arr a nn => simp [RAIdx.isSlice] at hx

/-- inside the block: no output axis until its last position, where `B` is inserted -/
theorem advShapeFrom_blk (last : Nat) (B : Shape) : ∀ (blk : List RAIdx) (ns : Shape) (p : Nat)
    (post : List RAIdx), (∀ x ∈ blk, RAIdx.isSlice x = false) → blk ≠ [] →
    p + blk.length = last + 1 → blk.length ≤ ns.length →
    advShapeFrom (some last) B p (blk ++ post) ns
      = B ++ advShapeFrom (some last) B (last + 1) post (ns.drop blk.length)
  | [], _, _, _, _, h, _, _ => absurd rfl h
  | x :: blk, [], _, _, _, _, _, h => by simp at h
  | x :: blk, n :: ns, p, post, hs, _, hp, hl => by
    have hx := hs x (by simp)
    simp only [List.length_cons] at hp hl
    have hstep : advShapeFrom (some last) B p (x :: (blk ++ post)) (n :: ns)
        = (if some last = some p then B else []) ++ advShapeFrom (some last) B (p + 1) (blk ++ post) ns := by
      cases x with
      | slice st sp step => simp [RAIdx.isSlice] at hx
      | int k => simp [advShapeFrom]
      | arr a nn => simp [advShapeFrom]
    rw [List.cons_append, hstep]
    cases blk with
    | nil =>
      have : p = last := by simp at hp; omega
      subst this
      simp
    | cons y blk' =>
      have hj : ¬ (some last = some p) := by simp at hp ⊢; omega
      rw [if_neg hj, List.nil_append,
        advShapeFrom_blk last B (y :: blk') ns (p + 1) post (fun z hz => hs z (by simp [hz]))
          (by simp) (by simp at hp ⊢; omega) (by simpa using hl)]
      simp

theorem getD_replicate_append (m : Nat) (B : Shape) (t : Nat) :
    (List.replicate m 1 ++ B).getD (m + t) 0 = B.getD t 0 := by
  simp [List.getD_eq_getElem?_getD, List.getElem?_append_right]

theorem getD_drop (i : Idx) (m t : Nat) : (i.drop m).getD t 0 = i.getD (m + t) 0 := by
  simp [List.getD_eq_getElem?_getD, List.getElem?_drop]

/-- the segment structure of a contiguous advanced index: slices, then a
    non-empty block of integers / index arrays, then the rest -/
structure AdvSeg (ixs pre blk post : List RAIdx) (first last : Nat) : Prop where
  hix : ixs = pre ++ blk ++ post
  hpre : ∀ x ∈ pre, RAIdx.isSlice x = true
  hblk : ∀ x ∈ blk, RAIdx.isSlice x = false
  hne : blk ≠ []
  hfirst : first = pre.length
  hlast : last + 1 = pre.length + blk.length

theorem advValid_length : ∀ (ixs : List RAIdx) (ns : Shape), advValid ixs ns → ixs.length = ns.length
  | [], [], _ => rfl
  | [], _ :: _, h => by simp [advValid] at h
  | x :: _, [], h => by cases x <;> simp [advValid] at h
  | .int _ :: ixs, _ :: ns, h => by simp only [advValid] at h; simp [advValid_length ixs ns h.2]
  | .slice _ _ _ :: ixs, _ :: ns, h => by simp only [advValid] at h; simp [advValid_length ixs ns h.2]
  | .arr _ _ :: ixs, _ :: ns, h => by simp only [advValid] at h; simp [advValid_length ixs ns h.2]

theorem advValidAffine_length : ∀ (ixs : List RAIdx) (ns : Shape), advValidAffine ixs ns →
    ixs.length = ns.length
  | [], [], _ => rfl
  | [], _ :: _, h => by simp [advValidAffine] at h
  | x :: _, [], h => by cases x <;> simp [advValidAffine] at h
  | .int _ :: ixs, _ :: ns, h => by
    simp only [advValidAffine] at h; simp [advValidAffine_length ixs ns h.2]
  | .slice _ _ _ :: ixs, _ :: ns, h => by
    simp only [advValidAffine] at h; simp [advValidAffine_length ixs ns h.2]
  | .arr _ _ :: ixs, _ :: ns, h => by
    simp only [advValidAffine] at h; simp [advValidAffine_length ixs ns h]

theorem advValid_affine : ∀ (ixs : List RAIdx) (ns : Shape), advValid ixs ns → advValidAffine ixs ns
  | [], [], _ => trivial
  | [], _ :: _, h => by simp [advValid] at h
  | x :: _, [], h => by cases x <;> simp [advValid] at h
  | .int _ :: ixs, _ :: ns, h => by
    simp only [advValid] at h; exact ⟨h.1, advValid_affine ixs ns h.2⟩
  | .slice _ _ _ :: ixs, _ :: ns, h => by
    simp only [advValid] at h; exact ⟨h.1, advValid_affine ixs ns h.2⟩
  | .arr _ _ :: ixs, _ :: ns, h => by
    simp only [advValid] at h; exact advValid_affine ixs ns h.2

/-- the facts the contiguous rule's loop starts from -/
theorem contig_facts {B first last ixs a in0 names i} {pre blk post : List RAIdx}
    (h : AdvOK true B first last ixs a in0 names i) (hs : AdvSeg ixs pre blk post first last) :
    inB (advShapeFrom (some last) B 0 ixs a.shape) (i.drop 0) = true ∧
    ∀ x ∈ arrsOf ixs, ArrRefOK (List.replicate first 1 ++ B) i x.shape := by
  have hi := h.hi
  simp only [Spec.advIndex, if_true] at hi
  have hlen := advValidAffine_length ixs a.shape h.hv
  have hlenseg : ixs.length = pre.length + blk.length + post.length := by
    rw [hs.hix]; simp; omega
  obtain ⟨L, hL, hE1⟩ := advShapeFrom_pre last B pre a.shape 0 (blk ++ post) hs.hpre
    (by have := hs.hlast; have : 0 < blk.length := List.length_pos_iff.mpr hs.hne; omega)
    (by omega)
  have hE2 := advShapeFrom_blk last B blk (a.shape.drop pre.length) (0 + pre.length) post hs.hblk
    hs.hne (by have := hs.hlast; omega) (by simp; omega)
  have hshape : advShapeFrom (some last) B 0 ixs a.shape
      = L ++ (B ++ advShapeFrom (some last) B (last + 1) post
          ((a.shape.drop pre.length).drop blk.length)) := by
    rw [hs.hix, List.append_assoc, hE1, hE2]
  have hi0 : inB (advShapeFrom (some last) B 0 ixs a.shape) (i.drop 0) = true := by simpa using hi
  rw [hshape] at hi
  obtain ⟨_, hi2⟩ := inB_append_split _ _ _ hi
  obtain ⟨hiB, _⟩ := inB_append_split _ _ _ hi2
  have hil := inB_length hi
  simp only [List.length_append] at hil
  rw [hL, ← hs.hfirst] at hi2 hiB hil
  refine ⟨hi0, fun x hx => ?_⟩
  have hb := h.hB x hx
  have hsl := hb.1
  have hrl : (List.replicate first 1 ++ B).length = first + B.length := by simp
  have hoff : ∀ k, (List.replicate first 1 ++ B).length - x.shape.length + k
      = first + (B.length - x.shape.length + k) := by intro k; omega
  refine ⟨⟨by omega, fun k hk => ?_⟩, by omega, fun k hk => ?_⟩
  · rw [hoff, getD_replicate_append]; exact hb.2 k hk
  · rw [hoff, getD_replicate_append]
    have := inB_getD_lt (B.length - x.shape.length + k) hiB (by omega)
    rwa [getD_take_lt _ _ _ (by omega), getD_drop] at this

theorem advIndex_contig_eval {B first last ixs a in0 names i} {pre blk post : List RAIdx}
    (h : AdvOK true B first last ixs a in0 names i) (hs : AdvSeg ixs pre blk post first last)
    (hv : advValid ixs a.shape) :
    eval (idxEnv i (advBinds in0 names a (arrsOf ixs)))
        (advIndexWith true first last in0 names B (normAIdx a.shape ixs) a.shape)
      = (Spec.advIndex true B first last ixs a).get i := by
  obtain ⟨hi0, href⟩ := contig_facts h hs
  obtain ⟨hl0, hls⟩ := advBinds_lookups i in0 names a (arrsOf ixs) h.hnd
  obtain ⟨h1, h2⟩ := advIxFrom_eval (i := i) (binds := advBinds in0 names a (arrsOf ixs))
    (ref := List.replicate first 1 ++ B) (B := B) (jump := some last) ixs a.shape 0 0 names
    hv hi0 h.hn hls href
  simp only [advIndexWith, Spec.advIndex, if_true]
  have hrl : (List.replicate first 1 ++ B).length = first + B.length := by simp
  rw [hrl] at h1 h2
  exact eval_sub_src _ _ _ a _ hl0 h1 h2

/-! ### accesses: what holds without any assumption on the index arrays' values -/

theorem hasSubList_bcastSubscript (s r : Shape) : hasSubList (bcastSubscript s r) = false := by
  apply hasSubList_map_range
  intro k
  split_ifs <;> simp [hasSub, ivar]

theorem accesses_arrIx (i : Idx) (b : List (String × Arr Val)) (nm : String) (a : Arr Val) (nn : Bool)
    (n : Nat) (ref : Shape) (hl : (idxEnv i b).lookupArr nm = some a) (hr : ArrRefOK ref i a.shape) :
    ∀ acc ∈ accesses (idxEnv i b) (arrIx nm a.shape ref nn n), acc.ok = true ∧ acc.affine = true := by
  obtain ⟨hev, hin⟩ := bcastSubscript_eval_at a.shape ref i b hr.1 hr.2.1 hr.2.2
  have hacc := accesses_sub_ok (idxEnv i b) nm _ a _ (hasSubList_bcastSubscript a.shape ref) hl
    (by rw [evalList_eq_map, hev, toNatIdx_map_i]) hin
  intro acc h
  unfold arrIx at h
  cases nn with
  | true =>
    simp only [if_true] at h
    rw [hacc] at h; simp only [List.mem_singleton] at h; subst h; exact ⟨rfl, rfl⟩
  | false =>
    simp only [Bool.false_eq_true, if_false] at h
    have hrem : accesses (idxEnv i b) (.rem (.sub nm (bcastSubscript a.shape ref)) (.int n))
        = accesses (idxEnv i b) (.sub nm (bcastSubscript a.shape ref)) ++ [] := rfl
    rw [hrem, List.append_nil, hacc] at h
    simp only [List.mem_singleton] at h; subst h; exact ⟨rfl, rfl⟩

variable {i : Idx} {binds : List (String × Arr Val)} {ref B : Shape} {jump : Option Nat} in
/-- the index arrays are read affinely and in bounds; the integer / slice
    components of the main index are within their axes — whatever the index
    arrays contain -/
theorem advIxFrom_accesses :
    ∀ (ixs : List RAIdx) (ns : Shape) (p c : Nat) (names : List String),
      advValidAffine ixs ns →
      inB (advShapeFrom jump B p ixs ns) (i.drop c) = true →
      names.length = (arrsOf ixs).length →
      (∀ k (h : k < names.length) (h' : k < (arrsOf ixs).length),
        (idxEnv i binds).lookupArr names[k] = some (arrsOf ixs)[k]) →
      (∀ a ∈ arrsOf ixs, ArrRefOK ref i a.shape) →
      (∀ acc ∈ accessesList (idxEnv i binds)
          (advIxFrom ref jump B.length p c (normAIdx ns ixs) ns names),
        acc.ok = true ∧ acc.affine = true)
      ∧ affinePartsOK ixs ns (evalList (idxEnv i binds)
          (advIxFrom ref jump B.length p c (normAIdx ns ixs) ns names))
  | [], [], _, _, _, _, _, _, _, _ => by
    simp [normAIdx, advIxFrom, accessesList, evalList, affinePartsOK]
  | [], _ :: _, _, _, _, hv, _, _, _, _ => by simp [advValidAffine] at hv
  | x :: _, [], _, _, _, hv, _, _, _, _ => by cases x <;> simp [advValidAffine] at hv
  | .int k :: ixs, n :: ns, p, c, names, hv, hi, hn, hl, hr => by
    simp only [advValidAffine] at hv
    simp only [advShapeFrom] at hi
    obtain ⟨h1, h2⟩ := advIxFrom_accesses ixs ns (p + 1) _ names hv.2 (inB_skip hi) hn hl hr
    obtain ⟨e1, e2⟩ := eval_intIx (idxEnv i binds) k n hv.1
    simp only [normAIdx, advIxFrom, accessesList, accesses, List.nil_append, evalList,
      affinePartsOK]
    exact ⟨h1, ⟨_, e1, e2⟩, h2⟩
  | .slice st sp step :: ixs, n :: ns, p, c, names, hv, hi, hn, hl, hr => by
    simp only [advValidAffine] at hv
    simp only [advShapeFrom] at hi
    obtain ⟨hc, hx, hrest⟩ := drop_cons_of_inB hi
    obtain ⟨h1, h2⟩ := advIxFrom_accesses ixs ns (p + 1) _ names hv.2 (inB_skip hrest) hn hl hr
    have hlen0 := slice_len_nonneg (cpyAdjust st sp step n)
    obtain ⟨e1, e2⟩ := eval_sliceIx i binds st sp step n c (i.getD c 0) hv.1 hc rfl (by omega)
    have hns : accesses (idxEnv i binds) (sliceIx (ptNormSlice st sp step n) n c) = [] := by
      apply accesses_nil_of_noSub
      unfold sliceIx; split_ifs <;> simp [hasSub, ivar]
    simp only [normAIdx, advIxFrom, accessesList, hns, List.nil_append, evalList, affinePartsOK]
    exact ⟨h1, ⟨_, e1, e2⟩, h2⟩
  | .arr a nn :: ixs, n :: ns, p, c, names, hv, hi, hn, hl, hr => by
    simp only [advValidAffine] at hv
    simp only [advShapeFrom] at hi
    cases names with
    | nil => simp [arrsOf] at hn
    | cons nm names =>
      have hl0 := hl 0 (by simp) (by simp [arrsOf])
      simp only [List.getElem_cons_zero, arrsOf] at hl0
      obtain ⟨h1, h2⟩ := advIxFrom_accesses ixs ns (p + 1) _ names hv (inB_skip hi)
        (by simpa [arrsOf] using hn)
        (fun k h h' => by
          have := hl (k + 1) (by simpa using h) (by simpa [arrsOf] using h')
          simpa [arrsOf] using this)
        (fun a' ha' => hr a' (by simp [arrsOf, ha']))
      have ha := accesses_arrIx i binds nm a nn n ref hl0 (hr a (by simp [arrsOf]))
      simp only [normAIdx, advIxFrom, accessesList, evalList, affinePartsOK, List.mem_append]
      exact ⟨fun acc hacc => hacc.elim (ha acc) (h1 acc), h2⟩

/-- accesses of either rule, whatever the index arrays contain.  The expression is
    `in0[ix]`; its accesses are `accessesList env ix ++ [the access of in0 at evalList env ix]`
    (by definition of `accesses`).  Every access made by the index expressions
    (the reads of the index arrays) is affine and in bounds; and the integer /
    slice components of the (data-dependent) index into `in0` are within their axes. -/
theorem advIndexWith_accesses {contig B first last ixs a in0 names i}
    (h : AdvOK contig B first last ixs a in0 names i)
    (hs : contig = true → ∃ pre blk post, AdvSeg ixs pre blk post first last) :
    ∃ ix, advIndexWith contig first last in0 names B (normAIdx a.shape ixs) a.shape = .sub in0 ix ∧
      (∀ acc ∈ accessesList (idxEnv i (advBinds in0 names a (arrsOf ixs))) ix,
        acc.ok = true ∧ acc.affine = true) ∧
      affinePartsOK ixs a.shape (evalList (idxEnv i (advBinds in0 names a (arrsOf ixs))) ix) := by
  obtain ⟨hl0, hls⟩ := advBinds_lookups i in0 names a (arrsOf ixs) h.hnd
  cases contig with
  | false =>
    obtain ⟨hirest, href⟩ := noncontig_facts h
    obtain ⟨h1, h2⟩ := advIxFrom_accesses (i := i) (binds := advBinds in0 names a (arrsOf ixs))
      (ref := B) (B := B) (jump := none) ixs a.shape 0 B.length names h.hv hirest h.hn hls href
    simp only [advIndexWith, Bool.false_eq_true, if_false]
    exact ⟨_, rfl, h1, h2⟩
  | true =>
    obtain ⟨pre, blk, post, hseg⟩ := hs rfl
    obtain ⟨hi0, href⟩ := contig_facts h hseg
    obtain ⟨h1, h2⟩ := advIxFrom_accesses (i := i) (binds := advBinds in0 names a (arrsOf ixs))
      (ref := List.replicate first 1 ++ B) (B := B) (jump := some last) ixs a.shape 0 0 names
      h.hv hi0 h.hn hls href
    simp only [advIndexWith, if_true]
    exact ⟨_, rfl, h1, h2⟩

end Pt

/-
  Properties C01 / C07 — the kernels of the statement generator pass the static check
  (`checkKernel`), on the reduction-free fragment: single assignment, distinct ids, every
  dependency an existing (earlier) statement, every array a statement reads an input or written
  by a statement it depends on, loop variables never written.  Hence
  `checked_kernel_schedule_independent` applies to them.
-/
import PtProofs.C01Gen
namespace Pt
namespace LG

/-! ## what a result reads, and who wrote it -/

def implReads : Impl → List String
  | .stored name _ => [name]
  | .inlined le _ => readNames le

/-- every array `r` reads is an input or is written by a statement of `S` that `r` depends on -/
def Cov (inputNames : List String) (S : List KStmt) (r : Impl) : Prop :=
  (∀ d ∈ r.deps, d ∈ S.map (·.id)) ∧
  ∀ x ∈ implReads r, x ∈ inputNames ∨ ∃ w ∈ S, w.lhs = x ∧ w.id ∈ r.deps

def NsCov (inputNames : List String) (S : List KStmt) (ns : List (String × Impl)) : Prop :=
  ∀ x r, lookupNs ns x = some r → Cov inputNames S r

theorem toExpr_reads_cov (r : Impl) (s : List SExpr) : ∀ x ∈ readNames (r.toExpr s),
    x ∈ implReads r ∨ x ∈ readNamesList s := by
  intro x hx
  cases r with
  | stored name deps =>
    simp only [Impl.toExpr] at hx
    split at hx
    · exact Or.inl (by simpa [implReads, readNames] using hx)
    · simp only [readNames, List.mem_cons] at hx
      rcases hx with rfl | hx
      · exact Or.inl (by simp [implReads])
      · exact Or.inr hx
  | inlined le deps =>
    simp only [Impl.toExpr] at hx
    exact readNames_substIdx_sub s le x hx

section GenCov
variable {inputNames : List String} {S : List KStmt} {ns : List (String × Impl)}
  (hns : NsCov inputNames S ns)
include hns

mutual
/-- the generated expression reads reduction variables in scope, inputs, or arrays written by
    statements among the collected dependencies; the dependencies are ids of statements -/
theorem gen_cov (n : Nat) : ∀ (e le : SExpr) (scope : List String), exprOK n e = true → gen ns scope e = some le →
    (∀ d ∈ genDeps ns scope e, d ∈ S.map (·.id)) ∧
    ∀ x ∈ readNames le, x ∈ scope ∨ x ∈ inputNames ∨ ∃ w ∈ S, w.lhs = x ∧ w.id ∈ genDeps ns scope e
  | .int _, le, scope, _, h | .rat _ _, le, scope, _, h | .nan, le, scope, _, h | .idx _, le, scope, _, h => by
    simp only [gen, Option.some.injEq] at h; subst h
    exact ⟨by simp [genDeps], by simp [readNames]⟩
  | .bool _, _, _, hok, _ => by simp [exprOK] at hok
  | .var x, le, scope, _, h => by
    simp only [gen] at h
    by_cases hsc : scope.contains x = true
    · rw [if_pos hsc] at h
      simp only [Option.some.injEq] at h; subst h
      have hgd : genDeps ns scope (.var x) = [] := by simp only [genDeps]; rw [if_pos hsc]
      refine ⟨by rw [hgd]; simp, fun y hy => ?_⟩
      simp only [readNames, List.mem_singleton] at hy
      exact Or.inl (by rw [hy]; simpa using hsc)
    · rw [if_neg hsc] at h
      cases hl : lookupNs ns x with
      | none => simp [hl] at h
      | some r =>
        simp only [hl, Option.some.injEq] at h; subst h
        obtain ⟨hd, hr⟩ := hns x r hl
        have hgd : genDeps ns scope (.var x) = r.deps := by simp only [genDeps]; rw [if_neg hsc, hl]
        refine ⟨by rw [hgd]; exact hd, fun y hy => ?_⟩
        rcases toExpr_reads_cov r [] y hy with hy | hy
        · rcases hr y hy with h | ⟨w, hw, he, hi⟩
          · exact Or.inr (Or.inl h)
          · exact Or.inr (Or.inr ⟨w, hw, he, by rw [hgd]; exact hi⟩)
        · simp [readNamesList] at hy
  | .sub a ix, le, scope, hok, h => by
    simp only [exprOK] at hok
    simp only [gen] at h
    cases hix : genList ns scope ix with
    | none => simp [hix] at h
    | some ix' =>
      cases hl : lookupNs ns a with
      | none => simp [hix, hl] at h
      | some r =>
        simp only [hix, hl, Option.some.injEq] at h; subst h
        obtain ⟨hd, hr⟩ := hns a r hl
        obtain ⟨hid, hir⟩ := genList_cov n ix ix' scope hok hix
        refine ⟨?_, fun y hy => ?_⟩
        · intro d hd'
          simp only [genDeps, hl, List.mem_append] at hd'
          rcases hd' with hd' | hd'
          · exact hid d hd'
          · exact hd d hd'
        · rcases toExpr_reads_cov r ix' y hy with hy | hy
          · rcases hr y hy with h | ⟨w, hw, he, hi⟩
            · exact Or.inr (Or.inl h)
            · exact Or.inr (Or.inr ⟨w, hw, he, by simp [genDeps, hl, hi]⟩)
          · rcases hir y hy with h | h | ⟨w, hw, he, hi⟩
            · exact Or.inl h
            · exact Or.inr (Or.inl h)
            · exact Or.inr (Or.inr ⟨w, hw, he, by simp [genDeps, hi]⟩)
  | .add a c, le, scope, hok, h | .mul a c, le, scope, hok, h | .quot a c, le, scope, hok, h
  | .fdiv a c, le, scope, hok, h | .rem a c, le, scope, hok, h | .pow a c, le, scope, hok, h
  | .cmp _ a c, le, scope, hok, h | .land a c, le, scope, hok, h | .lor a c, le, scope, hok, h => by
    simp only [exprOK, Bool.and_eq_true] at hok
    simp only [gen] at h
    cases hx : gen ns scope a with
    | none => simp [hx] at h
    | some x =>
      cases hy : gen ns scope c with
      | none => simp [hx, hy] at h
      | some y =>
        simp only [hx, hy, Option.some.injEq] at h; subst h
        obtain ⟨ha1, ha2⟩ := gen_cov n a x scope hok.1 hx
        obtain ⟨hc1, hc2⟩ := gen_cov n c y scope hok.2 hy
        refine ⟨?_, fun z hz => ?_⟩
        · intro d hd
          simp only [genDeps, List.mem_append] at hd
          rcases hd with hd | hd
          · exact ha1 d hd
          · exact hc1 d hd
        · simp only [readNames, List.mem_append] at hz
          rcases hz with hz | hz
          · rcases ha2 z hz with h | h | ⟨w, hw, he, hi⟩
            · exact Or.inl h
            · exact Or.inr (Or.inl h)
            · exact Or.inr (Or.inr ⟨w, hw, he, by simp [genDeps, hi]⟩)
          · rcases hc2 z hz with h | h | ⟨w, hw, he, hi⟩
            · exact Or.inl h
            · exact Or.inr (Or.inl h)
            · exact Or.inr (Or.inr ⟨w, hw, he, by simp [genDeps, hi]⟩)
  | .lnot a, le, scope, hok, h | .cast _ a, le, scope, hok, h => by
    simp only [exprOK] at hok
    simp only [gen] at h
    cases hx : gen ns scope a with
    | none => simp [hx] at h
    | some x =>
      simp only [hx, Option.some.injEq] at h; subst h
      obtain ⟨ha1, ha2⟩ := gen_cov n a x scope hok hx
      exact ⟨by simpa [genDeps] using ha1, by simpa [readNames, genDeps] using ha2⟩
  | .ite c t e, le, scope, hok, h => by
    simp only [exprOK, Bool.and_eq_true] at hok
    simp only [gen] at h
    cases hx : gen ns scope c with
    | none => simp [hx] at h
    | some x =>
      cases hy : gen ns scope t with
      | none => simp [hx, hy] at h
      | some y =>
        cases hz : gen ns scope e with
        | none => simp [hx, hy, hz] at h
        | some z =>
          simp only [hx, hy, hz, Option.some.injEq] at h; subst h
          obtain ⟨hc1, hc2⟩ := gen_cov n c x scope hok.1.1 hx
          obtain ⟨ht1, ht2⟩ := gen_cov n t y scope hok.1.2 hy
          obtain ⟨he1, he2⟩ := gen_cov n e z scope hok.2 hz
          refine ⟨?_, fun v hv => ?_⟩
          · intro d hd
            simp only [genDeps, List.mem_append] at hd
            rcases hd with (hd | hd) | hd
            · exact hc1 d hd
            · exact ht1 d hd
            · exact he1 d hd
          · simp only [readNames, List.mem_append] at hv
            rcases hv with (hv | hv) | hv
            · rcases hc2 v hv with h | h | ⟨w, hw, he, hi⟩
              · exact Or.inl h
              · exact Or.inr (Or.inl h)
              · exact Or.inr (Or.inr ⟨w, hw, he, by simp [genDeps, hi]⟩)
            · rcases ht2 v hv with h | h | ⟨w, hw, he, hi⟩
              · exact Or.inl h
              · exact Or.inr (Or.inl h)
              · exact Or.inr (Or.inr ⟨w, hw, he, by simp [genDeps, hi]⟩)
            · rcases he2 v hv with h | h | ⟨w, hw, he, hi⟩
              · exact Or.inl h
              · exact Or.inr (Or.inl h)
              · exact Or.inr (Or.inr ⟨w, hw, he, by simp [genDeps, hi]⟩)
  | .reduce .., _, _, hok, _ => by simp [exprOK] at hok
  | .call f args, le, scope, hok, h => by
    simp only [exprOK] at hok
    simp only [gen] at h
    by_cases hz : (f == "pytato.zero") = true
    · rw [if_pos hz] at h
      simp only [Option.some.injEq] at h; subst h
      exact ⟨by simp [genDeps, hz], by simp [readNames]⟩
    · rw [if_neg hz] at h
      cases hx : genList ns scope args with
      | none => simp [hx] at h
      | some as =>
        simp only [hx, Option.some.injEq] at h; subst h
        obtain ⟨h1, h2⟩ := genList_cov n args as scope hok hx
        exact ⟨by simpa [genDeps, hz] using h1, by simpa [readNames, genDeps, hz] using h2⟩
theorem genList_cov (n : Nat) : ∀ (es les : List SExpr) (scope : List String), exprOKList n es = true →
    genList ns scope es = some les →
    (∀ d ∈ genDepsList ns scope es, d ∈ S.map (·.id)) ∧
    ∀ x ∈ readNamesList les, x ∈ scope ∨ x ∈ inputNames ∨
      ∃ w ∈ S, w.lhs = x ∧ w.id ∈ genDepsList ns scope es
  | [], les, scope, _, h => by
    simp only [genList, Option.some.injEq] at h; subst h
    exact ⟨by simp [genDepsList], by simp [readNamesList]⟩
  | e :: es, les, scope, hok, h => by
    simp only [exprOKList, Bool.and_eq_true] at hok
    simp only [genList] at h
    cases hx : gen ns scope e with
    | none => simp [hx] at h
    | some x =>
      cases hy : genList ns scope es with
      | none => simp [hx, hy] at h
      | some xs =>
        simp only [hx, hy, Option.some.injEq] at h; subst h
        obtain ⟨ha1, ha2⟩ := gen_cov n e x scope hok.1 hx
        obtain ⟨hc1, hc2⟩ := genList_cov n es xs scope hok.2 hy
        refine ⟨?_, fun z hz => ?_⟩
        · intro d hd
          simp only [genDepsList, List.mem_append] at hd
          rcases hd with hd | hd
          · exact ha1 d hd
          · exact hc1 d hd
        · simp only [readNamesList, List.mem_append] at hz
          rcases hz with hz | hz
          · rcases ha2 z hz with h | h | ⟨w, hw, he, hi⟩
            · exact Or.inl h
            · exact Or.inr (Or.inl h)
            · exact Or.inr (Or.inr ⟨w, hw, he, by simp [genDepsList, hi]⟩)
          · rcases hc2 z hz with h | h | ⟨w, hw, he, hi⟩
            · exact Or.inl h
            · exact Or.inr (Or.inl h)
            · exact Or.inr (Or.inr ⟨w, hw, he, by simp [genDepsList, hi]⟩)
end

end GenCov

/-! ## sets of ids -/

theorem mem_insertStr (x y : String) : ∀ (l : List String), y ∈ insertStr x l ↔ y = x ∨ y ∈ l
  | [] => by simp [insertStr]
  | z :: r => by
    unfold insertStr
    split
    · simp
    · split
      · rename_i _ hxz
        have : x = z := by simpa using hxz
        subst this
        simp
      · simp only [List.mem_cons, mem_insertStr x y r]
        constructor
        · rintro (h | h | h)
          · exact Or.inr (Or.inl h)
          · exact Or.inl h
          · exact Or.inr (Or.inr h)
        · rintro (h | h | h)
          · exact Or.inr (Or.inl h)
          · exact Or.inl h
          · exact Or.inr (Or.inr h)

theorem mem_normDeps (y : String) : ∀ (l : List String), y ∈ normDeps l ↔ y ∈ l
  | [] => by simp [normDeps]
  | x :: r => by simp [normDeps, mem_insertStr, mem_normDeps y r]

/-! ## what a generated store reads -/

theorem box_reads : ∀ (inames : List String) (shape : Shape),
    (box inames shape).flatMap (fun l => readNames l.2.1 ++ readNames l.2.2) = []
  | [], _ => by simp [box]
  | _ :: _, [] => by simp [box]
  | i :: is, d :: ds => by
    have ih := box_reads is ds
    unfold box at ih ⊢
    simp [readNames, ih]

theorem box_names : ∀ (inames : List String) (shape : Shape), inames.length = shape.length →
    (box inames shape).map (·.1) = inames
  | [], [], _ => rfl
  | [], _ :: _, h => by simp at h
  | _ :: _, [], h => by simp at h
  | i :: is, d :: ds, h => by
    have ih := box_names is ds (by simpa using h)
    unfold box at ih ⊢
    simp [ih]

theorem storeStmt_facts {id name : String} {inames : List String} {shape : Shape} {rhs : SExpr}
    {deps : List String} (hne : isEmptyShape shape = false) (hlen : inames.length = shape.length) :
    let s := storeStmt id name inames shape [] rhs deps
    s.noop = false ∧ s.id = id ∧ s.lhs = name ∧ s.locals = inames ∧ (∀ d, d ∈ s.deps ↔ d ∈ deps) ∧
      ∀ x, x ∈ s.reads ↔ x ∈ readNames rhs ∧ x ∉ inames := by
  have hs : storeStmt id name inames shape [] rhs deps =
      { id := id, lhs := name, lhsIdx := inameVars inames, loops := box inames shape, lets := [], rhs := rhs,
        deps := normDeps deps } := by
    unfold storeStmt; rw [hne]; rfl
  rw [hs]
  refine ⟨rfl, rfl, rfl, ?_, fun d => mem_normDeps d deps, fun x => ?_⟩
  · simp [KStmt.locals, box_names inames shape hlen]
  · simp only [KStmt.reads, KStmt.rawReads, KStmt.locals, List.flatMap_nil, List.append_nil, box_reads,
      readNamesList_inameVars, List.map_nil, box_names inames shape hlen, List.mem_filter, List.mem_append,
      Bool.not_eq_true', List.contains_eq_mem, decide_eq_false_iff_not]
    constructor
    · rintro ⟨h | h, hn⟩
      · exact ⟨h, hn⟩
      · exact absurd h hn
    · rintro ⟨h, hn⟩
      exact ⟨Or.inl h, hn⟩

/-! ## the structural invariant -/

section Checks
variable (g : LGraph) (inputNames E0 done : List String)

/-- `s` is well-formed with respect to the statements `post` emitted before it -/
def StmtOK (post : List KStmt) (s : KStmt) : Prop :=
  (∀ d ∈ s.deps, d ∈ post.map (·.id)) ∧ s.lhs ∉ s.reads ∧
  ∀ x ∈ s.reads, x ∈ inputNames ∨ ∃ w ∈ post, w.lhs = x ∧ w.id ∈ s.deps

structure SInv (st : St) : Prop where
  names : ∀ x, arrNames inputNames st x → x ∈ st.vng.existing
  seeds : ∀ x ∈ E0, x ∈ st.vng.existing
  origin : ∀ s ∈ st.stmts, s.lhs ∈ done ∨ s.lhs ∉ E0
  active : ∀ s ∈ st.stmts, s.noop = false
  idsKnown : ∀ s ∈ st.stmts, s.id ∈ st.ing.existing
  idsNodup : (st.stmts.map (·.id)).Nodup
  lhsNodup : (st.stmts.map (·.lhs)).Nodup
  locals : ∀ s ∈ st.stmts, ∀ x ∈ s.locals, x ∈ st.vng.existing ∧ x ∉ E0 ∧ ∀ w ∈ st.stmts, x ≠ w.lhs
  stmtOK : ∀ pre s post, st.stmts = pre ++ s :: post → StmtOK inputNames post s
  results : ∀ i r, (i, r) ∈ st.results → Cov inputNames st.stmts r
  lhsNotInput : ∀ s ∈ st.stmts, s.lhs ∉ inputNames

variable {g inputNames E0 done}

theorem SInv.grow {st st1 : St} (h : SInv inputNames E0 done st) (hs : st1.stmts = st.stmts)
    (hr : st1.results = st.results) (he : ∀ x ∈ st.vng.existing, x ∈ st1.vng.existing)
    (hi : ∀ x ∈ st.ing.existing, x ∈ st1.ing.existing) : SInv inputNames E0 done st1 := by
  have ha : arrNames inputNames st1 = arrNames inputNames st := by
    funext x; simp [arrNames, hs]
  refine ⟨fun x hx => he x (h.names x (ha ▸ hx)), fun x hx => he x (h.seeds x hx), by rw [hs]; exact h.origin,
    by rw [hs]; exact h.active, ?_, by rw [hs]; exact h.idsNodup, by rw [hs]; exact h.lhsNodup, ?_,
    by rw [hs]; exact h.stmtOK, by rw [hs, hr]; exact h.results, by rw [hs]; exact h.lhsNotInput⟩
  · rw [hs]; exact fun s hs' => hi _ (h.idsKnown s hs')
  · rw [hs]
    intro s hs' x hx
    obtain ⟨a, b, c⟩ := h.locals s hs' x hx
    exact ⟨he x a, b, c⟩

theorem SInv.drew {st st1 : St} {n : String} (h : SInv inputNames E0 done st) (d : Drew st st1 n) :
    SInv inputNames E0 done st1 :=
  h.grow d.stmts d.results (fun x hx => by rw [d.ex]; exact List.mem_cons_of_mem _ hx)
    (fun x hx => by rw [d.ing]; exact hx)

theorem SInv.drewMany {st st1 : St} {ns : List String} (h : SInv inputNames E0 done st)
    (d : DrewMany st st1 ns) : SInv inputNames E0 done st1 :=
  h.grow d.stmts d.results (fun x hx => (d.mem x).2 (Or.inr hx)) (fun x hx => by rw [d.ing]; exact hx)

theorem Cov.mono {S : List KStmt} {s : KStmt} {r : Impl} (h : Cov inputNames S r) :
    Cov inputNames (s :: S) r :=
  ⟨fun d hd => List.mem_cons_of_mem _ (h.1 d hd), fun x hx => (h.2 x hx).imp id
    (fun ⟨w, hw, a, b⟩ => ⟨w, List.mem_cons_of_mem _ hw, a, b⟩)⟩

/-- **emitting a store**, structurally -/
theorem SInv.emit {st : St} (hinv : SInv inputNames E0 done st) {id name : String}
    {inames : List String} {shape : Shape} {rhs : SExpr} {deps : List String} {i : Nat}
    (hne : isEmptyShape shape = false) (hlen : inames.length = shape.length)
    (hname : ¬ arrNames inputNames st name) (hnameEx : name ∈ st.vng.existing)
    (horigin : name ∈ done ∨ name ∉ E0)
    (hidFresh : id ∉ st.stmts.map (·.id)) (hidKnown : id ∈ st.ing.existing)
    (hinEx : ∀ x ∈ inames, x ∈ st.vng.existing ∧ x ∉ E0)
    (hinLhs : ∀ x ∈ inames, x ≠ name ∧ ∀ w ∈ st.stmts, x ≠ w.lhs)
    (holdLocals : ∀ s ∈ st.stmts, ∀ x ∈ s.locals, x ≠ name)
    (hdeps : ∀ d ∈ deps, d ∈ st.stmts.map (·.id))
    (hread : name ∉ readNames rhs)
    (hcov : ∀ x ∈ readNames rhs, x ∈ inames ∨ x ∈ inputNames ∨ ∃ w ∈ st.stmts, w.lhs = x ∧ w.id ∈ deps) :
    SInv inputNames E0 done
      ((st.emit (storeStmt id name inames shape [] rhs deps)).remember i (.stored name [id])) := by
  obtain ⟨hact, hsid, hlhs, hloc, hdm, hrd⟩ := storeStmt_facts (id := id) (name := name) (rhs := rhs)
    (deps := deps) hne hlen
  have hnl : name ∉ st.stmts.map (·.lhs) := fun h => hname (Or.inr h)
  refine ⟨?_, hinv.seeds, ?_, ?_, ?_, ?_, ?_, ?_, ?_, ?_, ?_⟩
  rotate_right
  · intro s hs
    simp only [St.remember, St.emit, List.mem_cons] at hs
    rcases hs with rfl | hs
    · rw [hlhs]; exact fun h => hname (Or.inl h)
    · exact hinv.lhsNotInput s hs
  · intro x hx
    simp only [arrNames, St.remember, St.emit, List.map_cons, List.mem_cons, hlhs] at hx
    rcases hx with hx | rfl | hx
    · exact hinv.names x (Or.inl hx)
    · exact hnameEx
    · exact hinv.names x (Or.inr hx)
  · intro s hs
    simp only [St.remember, St.emit, List.mem_cons] at hs
    rcases hs with rfl | hs
    · rw [hlhs]; exact horigin
    · exact hinv.origin s hs
  · intro s hs
    simp only [St.remember, St.emit, List.mem_cons] at hs
    rcases hs with rfl | hs
    · exact hact
    · exact hinv.active s hs
  · intro s hs
    simp only [St.remember, St.emit, List.mem_cons] at hs
    rcases hs with rfl | hs
    · rw [hsid]; exact hidKnown
    · exact hinv.idsKnown s hs
  · simp only [St.remember, St.emit, List.map_cons, hsid]
    exact List.nodup_cons.2 ⟨hidFresh, hinv.idsNodup⟩
  · simp only [St.remember, St.emit, List.map_cons, hlhs]
    exact List.nodup_cons.2 ⟨hnl, hinv.lhsNodup⟩
  · intro s hs x hx
    simp only [St.remember, St.emit, List.mem_cons] at hs
    rcases hs with rfl | hs
    · rw [hloc] at hx
      refine ⟨(hinEx x hx).1, (hinEx x hx).2, fun w hw => ?_⟩
      simp only [St.remember, St.emit, List.mem_cons] at hw
      rcases hw with rfl | hw
      · rw [hlhs]; exact (hinLhs x hx).1
      · exact (hinLhs x hx).2 w hw
    · obtain ⟨a, b, c⟩ := hinv.locals s hs x hx
      refine ⟨a, b, fun w hw => ?_⟩
      simp only [St.remember, St.emit, List.mem_cons] at hw
      rcases hw with rfl | hw
      · rw [hlhs]; exact holdLocals s hs x hx
      · exact c w hw
  · intro pre s post hsplit
    simp only [St.remember, St.emit] at hsplit
    cases pre with
    | nil =>
      simp only [List.nil_append, List.cons.injEq] at hsplit
      obtain ⟨rfl, rfl⟩ := hsplit
      refine ⟨fun d hd => hdeps d ((hdm d).1 hd), ?_, fun x hx => ?_⟩
      · rw [hlhs]
        exact fun h => hread ((hrd name).1 h).1
      · obtain ⟨hx1, hx2⟩ := (hrd x).1 hx
        rcases hcov x hx1 with h | h | ⟨w, hw, a, b⟩
        · exact absurd h hx2
        · exact Or.inl h
        · exact Or.inr ⟨w, hw, a, (hdm _).2 b⟩
    | cons p pre' =>
      simp only [List.cons_append, List.cons.injEq] at hsplit
      exact hinv.stmtOK pre' s post hsplit.2
  · intro j r hm
    simp only [St.remember, St.emit, List.mem_cons, Prod.mk.injEq] at hm
    rcases hm with ⟨rfl, rfl⟩ | hm
    · refine ⟨fun d hd => ?_, fun x hx => ?_⟩
      · simp only [Impl.deps, List.mem_singleton] at hd
        subst hd
        exact List.mem_map.2 ⟨_, List.mem_cons_self, hsid⟩
      · simp only [implReads, List.mem_singleton] at hx
        subst hx
        exact Or.inr ⟨_, List.mem_cons_self, hlhs, by simp [Impl.deps, hsid]⟩
    · exact (hinv.results j r hm).mono

theorem SInv.insnId {st st1 : St} {b n : String} (h : SInv inputNames E0 done st)
    (hi : st.insnId b = .ok (n, st1)) :
    SInv inputNames E0 done st1 ∧ n ∉ st.stmts.map (·.id) ∧ n ∈ st1.ing.existing ∧ st1.stmts = st.stmts ∧
      st1.results = st.results ∧ st1.vng = st.vng := by
  obtain ⟨g', hg, rfl⟩ := St.insnId_ok hi
  obtain ⟨hf, he⟩ := gen_fresh _ _ _ _ hg
  have hmono : ∀ x ∈ st.ing.existing, x ∈ g'.existing := by
    intro x hx
    rw [he]
    exact List.mem_cons_of_mem _ hx
  have hnin : n ∈ g'.existing := by rw [he]; simp
  refine ⟨h.grow rfl rfl (fun _ hx => hx) hmono, ?_, hnin, rfl, rfl, rfl⟩
  intro hm
  obtain ⟨s, hs, rfl⟩ := List.mem_map.1 hm
  exact hf (h.idsKnown s hs)

theorem nsCov_of {S : List KStmt} {res : List (Nat × Impl)} (hres : ∀ i r, (i, r) ∈ res → Cov inputNames S r) :
    ∀ {binds : List (String × Nat)} {ns : List (String × Impl)}, NsRes binds ns res → NsCov inputNames S ns
  | [], [], _ => by
    intro x r h
    simp [lookupNs] at h
  | (n, c) :: bs, (n', r0) :: rs, hn => by
    obtain ⟨rfl, hm, hrest⟩ := hn
    intro x r h
    unfold lookupNs at h
    by_cases hx : (n == x) = true
    · rw [List.find?_cons_of_pos (by simpa using hx)] at h
      simp only [Option.map_some, Option.some.injEq] at h
      subst h
      exact hres c _ hm
    · rw [List.find?_cons_of_neg (by simpa using hx)] at h
      exact nsCov_of hres hrest x r h
  | [], _ :: _, hn => hn.elim
  | _ :: _, [], hn => hn.elim

def SSpecAt (g : LGraph) (inputNames E0 done : List String) (fuel : Nat) : Prop :=
  ∀ (i : Nat) (st : St) (r : Impl) (st' : St), mapNode g fuel i st = .ok (r, st') →
    suppAll g fuel i = true → SInv inputNames E0 done st →
    SInv inputNames E0 done st' ∧ (i, r) ∈ st'.results

theorem srecAll_spec {fuel : Nat} (IH : SSpecAt g inputNames E0 done fuel) :
    ∀ (binds : List (String × Nat)) (st : St) (ns : List (String × Impl)) (st' : St),
      recAll (mapNode g fuel) binds st = .ok (ns, st') → (∀ b ∈ binds, suppAll g fuel b.2 = true) →
      SInv inputNames E0 done st → SInv inputNames E0 done st' ∧ NsRes binds ns st'.results
  | [], st, ns, st', h, _, hinv => by
    obtain ⟨rfl, rfl⟩ := recAll_nil h
    exact ⟨hinv, trivial⟩
  | (n, c) :: bs, st, ns, st', h, hs, hinv => by
    obtain ⟨r, st1, rs, h1, h2, rfl⟩ := recAll_cons h
    have hext := recAll_ext (mapNode_ext fuel) bs st1 rs st' h2 (fun b hb => hs b (List.mem_cons_of_mem _ hb))
    obtain ⟨hinv1, hm1⟩ := IH c st r st1 h1 (hs (n, c) (by simp)) hinv
    obtain ⟨hinv', hres⟩ := srecAll_spec IH bs st1 rs st' h2 (fun b hb => hs b (List.mem_cons_of_mem _ hb)) hinv1
    exact ⟨hinv', rfl, hext.results _ hm1, hres⟩

theorem smapNode_spec (hin : ∀ i name shape, g.get i = .input name shape → name ∈ inputNames) :
    ∀ (fuel : Nat), SSpecAt g inputNames E0 done fuel
  | 0 => by
    intro i st r st' h
    simp [mapNode] at h
  | fuel + 1 => by
    intro i st r st' h hs hinv
    obtain ⟨hsn, hkids⟩ := suppAll_succ hs
    have IH : SSpecAt g inputNames E0 done fuel := smapNode_spec hin fuel
    cases hm : lookupResult st.results i with
    | some r0 =>
      unfold mapNode at h
      simp only [hm, Res.ok.injEq, Prod.mk.injEq] at h
      obtain ⟨rfl, rfl⟩ := h
      exact ⟨hinv, lookupResult_mem hm⟩
    | none =>
      cases hn : g.get i with
      | refused w => simp [suppNode, hn] at hsn
      | other w => simp [suppNode, hn] at hsn
      | input name shape =>
        unfold mapNode at h
        simp only [hm, hn, Res.ok.injEq, Prod.mk.injEq] at h
        obtain ⟨rfl, rfl⟩ := h
        refine ⟨⟨hinv.names, hinv.seeds, hinv.origin, hinv.active, hinv.idsKnown, hinv.idsNodup, hinv.lhsNodup,
          hinv.locals, hinv.stmtOK, ?_, hinv.lhsNotInput⟩, by simp [St.remember]⟩
        intro j r hm'
        simp only [St.remember, List.mem_cons, Prod.mk.injEq] at hm'
        rcases hm' with ⟨rfl, rfl⟩ | hm'
        · refine ⟨by simp [Impl.deps], fun x hx => ?_⟩
          simp only [implReads, List.mem_singleton] at hx
          exact Or.inl (hx ▸ hin _ name shape hn)
        · exact hinv.results j r hm'
      | indexLambda shape e binds impl tag uo rvars =>
        obtain ⟨_, _, ns, st1, hrec, hcase⟩ := mapNode_il_inv hn hsn hm h
        have hkb : ∀ b ∈ binds, suppAll g fuel b.2 = true :=
          fun b hb => hkids b.2 (by simp only [kidsOf, hn]; exact List.mem_map.2 ⟨b, hb, rfl⟩)
        have hfrag := hsn
        simp only [suppNode, hn, Bool.and_eq_true, Bool.not_eq_true'] at hfrag
        obtain ⟨⟨⟨⟨⟨hne, _⟩, _⟩, hok⟩, _⟩, _⟩ := hfrag
        obtain ⟨hinv1, hres⟩ := srecAll_spec IH binds st ns st1 hrec hkb hinv
        rcases hcase with hc | hc
        · obtain ⟨le, hgen, rfl, rfl⟩ := ilInline_inv hc
          have hns := nsCov_of hinv1.results hres
          obtain ⟨hd, hr⟩ := gen_cov hns shape.length e le [] hok hgen
          refine ⟨⟨hinv1.names, hinv1.seeds, hinv1.origin, hinv1.active, hinv1.idsKnown, hinv1.idsNodup,
            hinv1.lhsNodup, hinv1.locals, hinv1.stmtOK, ?_, hinv1.lhsNotInput⟩, by simp [St.remember]⟩
          intro j r hm'
          simp only [St.remember, List.mem_cons, Prod.mk.injEq] at hm'
          rcases hm' with ⟨rfl, rfl⟩ | hm'
          · refine ⟨hd, fun x hx => ?_⟩
            rcases hr x hx with h | h | h
            · simp at h
            · exact Or.inl h
            · exact Or.inr h
          · exact hinv1.results j r hm'
        · obtain ⟨name, st2, inames, st3, le, id, st4, hnm, hins, hgen, hid, rfl, rfl⟩ := ilStore_inv hc
          have d1 := tempName_drew hnm
          obtain ⟨d2, hl2⟩ := St.vars_drew hins
          have hinv3 := (hinv1.drew d1).drewMany d2
          obtain ⟨hinv4, hidF, hidK, hst4, hres4, hvng4⟩ := hinv3.insnId hid
          have hst31 : st3.stmts = st1.stmts := by rw [d2.stmts, d1.stmts]
          have hres4' : NsRes binds ns st4.results := by
            rw [hres4, d2.results, d1.results]; exact hres
          have hns := nsCov_of hinv4.results hres4'
          obtain ⟨hd, hr⟩ := gen_cov hns shape.length e le [] hok hgen
          have hG4 : ∀ x, arrNames inputNames st4 x → x ∈ st1.vng.existing := by
            intro x hx
            apply hinv1.names
            simpa [arrNames, hst4, hst31] using hx
          have hname : ¬ arrNames inputNames st4 name := fun hx => d1.fresh (hG4 name hx)
          have hlen : inames.length = shape.length := by rw [hl2, length_dimNames]
          have hex2 : ∀ x ∈ st1.vng.existing, x ∈ st2.vng.existing :=
            fun x hx => by rw [d1.ex]; exact List.mem_cons_of_mem _ hx
          have := SInv.emit (i := i) (id := id) (deps := genDeps ns [] e) (rhs := substIdx (inameVars inames) le)
            hinv4 hne hlen hname
            (by rw [hvng4]; exact (d2.mem name).2 (Or.inr (by rw [d1.ex]; simp)))
            (Or.inr (fun hE => d1.fresh (hinv1.seeds name hE)))
            (by rw [hst4]; exact hidF) hidK
            (by
              intro x hx
              refine ⟨by rw [hvng4]; exact (d2.mem x).2 (Or.inl hx), fun hE => ?_⟩
              exact d2.fresh x hx (hex2 x (hinv1.seeds x hE)))
            (by
              intro x hx
              refine ⟨fun e => d2.fresh x hx (by rw [e, d1.ex]; simp), fun w hw e => ?_⟩
              rw [hst4, hst31] at hw
              exact d2.fresh x hx (hex2 x (hinv1.names _ (Or.inr (e ▸ List.mem_map.2 ⟨w, hw, rfl⟩)))))
            (by
              intro s hs' x hx e
              rw [hst4, hst31] at hs'
              exact d1.fresh (e ▸ (hinv1.locals s hs' x hx).1))
            hd
            (by
              intro hx
              rcases readNames_substIdx_sub (inameVars inames) le name hx with hx | hx
              · rcases hr name hx with h | h | ⟨w, hw, he, _⟩
                · simp at h
                · exact hname (Or.inl h)
                · exact hname (Or.inr (he ▸ List.mem_map.2 ⟨w, hw, rfl⟩))
              · rw [readNamesList_inameVars] at hx
                exact d2.fresh name hx (by rw [d1.ex]; simp))
            (by
              intro x hx
              rcases readNames_substIdx_sub (inameVars inames) le x hx with hx | hx
              · rcases hr x hx with h | h | h
                · simp at h
                · exact Or.inr (Or.inl h)
                · exact Or.inr (Or.inr h)
              · rw [readNamesList_inameVars] at hx
                exact Or.inl hx)
          exact ⟨this, by simp [St.remember]⟩

theorem SInv.doneMono {done' : List String} {st : St} (h : SInv inputNames E0 done st)
    (hd : ∀ x ∈ done, x ∈ done') : SInv inputNames E0 done' st :=
  ⟨h.names, h.seeds, fun s hs => (h.origin s hs).imp (hd _) id, h.active, h.idsKnown, h.idsNodup, h.lhsNodup,
    h.locals, h.stmtOK, h.results, h.lhsNotInput⟩

theorem sstoreOutputs_spec (hin : ∀ i name shape, g.get i = .input name shape → name ∈ inputNames)
    {fuel : Nat} :
    ∀ (outs : List (String × Nat)) (done : List String) (st st' : St),
      storeOutputs g fuel outs st = .ok st' → (∀ o ∈ outs, suppAll g fuel o.2 = true) →
      SInv inputNames E0 done st → (outs.map (·.1)).Nodup →
      (∀ o ∈ outs, o.1 ∈ E0 ∧ o.1 ∉ inputNames ∧ o.1 ∉ done) →
      ∃ done', SInv inputNames E0 done' st'
  | [], done, st, st', h, _, hinv, _, _ => by
    simp only [storeOutputs, Res.ok.injEq] at h
    subst h
    exact ⟨done, hinv⟩
  | (name, i) :: rest, done, st, st', h, hs, hinv, hnd, hnames => by
    obtain ⟨r, st1, inames, st2, id, st3, h1, h2, h3, h4⟩ := storeOutputs_cons h
    have hsi := hs (name, i) (by simp)
    have hsn := suppAll_node hsi
    obtain ⟨d2, hl2⟩ := St.vars_drew h2
    obtain ⟨hinv1, hm1⟩ := smapNode_spec (E0 := E0) (done := done) hin fuel i st r st1 h1 hsi hinv
    obtain ⟨hinv3, hidF, hidK, hst3, hres3, hvng3⟩ := (hinv1.drewMany d2).insnId h3
    have hinv3' := hinv3.doneMono (done' := name :: done) (fun x hx => List.mem_cons_of_mem _ hx)
    obtain ⟨hnE0, hnin, hnd'⟩ := hnames (name, i) (by simp)
    have hst31 : st3.stmts = st1.stmts := by rw [hst3, d2.stmts]
    have hcov : Cov inputNames st3.stmts r := by
      apply hinv3.results i r
      rw [hres3, d2.results]; exact hm1
    have hname : ¬ arrNames inputNames st3 name := by
      rintro (hx | hx)
      · exact hnin hx
      · obtain ⟨s, hs', he⟩ := List.mem_map.1 hx
        rw [hst31] at hs'
        rcases hinv1.origin s hs' with ho | ho
        · exact hnd' (he ▸ ho)
        · exact ho (he ▸ hnE0)
    have hnameEx1 : name ∈ st1.vng.existing := hinv1.seeds name hnE0
    have hne : isEmptyShape (shapeOf g i) = false := by
      cases hn : g.get i with
      | input nm sh => simpa [suppNode, hn, shapeOf] using hsn
      | indexLambda sh e binds impl tag uo rvars =>
        have := hsn
        simp only [suppNode, hn, Bool.and_eq_true, Bool.not_eq_true'] at this
        simpa [shapeOf, hn] using this.1.1.1.1.1
      | refused w => simp [suppNode, hn] at hsn
      | other w => simp [suppNode, hn] at hsn
    have hlen : inames.length = (shapeOf g i).length := by rw [hl2, length_dimNames]
    have hinv4 := SInv.emit (i := i) (id := id) (deps := r.deps) (rhs := r.toExpr (inameVars inames))
      hinv3' hne hlen hname
      (by rw [hvng3]; exact (d2.mem name).2 (Or.inr hnameEx1))
      (Or.inl (by simp))
      (by rw [hst3]; exact hidF) hidK
      (by
        intro x hx
        exact ⟨by rw [hvng3]; exact (d2.mem x).2 (Or.inl hx), fun hE => d2.fresh x hx (hinv1.seeds x hE)⟩)
      (by
        intro x hx
        refine ⟨fun e => d2.fresh x hx (e ▸ hnameEx1), fun w hw e => ?_⟩
        rw [hst31] at hw
        exact d2.fresh x hx (hinv1.names _ (Or.inr (e ▸ List.mem_map.2 ⟨w, hw, rfl⟩))))
      (by
        intro s hs' x hx e
        rw [hst31] at hs'
        exact (hinv1.locals s hs' x hx).2.1 (e ▸ hnE0))
      (by
        intro d hd
        exact hcov.1 d hd)
      (by
        intro hx
        rcases toExpr_reads_cov r (inameVars inames) name hx with hx | hx
        · rcases hcov.2 name hx with h | ⟨w, hw, he, _⟩
          · exact hnin h
          · exact hname (Or.inr (he ▸ List.mem_map.2 ⟨w, hw, rfl⟩))
        · rw [readNamesList_inameVars] at hx
          exact d2.fresh name hx hnameEx1)
      (by
        intro x hx
        rcases toExpr_reads_cov r (inameVars inames) x hx with hx | hx
        · rcases hcov.2 x hx with h | h
          · exact Or.inr (Or.inl h)
          · exact Or.inr (Or.inr h)
        · rw [readNamesList_inameVars] at hx
          exact Or.inl hx)
    have hnd2 := List.nodup_cons.1 (show (name :: rest.map (·.1)).Nodup from hnd)
    exact sstoreOutputs_spec hin rest (name :: done) _ st' h4
      (fun o ho => hs o (List.mem_cons_of_mem _ ho)) hinv4 hnd2.2
      (by
        intro o ho
        obtain ⟨a, b, c⟩ := hnames o (List.mem_cons_of_mem _ ho)
        refine ⟨a, b, fun hc => ?_⟩
        rcases List.mem_cons.1 hc with hc | hc
        · exact hnd2.1 (hc ▸ List.mem_map.2 ⟨o, ho, rfl⟩)
        · exact c hc)

end Checks

/-! ## from the invariant to the static check -/

theorem mem_depClosure_seed (k : Kernel) : ∀ (fuel : Nat) (acc : List String) (d : String),
    d ∈ acc → d ∈ depClosure k fuel acc
  | 0, acc, d, h => h
  | fuel + 1, acc, d, h => by
    simp only [depClosure]
    apply mem_depClosure_seed k fuel
    rw [List.mem_eraseDups]
    exact List.mem_append_left _ h

theorem respectsDeps_go_of : ∀ (l : List KStmt) (done : List String),
    (∀ pre s post, l = pre ++ s :: post → ∀ d ∈ s.deps, d ∈ done ∨ d ∈ pre.map (·.id)) →
    respectsDeps.go l done = true
  | [], _, _ => rfl
  | s :: rest, done, h => by
    simp only [respectsDeps.go, Bool.and_eq_true, List.all_eq_true]
    refine ⟨fun d hd => ?_, respectsDeps_go_of rest (s.id :: done) (fun pre t post hsplit d hd => ?_)⟩
    · rcases h [] s rest rfl d hd with h | h
      · simpa using h
      · simp at h
    · rcases h (s :: pre) t post (by rw [hsplit]; rfl) d hd with h | h
      · exact Or.inl (List.mem_cons_of_mem _ h)
      · simp only [List.map_cons, List.mem_cons] at h
        rcases h with h | h
        · exact Or.inl (by rw [h]; simp)
        · exact Or.inr h

theorem checks_of_SInv {inputNames E0 done : List String} {st : St} (h : SInv inputNames E0 done st) :
    checkKernel st.stmts.reverse = true ∧ respectsDeps st.stmts.reverse = true := by
  have hact : ∀ s ∈ st.stmts.reverse, s.noop = false := fun s hs => h.active s (List.mem_reverse.1 hs)
  have hfilter : st.stmts.reverse.filter (fun s => !s.noop) = st.stmts.reverse := by
    apply List.filter_eq_self.2
    intro s hs
    simp [hact s hs]
  constructor
  · simp only [checkKernel, hfilter, Bool.and_eq_true, decide_eq_true_eq, List.all_eq_true]
    refine ⟨⟨⟨?_, ?_⟩, ?_⟩, ?_⟩
    · rw [List.map_reverse]; exact (List.reverse_perm _).nodup_iff.2 h.idsNodup
    · rw [List.map_reverse]; exact (List.reverse_perm _).nodup_iff.2 h.lhsNodup
    · intro s hs d hd
      obtain ⟨pre, post, hsplit⟩ := List.append_of_mem (List.mem_reverse.1 hs)
      have := (h.stmtOK pre s post hsplit).1 d hd
      rw [List.contains_eq_mem, decide_eq_true_eq, List.map_reverse, List.mem_reverse, hsplit]
      simp only [List.map_append, List.map_cons, List.mem_append, List.mem_cons]
      exact Or.inr (Or.inr this)
    · intro s hs
      have hs' := List.mem_reverse.1 hs
      obtain ⟨pre, post, hsplit⟩ := List.append_of_mem hs'
      obtain ⟨hdep, hself, hreads⟩ := h.stmtOK pre s post hsplit
      simp only [hact s hs, Bool.false_or, Bool.and_eq_true, Bool.not_eq_true', List.all_eq_true]
      refine ⟨⟨?_, ?_⟩, ?_⟩
      · simpa using hself
      · intro x hx
        have := (h.locals s hs' x hx).2.2
        simp only [List.contains_eq_mem, decide_eq_false_iff_not, List.map_reverse, List.mem_reverse]
        intro hm
        obtain ⟨w, hw, he⟩ := List.mem_map.1 hm
        exact this w hw he.symm
      · intro x hx
        cases hwo : writerOf st.stmts.reverse x with
        | none => rfl
        | some w =>
          simp only
          have hwk : w ∈ st.stmts.reverse := List.mem_of_find?_eq_some hwo
          have hwp := List.find?_some hwo
          simp only [Bool.and_eq_true, beq_iff_eq] at hwp
          have hwS := List.mem_reverse.1 hwk
          rcases hreads x hx with hinp | ⟨w', hw', he, hid⟩
          · exact absurd (hwp.2 ▸ hinp) (h.lhsNotInput w hwS)
          · have hw'S : w' ∈ st.stmts := by rw [hsplit]; simp [hw']
            have : w = w' := eq_of_map_eq_of_nodup (·.lhs) st.stmts h.lhsNodup hwS hw'S (by rw [hwp.2, he])
            rw [List.contains_eq_mem, decide_eq_true_eq, this]
            exact mem_depClosure_seed _ _ _ _ hid
  · apply respectsDeps_go_of
    intro pre s post hsplit d hd
    have hrev : st.stmts = post.reverse ++ s :: pre.reverse := by
      have := congrArg List.reverse hsplit
      simpa using this
    have := (h.stmtOK post.reverse s pre.reverse hrev).1 d hd
    right
    simpa using this

/-- **loopygen_checks_partial.**  On the reduction-free fragment the kernel the model of the
    statement generator produces passes the static check `checkKernel` — single assignment, distinct
    instruction ids, every dependency an existing instruction, every array an instruction reads
    either an input or written by an instruction it depends on, no instruction reads what it
    writes, loop variables are never written — and its own order respects the dependencies.
    (Hypotheses: the output names are distinct and none is an input name, as `generate_loopy`'s
    `add_names` demands; inputs are named in `inputNames`.) -/
theorem loopygen_checks_partial (g : LGraph) (outputs : List (String × Nat)) (inputNames : List String)
    (k : Kernel) (hgen : generate g outputs inputNames = .ok k)
    (hsupp : ∀ o ∈ outputs, suppAll g g.size o.2 = true)
    (hin : ∀ i name shape, g.get i = .input name shape → name ∈ inputNames)
    (hnd : (outputs.map (·.1)).Nodup) (hdisj : ∀ o ∈ outputs, o.1 ∉ inputNames) :
    checkKernel k = true ∧ respectsDeps k = true := by
  unfold generate at hgen
  obtain ⟨st, hst, hk⟩ := Res.bind_ok.1 hgen
  simp only [Res.ok.injEq] at hk
  subst hk
  have hinv0 : SInv inputNames (outputs.map (·.1) ++ inputNames) []
      { vng := { existing := outputs.map (·.1) ++ inputNames, counters := [] },
        ing := { existing := [], counters := [] }, results := [], stmts := [] } := by
    refine ⟨?_, fun x hx => hx, by simp, by simp, by simp, by simp, by simp, by simp, ?_, by simp, by simp⟩
    · rintro x (hx | hx)
      · exact List.mem_append_right _ hx
      · simp at hx
    · intro pre s post hsplit
      simp at hsplit
  obtain ⟨done', hinv⟩ := sstoreOutputs_spec (E0 := outputs.map (·.1) ++ inputNames) hin outputs [] _ st hst
    hsupp hinv0 hnd
    (fun o ho => ⟨List.mem_append_left _ (List.mem_map.2 ⟨o, ho, rfl⟩), hdisj o ho, by simp⟩)
  exact checks_of_SInv hinv

/-- hence every dependency-respecting schedule of the generated kernel computes the outputs'
    denotations (`loopygen_sound_partial` + `checked_kernel_any_schedule`) -/
theorem loopygen_sound_partial_any_schedule (g : LGraph) (outputs : List (String × Nat))
    (inputNames : List String) (k : Kernel) (inp : String → Arr Val) (σ0 : Store)
    (hgen : generate g outputs inputNames = .ok k)
    (hsupp : ∀ o ∈ outputs, suppAll g g.size o.2 = true)
    (hy : Hyp g inp σ0 inputNames)
    (hnd : (outputs.map (·.1)).Nodup) (hdisj : ∀ o ∈ outputs, o.1 ∉ inputNames)
    (halloc : Alloc σ0 k)
    (order : List KStmt) (hperm : order.Perm k) (hresp : respectsDeps order = true) :
    ∀ o ∈ outputs, StoredOK (execOrder σ0 order) o.1 (den g inp o.2) := by
  obtain ⟨hc, hr⟩ := loopygen_checks_partial g outputs inputNames k hgen hsupp
    (fun i name shape hn => (hy.inputs i name shape hn).1) hnd hdisj
  intro o ho
  exact (loopygen_sound_partial g outputs inputNames k inp σ0 hgen hsupp hy hnd hdisj halloc o ho).frame
    (checked_kernel_any_schedule k hc hr order hperm hresp σ0 o.1)

/-! ## the full statement, and how much of it is proved

  `LoopygenSound F`: soundness of the statement generator on the graphs satisfying `F`.  The TARGET is
  `F := fun _ _ => True` up to the representation issues below; PROVED here is the reduction-free
  fragment (`loopygen_sound_fragment`, a restatement of `loopygen_sound_partial_any_schedule`), and in
  `PtProofs.C01GenRedChecks` the fragment WITH reductions (`loopygen_sound_fragmentR`: chains of
  reductions with constant bounds at the root of an index lambda, every bound hoisted — per-iteration
  `lets` of the store, or separate bound statements for a 0-d result).
  What the fragments still exclude, and why:
  * reductions whose bounds are not integer constants (data-dependent bounds, e.g. CSR products):
    the hoisted bound is an expression over the bindings, evaluated per iteration;
  * Boolean constants: the generator emits `True` as `1`; the exact value domain keeps `b true`
    and `i 1` apart, so the statement needs values "up to the integer value of Booleans";
  * empty results: the generator emits a no-op and the array is never written; the allocation
    hypothesis is phrased over the statements, which do not mention that array. -/

def LoopygenSound (F : LGraph → List (String × Nat) → Prop) : Prop :=
  ∀ (g : LGraph) (outputs : List (String × Nat)) (inputNames : List String) (k : Kernel)
    (inp : String → Arr Val) (σ0 : Store),
    generate g outputs inputNames = .ok k → F g outputs → Hyp g inp σ0 inputNames →
    (outputs.map (·.1)).Nodup → (∀ o ∈ outputs, o.1 ∉ inputNames) → Alloc σ0 k →
    checkKernel k = true ∧
    ∀ (order : List KStmt), order.Perm k → respectsDeps order = true →
      ∀ o ∈ outputs, StoredOK (execOrder σ0 order) o.1 (den g inp o.2)

/-- the proved part of `LoopygenSound` -/
theorem loopygen_sound_fragment :
    LoopygenSound fun g outputs => ∀ o ∈ outputs, suppAll g g.size o.2 = true := by
  intro g outputs inputNames k inp σ0 hgen hF hy hnd hdisj halloc
  exact ⟨(loopygen_checks_partial g outputs inputNames k hgen hF
      (fun i name shape hn => (hy.inputs i name shape hn).1) hnd hdisj).1,
    fun order hp hr => loopygen_sound_partial_any_schedule g outputs inputNames k inp σ0 hgen hF hy hnd hdisj
      halloc order hp hr⟩

/-! ## the check the driver evaluates implies the fragment hypotheses -/

theorem wfG_sound {g : LGraph} (h : wfG g = true) : WFG g := by
  intro i c hc
  by_cases hi : i < g.size
  · simp only [wfG, List.all_eq_true, List.mem_range, decide_eq_true_eq] at h
    exact h i hi c hc
  · have : g.get i = .other "out-of-range" := by
      simp only [LGraph.get]
      rw [Array.getElem?_eq_none (by omega)]
    simp [kidsOf, this] at hc

theorem suppAll_of_all {g : LGraph} (hw : WFG g) (h : ∀ j, j < g.size → suppNode g j = true) :
    ∀ (fuel i : Nat), i < fuel → i < g.size → suppAll g fuel i = true
  | 0, _, hi, _ => absurd hi (Nat.not_lt_zero _)
  | fuel + 1, i, hi, hr => by
    simp only [suppAll, Bool.and_eq_true, List.all_eq_true]
    refine ⟨h i hr, fun c hc => ?_⟩
    have hci := hw i c hc
    exact suppAll_of_all hw h fuel c (by omega) (by omega)

theorem fragment_check_sound {g : LGraph} (h : fragmentCheck g = true) :
    WFG g ∧ ∀ i, i < g.size → suppAll g g.size i = true := by
  simp only [fragmentCheck, Bool.and_eq_true, List.all_eq_true, List.mem_range] at h
  have hw := wfG_sound h.1
  exact ⟨hw, fun i hi => suppAll_of_all hw h.2 g.size i hi hi⟩

/-! ## non-vacuity: `t = x + 1` stored (ImplStored), `out = t * 2` reading it -/

def exG : LGraph :=
  #[.input "x" [3],
    .indexLambda [3] (.add (.sub "_in0" [.idx 0]) (.int 1)) [("_in0", 0)] .stored .none [] [],
    .indexLambda [3] (.mul (.sub "_in0" [.idx 0]) (.int 2)) [("_in0", 1)] .default .none [] []]
def exX : Arr Val := ⟨[3], fun i => .i (i.headD 0)⟩
def exZ : Arr Val := ⟨[3], fun _ => .i 0⟩
def exInp : String → Arr Val := fun _ => exX
def exσ : Store := [("x", exX), ("_pt_temp", exZ), ("out", exZ)]

def exK : Kernel :=
  [{ id := "_pt_temp_store", lhs := "_pt_temp", lhsIdx := [.var "_pt_temp_dim0"],
     loops := [("_pt_temp_dim0", .int 0, .int 3)], lets := [],
     rhs := .add (.sub "x" [.var "_pt_temp_dim0"]) (.int 1), deps := [] },
   { id := "out_store", lhs := "out", lhsIdx := [.var "out_dim0"], loops := [("out_dim0", .int 0, .int 3)], lets := [],
     rhs := .mul (.sub "_pt_temp" [.var "out_dim0"]) (.int 2), deps := ["_pt_temp_store"] }]

theorem exGen : generate exG [("out", 2)] ["x"] = .ok exK := by rfl

theorem exG_out (i : Nat) : exG.get (i + 3) = .other "out-of-range" := by
  simp [LGraph.get, exG]

theorem exHyp : Hyp exG exInp exσ ["x"] := by
  refine ⟨wfG_sound (by decide), ?_, ?_⟩
  · intro i name shape hn
    match i with
    | 0 => simp only [LGraph.get, exG] at hn; cases hn; exact ⟨by simp, rfl, rfl⟩
    | 1 => simp [LGraph.get, exG] at hn
    | 2 => simp [LGraph.get, exG] at hn
    | i + 3 => rw [exG_out] at hn; cases hn
  · intro i shape e binds impl tag uo rvars hn j hj
    have hsafe : ∀ (bs : List (String × Arr Val)) (k : Nat), k < 3 →
        (bs.find? (·.1 == "_in0")).map (·.2) = some exX ∨
          (∃ D : Arr Val, (bs.find? (·.1 == "_in0")).map (·.2) = some D ∧ D.shape = [3]) →
        Safe (idxEnv [k] bs) (.sub "_in0" [.idx 0]) := by
      intro bs k hk hb
      simp only [Safe, SafeList, true_and]
      rcases hb with hb | ⟨D, hD, hs⟩
      · exact ⟨exX, [k], hb, by simp [evalList, eval, idxEnv, idxVals], by simp [exX, inB, hk]⟩
      · exact ⟨D, [k], hD, by simp [evalList, eval, idxEnv, idxVals], by simp [hs, inB, hk]⟩
    match i with
    | 0 => simp [LGraph.get, exG] at hn
    | 1 =>
      simp only [LGraph.get, exG] at hn
      cases hn
      obtain ⟨k, hk, rfl⟩ : ∃ k, k < 3 ∧ j = [k] := by
        match j, hj with
        | [k], hj => exact ⟨k, by simpa [inB] using hj, rfl⟩
        | [], hj => simp [inB] at hj
        | _ :: _ :: _, hj => simp [inB] at hj
      simp only [Safe, and_true]
      exact hsafe _ k hk (Or.inl (by rfl))
    | 2 =>
      simp only [LGraph.get, exG] at hn
      cases hn
      obtain ⟨k, hk, rfl⟩ : ∃ k, k < 3 ∧ j = [k] := by
        match j, hj with
        | [k], hj => exact ⟨k, by simpa [inB] using hj, rfl⟩
        | [], hj => simp [inB] at hj
        | _ :: _ :: _, hj => simp [inB] at hj
      simp only [Safe, and_true]
      exact hsafe _ k hk (Or.inr ⟨den exG exInp 1, by rfl, by rfl⟩)
    | i + 3 => rw [exG_out] at hn; cases hn

example : StoredOK (execOrder exσ exK) "out" (den exG exInp 2) :=
  loopygen_sound_partial exG [("out", 2)] ["x"] exK exInp exσ exGen (by decide) exHyp (by decide) (by decide)
    (by
      intro s hs _
      simp only [exK, List.mem_cons, List.not_mem_nil, or_false] at hs
      rcases hs with rfl | rfl
      · exact ⟨exZ, rfl, rfl⟩
      · exact ⟨exZ, rfl, rfl⟩) ("out", 2) (by simp)

example : checkKernel exK = true ∧ respectsDeps exK = true :=
  loopygen_checks_partial exG [("out", 2)] ["x"] exK exGen (by decide)
    (fun i name shape hn => (exHyp.inputs i name shape hn).1) (by decide) (by decide)

-- what the output denotes, concretely: (x + 1) * 2
example : (den exG exInp 2).get [2] = .i 6 := by decide

end LG
end Pt

/-
  Property C04 — equality and hashing are a sound structural congruence.
  Property theorems + non-vacuity examples + the regenerated-table obligations
  (helper lemmas: EqLemmas, EqMemoLemmas; model: PtModel/Eq.lean).

  The model: `eqStruct tbl` is the recursive comparer that looks at the fields
  `tbl` lists per node kind (the real `EqualityComparer`, whose per-kind field
  list is *extracted from the running code* into `PtGen.eqFlips`); `SemEq sem`
  is the specification "same structure in every semantic component at every
  depth"; `hashStruct mix htbl` is the generated `__hash__` for an ARBITRARY
  mixing function.  All general theorems hold for every table, every term of
  any depth and branching.

  Scalar attributes are strings produced by the serialiser, which records the
  TYPE AND BITS of every constant: in `SemEq` the constants `0`, `0.0`, `-0.0`,
  `False` are four different attributes.  The real comparer uses Python's `==` on
  constants and identifies them; `eq_iff_semEq` therefore speaks about terms in
  which ==-equal constants are written identically (what the generators produce);
  the harness batch `constants-python-identifies` probes the rest.
-/
import PtProofs.EqMemoLemmas
import PtGen.EqTable
namespace Pt.EqM

/-! ## general theorems -/

/-- `==` is reflexive, symmetric and transitive — for ANY field table, ANY nesting. -/
theorem eqStruct_equivalence (tbl : Tbl) : Equivalence (fun a b => eqStruct tbl a b = true) :=
  ⟨eqStruct_refl tbl, fun h => eqStruct_symm tbl h, fun h1 h2 => eqStruct_trans tbl h1 h2⟩

/-- the comparer decides exactly "equal projections onto the compared fields" -/
theorem eq_iff_proj (tbl : Tbl) (a b : Term) : eqStruct tbl a b = true ↔ SemEq tbl a b :=
  eqStruct_iff_proj tbl a b

/-- If, on the kinds occurring in `a`, the comparer's table selects exactly the
    semantic fields, then `a == b` iff `a` and `b` agree in every semantic
    component (at every depth). -/
theorem eq_iff_semEq_partial {p : String → Bool} {tbl sem : Tbl} (hc : TblEquivOn p tbl sem)
    (a b : Term) (ha : a.allKinds p = true) : eqStruct tbl a b = true ↔ SemEq sem a b := by
  rw [eqStruct_congr_tbl hc a b ha]
  exact eqStruct_iff_proj sem a b

/-- full-strength form: the table equals the semantic fields on every kind -/
theorem eq_iff_semEq {tbl sem : Tbl} (hc : TblEquivOn (fun _ => true) tbl sem) (a b : Term) :
    eqStruct tbl a b = true ↔ SemEq sem a b :=
  eq_iff_semEq_partial hc a b (allKinds_true a)

/-- equal expressions hash equally, whenever the hash looks at no field that the
    comparer ignores — for an arbitrary mixing function -/
theorem eq_hash (mix : Mix) {htbl tbl : Tbl} (hh : TblSub htbl tbl) {a b : Term}
    (h : eqStruct tbl a b = true) : hashStruct mix htbl a = hashStruct mix htbl b :=
  hash_of_eqStruct mix hh a b h

/-- congruence: replacing a sub-expression at ANY depth by an equal one yields an
    equal expression -/
theorem congruence (tbl : Tbl) (C : Ctx) {a b : Term} (h : eqStruct tbl a b = true) :
    eqStruct tbl (C.plug a) (C.plug b) = true :=
  eqStruct_plug tbl h C

theorem semEq_congruence (sem : Tbl) (C : Ctx) {a b : Term} (h : SemEq sem a b) :
    SemEq sem (C.plug a) (C.plug b) :=
  (eqStruct_iff_proj sem _ _).1 (eqStruct_plug sem ((eqStruct_iff_proj sem a b).2 h) C)

/-- memoisation (id-pair cache + identity shortcut) is sound under any sharing -/
theorem eqMemo_eq_eqStruct (tbl : Tbl) (same : Bool) {h1 h2 : Heap}
    (hw1 : h1.wfB = true) (hw2 : h2.wfB = true) (hsame : same = true → h1 = h2)
    {i j : Nat} (hi : i < h1.length) (hj : j < h2.length) :
    eqMemo tbl same h1 h2 i j = eqStruct tbl (unfold h1 i) (unfold h2 j) :=
  eqMemo_eq_eqStruct_unfold tbl same (Heap.WF_of_wfB hw1) (Heap.WF_of_wfB hw2) hsame hi hj

/-! ## the regenerated tables (`PtGen.EqTable`, extracted from today's source) -/

/-- kinds that carry an excluded row: known findings, API-internal rows, rows with a
    single valid value, identity-compared kinds -/
def excludedKinds : List String :=
  (PtGen.knownEqRows ++ PtGen.knownEqSpuriousRows ++ PtGen.internalRows
    ++ PtGen.unprobedRows).map (·.1) ++ PtGen.identityKinds

/-- on kind `k`, the extracted comparer table and the semantic table select the same fields -/
def cleanKind (k : String) : Bool :=
  ((tblOf PtGen.semanticFields k).all fun f => (tblOf PtGen.eqFlips k).contains f)
    && ((tblOf PtGen.eqFlips k).all fun f => (tblOf PtGen.semanticFields k).contains f)

/-- `==` distinguishes every semantic field of every node kind (rows listed in
    known_findings.json, API-internal rows and single-valued rows excepted) -/
theorem eq_compares_every_semantic_field :
    ∀ row ∈ rowsOf PtGen.semanticFields, row ∉ PtGen.knownEqRows → row ∉ PtGen.internalRows →
      row ∉ PtGen.unprobedRows → row ∈ rowsOf PtGen.eqFlips := by
  decide +kernel

/-- `==` never reacts to a non-semantic change (creation tracebacks, mapping
    insertion order), identity-compared kinds excepted -/
theorem eq_ignores_only_nonsemantic :
    ∀ row ∈ rowsOf PtGen.eqFlipsSome, row.1 ∉ PtGen.identityKinds →
      row ∉ PtGen.knownEqSpuriousRows → row ∈ rowsOf PtGen.semanticFields := by
  decide +kernel

/-- `hash` looks at no field that `==` ignores (so equal nodes hash equally) -/
theorem hash_respects_eq :
    ∀ row ∈ rowsOf PtGen.hashFlips, row ∉ PtGen.knownEqRows → row ∉ PtGen.knownHashRows →
      row ∉ PtGen.internalRows → row ∈ rowsOf PtGen.eqFlips := by
  decide +kernel

/-- only the documented kind(s) compare by object identity -/
theorem identity_kinds_documented :
    ∀ k ∈ PtGen.identityKinds, k ∉ PtGen.knownIdentityKinds →
      k ∈ PtGen.documentedIdentityKinds := by
  decide +kernel

/-- every probed kind has its rows in every table -/
theorem tables_cover_kinds :
    PtGen.fields.map (·.1) = PtGen.kinds ∧ PtGen.semanticFields.map (·.1) = PtGen.kinds
      ∧ PtGen.eqFlips.map (·.1) = PtGen.kinds ∧ PtGen.hashFlips.map (·.1) = PtGen.kinds := by
  decide +kernel

/-- every kind without an excluded row is clean -/
theorem unexcluded_kinds_clean :
    ∀ k ∈ PtGen.kinds, k ∉ excludedKinds → cleanKind k = true := by
  decide +kernel

theorem clean_tables_agree :
    TblEquivOn cleanKind (tblOf PtGen.eqFlips) (tblOf PtGen.semanticFields) := by
  intro k hk f
  simp only [cleanKind, Bool.and_eq_true, List.all_eq_true] at hk
  obtain ⟨h1, h2⟩ := hk
  cases h : (tblOf PtGen.eqFlips k).contains f with
  | true =>
    have := h2 f (by simpa using h)
    exact this.symm
  | false =>
    cases h' : (tblOf PtGen.semanticFields k).contains f with
    | false => rfl
    | true =>
      have := h1 f (by simpa using h')
      rw [h] at this; cases this

/-- **what the kernel re-checks against today's source**: for expressions built
    from clean kinds, the comparer with the field lists *extracted from the
    running code* decides exactly semantic equality. -/
theorem code_eq_iff_semEq (a b : Term) (ha : a.allKinds cleanKind = true) :
    eqStruct (tblOf PtGen.eqFlips) a b = true ↔ SemEq (tblOf PtGen.semanticFields) a b :=
  eq_iff_semEq_partial clean_tables_agree a b ha

/-- … and such expressions hash equally when equal (hash table extracted likewise),
    provided the hash looks at nothing `==` ignores on those kinds — a
    consequence of `hash_respects_eq` stated for the model tables. -/
theorem code_eq_hash (mix : Mix)
    (hh : TblSub (tblOf PtGen.hashFlips) (tblOf PtGen.eqFlips)) {a b : Term}
    (h : eqStruct (tblOf PtGen.eqFlips) a b = true) :
    hashStruct mix (tblOf PtGen.hashFlips) a = hashStruct mix (tblOf PtGen.hashFlips) b :=
  eq_hash mix hh h

/-- the full-strength statement (no exclusions) … -/
abbrev EqFullStatement : Prop :=
  ∀ row ∈ rowsOf PtGen.semanticFields, row ∉ PtGen.internalRows →
    row ∉ PtGen.unprobedRows → row ∈ rowsOf PtGen.eqFlips

/-- … holds of today's table exactly when the translator observed no failing row
    (on a tree with known findings this proves its negation) -/
theorem eq_full_statement_status : EqFullStatement ↔ PtGen.eqFullHolds = true := by
  decide +kernel

/-! ## non-vacuity: concrete instances (fixed tables, independent of today's extraction) -/

def exP (name : String) : Term :=
  .node "Placeholder" [("shape", "(4,3)"), ("dtype", "f8"), ("axes", ""), ("tags", ""),
    ("non_equality_tags", ""), ("name", name)] []
def exRoll (shift : String) (tb : String) (x : Term) : Term :=
  .node "Roll" [("axes", ""), ("tags", ""), ("non_equality_tags", tb), ("shift", shift),
    ("axis", "0")] [("array", [x])]
/-- the semantic table of two kinds -/
def exSem : Tbl := tblOf [("Placeholder", ["shape", "dtype", "axes", "tags", "name"]),
  ("Roll", ["array", "axes", "tags", "shift", "axis"]), ("Stack", ["arrays", "axis"])]
/-- a comparer table that forgets `Roll.shift` -/
def exBad : Tbl := tblOf [("Placeholder", ["shape", "dtype", "axes", "tags", "name"]),
  ("Roll", ["array", "axes", "tags", "axis"])]

-- tracebacks ignored, shift compared, operands compared (depth 2)
example : eqStruct exSem (exRoll "1" "tb1" (exP "x")) (exRoll "1" "tb2" (exP "x")) = true := by decide
example : eqStruct exSem (exRoll "1" "" (exP "x")) (exRoll "2" "" (exP "x")) = false := by decide
example : eqStruct exSem (exRoll "1" "" (exP "x")) (exRoll "1" "" (exP "y")) = false := by decide
example : SemEq exSem (exRoll "1" "tb1" (exP "x")) (exRoll "1" "tb2" (exP "x")) := by decide
example : ¬ SemEq exSem (exRoll "1" "" (exP "x")) (exRoll "2" "" (exP "x")) := by decide
-- a defective table is told apart from the specification (what `eq-ignores:Roll.shift` means)
example : eqStruct exBad (exRoll "1" "" (exP "x")) (exRoll "2" "" (exP "x")) = true := by decide
-- hypothesis of `eq_iff_semEq`: satisfiable (a table listing the same fields in another order)
example : TblEquivOn (fun _ => true) (fun _ => ["shift", "array"]) (fun _ => ["array", "shift", "array"]) := by
  intro k _ f; simp [or_comm]
-- hypotheses of `eq_iff_semEq_partial` / `code_eq_iff_semEq`: some probed kind is clean today
example : ∃ k ∈ PtGen.kinds, (Term.node k [] []).allKinds cleanKind = true := by decide +kernel
-- hypothesis of `eq_hash`: a hash table below the comparer table
example : TblSub (fun _ => ["shift"]) (fun _ => ["shift", "array"]) := by
  intro k f h; simp at h ⊢; exact Or.inl h
-- congruence at depth 2
def exCtx : Ctx := .node "Roll" [("shift", "3")] [] "array" []
  (.node "Stack" [] [] "arrays" [exP "z"] .hole [] []) [] []
example : exCtx.depth = 2 := by decide
example : eqStruct exSem (exCtx.plug (exRoll "1" "a" (exP "x")))
    (exCtx.plug (exRoll "1" "b" (exP "x"))) = true := by decide
-- a heap with sharing: node 2 uses node 0 twice, node 3 uses nodes 0 and 1 (equal, distinct objects)
def exHeap : Heap := [
  ⟨"Placeholder", [("name", "x")], []⟩, ⟨"Placeholder", [("name", "x")], []⟩,
  ⟨"Stack", [("axis", "0")], [("arrays", [0, 0])]⟩, ⟨"Stack", [("axis", "0")], [("arrays", [0, 1])]⟩]
example : exHeap.wfB = true ∧ 2 < exHeap.length ∧ 3 < exHeap.length := by decide
example : eqMemo exSem true exHeap exHeap 2 3 = true := by decide
example : eqStruct exSem (unfold exHeap 2) (unfold exHeap 3) = true := by decide

end Pt.EqM

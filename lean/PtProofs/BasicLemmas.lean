/-
  Helper lemmas about shapes, linearisation and Python integer division.
-/
import PtModel.Basic
namespace Pt

theorem inB_cons {d i : Nat} {ds is : List Nat} :
    inB (d :: ds) (i :: is) = true ↔ i < d ∧ inB ds is = true := by
  simp [inB]

theorem inB_length : ∀ {s i}, inB s i = true → i.length = s.length
  | [], [], _ => rfl
  | [], _ :: _, h => by simp [inB] at h
  | _ :: _, [], h => by simp [inB] at h
  | d :: ds, i :: is, h => by
    simp [inB] at h
    simp [inB_length h.2]

theorem ravelC_lt : ∀ (s : Shape) (i : Idx), inB s i = true → ravelC s i < prod s
  | [], [], _ => by simp [ravelC, prod]
  | [], _ :: _, h => by simp [inB] at h
  | _ :: _, [], h => by simp [inB] at h
  | d :: ds, i :: is, h => by
    simp [inB] at h
    have ih := ravelC_lt ds is h.2
    simp only [ravelC, prod]
    calc i * prod ds + ravelC ds is < i * prod ds + prod ds := by omega
      _ = (i + 1) * prod ds := by rw [Nat.add_mul, Nat.one_mul]
      _ ≤ d * prod ds := Nat.mul_le_mul_right _ h.1

theorem unravelC_ravelC : ∀ (s : Shape) (i : Idx), inB s i = true →
    unravelC s (ravelC s i) = i
  | [], [], _ => by simp [unravelC]
  | [], _ :: _, h => by simp [inB] at h
  | _ :: _, [], h => by simp [inB] at h
  | d :: ds, i :: is, h => by
    simp [inB] at h
    have hlt := ravelC_lt ds is h.2
    have ih := unravelC_ravelC ds is h.2
    have hpos : 0 < prod ds := by omega
    simp only [ravelC, unravelC]
    have h1 : (i * prod ds + ravelC ds is) / prod ds = i := by
      rw [Nat.add_comm, Nat.add_mul_div_right _ _ hpos, Nat.div_eq_of_lt hlt, Nat.zero_add]
    have h2 : (i * prod ds + ravelC ds is) % prod ds = ravelC ds is := by
      rw [Nat.add_comm, Nat.add_mul_mod_self_right, Nat.mod_eq_of_lt hlt]
    rw [h1, h2, ih]

theorem prod_pos_of_lt {s : Shape} {k : Nat} (h : k < prod s) : 0 < prod s := by omega

theorem ravelC_unravelC : ∀ (s : Shape) (k : Nat), k < prod s →
    ravelC s (unravelC s k) = k
  | [], k, h => by simp [prod] at h; simp [ravelC, h]
  | d :: ds, k, h => by
    simp only [prod] at h
    have hpos : 0 < prod ds := by
      rcases Nat.eq_zero_or_pos (prod ds) with h0 | h0
      · rw [h0] at h; simp at h
      · exact h0
    have hm : k % prod ds < prod ds := Nat.mod_lt _ hpos
    simp only [unravelC, ravelC]
    rw [ravelC_unravelC ds _ hm]
    exact Nat.div_add_mod' k (prod ds)

theorem unravelC_inB : ∀ (s : Shape) (k : Nat), k < prod s → inB s (unravelC s k) = true
  | [], _, _ => by simp [unravelC, inB]
  | d :: ds, k, h => by
    simp only [prod] at h
    have hpos : 0 < prod ds := by
      rcases Nat.eq_zero_or_pos (prod ds) with h0 | h0
      · rw [h0] at h; simp at h
      · exact h0
    simp only [unravelC, inB, Bool.and_eq_true, decide_eq_true_eq]
    refine ⟨?_, unravelC_inB ds _ (Nat.mod_lt _ hpos)⟩
    rw [Nat.div_lt_iff_lt_mul hpos]; exact h

/-! Fortran order -/

theorem ravelF_lt : ∀ (s : Shape) (i : Idx), inB s i = true → ravelF s i < prod s
  | [], [], _ => by simp [ravelF, prod]
  | [], _ :: _, h => by simp [inB] at h
  | _ :: _, [], h => by simp [inB] at h
  | d :: ds, i :: is, h => by
    simp [inB] at h
    have ih := ravelF_lt ds is h.2
    simp only [ravelF, prod]
    calc i + d * ravelF ds is < d + d * ravelF ds is := by omega
      _ = d * (ravelF ds is + 1) := by rw [Nat.mul_add, Nat.mul_one, Nat.add_comm]
      _ ≤ d * prod ds := Nat.mul_le_mul_left _ ih

theorem unravelF_ravelF : ∀ (s : Shape) (i : Idx), inB s i = true →
    unravelF s (ravelF s i) = i
  | [], [], _ => by simp [unravelF]
  | [], _ :: _, h => by simp [inB] at h
  | _ :: _, [], h => by simp [inB] at h
  | d :: ds, i :: is, h => by
    simp [inB] at h
    have ih := unravelF_ravelF ds is h.2
    have hpos : 0 < d := by omega
    simp only [ravelF, unravelF]
    have h1 : (i + d * ravelF ds is) % d = i := by
      rw [Nat.add_mul_mod_self_left, Nat.mod_eq_of_lt h.1]
    have h2 : (i + d * ravelF ds is) / d = ravelF ds is := by
      rw [Nat.add_mul_div_left _ _ hpos, Nat.div_eq_of_lt h.1, Nat.zero_add]
    rw [h1, h2, ih]

theorem ravelF_unravelF : ∀ (s : Shape) (k : Nat), k < prod s →
    ravelF s (unravelF s k) = k
  | [], k, h => by simp [prod] at h; simp [ravelF, h]
  | d :: ds, k, h => by
    simp only [prod] at h
    have hpos : 0 < d := by
      rcases Nat.eq_zero_or_pos d with h0 | h0
      · rw [h0] at h; simp at h
      · exact h0
    have hd : k / d < prod ds := by
      rw [Nat.div_lt_iff_lt_mul hpos, Nat.mul_comm]; exact h
    simp only [unravelF, ravelF]
    rw [ravelF_unravelF ds _ hd]
    exact Nat.mod_add_div k d

theorem unravelF_inB : ∀ (s : Shape) (k : Nat), k < prod s → inB s (unravelF s k) = true
  | [], _, _ => by simp [unravelF, inB]
  | d :: ds, k, h => by
    simp only [prod] at h
    have hpos : 0 < d := by
      rcases Nat.eq_zero_or_pos d with h0 | h0
      · rw [h0] at h; simp at h
      · exact h0
    have hd : k / d < prod ds := by
      rw [Nat.div_lt_iff_lt_mul hpos, Nat.mul_comm]; exact h
    simp only [unravelF, inB, Bool.and_eq_true, decide_eq_true_eq]
    exact ⟨Nat.mod_lt _ hpos, unravelF_inB ds _ hd⟩

end Pt

/-
  Helper lemmas for property C12 (function calls and inlining).
-/
import PtModel.Calls
import Std.Data.String.ToNat
namespace Pt
namespace Calls

section
variable {V : Type} (interp : String → List V → V) (undef : V)

theorem lookup_denoteBinds (env : String → V) : ∀ (bs : List (String × Term)) (p : String),
    lookup (denoteBinds interp undef env bs) p = (lookup bs p).map (denote interp undef env)
  | [], _ => rfl
  | (n, t) :: bs, p => by
    simp only [lookup, denoteBinds] at *
    by_cases h : (n == p) = true
    · rw [List.find?_cons_of_pos (by simpa using h), List.find?_cons_of_pos (by simpa using h)]
      rfl
    · rw [List.find?_cons_of_neg (by simpa using h), List.find?_cons_of_neg (by simpa using h)]
      exact lookup_denoteBinds env bs p

/-- the value of the term a call site substitutes for a name = what the body's
    environment binds that name to -/
theorem denote_callSubst (env : String → V) (params : List String) (bs : List (String × Term))
    (p : String) :
    denote interp undef env (callSubst params bs p)
      = callEnv undef params (denoteBinds interp undef env bs) p := by
  simp only [callSubst, callEnv]
  by_cases h : p ∈ params
  · simp only [h, if_true, lookup_denoteBinds]
    cases lookup bs p with
    | none => simp [denote]
    | some t => rfl
  · simp [h, denote]

mutual
/-- substitution lemma: no capture, whatever the substituted terms mention -/
theorem subst_denote (σ : String → Term) : ∀ (t : Term) (env : String → V),
    denote interp undef env (substPlaceholders σ t)
      = denote interp undef (fun p => denote interp undef env (σ p)) t
  | .placeholder n, env => by simp [substPlaceholders, denote]
  | .error, env => by simp [substPlaceholders, denote]
  | .op f args, env => by
    simp only [substPlaceholders, denote, subst_denoteList σ args env]
  | .call params body bindings, env => by
    simp only [substPlaceholders, denote, subst_denoteBinds σ bindings env]
theorem subst_denoteList (σ : String → Term) : ∀ (ts : List Term) (env : String → V),
    denoteList interp undef env (substList σ ts)
      = denoteList interp undef (fun p => denote interp undef env (σ p)) ts
  | [], _ => rfl
  | t :: ts, env => by
    simp only [substList, denoteList, subst_denote σ t env, subst_denoteList σ ts env]
theorem subst_denoteBinds (σ : String → Term) : ∀ (bs : List (String × Term)) (env : String → V),
    denoteBinds interp undef env (substBinds σ bs)
      = denoteBinds interp undef (fun p => denote interp undef env (σ p)) bs
  | [], _ => rfl
  | (n, t) :: bs, env => by
    simp only [substBinds, denoteBinds, subst_denote σ t env, subst_denoteBinds σ bs env]
end

mutual
theorem inline_denote : ∀ (t : Term) (env : String → V),
    denote interp undef env (inline t) = denote interp undef env t
  | .placeholder n, _ => rfl
  | .error, _ => rfl
  | .op f args, env => by simp only [inline, denote, inline_denoteList args env]
  | .call params body bindings, env => by
    simp only [inline, denote]
    rw [subst_denote, inline_denote body]
    congr 1
    funext p
    rw [denote_callSubst, inline_denoteBinds bindings env]
theorem inline_denoteList : ∀ (ts : List Term) (env : String → V),
    denoteList interp undef env (inlineList ts) = denoteList interp undef env ts
  | [], _ => rfl
  | t :: ts, env => by
    simp only [inlineList, denoteList, inline_denote t env, inline_denoteList ts env]
theorem inline_denoteBinds : ∀ (bs : List (String × Term)) (env : String → V),
    denoteBinds interp undef env (inlineBinds bs) = denoteBinds interp undef env bs
  | [], _ => rfl
  | (n, t) :: bs, env => by
    simp only [inlineBinds, denoteBinds, inline_denote t env, inline_denoteBinds bs env]
end
end

/-! ### call-freeness -/

mutual
theorem callFree_subst (σ : String → Term) (hσ : ∀ p, callFree (σ p) = true) :
    ∀ (t : Term), callFree t = true → callFree (substPlaceholders σ t) = true
  | .placeholder n, _ => hσ n
  | .error, _ => rfl
  | .op f args, h => by
    simp only [callFree] at h
    simp only [substPlaceholders, callFree, callFreeList_subst σ hσ args h]
  | .call _ _ _, h => by simp [callFree] at h
theorem callFreeList_subst (σ : String → Term) (hσ : ∀ p, callFree (σ p) = true) :
    ∀ (ts : List Term), callFreeList ts = true → callFreeList (substList σ ts) = true
  | [], _ => rfl
  | t :: ts, h => by
    simp only [callFreeList, Bool.and_eq_true] at h
    simp only [substList, callFreeList, callFree_subst σ hσ t h.1,
      callFreeList_subst σ hσ ts h.2, Bool.and_self]
end

theorem callFree_lookup : ∀ (bs : List (String × Term)), (∀ b ∈ bs, callFree b.2 = true) →
    ∀ p, callFree ((lookup bs p).getD .error) = true
  | [], _, _ => rfl
  | (n, t) :: bs, h, p => by
    simp only [lookup]
    by_cases hn : (n == p) = true
    · rw [List.find?_cons_of_pos (by simpa using hn)]
      exact h (n, t) (by simp)
    · rw [List.find?_cons_of_neg (by simpa using hn)]
      exact callFree_lookup bs (fun b hb => h b (by simp [hb])) p

mutual
theorem callFree_inline : ∀ (t : Term), callFree (inline t) = true
  | .placeholder _ => rfl
  | .error => rfl
  | .op f args => by simp only [inline, callFree, callFreeList_inline args]
  | .call params body bindings => by
    simp only [inline]
    apply callFree_subst _ _ _ (callFree_inline body)
    intro p
    simp only [callSubst]
    split
    · exact callFree_lookup _ (callFree_inlineBinds bindings) p
    · rfl
theorem callFreeList_inline : ∀ (ts : List Term), callFreeList (inlineList ts) = true
  | [] => rfl
  | t :: ts => by
    simp only [inlineList, callFreeList, callFree_inline t, callFreeList_inline ts, Bool.and_self]
theorem callFree_inlineBinds : ∀ (bs : List (String × Term)),
    ∀ b ∈ inlineBinds bs, callFree b.2 = true
  | [], b, h => by simp [inlineBinds] at h
  | (n, t) :: bs, b, h => by
    simp only [inlineBinds, List.mem_cons] at h
    rcases h with rfl | h
    · exact callFree_inline t
    · exact callFree_inlineBinds bs b h
end

/-! ### names of `trace_call` -/

theorem posName_injective {i j : Nat} (h : posName i = posName j) : i = j := by
  unfold posName at h
  exact Nat.repr_injective ((String.append_right_inj "in__pt_").mp h)

theorem kwName_injective {a b : String} (h : kwName a = kwName b) : a = b :=
  (String.append_right_inj "in_").mp h

theorem posName_ne_kwName {i : Nat} {kw : String} (hkw : kw ≠ "_pt_" ++ toString i) :
    posName i ≠ kwName kw := by
  intro h
  unfold posName kwName at h
  have e : "in__pt_" ++ toString i = "in_" ++ ("_pt_" ++ toString i) := by
    rw [← String.append_assoc]; rfl
  rw [e] at h
  exact hkw ((String.append_right_inj "in_").mp h).symm

end Calls
end Pt

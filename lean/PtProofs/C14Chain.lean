/-
  Property C14 — the last link of the chain: what the generated program computes for an index
  lambda (`pygen_sound`: NumPy's meaning `npHlo` of the high-level operation the raiser finds) is
  the index lambda's own pointwise value (C19's `raise_sound`).
-/
import PtProofs.C14PyGen
import PtProofs.C19
namespace Pt
namespace Py
open Raise

/-- operations whose NumPy form is given a dtype (`np.ones`, `np.zeros`, `np.full`): their value is
    the literal CAST to that dtype's kind (`1` ↦ `1.0`), which the exact value domain keeps apart -/
def isConstOp : HLO → Bool
  | .full _ => true
  | .zerosLike _ => true
  | _ => false

theorem opnd_at_value {env : List (String × Arr Val)} {x : Operand} {o : Opnd}
    (h : opndOf env x = some o) (shape : Shape) (i : Idx) : o.at shape i = x.value env shape i := by
  cases x with
  | arr n =>
    simp only [opndOf, Option.map_eq_some_iff] at h
    obtain ⟨a, ha, rfl⟩ := h
    simp [Opnd.at, Operand.value, ha]
  | scalar c =>
    simp only [opndOf, Option.some.injEq] at h
    subst h
    simp [Opnd.at, Operand.value]

theorem opnds_at_value {env : List (String × Arr Val)} (shape : Shape) (i : Idx) :
    ∀ {xs : List Operand} {os : List Opnd}, opndsOf env xs = some os →
      os.map (Opnd.at shape i) = xs.map (·.value env shape i)
  | [], os, h => by
    simp only [opndsOf, Option.some.injEq] at h
    subst h; rfl
  | x :: xs, os, h => by
    simp only [opndsOf] at h
    cases hx : opndOf env x with
    | none => simp [hx] at h
    | some o =>
      cases hxs : opndsOf env xs with
      | none => simp [hx, hxs] at h
      | some os' =>
        simp only [hx, hxs, Option.some.injEq] at h
        subst h
        simp [opnd_at_value hx, opnds_at_value shape i hxs]

theorem elementwise_get {f : List Val → Val} {os : List Opnd} {a : Arr Val}
    (h : elementwise f os = some a) (i : Idx) : a.get i = f (os.map (Opnd.at a.shape i)) := by
  simp only [elementwise, Option.map_eq_some_iff] at h
  obtain ⟨s, _, rfl⟩ := h
  rfl

theorem reduceOver_names (op : RedOp) (x : Arr Val) (out : Idx) :
    ∀ (axes : List (Nat × String)) (fixed : List (Nat × Nat)),
      reduceOver op x out (axes.map fun a => (a.1, "")) fixed = reduceOver op x out axes fixed
  | [], fixed => rfl
  | (d, n) :: more, fixed => by
    simp only [List.map_cons, reduceOver]
    congr 1
    apply List.map_congr_left
    intro k _
    exact reduceOver_names op x out more _

/-- NumPy's meaning of a (non-constant) high-level operation on the actual operands is, at every
    index, C19's `hloDenote` — once the result has the declared shape -/
theorem npHlo_pointwise (h : HLO) (shape : Shape) (kind : VKind) (env : List (String × Arr Val))
    (a : Arr Val) (hc : isConstOp h = false) (hnp : npHlo h shape kind env = some a)
    (hsh : a.shape = shape) : ∀ i, a.get i = (hloDenote h shape env).get i := by
  intro i
  cases h with
  | full c => simp [isConstOp] at hc
  | zerosLike x => simp [isConstOp] at hc
  | logicalNot x => simp [npHlo] at hnp
  | binary op x1 x2 =>
    simp only [npHlo] at hnp
    cases hos : opndsOf env [x1, x2] with
    | none => simp [hos] at hnp
    | some os =>
      simp only [hos, Option.bind_some] at hnp
      rw [elementwise_get hnp i, hsh, opnds_at_value shape i hos]
      simp [hloDenote, binVal]
  | call f args =>
    simp only [npHlo] at hnp
    cases hos : opndsOf env args with
    | none => simp [hos] at hnp
    | some os =>
      simp only [hos, Option.bind_some] at hnp
      rw [elementwise_get hnp i, hsh, opnds_at_value shape i hos]
      simp [hloDenote]
  | where_ c t e =>
    simp only [npHlo] at hnp
    cases hos : opndsOf env [c, t, e] with
    | none => simp [hos] at hnp
    | some os =>
      simp only [hos, Option.bind_some] at hnp
      rw [elementwise_get hnp i, hsh, opnds_at_value shape i hos]
      simp only [hloDenote, whereVal, List.map_cons, List.map_nil]
      cases (Operand.value env shape i c).truthy? with
      | none => rfl
      | some b => cases b <;> rfl
  | broadcast x =>
    simp only [npHlo, Option.map_eq_some_iff] at hnp
    obtain ⟨b, hb, rfl⟩ := hnp
    simp [hloDenote, Operand.value, hb]
  | reduce op x axes =>
    simp only [npHlo, Option.map_eq_some_iff] at hnp
    obtain ⟨b, hb, rfl⟩ := hnp
    simp only [hloDenote, hb, npReduce, List.map_map]
    exact reduceOver_names op b i axes []

theorem shapesOf_envOf {g : PGraph} {inp : Nat → Option (Arr Val)} (hshape : ShapeOK g inp) :
    ∀ (binds : List (String × Nat)) (bs : List (String × Shape)), bindShapes g binds = .ok bs →
      (∀ b ∈ binds, (den g inp b.2).isSome = true) → shapesOf (envOf (den g inp) binds) = bs
  | [], bs, h, _ => by
    simp only [bindShapes, Gen.ok.injEq] at h
    subst h; rfl
  | (n, c) :: r, bs, h, hall => by
    simp only [bindShapes] at h
    cases hs : staticShape (g.get c).shape with
    | none => simp [hs] at h
    | some s =>
      simp only [hs] at h
      obtain ⟨rs, hrs, h⟩ := Gen.bind_ok.1 h
      simp only [Gen.ok.injEq] at h
      subst h
      obtain ⟨a, ha⟩ := Option.isSome_iff_exists.1 (hall (n, c) (by simp))
      have ih := shapesOf_envOf hshape r rs hrs (fun b hb => hall b (List.mem_cons_of_mem _ hb))
      have hsa := hshape c a s ha hs
      unfold envOf shapesOf at ih ⊢
      simp only [List.filterMap_cons, ha, Option.map_some, List.map_cons, hsa]
      rw [ih]

/-- **the chain closes.**  An index lambda of the fragment that the raiser classifies as a
    non-constant operation denotes (in the sense of `pygen_sound`) an array of the declared shape
    whose element at every in-bounds index is the value of the index lambda's expression there —
    the scalar semantics `eval` of C19, on the arrays its bindings denote. -/
theorem il_value_pointwise (g : PGraph) (inp : Nat → Option (Arr Val)) (i : Nat) {dt : DType}
    {e : SExpr} {binds : List (String × Nat)} {lits : List ScalarInfo} {shape : Shape}
    {bs : List (String × Shape)} {h : HLO} {a : Arr Val} (hw : WFG g) (hshape : ShapeOK g inp)
    (hn : (g.get i).node = .indexLambda dt e binds lits)
    (hsh : staticShape (g.get i).shape = some shape) (hbs : bindShapes g binds = .ok bs)
    (hr : raise e shape bs = some h) (hc : isConstOp h = false)
    (hkids : ∀ b ∈ binds, (den g inp b.2).isSome = true) (hden : den g inp i = some a) :
    a.shape = shape ∧
      ∀ idx, inB shape idx = true →
        a.get idx = eval (idxEnv idx (envOf (den g inp) binds)) (dropCasts e) := by
  have hs := hshape i a shape hden hsh
  refine ⟨hs, fun idx hidx => ?_⟩
  rw [den_step hw] at hden
  simp only [denoteStep, hn, hsh, hbs, hr] at hden
  rw [npHlo_pointwise h shape _ _ a hc hden hs idx]
  have hr' : raise e shape (shapesOf (envOf (den g inp) binds)) = some h := by
    rw [shapesOf_envOf hshape binds bs hbs hkids]; exact hr
  exact (raise_sound e shape _ h hr').2 idx hidx

/-! non-vacuity: node 2 (`x + 2`) of the second example graph of `PtProofs.C14PyGen` -/
example : ∃ a, den ex2G ex2Inp 2 = some a ∧ a.shape = [2] ∧
    ∀ idx, inB [2] idx = true →
      a.get idx = eval (idxEnv idx (envOf (den ex2G ex2Inp) [("_in0", 0)]))
        (dropCasts (.add (.sub "_in0" [.idx 0]) (.rat 2 1))) := by
  obtain ⟨a, ha⟩ := Option.isSome_iff_exists.1 (show (den ex2G ex2Inp 2).isSome = true from rfl)
  refine ⟨a, ha, ?_⟩
  exact il_value_pointwise ex2G ex2Inp 2 (h := .binary .add (.arr "_in0") (.scalar (.rat 2 1)))
    (bs := [("_in0", [2])]) ex2Hyp.wf ex2Hyp.shape rfl rfl rfl rfl rfl
    (by intro b hb; simp only [List.mem_singleton] at hb; subst hb; rfl) ha

end Py
end Pt

/-
  Helper lemmas for `pt.pad` (constant mode): value (C02) and accesses (C11) of
  the nested conditionals, by induction over the axes.
-/
import PtModel.Pad
import PtProofs.EvalLemmas
import PtProofs.StackConcatLemmas
import PtProofs.AccessLemmas
namespace Pt
open Lower Spec

theorem cmp_ge_nat (j k : Nat) :
    Val.cmp .ge (.i (j : Nat)) (.i (k : Nat)) = .b (decide (k ≤ j)) := by
  simp only [Val.cmp, Val.toRat?]
  congr 1
  simp

/-- the items of the spec corresponding to the items of the expression -/
def padVals (env : Env) (L : List PadItem) : List ((Nat × Nat) × (Val × Val)) :=
  L.map fun it => (it.1, (eval env it.2.1.1, eval env it.2.1.2))

/-- the upper-guard expressions evaluate to `axis_len + before` -/
def BoundsOK (env : Env) (L : List PadItem) (ns : List Nat) : Prop :=
  L.map (fun it => eval env it.2.2) = (ns.zip L).map fun p => Val.i ((p.1 + p.2.1.1 : Nat) : Int)

theorem eval_padGuard (env : Env) (d x n : Nat) (it : PadItem) (acc : SExpr)
    (hx : env.pt[d]? = some x) (hb : eval env it.2.2 = .i ((n + it.1.1 : Nat) : Int)) :
    eval env (padGuard d it acc)
      = if x < it.1.1 then eval env it.2.1.1
        else if n + it.1.1 ≤ x then eval env it.2.1.2 else eval env acc := by
  have h1 : eval env (.cmp .lt (ivar d) (.int it.1.1)) = .b (decide (x < it.1.1)) := by
    simp only [eval, ivar, hx]; exact cmp_lt_nat _ _
  have h2 : eval env (.cmp .ge (ivar d) it.2.2) = .b (decide (n + it.1.1 ≤ x)) := by
    simp only [eval, ivar, hx, hb]; exact cmp_ge_nat _ _
  unfold padGuard
  by_cases c1 : x < it.1.1
  · rw [eval_ite_true _ _ _ _ (by rw [h1, decide_eq_true c1]), if_pos c1]
  · rw [eval_ite_false _ _ _ _ (by rw [h1, decide_eq_false c1]), if_neg c1]
    by_cases c2 : n + it.1.1 ≤ x
    · rw [eval_ite_true _ _ _ _ (by rw [h2, decide_eq_true c2]), if_pos c2]
    · rw [eval_ite_false _ _ _ _ (by rw [h2, decide_eq_false c2]), if_neg c2]

/-- value of the nested conditionals = NumPy's axis-after-axis selection -/
theorem eval_padWrap (env : Env) : ∀ (L : List PadItem) (ns : List Nat) (d : Nat) (acc : SExpr),
    ns.length = L.length → d + L.length ≤ env.pt.length → BoundsOK env L ns →
    eval env (padWrap d L acc) = padSel (padVals env L) ns (env.pt.drop d) (eval env acc)
  | [], _, _, _, _, _, _ => by simp [padWrap, padVals, padSel]
  | it :: L, [], _, _, h, _, _ => by simp at h
  | it :: L, n :: ns, d, acc, hlen, hd, hb => by
    simp only [List.length_cons] at hlen hd
    have hdlt : d < env.pt.length := by omega
    simp only [BoundsOK, List.map_cons, List.zip_cons_cons, List.cons.injEq] at hb
    have hx : env.pt[d]? = some env.pt[d] := List.getElem?_eq_getElem hdlt
    have ih := eval_padWrap env L ns (d + 1) (padGuard d it acc) (by omega) (by omega) hb.2
    rw [padWrap, ih, eval_padGuard env d env.pt[d] n it acc hx hb.1,
      List.drop_eq_getElem_cons hdlt]
    simp only [padVals, List.map_cons, padSel]

/-- the selection ignores the default as soon as some axis is in its pad area -/
theorem padSel_congr : ∀ (L : List ((Nat × Nat) × (Val × Val))) (ns : List Nat) (xs : Idx)
    (u v : Val), ns.length = L.length → xs.length = L.length →
    ((∀ k, k < L.length → (L.getD k ((0, 0), (.undef, .undef))).1.1 ≤ xs.getD k 0 ∧
        xs.getD k 0 < ns.getD k 0 + (L.getD k ((0, 0), (.undef, .undef))).1.1) → u = v) →
    padSel L ns xs u = padSel L ns xs v
  | [], _, _, u, v, _, _, h => by simpa [padSel] using h (fun k hk => by simp at hk)
  | _ :: _, [], _, _, _, h, _, _ => by simp at h
  | _ :: _, _ :: _, [], _, _, _, h, _ => by simp at h
  | (w, cv) :: L, n :: ns, x :: xs, u, v, h1, h2, h => by
    simp only [padSel]
    apply padSel_congr L ns xs _ _ (by simpa using h1) (by simpa using h2)
    intro hin
    by_cases c1 : x < w.1
    · simp [c1]
    · by_cases c2 : n + w.1 ≤ x
      · simp [c1, c2]
      · simp only [c1, c2, if_false]
        apply h
        intro k hk
        cases k with
        | zero => simp; omega
        | succ k => simpa using hin k (by simpa using hk)

/-- accesses of the nested conditionals: nothing beyond the accesses of the
    innermost expression, and those only if every axis is inside the operand -/
theorem accesses_padWrap (env : Env) : ∀ (L : List PadItem) (ns : List Nat) (d : Nat) (acc : SExpr),
    ns.length = L.length → d + L.length ≤ env.pt.length → BoundsOK env L ns →
    (∀ it ∈ L, hasSub it.2.1.1 = false ∧ hasSub it.2.1.2 = false ∧ hasSub it.2.2 = false) →
    ∀ a ∈ accesses env (padWrap d L acc), a ∈ accesses env acc ∧
      ∀ k, k < L.length → (L.getD k default).1.1 ≤ env.pt.getD (d + k) 0 ∧
        env.pt.getD (d + k) 0 < ns.getD k 0 + (L.getD k default).1.1
  | [], _, _, _, _, _, _, _, a, ha => ⟨by simpa [padWrap] using ha, fun k hk => by simp at hk⟩
  | it :: L, [], _, _, h, _, _, _, _, _ => by simp at h
  | it :: L, n :: ns, d, acc, hlen, hd, hb, hns, a, ha => by
    simp only [List.length_cons] at hlen hd
    have hdlt : d < env.pt.length := by omega
    simp only [BoundsOK, List.map_cons, List.zip_cons_cons, List.cons.injEq] at hb
    have hx : env.pt[d]? = some env.pt[d] := List.getElem?_eq_getElem hdlt
    obtain ⟨hs1, hs2, hs3⟩ := hns it (by simp)
    rw [padWrap] at ha
    obtain ⟨hg, hrest⟩ := accesses_padWrap env L ns (d + 1) (padGuard d it acc) (by omega)
      (by omega) hb.2 (fun it' h' => hns it' (by simp [h'])) a ha
    -- the guard of axis d
    have h1 : eval env (.cmp .lt (ivar d) (.int it.1.1)) = .b (decide (env.pt[d] < it.1.1)) := by
      simp only [eval, ivar, hx]; exact cmp_lt_nat _ _
    have h2 : eval env (.cmp .ge (ivar d) it.2.2) = .b (decide (n + it.1.1 ≤ env.pt[d])) := by
      simp only [eval, ivar, hx, hb.1]; exact cmp_ge_nat _ _
    have hn1 : hasSub (.cmp .lt (ivar d) (.int it.1.1)) = false := by simp [hasSub, ivar]
    have hn2 : hasSub (.cmp .ge (ivar d) it.2.2) = false := by simp [hasSub, ivar, hs3]
    unfold padGuard at hg
    by_cases c1 : env.pt[d] < it.1.1
    · rw [accesses_ite_true _ _ _ _ (by rw [h1, decide_eq_true c1]) hn1,
        accesses_nil_of_noSub _ _ hs1] at hg
      simp at hg
    · rw [accesses_ite_false _ _ _ _ (by rw [h1, decide_eq_false c1]) hn1] at hg
      by_cases c2 : n + it.1.1 ≤ env.pt[d]
      · rw [accesses_ite_true _ _ _ _ (by rw [h2, decide_eq_true c2]) hn2,
          accesses_nil_of_noSub _ _ hs2] at hg
        simp at hg
      · rw [accesses_ite_false _ _ _ _ (by rw [h2, decide_eq_false c2]) hn2] at hg
        refine ⟨hg, fun k hk => ?_⟩
        cases k with
        | zero =>
          simp only [Nat.add_zero, List.getD_eq_getElem?_getD, List.getElem?_cons_zero, hx,
            Option.getD_some]
          omega
        | succ k =>
          have := hrest k (by simpa using hk)
          simp only [List.getD_cons_succ]
          have e : d + (k + 1) = d + 1 + k := by omega
          rw [e]; exact this

/-- the innermost subscript: if every axis is inside the operand, it evaluates to
    `idx - before`, which is in bounds -/
theorem padSubscript_index (i : Idx) (b : List (String × Arr Val)) (widths : List (Nat × Nat))
    (s : Shape) (hw : widths.length = s.length) (hi : i.length = s.length)
    (hin : ∀ k, k < s.length → (widths.getD k (0, 0)).1 ≤ i.getD k 0 ∧
      i.getD k 0 < s.getD k 0 + (widths.getD k (0, 0)).1) :
    ((List.range widths.length).map fun d => subConst (ivar d) (widths.getD d (0, 0)).1).map
        (eval (idxEnv i b))
      = ((i.zip widths).map fun p => p.1 - p.2.1).map (fun x => Val.i (x : Nat))
    ∧ inB s ((i.zip widths).map fun p => p.1 - p.2.1) = true := by
  have hget : ∀ k, k < s.length →
      ((i.zip widths).map fun p => p.1 - p.2.1).getD k 0 = i.getD k 0 - (widths.getD k (0, 0)).1 := by
    intro k hk
    simp only [List.getD_eq_getElem?_getD, List.getElem?_map]
    rw [List.getElem?_eq_getElem (by simp; omega)]
    simp [List.getElem_zip, List.getElem?_eq_getElem (show k < i.length by omega),
      List.getElem?_eq_getElem (show k < widths.length by omega)]
  constructor
  · apply List.ext_getElem
    · simp; omega
    · intro k h1 h2
      have hk : k < s.length := by simpa [hw] using h1
      have hk' : k < i.length := by omega
      simp only [List.getElem_map, List.getElem_range, subConst, ivar, eval,
        idxEnv_pt i b k hk', Val.add, Val.arith, Val.toInt?]
      have := hget k hk
      have hk2 : k < ((i.zip widths).map fun p => p.1 - p.2.1).length := by simpa using h2
      rw [List.getD_eq_getElem?_getD, List.getElem?_eq_getElem hk2, Option.getD_some] at this
      simp only [List.getElem_map] at this
      rw [this]
      have := (hin k hk).1
      congr 1; omega
  · apply inB_of_forall
    · simp; omega
    · intro k hk
      rw [hget k hk]
      have := hin k hk
      omega

/-! ### the whole rule -/

theorem zip3_length (widths : List (Nat × Nat)) (cvals : List (SExpr × SExpr)) (bounds : List SExpr)
    (r : Nat) (h1 : widths.length = r) (h2 : cvals.length = r) (h3 : bounds.length = r) :
    (widths.zip (cvals.zip bounds)).length = r := by
  simp [List.length_zip, h1, h2, h3]

theorem padVals_zip (env : Env) : ∀ (widths : List (Nat × Nat)) (cvals : List (SExpr × SExpr))
    (bounds : List SExpr), cvals.length = widths.length → bounds.length = widths.length →
    padVals env (widths.zip (cvals.zip bounds))
      = widths.zip (cvals.map fun c => (eval env c.1, eval env c.2))
  | [], _, _, _, _ => by simp [padVals]
  | _ :: _, [], _, h, _ => by simp at h
  | _ :: _, _ :: _, [], _, h => by simp at h
  | w :: ws, c :: cs, b :: bs, h1, h2 => by
    have ih := padVals_zip env ws cs bs (by simpa using h1) (by simpa using h2)
    simp only [padVals] at ih
    simp [padVals, ih]

theorem zip3_getD_width : ∀ (widths : List (Nat × Nat)) (cvals : List (SExpr × SExpr))
    (bounds : List SExpr) (k : Nat), cvals.length = widths.length → bounds.length = widths.length →
    ((widths.zip (cvals.zip bounds)).getD k default).1 = widths.getD k (0, 0)
  | [], _, _, k, _, _ => by simp; rfl
  | _ :: _, [], _, _, h, _ => by simp at h
  | _ :: _, _ :: _, [], _, _, h => by simp at h
  | w :: ws, c :: cs, b :: bs, 0, _, _ => by simp
  | w :: ws, c :: cs, b :: bs, k + 1, h1, h2 => by
    simpa using zip3_getD_width ws cs bs k (by simpa using h1) (by simpa using h2)

theorem zipW_getD_width : ∀ (widths : List (Nat × Nat)) (vs : List (Val × Val)) (k : Nat),
    vs.length = widths.length →
    ((widths.zip vs).getD k ((0, 0), (.undef, .undef))).1 = widths.getD k (0, 0)
  | [], _, k, _ => by simp
  | _ :: _, [], _, h => by simp at h
  | w :: ws, v :: vs, 0, _ => by simp
  | w :: ws, v :: vs, k + 1, h => by
    simpa using zipW_getD_width ws vs k (by simpa using h)

/-- hypotheses shared by the two `pad` theorems: one pad width, one pair of
    constants and one upper-guard expression per axis of the operand; the
    operand is bound to `in_0`; every upper-guard expression evaluates to
    `axis_len + before` (a literal does; a variable does if the environment
    binds it to a 0-d array holding that number) -/
structure PadOK (a : Arr Val) (widths : List (Nat × Nat)) (cvals : List (SExpr × SExpr))
    (bounds : List SExpr) (binds : List (String × Arr Val)) (i : Idx) : Prop where
  hw : widths.length = a.shape.length
  hc : cvals.length = a.shape.length
  hb : bounds.length = a.shape.length
  hin0 : (idxEnv i binds).lookupArr "in_0" = some a
  hbounds : BoundsOK (idxEnv i binds) (widths.zip (cvals.zip bounds)) a.shape
  hi : inB (padConst widths (cvals.map fun c =>
      (eval (idxEnv i binds) c.1, eval (idxEnv i binds) c.2)) a).shape i = true

theorem PadOK.ilen {a widths cvals bounds binds i} (h : PadOK a widths cvals bounds binds i) :
    i.length = a.shape.length := by
  have := inB_length h.hi
  simp only [padConst, List.length_map, List.length_zip, h.hw, Nat.min_self] at this
  exact this

/-- `BoundsOK` from the plain statement "the bounds evaluate to `axis_len + before`" -/
theorem boundsOK_of_map {a : Arr Val} {widths : List (Nat × Nat)} {cvals : List (SExpr × SExpr)}
    {bounds : List SExpr} {env : Env}
    (hw : widths.length = a.shape.length) (hc : cvals.length = a.shape.length)
    (hb : bounds.length = a.shape.length)
    (h : bounds.map (eval env)
      = (a.shape.zip widths).map fun p => Val.i ((p.1 + p.2.1 : Nat) : Int)) :
    BoundsOK env (widths.zip (cvals.zip bounds)) a.shape := by
  unfold BoundsOK
  generalize a.shape = s at *
  induction s generalizing widths cvals bounds with
  | nil =>
    have : widths = [] := List.length_eq_zero_iff.mp hw
    subst this; simp
  | cons n s ih =>
    match widths, cvals, bounds, hw, hc, hb, h with
    | w :: ws, c :: cs, b :: bs, hw, hc, hb, h =>
      simp only [List.map_cons, List.zip_cons_cons, List.cons.injEq] at h ⊢
      exact ⟨h.1, ih (by simpa using hw) (by simpa using hc) (by simpa using hb) h.2⟩

/-- `pt.pad(a, widths, constant_values=cvals)` lowered = NumPy's `np.pad` -/
theorem padExpr_eval {a widths cvals bounds binds i} (h : PadOK a widths cvals bounds binds i) :
    eval (idxEnv i binds) (padExpr widths cvals bounds)
      = (padConst widths (cvals.map fun c =>
          (eval (idxEnv i binds) c.1, eval (idxEnv i binds) c.2)) a).get i := by
  have hil := h.ilen
  have hL := zip3_length widths cvals bounds _ h.hw h.hc h.hb
  unfold padExpr
  rw [eval_padWrap (idxEnv i binds) _ a.shape 0 _ hL.symm (by simp [idxEnv, hL, hil]) h.hbounds,
    padVals_zip _ _ _ _ (by rw [h.hc, h.hw]) (by rw [h.hb, h.hw])]
  simp only [padConst, idxEnv, List.drop_zero]
  apply padSel_congr
  · simp [List.length_zip, h.hw, h.hc]
  · simp [List.length_zip, h.hw, h.hc, hil]
  · intro hin
    have hin' : ∀ k, k < a.shape.length → (widths.getD k (0, 0)).1 ≤ i.getD k 0 ∧
        i.getD k 0 < a.shape.getD k 0 + (widths.getD k (0, 0)).1 := by
      intro k hk
      have := hin k (by simp [List.length_zip, h.hw, h.hc, hk])
      rw [zipW_getD_width _ _ _ (by simp [h.hw, h.hc])] at this
      exact this
    obtain ⟨hev, hinb⟩ := padSubscript_index i binds widths a.shape h.hw hil hin'
    have hl : Env.lookupArr { pt := i, ix := [], arr := binds } "in_0" = some a := h.hin0
    unfold padSubscript
    have := eval_sub_of { pt := i, ix := [], arr := binds } "in_0" _ _ hev
    rw [this, hl]
    simp only [hinb, if_true]

/-- every access made while evaluating the padded expression is the single,
    affine, in-bounds read of `in_0` -/
theorem padExpr_accesses {a widths cvals bounds binds i} (h : PadOK a widths cvals bounds binds i)
    (hcv : ∀ c ∈ cvals, hasSub c.1 = false ∧ hasSub c.2 = false)
    (hbn : ∀ b ∈ bounds, hasSub b = false) :
    ∀ acc ∈ accesses (idxEnv i binds) (padExpr widths cvals bounds),
      acc.ok = true ∧ acc.affine = true ∧ acc.name = "in_0" := by
  have hil := h.ilen
  have hL := zip3_length widths cvals bounds _ h.hw h.hc h.hb
  intro acc hacc
  unfold padExpr at hacc
  obtain ⟨hmem, hin⟩ := accesses_padWrap (idxEnv i binds) _ a.shape 0 _ hL.symm
    (by simp [idxEnv, hL, hil]) h.hbounds
    (fun it hit => by
      have h1 := (List.of_mem_zip hit).2
      have h2 := List.of_mem_zip h1
      exact ⟨(hcv _ h2.1).1, (hcv _ h2.1).2, hbn _ h2.2⟩) acc hacc
  have hin' : ∀ k, k < a.shape.length → (widths.getD k (0, 0)).1 ≤ i.getD k 0 ∧
      i.getD k 0 < a.shape.getD k 0 + (widths.getD k (0, 0)).1 := by
    intro k hk
    have := hin k (by rw [hL]; exact hk)
    rw [zip3_getD_width _ _ _ _ (by rw [h.hc, h.hw]) (by rw [h.hb, h.hw])] at this
    simpa [idxEnv] using this
  obtain ⟨hev, hinb⟩ := padSubscript_index i binds widths a.shape h.hw hil hin'
  unfold padSubscript at hmem
  rw [accesses_sub_ok (idxEnv i binds) "in_0" _ a _
    (hasSubList_map_range _ _ (fun d => by simp [hasSub_subConst, hasSub_ivar])) h.hin0
    (by rw [evalList_eq_map, hev, toNatIdx_map_i]) hinb] at hmem
  simp only [List.mem_singleton] at hmem
  subst hmem
  exact ⟨rfl, rfl, rfl⟩

/-- a symbolic upper bound: a variable bound to a 0-d array holding the number -/
theorem eval_var_scalar (i : Idx) (binds : List (String × Arr Val)) (nm : String) (arr : Arr Val)
    (v : Int) (hl : (idxEnv i binds).lookupArr nm = some arr) (hs : arr.shape = [])
    (hv : arr.get [] = .i v) : eval (idxEnv i binds) (.var nm) = .i v := by
  simp only [eval, Env.lookupIx, idxEnv, List.find?_nil, Option.map_none]
  have : Env.lookupArr { pt := i, ix := [], arr := binds } nm = some arr := hl
  simp [this, hs, hv]

end Pt

/-
  Lemmas about dependency peeling (batches), the diagnosis of communication graphs (C10)
  and the tag numbering (C09).
-/
import PtProofs.DistLemmas
namespace Pt.Dist

/-! ## peeling: placed nodes admit a ranking; a ranking makes peeling place everything -/

section Peel
variable {α : Type} [DecidableEq α] (nodes : List α) (deps : α → List α)

theorem mem_peelNew {A : List α} {c : α} :
    c ∈ peelNew nodes deps A ↔ c ∈ nodes ∧ c ∉ A ∧ ∀ d ∈ deps c, d ∈ A := by
  unfold peelNew
  rw [List.mem_filter]
  constructor
  · intro ⟨h1, h2⟩; exact ⟨h1, of_decide_eq_true h2⟩
  · intro ⟨h1, h2⟩; exact ⟨h1, decide_eq_true h2⟩

/-- the placed nodes `A` carry a ranking below `bound`, closed under dependencies -/
def Ranked (A : List α) (lvl : α → Nat) (bound : Nat) : Prop :=
  ∀ c ∈ A, lvl c < bound ∧ ∀ d ∈ deps c, d ∈ A ∧ lvl d < lvl c

theorem ranked_round {A : List α} {lvl : α → Nat} {bound : Nat} (h : Ranked deps A lvl bound) :
    Ranked deps (A ++ peelNew nodes deps A) (fun c => if c ∈ A then lvl c else bound) (bound + 1) := by
  intro c hc
  by_cases hcA : c ∈ A
  · obtain ⟨h1, h2⟩ := h c hcA
    simp only [hcA, if_true]
    refine ⟨by omega, ?_⟩
    intro d hd
    obtain ⟨hdA, hlt⟩ := h2 d hd
    simp only [hdA, if_true]
    exact ⟨List.mem_append_left _ hdA, hlt⟩
  · have hnew : c ∈ peelNew nodes deps A := by
      rcases List.mem_append.1 hc with h' | h'
      · exact absurd h' hcA
      · exact h'
    obtain ⟨_, _, hdeps⟩ := (mem_peelNew nodes deps).1 hnew
    simp only [hcA, if_false]
    refine ⟨by omega, ?_⟩
    intro d hd
    have hdA := hdeps d hd
    simp only [hdA, if_true]
    exact ⟨List.mem_append_left _ hdA, (h d hdA).1⟩

theorem ranked_peelN : ∀ (k : Nat) (A : List α), (∃ lvl bound, Ranked deps A lvl bound) →
    ∃ lvl bound, Ranked deps (peelN nodes deps k A) lvl bound
  | 0, _, h => h
  | k + 1, A, ⟨lvl, bound, h⟩ => by
    simp only [peelN]
    exact ranked_peelN k _ ⟨_, _, ranked_round nodes deps h⟩

/-- **peeling is sound**: if every node gets placed there is a ranking strictly decreasing
    along dependencies (no cycle) -/
theorem acyclicB_sound (h : acyclicB nodes deps = true) :
    ∃ lvl : α → Nat, ∀ c ∈ nodes, ∀ d ∈ deps c, lvl d < lvl c := by
  obtain ⟨lvl, bound, hr⟩ := ranked_peelN nodes deps nodes.length [] ⟨fun _ => 0, 0, by intro c hc; cases hc⟩
  refine ⟨lvl, ?_⟩
  intro c hc d hd
  have hmem : c ∈ peelN nodes deps nodes.length [] := by
    have := List.all_eq_true.1 h c hc
    exact of_decide_eq_true this
  exact ((hr c hmem).2 d hd).2

/-- unplaced nodes -/
def unplaced (A : List α) : List α := nodes.filter fun c => decide (c ∉ A)

omit [DecidableEq α] in
theorem exists_min_of_ne_nil (f : α → Nat) : ∀ (l : List α), l ≠ [] → ∃ c ∈ l, ∀ d ∈ l, f c ≤ f d
  | [], h => absurd rfl h
  | [a], _ => ⟨a, List.mem_cons_self .., by intro d hd; simp at hd; subst hd; exact Nat.le_refl _⟩
  | a :: b :: t, _ => by
    obtain ⟨c, hc, hmin⟩ := exists_min_of_ne_nil f (b :: t) (by simp)
    by_cases hac : f a ≤ f c
    · refine ⟨a, List.mem_cons_self .., ?_⟩
      intro d hd
      rcases List.mem_cons.1 hd with h | h
      · subst h; exact Nat.le_refl _
      · exact Nat.le_trans hac (hmin d h)
    · refine ⟨c, List.mem_cons_of_mem _ hc, ?_⟩
      intro d hd
      rcases List.mem_cons.1 hd with h | h
      · subst h; omega
      · exact hmin d h

theorem unplaced_round_le (A : List α) :
    (unplaced nodes (A ++ peelNew nodes deps A)).length ≤ (unplaced nodes A).length := by
  unfold unplaced
  apply filter_length_le
  intro x _ hx
  have := of_decide_eq_true hx
  exact decide_eq_true (fun h => this (List.mem_append_left _ h))

theorem unplaced_round_lt (lvl : α → Nat)
    (hrank : ∀ c ∈ nodes, ∀ d ∈ deps c, d ∈ nodes ∧ lvl d < lvl c)
    (A : List α) (hne : unplaced nodes A ≠ []) :
    (unplaced nodes (A ++ peelNew nodes deps A)).length < (unplaced nodes A).length := by
  obtain ⟨c, hc, hmin⟩ := exists_min_of_ne_nil lvl _ hne
  have hc' := List.mem_filter.1 hc
  have hcn : c ∈ nodes := hc'.1
  have hcA : c ∉ A := of_decide_eq_true hc'.2
  -- every dependency of the minimal unplaced node is placed
  have hdeps : ∀ d ∈ deps c, d ∈ A := by
    intro d hd
    obtain ⟨hdn, hlt⟩ := hrank c hcn d hd
    apply Classical.byContradiction
    intro hdA
    have : d ∈ unplaced nodes A := List.mem_filter.2 ⟨hdn, decide_eq_true hdA⟩
    have := hmin d this
    omega
  have hnew : c ∈ peelNew nodes deps A := (mem_peelNew nodes deps).2 ⟨hcn, hcA, hdeps⟩
  unfold unplaced
  apply filter_length_lt
  · intro x _ hx
    have := of_decide_eq_true hx
    exact decide_eq_true (fun h => this (List.mem_append_left _ h))
  · refine ⟨c, hcn, decide_eq_true hcA, ?_⟩
    apply decide_eq_false
    intro h
    exact h (List.mem_append_right _ hnew)

theorem unplaced_peelN (lvl : α → Nat)
    (hrank : ∀ c ∈ nodes, ∀ d ∈ deps c, d ∈ nodes ∧ lvl d < lvl c) :
    ∀ (k : Nat) (A : List α), (unplaced nodes (peelN nodes deps k A)).length ≤ (unplaced nodes A).length - k
  | 0, A => by simp [peelN]
  | k + 1, A => by
    simp only [peelN]
    have ih := unplaced_peelN lvl hrank k (A ++ peelNew nodes deps A)
    by_cases hne : unplaced nodes A = []
    · have := unplaced_round_le nodes deps A
      simp only [hne, List.length_nil] at this ⊢
      omega
    · have := unplaced_round_lt nodes deps lvl hrank A hne
      omega

/-- **peeling is complete**: if a ranking exists (no cycle), `nodes.length` rounds place every
    node -/
theorem acyclicB_complete (lvl : α → Nat)
    (hrank : ∀ c ∈ nodes, ∀ d ∈ deps c, d ∈ nodes ∧ lvl d < lvl c) :
    acyclicB nodes deps = true := by
  have h := unplaced_peelN nodes deps lvl hrank nodes.length []
  have hlen : (unplaced nodes ([] : List α)).length ≤ nodes.length := by
    unfold unplaced; exact List.length_filter_le _ _
  have h0 : (unplaced nodes (peelN nodes deps nodes.length [])).length = 0 := by omega
  have hnil : unplaced nodes (peelN nodes deps nodes.length []) = [] := List.length_eq_zero_iff.1 h0
  unfold acyclicB
  rw [List.all_eq_true]
  intro c hc
  apply decide_eq_true
  apply Classical.byContradiction
  intro hnot
  have : c ∈ unplaced nodes (peelN nodes deps nodes.length []) :=
    List.mem_filter.2 ⟨hc, decide_eq_true hnot⟩
  rw [hnil] at this
  cases this

end Peel

/-! ## diagnosis of communication graphs -/

theorem mem_deps_iff {g : CommGraph} {c d : CommId} :
    d ∈ g.deps c ↔ ∃ s ∈ g.sends, s.id = c ∧ d ∈ s.depIds := by
  unfold CommGraph.deps
  rw [List.mem_flatMap]
  constructor
  · intro ⟨s, hs, hd⟩
    obtain ⟨h1, h2⟩ := List.mem_filter.1 hs
    exact ⟨s, h1, of_decide_eq_true h2, hd⟩
  · intro ⟨s, hs, hid, hd⟩
    exact ⟨s, List.mem_filter.2 ⟨hs, decide_eq_true hid⟩, hd⟩

theorem cyclic_false_of_acyclic {g : CommGraph} (h : Acyclic g) : cyclic g = false := by
  obtain ⟨lvl, hl⟩ := h
  unfold cyclic
  rw [acyclicB_complete g.nodes g.deps lvl]
  · rfl
  · intro c _ d hd
    obtain ⟨s, hs, hid, hds⟩ := mem_deps_iff.1 hd
    refine ⟨?_, ?_⟩
    · unfold CommGraph.nodes
      exact List.mem_append_right _ (List.mem_flatMap.2 ⟨s, hs, hds⟩)
    · rw [← hid]; exact hl s hs d hds

theorem acyclic_of_cyclic_false {g : CommGraph} (h : cyclic g = false) : Acyclic g := by
  unfold cyclic at h
  have h' : acyclicB g.nodes g.deps = true := by
    cases hb : acyclicB g.nodes g.deps with
    | true => rfl
    | false => simp [hb] at h
  obtain ⟨lvl, hl⟩ := acyclicB_sound g.nodes g.deps h'
  refine ⟨lvl, ?_⟩
  intro s hs d hd
  apply hl s.id
  · unfold CommGraph.nodes CommGraph.sendIds
    exact List.mem_append_left _ (List.mem_append_left _ (List.mem_map.2 ⟨s, hs, rfl⟩))
  · exact mem_deps_iff.2 ⟨s, hs, rfl, hd⟩

theorem hasSelf_iff {g : CommGraph} :
    hasSelf g = true ↔ (∃ s ∈ g.sends, s.rank = s.dst) ∨ (∃ v ∈ g.recvs, v.rank = v.src) := by
  unfold hasSelf
  rw [Bool.or_eq_true, List.any_eq_true, List.any_eq_true]
  constructor
  · rintro (⟨s, hs, h⟩ | ⟨v, hv, h⟩)
    · exact Or.inl ⟨s, hs, of_decide_eq_true h⟩
    · exact Or.inr ⟨v, hv, of_decide_eq_true h⟩
  · rintro (⟨s, hs, h⟩ | ⟨v, hv, h⟩)
    · exact Or.inl ⟨s, hs, decide_eq_true h⟩
    · exact Or.inr ⟨v, hv, decide_eq_true h⟩

theorem missingRecv_iff {g : CommGraph} :
    g.sends.any (fun s => decide (s.id ∉ g.recvIds)) = true ↔ ∃ s ∈ g.sends, s.id ∉ g.recvIds := by
  rw [List.any_eq_true]
  constructor
  · rintro ⟨s, hs, h⟩; exact ⟨s, hs, of_decide_eq_true h⟩
  · rintro ⟨s, hs, h⟩; exact ⟨s, hs, decide_eq_true h⟩

theorem missingSend_iff {g : CommGraph} :
    g.recvs.any (fun v => decide (v.id ∉ g.sendIds)) = true ↔ ∃ v ∈ g.recvs, v.id ∉ g.sendIds := by
  rw [List.any_eq_true]
  constructor
  · rintro ⟨v, hv, h⟩; exact ⟨v, hv, of_decide_eq_true h⟩
  · rintro ⟨v, hv, h⟩; exact ⟨v, hv, decide_eq_true h⟩

theorem diagnose_sound_lemma {g : CommGraph} (h : Valid g) : diagnose g = .ok () := by
  have h1 : ¬ hasSelf g = true := by
    intro hb
    rcases hasSelf_iff.1 hb with ⟨s, hs, he⟩ | ⟨v, hv, he⟩
    · exact absurd he (h.noSelfSend s hs)
    · exact absurd he (h.noSelfRecv v hv)
  have h4 : ¬ cyclic g = true := by
    rw [cyclic_false_of_acyclic h.acyclic]; exact Bool.false_ne_true
  have h5 : ¬ g.sends.any (fun s => decide (s.id ∉ g.recvIds)) = true := by
    intro hb
    obtain ⟨s, hs, hn⟩ := missingRecv_iff.1 hb
    exact absurd (h.sendHasRecv s hs) hn
  have h6 : ¬ g.recvs.any (fun v => decide (v.id ∉ g.sendIds)) = true := by
    intro hb
    obtain ⟨v, hv, hn⟩ := missingSend_iff.1 hb
    exact absurd (h.recvHasSend v hv) hn
  unfold diagnose
  rw [if_neg h1, if_neg (not_not_intro h.sendsNodup), if_neg (not_not_intro h.recvsNodup),
    if_neg h4, if_neg h5, if_neg h6]

theorem diagnose_complete_lemma {g : CommGraph} (h : ¬ Valid g) :
    ∃ d, diagnose g = .error d ∧ Violates g d := by
  unfold diagnose
  by_cases h1 : hasSelf g = true
  · exact ⟨.selfComm, by rw [if_pos h1], hasSelf_iff.1 h1⟩
  by_cases h2 : ¬ g.sendIds.Nodup
  · exact ⟨.dupSend, by rw [if_neg h1, if_pos h2], h2⟩
  by_cases h3 : ¬ g.recvIds.Nodup
  · exact ⟨.dupRecv, by rw [if_neg h1, if_neg h2, if_pos h3], h3⟩
  by_cases h4 : cyclic g = true
  · refine ⟨.cycle, by rw [if_neg h1, if_neg h2, if_neg h3, if_pos h4], ?_⟩
    intro hac
    rw [cyclic_false_of_acyclic hac] at h4
    cases h4
  by_cases h5 : g.sends.any (fun s => decide (s.id ∉ g.recvIds)) = true
  · exact ⟨.missingRecv, by rw [if_neg h1, if_neg h2, if_neg h3, if_neg h4, if_pos h5],
      missingRecv_iff.1 h5⟩
  by_cases h6 : g.recvs.any (fun v => decide (v.id ∉ g.sendIds)) = true
  · exact ⟨.missingSend, by rw [if_neg h1, if_neg h2, if_neg h3, if_neg h4, if_neg h5, if_pos h6],
      missingSend_iff.1 h6⟩
  -- every check passes: the graph is valid
  exfalso
  apply h
  refine ⟨?_, ?_, Classical.not_not.1 h2, Classical.not_not.1 h3, ?_, ?_, ?_⟩
  · intro s hs he; exact h1 (hasSelf_iff.2 (Or.inl ⟨s, hs, he⟩))
  · intro v hv he; exact h1 (hasSelf_iff.2 (Or.inr ⟨v, hv, he⟩))
  · intro s hs
    apply Classical.byContradiction
    intro hn; exact h5 (missingRecv_iff.2 ⟨s, hs, hn⟩)
  · intro v hv
    apply Classical.byContradiction
    intro hn; exact h6 (missingSend_iff.2 ⟨v, hv, hn⟩)
  · apply acyclic_of_cyclic_false
    cases hb : cyclic g with
    | false => rfl
    | true => exact absurd hb h4

theorem mem_ite_singleton {c : Prop} [Decidable c] {d e : Diag} :
    d ∈ (if c then [e] else []) ↔ c ∧ d = e := by
  by_cases hc : c
  · simp [hc]
  · simp [hc]

theorem cyclic_iff {g : CommGraph} : cyclic g = true ↔ ¬ Acyclic g := by
  constructor
  · intro h hac; rw [cyclic_false_of_acyclic hac] at h; cases h
  · intro h
    cases hb : cyclic g with
    | true => rfl
    | false => exact absurd (acyclic_of_cyclic_false hb) h

/-- the list of violated classes computed for the tie is exact -/
theorem mem_violated_iff_lemma {g : CommGraph} {d : Diag} : d ∈ violated g ↔ Violates g d := by
  unfold violated
  cases d <;>
    simp only [List.mem_append, mem_ite_singleton, reduceCtorEq, and_false, and_true, or_false,
      false_or, Violates]
  · exact hasSelf_iff
  · exact cyclic_iff
  · exact missingRecv_iff
  · exact missingSend_iff

/-! ## tag numbering -/

section Tags
variable {α : Type} [DecidableEq α]

theorem lookup_mem : ∀ {m : List (α × Nat)} {t : α} {k : Nat}, m.lookup t = some k → (t, k) ∈ m
  | [], _, _, h => by simp [List.lookup] at h
  | (a, b) :: es, t, k, h => by
    rw [List.lookup_cons] at h
    by_cases hta : t = a
    · subst hta
      simp at h
      subst h
      exact List.mem_cons_self ..
    · have : (t == a) = false := by simpa using hta
      simp only [this] at h
      exact List.mem_cons_of_mem _ (lookup_mem h)

theorem lookup_append_some : ∀ {m : List (α × Nat)} {t : α} (x : List (α × Nat)),
    (m.lookup t).isSome → (m ++ x).lookup t = m.lookup t
  | [], _, _, h => by simp [List.lookup] at h
  | (a, b) :: es, t, x, h => by
    rw [List.cons_append, List.lookup_cons, List.lookup_cons] at *
    by_cases hta : t = a
    · subst hta; simp
    · have : (t == a) = false := by simpa using hta
      simp only [this] at h ⊢
      exact lookup_append_some x h

theorem lookup_append_none : ∀ {m : List (α × Nat)} {t : α} (x : List (α × Nat)),
    m.lookup t = none → (m ++ x).lookup t = x.lookup t
  | [], _, _, _ => by simp
  | (a, b) :: es, t, x, h => by
    rw [List.lookup_cons] at h
    rw [List.cons_append, List.lookup_cons]
    by_cases hta : t = a
    · subst hta; simp at h
    · have : (t == a) = false := by simpa using hta
      simp only [this] at h ⊢
      exact lookup_append_none x h

/-- invariant of the numbering loop -/
structure NumInv (base : Nat) (acc : List (α × Nat) × Nat) : Prop where
  sorted : acc.1.Pairwise fun a b => a.2 < b.2
  range : ∀ x ∈ acc.1, base ≤ x.2 ∧ x.2 < acc.2
  le : base ≤ acc.2

theorem numberStep_some {acc : List (α × Nat) × Nat} {t : α} (h : (acc.1.lookup t).isSome = true) :
    numberStep acc t = acc := by
  unfold numberStep; rw [if_pos h]

theorem numberStep_none {acc : List (α × Nat) × Nat} {t : α} (h : ¬ (acc.1.lookup t).isSome = true) :
    numberStep acc t = (acc.1 ++ [(t, acc.2)], acc.2 + 1) := by
  unfold numberStep; rw [if_neg h]

theorem numInv_step {base : Nat} {acc : List (α × Nat) × Nat} (h : NumInv base acc) (t : α) :
    NumInv base (numberStep acc t) := by
  by_cases hs : (acc.1.lookup t).isSome = true
  · rw [numberStep_some hs]; exact h
  · rw [numberStep_none hs]
    refine ⟨?_, ?_, ?_⟩
    · show List.Pairwise _ (acc.1 ++ [(t, acc.2)])
      rw [List.pairwise_append]
      refine ⟨h.sorted, List.pairwise_singleton _ _, ?_⟩
      intro a ha b hb
      rw [List.mem_singleton] at hb; subst hb
      exact (h.range a ha).2
    · intro x hx
      have hx : x ∈ acc.1 ++ [(t, acc.2)] := hx
      show base ≤ x.2 ∧ x.2 < acc.2 + 1
      rcases List.mem_append.1 hx with hx | hx
      · have := h.range x hx
        exact ⟨this.1, by omega⟩
      · rw [List.mem_singleton] at hx; subst hx
        exact ⟨h.le, Nat.lt_succ_self _⟩
    · show base ≤ acc.2 + 1
      have := h.le; omega

theorem numberStep_mono (acc : List (α × Nat) × Nat) (t t' : α)
    (h : (acc.1.lookup t').isSome) :
    (numberStep acc t).1.lookup t' = acc.1.lookup t' := by
  by_cases hs : (acc.1.lookup t).isSome = true
  · rw [numberStep_some hs]
  · rw [numberStep_none hs]
    exact lookup_append_some _ h

theorem numberStep_self (acc : List (α × Nat) × Nat) (t : α) :
    ((numberStep acc t).1.lookup t).isSome := by
  by_cases hs : (acc.1.lookup t).isSome = true
  · rw [numberStep_some hs]; exact hs
  · rw [numberStep_none hs]
    have : acc.1.lookup t = none := by
      cases h : acc.1.lookup t with
      | none => rfl
      | some v => simp [h] at hs
    show ((acc.1 ++ [(t, acc.2)]).lookup t).isSome
    rw [lookup_append_none _ this]
    simp [List.lookup]

theorem foldl_numInv {base : Nat} : ∀ (l : List α) (acc : List (α × Nat) × Nat),
    NumInv base acc → NumInv base (l.foldl numberStep acc)
  | [], _, h => h
  | t :: l, _, h => foldl_numInv l _ (numInv_step h t)

theorem foldl_lookup_stable : ∀ (l : List α) (acc : List (α × Nat) × Nat) (t' : α),
    (acc.1.lookup t').isSome → ((l.foldl numberStep acc).1.lookup t').isSome
  | [], _, _, h => h
  | t :: l, acc, t', h => by
    apply foldl_lookup_stable l
    rw [numberStep_mono acc t t' h]; exact h

theorem foldl_lookup_mem : ∀ (l : List α) (acc : List (α × Nat) × Nat) (t' : α),
    t' ∈ l → ((l.foldl numberStep acc).1.lookup t').isSome
  | [], _, _, h => by cases h
  | t :: l, acc, t', h => by
    rcases List.mem_cons.1 h with h | h
    · subst h
      exact foldl_lookup_stable l _ _ (numberStep_self acc t')
    · exact foldl_lookup_mem l _ t' h

theorem pairwise_snd_inj : ∀ {l : List (α × Nat)}, l.Pairwise (fun a b => a.2 < b.2) →
    ∀ {x y : α × Nat}, x ∈ l → y ∈ l → x.2 = y.2 → x = y
  | [], _, _, _, hx, _, _ => by cases hx
  | a :: t, hp, x, y, hx, hy, hxy => by
    rw [List.pairwise_cons] at hp
    rcases List.mem_cons.1 hx with h1 | h1 <;> rcases List.mem_cons.1 hy with h2 | h2
    · rw [h1, h2]
    · have := hp.1 y h2; rw [← h1] at this; omega
    · have := hp.1 x h1; rw [← h2] at this; omega
    · exact pairwise_snd_inj hp.2 h1 h2 hxy

/-- every gathered tag gets an integer in `[base, next)` -/
theorem numberTags_total (base : Nat) (gathered : List (List α)) (t : α)
    (ht : t ∈ gathered.flatten) :
    ∃ k, intTag (numberTags base gathered).1 t = some k ∧ base ≤ k ∧ k < (numberTags base gathered).2 := by
  unfold numberTags intTag
  have hinv : NumInv base (gathered.flatten.foldl numberStep (([] : List (α × Nat)), base)) :=
    foldl_numInv _ _ ⟨List.Pairwise.nil, (fun x hx => by cases hx), Nat.le_refl _⟩
  have hs := foldl_lookup_mem gathered.flatten (([] : List (α × Nat)), base) t ht
  cases hl : (gathered.flatten.foldl numberStep (([] : List (α × Nat)), base)).1.lookup t with
  | none => simp [hl] at hs
  | some k =>
    have := hinv.range _ (lookup_mem hl)
    exact ⟨k, rfl, this.1, this.2⟩

/-- distinct symbolic tags get distinct integers -/
theorem numberTags_injective (base : Nat) (gathered : List (List α)) (t t' : α) (k : Nat)
    (h : intTag (numberTags base gathered).1 t = some k)
    (h' : intTag (numberTags base gathered).1 t' = some k) : t = t' := by
  unfold numberTags intTag at h h'
  have hinv : NumInv base (gathered.flatten.foldl numberStep (([] : List (α × Nat)), base)) :=
    foldl_numInv _ _ ⟨List.Pairwise.nil, (fun x hx => by cases hx), Nat.le_refl _⟩
  have := pairwise_snd_inj hinv.sorted (lookup_mem h) (lookup_mem h') rfl
  exact (Prod.mk.inj this).1

end Tags

end Pt.Dist

/-
  Properties C01 / C07 — semantics of the generated loopy kernels
  (`PtModel.Kernel`; the real kernels are serialised into this model on every
  run and `checkKernel` is evaluated on them by ptdriver).  These theorems are
  what makes a passing `checkKernel` meaningful: for such a kernel the result
  does not depend on which dependency-respecting schedule loopy picks.

  Helper lemmas (B1 `eval_congr`, B2 `execStmt_frame` / `execStmt_congr` /
  `execStmt_lhs_congr`, B3 `schedule_independent_abstract`) are in KernelLemmas.
-/
import PtProofs.KernelLemmas
namespace Pt

/-- B4: a kernel that passes the static check is valid in every order that is a
    permutation of its statements and respects the dependency edges -/
theorem checkKernel_sound (k : Kernel) (hc : checkKernel k = true) (order : List KStmt)
    (hp : order.Perm k) (hr : respectsDeps order = true) : ValidOrder order := by
  simp only [checkKernel, Bool.and_eq_true, decide_eq_true_eq, List.all_eq_true] at hc
  obtain ⟨⟨⟨hids, hwr⟩, _⟩, hst⟩ := hc
  have hids' : (order.map (·.id)).Nodup := (hp.map _).nodup_iff.mpr hids
  have hact : (active order).Perm (active k) := hp.filter _
  have hmemw : ∀ y, y ∈ (active order).map (·.lhs) ↔ y ∈ (active k).map (·.lhs) :=
    fun y => (hact.map _).mem_iff
  constructor
  · exact ((hact.map _).nodup_iff).mpr hwr
  · intro pre s post hsplit hn x hx
    have hs_k : s ∈ k := hp.mem_iff.mp (by rw [hsplit]; simp)
    have hcs := hst s hs_k
    simp only [hn, Bool.false_or, Bool.and_eq_true, List.all_eq_true] at hcs
    obtain ⟨⟨_, hloc⟩, hreads⟩ := hcs
    by_cases hxl : x ∈ s.locals
    · left
      rw [hmemw]
      have := hloc x hxl
      simpa [active] using this
    · have hxr : x ∈ s.reads := by
        simp only [KStmt.reads, List.mem_filter]
        exact ⟨hx, by simpa using hxl⟩
      have hw := hreads x hxr
      -- statements whose id is among the ids of `pre` are in `pre`
      have hin_pre : ∀ t ∈ k, t.id ∈ pre.map (·.id) → t ∈ pre := by
        intro t ht hid
        obtain ⟨t', ht', e⟩ := List.mem_map.mp hid
        have h1 : t' ∈ order := by rw [hsplit]; simp [ht']
        have h2 : t ∈ order := hp.mem_iff.mpr ht
        rw [eq_of_id_eq hids' h2 h1 e.symm]; exact ht'
      have hgo : respectsDeps.go order [] = true := hr
      have hclosed : ∀ t ∈ k, t.id ∈ pre.map (·.id) → ∀ d ∈ t.deps, d ∈ pre.map (·.id) := by
        intro t ht hid d hd
        obtain ⟨a, b, e⟩ := List.append_of_mem (hin_pre t ht hid)
        have hsplit' : order = a ++ t :: (b ++ s :: post) := by rw [hsplit, e]; simp
        rcases respectsDeps_go_spec order [] hgo a t _ hsplit' d hd with h1 | h1
        · rw [e]; simp only [List.map_append, List.mem_append]; exact Or.inl h1
        · simp at h1
      have hseed : ∀ d ∈ s.deps, d ∈ pre.map (·.id) := by
        intro d hd
        rcases respectsDeps_go_spec order [] hgo pre s post hsplit d hd with h1 | h1
        · exact h1
        · simp at h1
      cases hwo : writerOf k x with
      | none =>
        left
        rw [hmemw]
        intro hmem
        obtain ⟨t, ht, e⟩ := List.mem_map.mp hmem
        obtain ⟨htk, htn⟩ := List.mem_filter.mp ht
        have := List.find?_eq_none.mp hwo t htk
        simp [htn, e] at this
      | some w =>
        right
        rw [hwo] at hw
        simp only at hw
        have hwk : w ∈ k := List.mem_of_find?_eq_some hwo
        have hwp := List.find?_some hwo
        simp only [Bool.and_eq_true, beq_iff_eq] at hwp
        have hwid : w.id ∈ pre.map (·.id) :=
          depClosure_subset k (fun d => d ∈ pre.map (·.id)) hclosed k.length s.deps hseed w.id
            (by simpa using hw)
        have hwpre : w ∈ pre := hin_pre w hwk hwid
        exact List.mem_map.mpr ⟨w, List.mem_filter.mpr ⟨hwpre, hwp.1⟩, hwp.2⟩

/-- for a kernel passing the static check, any two dependency-respecting
    permutations of its statements, executed from the same initial store, leave
    the same array (same shape, same value at every index — `Arr` equality)
    under every name -/
theorem checked_kernel_schedule_independent (k : Kernel) (hc : checkKernel k = true)
    (o₁ o₂ : List KStmt) (hp₁ : o₁.Perm k) (hp₂ : o₂.Perm k)
    (hr₁ : respectsDeps o₁ = true) (hr₂ : respectsDeps o₂ = true) (σ : Store) (x : String) :
    (execOrder σ o₁).get? x = (execOrder σ o₂).get? x :=
  schedule_independent_of_valid o₁ o₂ (hp₁.trans hp₂.symm)
    (checkKernel_sound k hc o₁ hp₁ hr₁) (checkKernel_sound k hc o₂ hp₂ hr₂) σ x

/-- in particular every dependency-respecting schedule computes what the
    kernel's own statement order computes (when that order respects the deps) -/
theorem checked_kernel_any_schedule (k : Kernel) (hc : checkKernel k = true)
    (hk : respectsDeps k = true) (o : List KStmt) (hp : o.Perm k) (hr : respectsDeps o = true)
    (σ : Store) (x : String) : (execOrder σ o).get? x = (execOrder σ k).get? x :=
  checked_kernel_schedule_independent k hc o k hp (List.Perm.refl k) hr hk σ x

/-! ## non-vacuity: a concrete kernel with two different valid schedules -/

def exLoop : List (String × SExpr × SExpr) := [("i", .int 0, .int 3)]
/-- `t1[i] = a[i] + 1` -/
def exS1 : KStmt :=
  { id := "s1", lhs := "t1", lhsIdx := [.var "i"], loops := exLoop, lets := []
    rhs := .add (.sub "a" [.var "i"]) (.int 1), deps := [] }
/-- a no-op that depends on `s1` (loopy barrier-like instruction) -/
def exN0 : KStmt :=
  { id := "n0", lhs := "", lhsIdx := [], loops := [], lets := [], rhs := .int 0
    deps := ["s1"], noop := true }
/-- `t2[i] = a[i] * c` with a per-iteration let `c = 2` -/
def exS2 : KStmt :=
  { id := "s2", lhs := "t2", lhsIdx := [.var "i"], loops := exLoop, lets := [("c", .int 2)]
    rhs := .mul (.sub "a" [.var "i"]) (.var "c"), deps := [] }
/-- `out[i] = t1[i] + t2[i]`; reaches `s1` only through the no-op (transitive dependency) -/
def exS3 : KStmt :=
  { id := "s3", lhs := "out", lhsIdx := [.var "i"], loops := exLoop, lets := []
    rhs := .add (.sub "t1" [.var "i"]) (.sub "t2" [.var "i"]), deps := ["n0", "s2"] }
def exKernel : Kernel := [exS1, exN0, exS2, exS3]
def exOrder2 : List KStmt := [exS2, exS1, exN0, exS3]
def exZeros : Arr Val := ⟨[3], fun _ => .i 0⟩
def exStore : Store :=
  [("a", Arr.ofList [3] [.i 1, .i 2, .i 3] .undef), ("t1", exZeros), ("t2", exZeros), ("out", exZeros)]

example : checkKernel exKernel = true := by decide
example : respectsDeps exKernel = true ∧ respectsDeps exOrder2 = true := by decide
example : exOrder2.Perm exKernel :=
  (List.Perm.swap exS1 exS2 _).trans (List.Perm.cons exS1 (List.Perm.swap exN0 exS2 _))
example : ((execOrder exStore exKernel).get? "out").map Arr.toList = some [.i 4, .i 7, .i 10] := by
  decide
example : ((execOrder exStore exOrder2).get? "out").map Arr.toList = some [.i 4, .i 7, .i 10] := by
  decide
/-- the check is not trivially true: without the dependency path from `s3` to
    `s1`, or with a second writer of `t1`, it fails -/
example : checkKernel [exS1, exS2, { exS3 with deps := ["s2"] }] = false := by decide
example : checkKernel [exS1, { exS2 with lhs := "t1" }, exS3] = false := by decide
/-- and an order that runs `s3` first does not respect the dependencies -/
example : respectsDeps [exS3, exS1, exN0, exS2] = false := by decide

end Pt
